//! lp-harness — executes the line protocol of /verif/DESIGN.md §4.3 against the *real*
//! launchpad contracts of /repo (built from the current working tree, `verif-hooks` on),
//! through the MultiversX debug VM with real endpoint dispatch.
//!
//! stdin: one operation per line; stdout: one result line per operation, in exactly the
//! format of the Lean driver (`LP/Driver.lean`).

use std::collections::{BTreeMap, VecDeque};
use std::io::{BufRead, Write};

use multiversx_sc::contract_base::{CallableContract, CallableContractBuilder, ContractBase};
use multiversx_sc_scenario::api::DebugApi;
use multiversx_sc_scenario::debug_executor::ContractContainer;
use multiversx_sc_scenario::multiversx_chain_vm::tx_execution::execute_current_tx_context_input;
use multiversx_sc_scenario::multiversx_chain_vm::tx_mock::{TxContextStack, TxResult};
use multiversx_sc_scenario::multiversx_chain_vm::types::VMAddress;
use multiversx_sc_scenario::multiversx_chain_vm::world_mock::BlockchainState;
use multiversx_sc_scenario::scenario::run_vm::ScenarioVMRunner;
use multiversx_sc_scenario::scenario_model::*;
use num_bigint::BigUint;

use launchpad_common::verif_hooks;

mod codec;
use codec::*;

const LP_ID: u64 = 999;
const TOKENS: [&str; 7] = [
    "EGLD",
    "bad",
    "LAUNCH-123456",
    "PAY-123456",
    "FEE-123456",
    "OTHER-123456",
    "MYSTERY-123456",
];
const USER_IDS: std::ops::RangeInclusive<u64> = 1..=40;
const CONTRACT_IDS: [u64; 3] = [900, 901, 902];

fn addr_expr(id: u64) -> String {
    if id == LP_ID {
        "sc:lp".to_string()
    } else if id >= 900 {
        format!("sc:c{id}")
    } else {
        format!("address:a{id}")
    }
}

fn addr_bytes(id: u64) -> [u8; 32] {
    if id == 0 {
        return [0u8; 32];
    }
    let a = AddressValue::from(addr_expr(id).as_str()).to_address();
    let mut out = [0u8; 32];
    out.copy_from_slice(a.as_bytes());
    out
}

fn addr_id(bytes: &[u8]) -> u64 {
    if bytes.len() != 32 {
        return 99999;
    }
    if bytes.iter().all(|b| *b == 0) {
        return 0;
    }
    // "sc:" addresses: 8 zero bytes, 2 bytes VM type, then the name padded with '_'
    let start = if bytes[..8].iter().all(|b| *b == 0) { 10 } else { 0 };
    let name: Vec<u8> = bytes[start..].iter().cloned().take_while(|b| *b != b'_').collect();
    let s = String::from_utf8_lossy(&name).to_string();
    if s == "lp" {
        return LP_ID;
    }
    if s.len() < 2 {
        return 99998;
    }
    s[1..].parse::<u64>().unwrap_or(99998)
}

fn token_code(bytes: &[u8]) -> usize {
    for (i, t) in TOKENS.iter().enumerate() {
        if t.as_bytes() == bytes {
            return i;
        }
    }
    if bytes.is_empty() {
        return 0;
    }
    99
}

// ---------------------------------------------------------------------------------
// lock contract mock: records (unlock_epoch, destination, amount) and keeps the funds
// ---------------------------------------------------------------------------------

thread_local! {
    static LOCK_CALLS: std::cell::RefCell<Vec<(u64, u64, BigUint)>> = std::cell::RefCell::new(Vec::new());
}

#[derive(Clone, Default)]
pub struct SimpleLockMock {}

impl ContractBase for SimpleLockMock {
    type Api = DebugApi;
}

impl CallableContract for SimpleLockMock {
    fn call(&self, fn_name: &str) -> bool {
        if fn_name == "init" {
            return true;
        }
        if fn_name != "lockTokens" {
            return false;
        }
        let api = TxContextStack::static_peek();
        let args = api.input_ref().args.clone();
        let esdt = api.input_ref().esdt_values.clone();
        let epoch = be_u64(&args[0]);
        let dest = addr_id(&args[1]);
        let amount = esdt.first().map(|t| t.value.clone()).unwrap_or_default();
        LOCK_CALLS.with(|l| l.borrow_mut().push((epoch, dest, amount)));
        true
    }
}

pub struct LockBuilder;
impl CallableContractBuilder for LockBuilder {
    fn new_contract_obj<A: multiversx_sc::api::VMApi + Send + Sync>(
        &self,
    ) -> Box<dyn CallableContract> {
        Box::new(SimpleLockMock {})
    }
}

// ---------------------------------------------------------------------------------

struct World {
    r: ScenarioVMRunner,
    variant: String,
    deployed: bool,
    tx_counter: u64,
    snaps: std::collections::HashMap<String, (BlockchainState, Vec<(u64, u64, BigUint)>, u64)>,
}

fn register(r: &mut ScenarioVMRunner, name: &str, b: Box<dyn CallableContract>) {
    r.contract_map_ref
        .lock()
        .register_contract(name.as_bytes().to_vec(), ContractContainer::new(b, None, false));
}

fn contract_obj(variant: &str) -> Option<Box<dyn CallableContract>> {
    Some(match variant {
        "base" => launchpad::ContractBuilder.new_contract_obj::<DebugApi>(),
        "locked" => launchpad_locked_tokens::ContractBuilder.new_contract_obj::<DebugApi>(),
        "nft" => launchpad_with_nft::ContractBuilder.new_contract_obj::<DebugApi>(),
        "guarV1" => launchpad_guaranteed_tickets::ContractBuilder.new_contract_obj::<DebugApi>(),
        "guarV2" => launchpad_guaranteed_tickets_v2::ContractBuilder.new_contract_obj::<DebugApi>(),
        "migration" => {
            launchpad_migration_guaranteed_tickets::ContractBuilder.new_contract_obj::<DebugApi>()
        }
        "lockedGuar" => launchpad_locked_tokens_and_guaranteed_tickets::ContractBuilder
            .new_contract_obj::<DebugApi>(),
        "nftGuar" => {
            launchpad_nft_and_guaranteed_tickets::ContractBuilder.new_contract_obj::<DebugApi>()
        }
        _ => return None,
    })
}

/// mutable endpoints of a variant from the contract's generated ABI: name:onlyOwner:payable
fn abi_line(variant: &str) -> String {
    use multiversx_sc::contract_base::ContractAbiProvider;
    let abi = match variant {
        "base" => launchpad::AbiProvider::abi(),
        "locked" => launchpad_locked_tokens::AbiProvider::abi(),
        "nft" => launchpad_with_nft::AbiProvider::abi(),
        "guarV1" => launchpad_guaranteed_tickets::AbiProvider::abi(),
        "guarV2" => launchpad_guaranteed_tickets_v2::AbiProvider::abi(),
        "migration" => launchpad_migration_guaranteed_tickets::AbiProvider::abi(),
        "lockedGuar" => launchpad_locked_tokens_and_guaranteed_tickets::AbiProvider::abi(),
        "nftGuar" => launchpad_nft_and_guaranteed_tickets::AbiProvider::abi(),
        _ => return "X unknown variant".to_string(),
    };
    let mut items: Vec<String> = Vec::new();
    for ep in abi.endpoints.iter() {
        let readonly = !matches!(ep.mutability, multiversx_sc::abi::EndpointMutabilityAbi::Mutable);
        if readonly {
            continue;
        }
        items.push(format!(
            "{}:{}:{}",
            ep.name,
            if ep.only_owner { 1 } else { 0 },
            if ep.payable_in_tokens.is_empty() { 0 } else { 1 }
        ));
    }
    items.sort();
    format!("A {}", items.join(" "))
}

fn big() -> String {
    // 10^30: more than any generated payment, small enough to keep sums readable
    "1000000000000000000000000000000".to_string()
}

impl World {
    fn new() -> Self {
        World { r: ScenarioVMRunner::new(), variant: String::new(), deployed: false, tx_counter: 0, snaps: Default::default() }
    }

    fn fresh(&mut self, variant: &str, owner: u64) -> bool {
        self.r = ScenarioVMRunner::new();
        self.variant = variant.to_string();
        self.deployed = false;
        self.tx_counter = 0;
        self.snaps.clear();
        LOCK_CALLS.with(|l| l.borrow_mut().clear());
        let Some(obj) = contract_obj(variant) else { return false };
        register(&mut self.r, "lp-code", obj);
        register(&mut self.r, "lock-code", Box::new(SimpleLockMock {}));
        let mut st = SetStateStep::new();
        for id in USER_IDS {
            let mut acc = Account::new().nonce(0u64).balance(big().as_str());
            for t in &TOKENS[2..6] {
                acc = acc.esdt_balance(format!("str:{t}").as_str(), big().as_str());
            }
            // a semi-fungible holding, for payments with a non-zero nonce
            acc = acc.esdt_nft_balance("str:OTHER-123456", 1u64, big().as_str(), Option::<&str>::None);
            // the same identifiers as the payment / fee / launchpad tokens, held as a non-fungible (nonce 1):
            // a payment "in the right token" that is not the fungible token
            for t in &TOKENS[2..5] {
                acc = acc.esdt_nft_balance(format!("str:{t}").as_str(), 1u64, big().as_str(), Option::<&str>::None);
            }
            st = st.put_account(addr_expr(id).as_str(), acc);
        }
        for id in CONTRACT_IDS {
            let mut acc = Account::new().nonce(0u64).balance(big().as_str()).code("str:lock-code");
            for t in &TOKENS[2..6] {
                acc = acc.esdt_balance(format!("str:{t}").as_str(), big().as_str());
            }
            st = st.put_account(addr_expr(id).as_str(), acc);
        }
        st = st.new_address(addr_expr(owner).as_str(), 0u64, "sc:lp");
        self.r.perform_set_state(&st);
        true
    }

    fn state(&self) -> &BlockchainState {
        &self.r.blockchain_mock.state
    }

    fn set_block(&mut self, round: u64, epoch: u64) {
        let st = SetStateStep::new().block_round(round).block_epoch(epoch);
        self.r.perform_set_state(&st);
    }

    fn balance(&self, id: u64, tok: usize, nonce: u64) -> BigUint {
        let a = VMAddress::from(addr_bytes(id));
        match self.state().accounts.get(&a) {
            None => BigUint::default(),
            Some(acc) => {
                if tok == 0 {
                    acc.egld_balance.clone()
                } else {
                    acc.esdt.get_esdt_balance(TOKENS[tok].as_bytes(), nonce)
                }
            }
        }
    }

    fn storage(&self) -> BTreeMap<Vec<u8>, Vec<u8>> {
        let a = VMAddress::from(addr_bytes(LP_ID));
        match self.state().accounts.get(&a) {
            None => BTreeMap::new(),
            Some(acc) => acc.storage.iter().map(|(k, v)| (k.clone(), v.clone())).collect(),
        }
    }

    fn query(&mut self, func: &str, args: &[Vec<u8>]) -> TxResult {
        let mut q = ScQueryStep::new().to("sc:lp").function(func);
        for a in args {
            q = q.argument(hex_expr(a).as_str());
        }
        q.expect = None;
        self.r.perform_sc_query_lambda(&q, execute_current_tx_context_input)
    }
}

fn hex_expr(b: &[u8]) -> String {
    if b.is_empty() {
        String::new()
    } else {
        format!("0x{}", hex::encode(b))
    }
}

fn status_class(r: &TxResult) -> &'static str {
    let code = r.result_status.as_u64();
    if code == 0 {
        "ok"
    } else if code == 4 {
        if r.result_message.starts_with("panic occurred") {
            "panic"
        } else {
            "user"
        }
    } else {
        "vm"
    }
}

// ---------------------------------------------------------------------------------
// line parsing
// ---------------------------------------------------------------------------------

struct Toks<'a> {
    it: std::str::SplitWhitespace<'a>,
}

impl<'a> Toks<'a> {
    fn s(&mut self) -> &'a str {
        self.it.next().unwrap_or("")
    }
    fn big(&mut self) -> BigUint {
        self.s().parse::<BigUint>().unwrap_or_default()
    }
    fn u(&mut self) -> u64 {
        self.s().parse::<u64>().unwrap_or(0)
    }
}

struct CallEnv {
    caller: u64,
    round: u64,
    epoch: u64,
    egld: BigUint,
    esdts: Vec<(usize, u64, BigUint)>,
    budget: Option<u64>,
    seeds: Vec<[u8; 32]>,
    script: Vec<u32>,
    probe: bool,
}

fn parse_env(t: &mut Toks) -> CallEnv {
    let caller = t.u();
    let round = t.u();
    let epoch = t.u();
    let egld = t.big();
    let k = t.u();
    let mut esdts = Vec::new();
    for _ in 0..k {
        let tok = t.u() as usize;
        let nonce = t.u();
        let amt = t.big();
        esdts.push((tok, nonce, amt));
    }
    let b = t.s();
    let budget = if b == "-" { None } else { Some(b.parse::<u64>().unwrap_or(0)) };
    let ns = t.u();
    let mut seeds = Vec::new();
    for _ in 0..ns {
        let h = hex::decode(t.s()).unwrap_or_default();
        let mut s = [0u8; 32];
        for (i, b) in h.iter().take(32).enumerate() {
            s[i] = *b;
        }
        seeds.push(s);
    }
    let nsc = t.u();
    let mut script = Vec::new();
    for _ in 0..nsc {
        script.push(t.u() as u32);
    }
    let probe = t.u() != 0;
    CallEnv { caller, round, epoch, egld, esdts, budget, seeds, script, probe }
}

/// endpoint name + encoded arguments
fn parse_call(t: &mut Toks) -> (String, Vec<Vec<u8>>) {
    let name = t.s().to_string();
    let mut args: Vec<Vec<u8>> = Vec::new();
    let func = match name.as_str() {
        "addTickets" => {
            let k = t.u();
            for _ in 0..k {
                args.push(addr_bytes(t.u()).to_vec());
                args.push(top_big(&t.big()));
            }
            "addTickets"
        }
        "addTicketsV1" => {
            let k = t.u();
            for _ in 0..k {
                args.push(addr_bytes(t.u()).to_vec());
                args.push(top_big(&t.big()));
                args.push(top_big(&t.big()));
                args.push(top_big(&t.big()));
            }
            "addTickets"
        }
        "addTicketsV2" => {
            let k = t.u();
            for _ in 0..k {
                args.push(addr_bytes(t.u()).to_vec());
                args.push(top_big(&t.big()));
                let m = t.u();
                args.push(top_big(&BigUint::from(m)));
                for _ in 0..m {
                    args.push(top_big(&t.big()));
                    args.push(top_big(&t.big()));
                }
            }
            "addTickets"
        }
        "deposit" => "depositLaunchpadTokens",
        "setTicketPrice" => {
            args.push(TOKENS[t.u() as usize].as_bytes().to_vec());
            args.push(top_big(&t.big()));
            "setTicketPrice"
        }
        "setPerTicket" => {
            args.push(top_big(&t.big()));
            "setLaunchpadTokensPerWinningTicket"
        }
        "setConfStart" => {
            args.push(top_big(&t.big()));
            "setConfirmationPeriodStartRound"
        }
        "setSelStart" => {
            args.push(top_big(&t.big()));
            "setWinnerSelectionStartRound"
        }
        "setClaimStart" => {
            args.push(top_big(&t.big()));
            "setClaimStartRound"
        }
        "setSupport" => {
            args.push(addr_bytes(t.u()).to_vec());
            "setSupportAddress"
        }
        "pause" => "pause",
        "unpause" => "unpause",
        "confirm" => {
            args.push(top_big(&t.big()));
            "confirmTickets"
        }
        "filter" => "filterTickets",
        "select" => "selectWinners",
        "claim" => "claimLaunchpadTokens",
        "claimPayment" => "claimTicketPayment",
        "blacklist" | "refundUsers" | "unblacklist" => {
            let k = t.u();
            for _ in 0..k {
                args.push(addr_bytes(t.u()).to_vec());
            }
            match name.as_str() {
                "blacklist" => "addUsersToBlacklist",
                "refundUsers" => "refundUserTickets",
                _ => "removeGuaranteedUsersFromBlacklist",
            }
        }
        "distribute" => "distributeGuaranteedTickets",
        "setSchedule1" => {
            for _ in 0..5 {
                args.push(top_big(&t.big()));
            }
            "setUnlockSchedule"
        }
        "setSchedule2" => {
            let k = t.u();
            for _ in 0..k {
                args.push(top_big(&t.big()));
                args.push(top_big(&t.big()));
            }
            "setUnlockSchedule"
        }
        "confirmNft" => "confirmNft",
        "selectNft" => "selectNftWinners",
        "secondary" => "secondarySelectionStep",
        "setNftCost" => {
            args.push(TOKENS[t.u() as usize].as_bytes().to_vec());
            args.push(top_big(&t.big()));
            args.push(top_big(&t.big()));
            "setNftCost"
        }
        "issueSft" => {
            args.push(b"Mystery".to_vec());
            args.push(b"MYSTERY".to_vec());
            "issueMysterySft"
        }
        "createSfts" => "createInitialSfts",
        "setTransferRole" => {
            let a = t.s();
            if a != "-" {
                args.push(addr_bytes(a.parse::<u64>().unwrap_or(0)).to_vec());
            }
            "setTransferRole"
        }
        "sftSetup" => "sftSetup",
        "sftIssued" => "sftIssued",
        other => other,
    };
    (func.to_string(), args)
}

// ---------------------------------------------------------------------------------
// execution
// ---------------------------------------------------------------------------------

fn fmt_list(v: &[String]) -> String {
    format!("[{}]", v.join(","))
}

fn empty_out() -> String {
    "ret=[] ev=[] xf=[] lock=[] sft=[] draws=[]".to_string()
}

impl World {
    fn tracked_accounts() -> Vec<u64> {
        let mut v: Vec<u64> = USER_IDS.collect();
        v.extend_from_slice(&CONTRACT_IDS);
        v
    }

    fn snapshot_balances(&self) -> Vec<(u64, usize, u64, BigUint)> {
        let mut out = Vec::new();
        for id in Self::tracked_accounts() {
            for tok in 0..7usize {
                if tok == 1 {
                    continue;
                }
                if tok == 6 {
                    for nonce in 1..=3u64 {
                        out.push((id, tok, nonce, self.balance(id, tok, nonce)));
                    }
                } else {
                    out.push((id, tok, 0, self.balance(id, tok, 0)));
                }
            }
        }
        out
    }

    fn deploy(&mut self, t: &mut Toks) -> String {
        let variant = t.s().to_string();
        let caller = t.u();
        let round = t.u();
        let epoch = t.u();
        if !self.fresh(&variant, caller) {
            return "X unknown variant".to_string();
        }
        self.set_block(round, epoch);
        let lp_tok = t.u() as usize;
        let per_ticket = t.big();
        let pay_tok = t.u() as usize;
        let price = t.big();
        let nr_win = t.big();
        let conf = t.big();
        let sel = t.big();
        let claim = t.big();
        let min_conf = t.big();
        let lock_pct = t.big();
        let unlock_epoch = t.big();
        let lock_addr = t.u();
        let cost_tok = t.u() as usize;
        let cost_nonce = t.big();
        let cost_amt = t.big();
        let avail = t.big();
        let mut args: Vec<Vec<u8>> = vec![
            TOKENS[lp_tok].as_bytes().to_vec(),
            top_big(&per_ticket),
            TOKENS[pay_tok].as_bytes().to_vec(),
            top_big(&price),
            top_big(&nr_win),
            top_big(&conf),
            top_big(&sel),
            top_big(&claim),
        ];
        match variant.as_str() {
            "locked" => {
                args.push(top_big(&lock_pct));
                args.push(top_big(&unlock_epoch));
                args.push(addr_bytes(lock_addr).to_vec());
            }
            "nft" => {
                args.push(TOKENS[cost_tok].as_bytes().to_vec());
                args.push(top_big(&cost_nonce));
                args.push(top_big(&cost_amt));
                args.push(top_big(&avail));
            }
            "guarV1" | "migration" => args.push(top_big(&min_conf)),
            "lockedGuar" => {
                args.push(top_big(&min_conf));
                args.push(top_big(&lock_pct));
                args.push(top_big(&unlock_epoch));
                args.push(addr_bytes(lock_addr).to_vec());
            }
            "nftGuar" => {
                args.push(TOKENS[cost_tok].as_bytes().to_vec());
                args.push(top_big(&cost_nonce));
                args.push(top_big(&cost_amt));
                args.push(top_big(&avail));
                args.push(top_big(&min_conf));
            }
            _ => {}
        }
        let mut step = ScDeployStep::new()
            .from(addr_expr(caller).as_str())
            .code("str:lp-code")
            .gas_limit(5_000_000_000u64);
        for a in &args {
            step = step.argument(hex_expr(a).as_str());
        }
        step.expect = None;
        let (_addr, res) = self.r.perform_sc_deploy_lambda(&step, execute_current_tx_context_input);
        let cls = status_class(&res);
        self.deployed = cls == "ok";
        format!("R {} {}", cls, empty_out())
    }

    fn call(&mut self, t: &mut Toks) -> String {
        let env = parse_env(t);
        let (func, args) = parse_call(t);
        if !self.deployed {
            return "X no contract deployed".to_string();
        }
        let snap = if env.probe { Some(self.state().clone()) } else { None };
        let lock_len = LOCK_CALLS.with(|l| l.borrow().len());
        let out = self.exec(&env, &func, &args);
        if let Some(s) = snap {
            *self.r.blockchain_mock.state = s;
            LOCK_CALLS.with(|l| l.borrow_mut().truncate(lock_len));
        }
        out
    }

    fn exec(&mut self, env: &CallEnv, func: &str, args: &[Vec<u8>]) -> String {
        if func == "sftSetup" {
            return self.sft_setup();
        }
        if func == "sftIssued" {
            return self.sft_issued();
        }
        self.set_block(env.round, env.epoch);
        verif_hooks::with(|h| {
            h.budget = Some(env.budget.unwrap_or(20_000));
            h.continue_queries = 0;
            h.forced_seeds = VecDeque::from(env.seeds.clone());
            h.fresh_randoms = 0;
            h.script = VecDeque::from(env.script.clone());
            h.draws.clear();
        });
        let before = self.snapshot_balances();
        let lock_len = LOCK_CALLS.with(|l| l.borrow().len());
        self.tx_counter += 1;
        let mut step = ScCallStep::new()
            .from(addr_expr(env.caller).as_str())
            .to("sc:lp")
            .function(func)
            .gas_limit(5_000_000_000u64);
        step.id = format!("tx{}", self.tx_counter);
        if env.egld > BigUint::default() {
            step = step.egld_value(env.egld.to_string().as_str());
        }
        for (tok, nonce, amt) in &env.esdts {
            step = step.esdt_transfer(
                format!("str:{}", TOKENS[*tok]).as_str(),
                *nonce,
                amt.to_string().as_str(),
            );
        }
        for a in args {
            step = step.argument(hex_expr(a).as_str());
        }
        step.expect = None;
        let res = self.r.perform_sc_call_lambda(&step, execute_current_tx_context_input);
        let cls = status_class(&res);
        let draws: Vec<String> =
            verif_hooks::with(|h| h.draws.iter().map(|d| d.2.to_string()).collect());
        let tap: Vec<String> = verif_hooks::with(|h| {
            h.draws.iter().map(|d| format!("{}:{}:{}", hex::encode(&d.0), d.1, d.2)).collect()
        });
        let fresh = verif_hooks::with(|h| h.fresh_randoms);
        verif_hooks::with(|h| {
            h.budget = None;
            h.forced_seeds.clear();
            h.script.clear();
        });
        if cls != "ok" {
            LOCK_CALLS.with(|l| l.borrow_mut().truncate(lock_len));
            return format!("R {} {} msg={:?}", cls, empty_out(), res.result_message);
        }
        // returns
        let ret: Vec<String> = res
            .result_values
            .iter()
            .map(|v| match v.as_slice() {
                b"completed" => "0".to_string(),
                b"interrupted" => "1".to_string(),
                other => format!("x{}", hex::encode(other)),
            })
            .collect();
        // events
        let mut evs = Vec::new();
        for log in &res.result_logs {
            if let Some(s) = decode_event(log.topics.as_slice(), log.data.as_slice()) {
                evs.push(s);
            }
        }
        // transfers: balance deltas of every tracked account except the launchpad contract,
        // with the call value added back to the caller
        let after = self.snapshot_balances();
        let mut xf = Vec::new();
        let mut sft = Vec::new();
        for (b, a) in before.iter().zip(after.iter()) {
            let (id, tok, nonce, bv) = b;
            let mut av = a.3.clone();
            if *id == env.caller {
                if *tok == 0 {
                    av += &env.egld;
                }
                for (ptok, pnonce, pamt) in &env.esdts {
                    if ptok == tok && pnonce == nonce {
                        av += pamt;
                    }
                }
            }
            if av > *bv {
                let d = &av - bv;
                if *tok == 6 {
                    sft.push(format!("{id}:{nonce}"));
                } else {
                    xf.push(format!("{id}:{tok}:{nonce}:{d}"));
                }
            } else if av < *bv {
                xf.push(format!("{id}:{tok}:{nonce}:-{}", bv - &av));
            }
        }
        let locks: Vec<String> = LOCK_CALLS.with(|l| {
            l.borrow()[lock_len..].iter().map(|(e, d, a)| format!("{e}:{d}:{a}")).collect()
        });
        format!(
            "R ok ret={} ev={} xf={} lock={} sft={} draws={} tap={} fresh={}",
            fmt_list(&ret),
            fmt_list(&evs),
            fmt_list(&xf),
            fmt_list(&locks),
            fmt_list(&sft),
            fmt_list(&draws),
            fmt_list(&tap),
            fresh
        )
    }

    /// environment action: the SFT collection exists, the contract holds its roles, the three
    /// set-up flags are set (what the repository's own tests do by writing storage directly)
    /// implementation-only environment action: what a successful `issueMysterySft` round trip to the system
    /// contract leaves behind (collection identifier stored, creation roles on the contract account) and nothing
    /// else; `createInitialSfts` can then be executed — or refused — through normal endpoint dispatch
    fn sft_issued(&mut self) -> String {
        let a = VMAddress::from(addr_bytes(LP_ID));
        let owner_roles: Vec<Vec<u8>> = vec![
            b"ESDTRoleNFTCreate".to_vec(),
            b"ESDTRoleNFTAddQuantity".to_vec(),
            b"ESDTRoleNFTBurn".to_vec(),
        ];
        let acc = self.r.blockchain_mock.state.accounts.get_mut(&a).unwrap();
        acc.esdt.set_roles(b"MYSTERY-123456".to_vec(), owner_roles);
        acc.storage.insert(b"mysterySftTokenId".to_vec(), b"MYSTERY-123456".to_vec());
        format!("R ok {}", empty_out())
    }

    fn sft_setup(&mut self) -> String {
        let a = VMAddress::from(addr_bytes(LP_ID));
        let owner_roles: Vec<Vec<u8>> = vec![
            b"ESDTRoleNFTCreate".to_vec(),
            b"ESDTRoleNFTAddQuantity".to_vec(),
            b"ESDTRoleNFTBurn".to_vec(),
        ];
        {
            let acc = self.r.blockchain_mock.state.accounts.get_mut(&a).unwrap();
            acc.esdt.set_roles(b"MYSTERY-123456".to_vec(), owner_roles);
            acc.storage.insert(b"mysterySftTokenId".to_vec(), b"MYSTERY-123456".to_vec());
        }
        // real endpoint: creates the three SFT nonces and sets two of the flags
        let owner = self
            .state()
            .accounts
            .get(&a)
            .and_then(|acc| acc.contract_owner.clone())
            .map(|o| addr_id(o.as_bytes()))
            .unwrap_or(1);
        self.tx_counter += 1;
        let mut step = ScCallStep::new()
            .from(addr_expr(owner).as_str())
            .to("sc:lp")
            .function("createInitialSfts")
            .gas_limit(5_000_000_000u64);
        step.expect = None;
        let res = self.r.perform_sc_call_lambda(&step, execute_current_tx_context_input);
        if res.result_status.as_u64() != 0 {
            return format!("X sftSetup failed: {}", res.result_message);
        }
        let acc = self.r.blockchain_mock.state.accounts.get_mut(&a).unwrap();
        acc.storage.insert(b"sftSetupSteps".to_vec(), vec![1, 1, 1]);
        format!("R ok {}", empty_out())
    }
}

mod dump;

fn main() {
    std::panic::set_hook(Box::new(|_| {}));
    let stdin = std::io::stdin();
    // The debug VM prints error messages to stdout (vh_error.rs); keep the protocol on a
    // private copy of the original stdout and send fd 1 to /dev/null.
    let mut out = unsafe {
        use std::os::unix::io::FromRawFd;
        let keep = libc::dup(1);
        let devnull = libc::open(b"/dev/null\0".as_ptr() as *const libc::c_char, libc::O_WRONLY);
        libc::dup2(devnull, 1);
        std::fs::File::from_raw_fd(keep)
    };
    let mut w = World::new();
    for line in stdin.lock().lines() {
        let Ok(line) = line else { break };
        let mut t = Toks { it: line.split_whitespace() };
        let op = t.s();
        let res = match op {
            "" => continue,
            "deploy" => {
                let r = std::panic::catch_unwind(std::panic::AssertUnwindSafe(|| w.deploy(&mut t)));
                r.unwrap_or_else(|_| "X harness panic in deploy".to_string())
            }
            "call" => {
                let r = std::panic::catch_unwind(std::panic::AssertUnwindSafe(|| w.call(&mut t)));
                r.unwrap_or_else(|_| "X harness panic in call".to_string())
            }
            "dump" => {
                let r = std::panic::catch_unwind(std::panic::AssertUnwindSafe(|| dump::dump(&mut w, &mut t)));
                r.unwrap_or_else(|_| "X harness panic in dump".to_string())
            }
            "storage" => dump::raw_storage(&w),
            "abi" => abi_line(t.s()),
            "snap" => {
                let name = t.s().to_string();
                let locks = LOCK_CALLS.with(|l| l.borrow().clone());
                let st = w.state().clone();
                let txc = w.tx_counter;
                w.snaps.insert(name, (st, locks, txc));
                "R snap".to_string()
            }
            "restore" => {
                let name = t.s().to_string();
                match w.snaps.get(&name).cloned() {
                    None => "X no such snapshot".to_string(),
                    Some((st, locks, txc)) => {
                        *w.r.blockchain_mock.state = st;
                        w.tx_counter = txc;
                        LOCK_CALLS.with(|l| *l.borrow_mut() = locks);
                        "R restore".to_string()
                    }
                }
            }
            "reset" => {
                w = World::new();
                "R reset".to_string()
            }
            other => format!("X unknown op {other}"),
        };
        let _ = writeln!(out, "{res}");
        let _ = out.flush();
    }
}
