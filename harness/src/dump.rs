//! Observable-state dump in the Lean driver's format (`LP.Driver.dumpState`).
use std::collections::BTreeMap;

use num_bigint::BigUint;

use crate::codec::*;
use crate::{addr_bytes, addr_id, fmt_list, status_class, token_code, Toks, World, LP_ID};

fn b2s(b: bool) -> &'static str {
    if b {
        "1"
    } else {
        "0"
    }
}

fn get<'a>(st: &'a BTreeMap<Vec<u8>, Vec<u8>>, key: &[u8]) -> &'a [u8] {
    st.get(key).map(|v| v.as_slice()).unwrap_or(&[])
}

fn key_addr(name: &str, id: u64) -> Vec<u8> {
    let mut k = name.as_bytes().to_vec();
    k.extend_from_slice(&addr_bytes(id));
    k
}

fn set_items(st: &BTreeMap<Vec<u8>, Vec<u8>>, name: &str) -> Vec<String> {
    let len = be_u64(get(st, format!("{name}.len").as_bytes()));
    let mut out = Vec::new();
    for i in 1..=len {
        let mut k = format!("{name}.item").into_bytes();
        k.extend_from_slice(&(i as u32).to_be_bytes());
        out.push(addr_id(get(st, &k)).to_string());
    }
    out
}

fn show_rng(r: &mut Rd) -> String {
    let seed = r.bytes();
    let idx = r.u32();
    format!("{}:{}", hex::encode(seed), idx)
}

fn show_guar(r: &mut Rd) -> String {
    let rng = show_rng(r);
    let lo = r.u32();
    let off = r.u32();
    let add = r.u32();
    format!("guar:{rng}:{lo}:{off}:{add}")
}

fn show_op(variant: &str, raw: &[u8]) -> String {
    if raw.is_empty() {
        return "none".to_string();
    }
    let mut r = Rd::new(raw);
    let d = r.u8();
    let s = match d {
        1 => {
            let f = r.u32();
            let rm = r.u32();
            format!("filter:{f}:{rm}")
        }
        2 => {
            let rng = show_rng(&mut r);
            let pos = r.u32();
            format!("select:{rng}:{pos}")
        }
        3 => {
            let inner = r.bytes();
            let mut ir = Rd::new(inner);
            let s = match variant {
                "nft" => format!("nft:{}", show_rng(&mut ir)),
                "nftGuar" => {
                    let dd = ir.u8();
                    if dd == 0 {
                        show_guar(&mut ir)
                    } else {
                        format!("nft:{}", show_rng(&mut ir))
                    }
                }
                _ => show_guar(&mut ir),
            };
            if !ir.done() {
                format!("{s}:undecoded")
            } else {
                s
            }
        }
        _ => "unknown".to_string(),
    };
    if !r.done() {
        format!("{s}:undecoded")
    } else {
        s
    }
}

fn show_uts(v2: bool, raw: &[u8]) -> String {
    if raw.is_empty() {
        return "none".to_string();
    }
    let mut r = Rd::new(raw);
    if v2 {
        let a = r.u32();
        let n = r.u32();
        let mut infos = Vec::new();
        for _ in 0..n {
            let g = r.u32();
            let m = r.u32();
            infos.push(format!("{g}/{m}"));
        }
        format!("{a}:{}", fmt_list(&infos))
    } else {
        let a = r.u32();
        let b = r.u32();
        let c = r.u32();
        let d = r.u32();
        format!("{a}:{b}:{c}:{d}")
    }
}

impl World {
    fn view_vals(&mut self, func: &str, id: u64) -> Result<Vec<Vec<u8>>, &'static str> {
        let res = self.query(func, &[addr_bytes(id).to_vec()]);
        let cls = status_class(&res);
        if cls == "ok" {
            Ok(res.result_values)
        } else {
            Err(cls)
        }
    }

    fn view_num(&mut self, func: &str, id: u64) -> String {
        match self.view_vals(func, id) {
            Ok(v) => v.first().map(|b| be_big(b).to_string()).unwrap_or("0".to_string()),
            Err(c) => c.to_string(),
        }
    }

    fn view_bool(&mut self, func: &str, id: u64) -> String {
        match self.view_vals(func, id) {
            Ok(v) => b2s(v.first().map(|b| !b.is_empty()).unwrap_or(false)).to_string(),
            Err(c) => c.to_string(),
        }
    }
}

pub fn raw_storage(w: &World) -> String {
    let st = w.storage();
    let items: Vec<String> =
        st.iter().map(|(k, v)| format!("{}={}", hex::encode(k), hex::encode(v))).collect();
    // balances of the contract are part of "entire contract storage and all balances"
    let mut bals = Vec::new();
    for tok in 0..6usize {
        bals.push(format!("{}:{}", tok, w.balance(LP_ID, tok, 0)));
    }
    format!("S {} bal={}", items.join(";"), fmt_list(&bals))
}

pub fn dump(w: &mut World, t: &mut Toks) -> String {
    let round = t.u();
    let _bound = t.u();
    let k = t.u();
    let mut addrs = Vec::new();
    for _ in 0..k {
        addrs.push(t.u());
    }
    if !w.deployed {
        return "X no contract deployed".to_string();
    }
    let epoch = w.state().current_block_info.block_epoch;
    w.set_block(round, epoch);
    let variant = w.variant.clone();
    let v1alloc = matches!(variant.as_str(), "guarV1" | "migration" | "lockedGuar" | "nftGuar");
    let v2 = variant == "guarV2";
    let guaranteed = v1alloc || v2;
    let vested = matches!(variant.as_str(), "guarV1" | "guarV2");
    let nft = matches!(variant.as_str(), "nft" | "nftGuar");
    let locked = matches!(variant.as_str(), "locked" | "lockedGuar");
    let st = w.storage();

    let f = get(&st, b"flags");
    let flag = |i: usize| b2s(f.get(i).map(|b| *b != 0).unwrap_or(false));
    let mut c = Rd::new(get(&st, b"configuration"));
    let (c1, c2, c3) = (c.u64(), c.u64(), c.u64());
    let mut p = Rd::new(get(&st, b"ticketPrice"));
    let ptok = p.token();
    let pamt = p.big();
    let mut s = format!(
        "D flags={}{}{}{} cfg={},{},{} price={}:{} per={} nrw={} last={} dep={} tdep={} cpay={} sup={} paused={} op={}",
        flag(0), flag(1), flag(2), flag(3), c1, c2, c3, ptok, pamt,
        be_big(get(&st, b"launchpadTokensPerWinningTicket")),
        be_big(get(&st, b"nrWinningTickets")),
        be_big(get(&st, b"lastTicketId")),
        b2s(!get(&st, b"launchpadTokensDeposited").is_empty()),
        be_big(get(&st, b"totalLaunchpadTokensDeposited")),
        be_big(get(&st, b"claimableTicketPayment")),
        addr_id(get(&st, b"supportAddress")),
        b2s(!get(&st, b"pause_module:paused").is_empty()),
        show_op(&variant, get(&st, b"operation")),
    );
    let mut bals = Vec::new();
    for tok in 0..6usize {
        bals.push(format!("{}:{}", tok, w.balance(LP_ID, tok, 0)));
    }
    s += &format!(" bal={}", fmt_list(&bals));
    // the public getters must report what the storage holds (implementation vs implementation)
    let mut bad_views: Vec<&str> = Vec::new();
    {
        let mut chk = |name: &'static str, view: &str, raw: Vec<u8>| {
            let r = w.query(view, &[]);
            let got: Vec<u8> = if status_class(&r) == "ok" { r.result_values.first().cloned().unwrap_or_default() } else { b"<error>".to_vec() };
            if got != raw {
                bad_views.push(name);
            }
        };
        chk("getLaunchStageFlags", "getLaunchStageFlags", get(&st, b"flags").to_vec());
        chk("getConfiguration", "getConfiguration", get(&st, b"configuration").to_vec());
        chk("getTicketPrice", "getTicketPrice", get(&st, b"ticketPrice").to_vec());
        chk("getLaunchpadTokensPerWinningTicket", "getLaunchpadTokensPerWinningTicket", get(&st, b"launchpadTokensPerWinningTicket").to_vec());
        chk("getNumberOfWinningTickets", "getNumberOfWinningTickets", get(&st, b"nrWinningTickets").to_vec());
        chk("getTotalNumberOfTickets", "getTotalNumberOfTickets", get(&st, b"lastTicketId").to_vec());
        chk("getTotalLaunchpadTokensDeposited", "getTotalLaunchpadTokensDeposited", get(&st, b"totalLaunchpadTokensDeposited").to_vec());
        chk("getSupportAddress", "getSupportAddress", get(&st, b"supportAddress").to_vec());
        chk("getLaunchpadTokenId", "getLaunchpadTokenId", get(&st, b"launchpadTokenId").to_vec());
        chk("isPaused", "isPaused", get(&st, b"pause_module:paused").to_vec());
        if nft {
            chk("getNftCost", "getNftCost", get(&st, b"nftCost").to_vec());
        }
        if locked {
            chk("getLaunchpadTokensLockPercentage", "getLaunchpadTokensLockPercentage", get(&st, b"launchpadTokensLockPercentage").to_vec());
            chk("getLaunchpadTokensUnlockEpoch", "getLaunchpadTokensUnlockEpoch", get(&st, b"launchpadTokensUnlockEpoch").to_vec());
        }
        if vested && !get(&st, b"unlockSchedule").is_empty() {
            chk("getUnlockSchedule", "getUnlockSchedule", get(&st, b"unlockSchedule").to_vec());
        }
    }
    // the per-address winner COUNT view must agree with the per-address winner LIST view
    for a in addrs.iter() {
        if let Ok(v) = w.view_vals("getWinningTicketIdsForAddress", *a) {
            let n = w.view_num("getNumberOfWinningTicketsForAddress", *a);
            if n != v.len().to_string() && !bad_views.contains(&"getNumberOfWinningTicketsForAddress") {
                bad_views.push("getNumberOfWinningTicketsForAddress");
            }
        }
    }
    s += &format!(" views={}", if bad_views.is_empty() { "ok".to_string() } else { bad_views.join("+") });
    // ticket-space internals from raw storage (every key, whatever its id)
    let mut status: Vec<u64> = Vec::new();
    let mut p2i: Vec<(u64, u64)> = Vec::new();
    let mut batch: Vec<(u64, u64, u64)> = Vec::new();
    for (k, v) in st.iter() {
        if let Some(rest) = k.strip_prefix(b"ticketStatus".as_slice()) {
            if rest.len() == 4 && !v.is_empty() {
                status.push(be_u64(rest));
            }
        } else if let Some(rest) = k.strip_prefix(b"ticketPosToId".as_slice()) {
            if rest.len() == 4 && !v.is_empty() {
                p2i.push((be_u64(rest), be_u64(v)));
            }
        } else if let Some(rest) = k.strip_prefix(b"ticketBatch".as_slice()) {
            if rest.len() == 4 && !v.is_empty() {
                let mut r = Rd::new(v);
                let a = r.addr();
                let n = r.u32();
                batch.push((be_u64(rest), a, n));
            }
        }
    }
    status.sort();
    p2i.sort();
    batch.sort();
    s += &format!(
        " status={} p2i={} batch={}",
        fmt_list(&status.iter().map(|x| x.to_string()).collect::<Vec<_>>()),
        fmt_list(&p2i.iter().map(|(a, b)| format!("{a}>{b}")).collect::<Vec<_>>()),
        fmt_list(&batch.iter().map(|(i, a, n)| format!("{i}>{a}x{n}")).collect::<Vec<_>>()),
    );
    if guaranteed {
        s += &format!(
            " wl={} tg={} minc={}",
            fmt_list(&set_items(&st, "usersWithGuaranteedTicket")),
            be_big(get(&st, b"totalGuaranteedTickets")),
            be_big(get(&st, b"minConfirmedForGuaranteedTicket")),
        );
    }
    if variant == "guarV1" {
        let raw = get(&st, b"unlockSchedule");
        if raw.is_empty() {
            s += " sched=none";
        } else {
            let mut r = Rd::new(raw);
            s += &format!(" sched={}:{}:{}:{}:{}", r.u64(), r.u64(), r.u64(), r.u64(), r.u64());
        }
    } else if v2 {
        let raw = get(&st, b"unlockSchedule");
        if raw.is_empty() {
            s += " sched=none";
        } else {
            let mut r = Rd::new(raw);
            let n = r.u32();
            let mut ms = Vec::new();
            for _ in 0..n {
                let a = r.u64();
                let b = r.u64();
                ms.push(format!("{a}/{b}"));
            }
            s += &format!(" sched={}", fmt_list(&ms));
        }
    }
    if nft {
        let mut r = Rd::new(get(&st, b"nftCost"));
        let ctok = r.token();
        let cn = r.u64();
        let ca = r.big();
        let steps = get(&st, b"sftSetupSteps");
        let stp = |i: usize| b2s(steps.get(i).map(|b| *b != 0).unwrap_or(false));
        s += &format!(
            " payers={} nftw={} cnft={} cost={}:{}:{} avail={} steps={}{}{}",
            fmt_list(&set_items(&st, "confirmedNftUserList")),
            fmt_list(&set_items(&st, "nftSelectionWinners")),
            be_big(get(&st, b"claimableNftPayment")),
            ctok, cn, ca,
            be_big(get(&st, b"totalAvailableNfts")),
            stp(0), stp(1), stp(2),
        );
    }
    if locked {
        s += &format!(
            " lockcfg={}:{}",
            be_big(get(&st, b"launchpadTokensLockPercentage")),
            be_big(get(&st, b"launchpadTokensUnlockEpoch")),
        );
    }
    for a in addrs {
        let range = match w.view_vals("getTicketRangeForAddress", a) {
            Ok(v) if v.len() == 2 => format!("{}-{}", be_big(&v[0]), be_big(&v[1])),
            Ok(_) => "none".to_string(),
            Err(c) => c.to_string(),
        };
        let win = match w.view_vals("getWinningTicketIdsForAddress", a) {
            Ok(v) => fmt_list(&v.iter().map(|b| be_big(b).to_string()).collect::<Vec<_>>()),
            Err(c) => c.to_string(),
        };
        s += &format!(
            " | a{}:range={} conf={} bl={} cl={} win={} tix={}",
            a,
            range,
            w.view_num("getNumberOfConfirmedTicketsForAddress", a),
            w.view_bool("isUserBlacklisted", a),
            w.view_bool("hasUserClaimedTokens", a),
            win,
            w.view_num("getTotalNumberOfTicketsForAddress", a),
        );
        if guaranteed {
            s += &format!(
                " uts={} bluts={}",
                show_uts(v2, get(&st, &key_addr("userTicketStatus", a))),
                show_uts(v2, get(&st, &key_addr("blacklistUserTicketStatus", a))),
            );
            if variant != "lockedGuar" && variant != "nftGuar" {
                // the per-participant status view (crates 4, 5, 6)
                let uv = match w.view_vals("getUserTicketsStatus", a) {
                    Ok(v) => {
                        if v2 {
                            // (allowance, ManagedVec<GuaranteedTicketInfo>): second value is the items, 8 bytes each
                            let allow = v.first().map(|b| be_big(b).to_string()).unwrap_or("0".to_string());
                            let raw = v.get(1).cloned().unwrap_or_default();
                            let mut infos = Vec::new();
                            let mut r = Rd::new(&raw);
                            while !r.b.is_empty() && r.ok {
                                let g = r.u32();
                                let m = r.u32();
                                infos.push(format!("{g}/{m}"));
                            }
                            format!("{}:{}", allow, fmt_list(&infos))
                        } else {
                            v.iter().map(|b| be_big(b).to_string()).collect::<Vec<_>>().join(":")
                        }
                    }
                    Err(c) => c.to_string(),
                };
                s += &format!(" utsview={}", uv);
            }
        }
        if vested {
            s += &format!(
                " ut={} uc={} claimable={}",
                w.view_num("getUserTotalClaimableBalance", a),
                w.view_num("getUserClaimedBalance", a),
                w.view_num("getClaimableTokens", a),
            );
        }
        if nft {
            s += &format!(
                " paid={} won={}",
                w.view_bool("hasUserConfirmedNft", a),
                w.view_bool("hasUserWonNft", a),
            );
        }
    }
    let _ = (token_code(b""), BigUint::default());
    s
}
