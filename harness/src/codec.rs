//! Minimal MultiversX codec helpers: top/nested encodings used by the launchpad ABI.
use num_bigint::BigUint;

use crate::{addr_id, token_code};

/// top-encoding of an unsigned number: minimal big-endian bytes (empty for zero)
pub fn top_big(n: &BigUint) -> Vec<u8> {
    if *n == BigUint::default() {
        Vec::new()
    } else {
        n.to_bytes_be()
    }
}

pub fn be_u64(b: &[u8]) -> u64 {
    let mut v: u64 = 0;
    for x in b.iter().take(8) {
        v = (v << 8) | (*x as u64);
    }
    v
}

pub fn be_big(b: &[u8]) -> BigUint {
    BigUint::from_bytes_be(b)
}

/// reader over a nested-encoded buffer
pub struct Rd<'a> {
    pub b: &'a [u8],
    pub ok: bool,
}

impl<'a> Rd<'a> {
    pub fn new(b: &'a [u8]) -> Self {
        Rd { b, ok: true }
    }
    pub fn take(&mut self, n: usize) -> &'a [u8] {
        if self.b.len() < n {
            self.ok = false;
            let r = self.b;
            self.b = &[];
            return r;
        }
        let (h, t) = self.b.split_at(n);
        self.b = t;
        h
    }
    pub fn u8(&mut self) -> u64 {
        be_u64(self.take(1))
    }
    pub fn u32(&mut self) -> u64 {
        be_u64(self.take(4))
    }
    pub fn u64(&mut self) -> u64 {
        be_u64(self.take(8))
    }
    pub fn addr(&mut self) -> u64 {
        addr_id(self.take(32))
    }
    pub fn bytes(&mut self) -> &'a [u8] {
        let n = self.u32() as usize;
        self.take(n)
    }
    pub fn big(&mut self) -> BigUint {
        be_big(self.bytes())
    }
    pub fn token(&mut self) -> usize {
        token_code(self.bytes())
    }
    pub fn done(&self) -> bool {
        self.ok && self.b.is_empty()
    }
}

/// `name(topics|data)` in the Lean driver's format; numbers only
pub fn decode_event(topics: &[Vec<u8>], data: &[Vec<u8>]) -> Option<String> {
    let name = String::from_utf8_lossy(topics.first()?).to_string();
    let mut tp: Vec<String> = Vec::new();
    if topics.len() >= 4 {
        tp.push(addr_id(&topics[1]).to_string());
        tp.push(be_u64(&topics[2]).to_string());
        tp.push(be_u64(&topics[3]).to_string());
    }
    let payload: Vec<u8> = data.iter().flat_map(|d| d.iter().cloned()).collect();
    let mut r = Rd::new(&payload);
    let mut d: Vec<String> = Vec::new();
    match name.as_str() {
        "pauseContract" | "unpauseContract" => {}
        "refundTicketPayment" => {
            d.push(r.addr().to_string());
            d.push(r.u64().to_string());
            d.push(r.u64().to_string());
            d.push(r.u32().to_string());
            d.push(r.token().to_string());
            d.push(r.u64().to_string());
            d.push(r.big().to_string());
        }
        "setTicketPrice" => {
            d.push(r.addr().to_string());
            d.push(r.u64().to_string());
            d.push(r.u64().to_string());
            d.push(r.token().to_string());
            d.push(r.u64().to_string());
            d.push(r.big().to_string());
        }
        "confirmTickets" => {
            d.push(r.addr().to_string());
            d.push(r.u64().to_string());
            d.push(r.u64().to_string());
            d.push(r.u32().to_string());
            d.push(r.u32().to_string());
            d.push(r.u32().to_string());
            d.push(r.token().to_string());
            d.push(r.u64().to_string());
            d.push(r.big().to_string());
        }
        "filterTicketsCompleted" | "selectWinnersCompleted" | "distributeGuaranteedTicketsCompleted" => {
            d.push(r.addr().to_string());
            d.push(r.u64().to_string());
            d.push(r.u64().to_string());
            d.push(r.u32().to_string());
        }
        "claimLaunchpadTokens" => {
            d.push(r.addr().to_string());
            d.push(r.u64().to_string());
            d.push(r.u64().to_string());
            d.push(r.token().to_string());
            d.push(r.u64().to_string());
            d.push(r.big().to_string());
        }
        "addUsersToBlacklist" | "removeGuaranteedUsersFromBlacklist" => {
            d.push(r.addr().to_string());
            d.push(r.u64().to_string());
            d.push(r.u64().to_string());
            let n = r.u32();
            d.push(n.to_string());
            for _ in 0..n {
                d.push(r.addr().to_string());
            }
        }
        "setUnlockSchedule" => {
            d.push(r.addr().to_string());
            d.push(r.u64().to_string());
            d.push(r.u64().to_string());
            let n = r.u32();
            d.push(n.to_string());
            for _ in 0..n {
                d.push(r.u64().to_string());
                d.push(r.u64().to_string());
            }
        }
        "addTickets" => {
            d.push(r.addr().to_string());
            d.push(r.u64().to_string());
            d.push(r.u64().to_string());
            d.push(r.u32().to_string());
            d.push(r.u32().to_string());
            d.push(r.u32().to_string());
        }
        // transfer logs and other framework/VM events are not contract events
        _ => return None,
    }
    if !r.done() {
        d.push("undecoded".to_string());
    }
    Some(format!("{}({}|{})", name, tp.join(","), d.join(",")))
}
