#!/usr/bin/env python3
"""mutate.py [--n N] [--seed S] [--out FILE] [--files REGEX]
Mutation sweep (development tool, not a registered check).  Generates small syntactic mutants of the
contract sources (relational / arithmetic / boolean operator swaps, off-by-one, deleted storage writes
and guards), applies each one to a SCRATCH worktree of /repo (never to /repo itself), and runs
  * `./check ALL quick` (one shared set of histories, every property's monitors + correspondence) against
    a scratch copy of the harness that points to the scratch worktree, and
  * the repository's own test suite in the scratch worktree,
concurrently.  A mutant is INTERESTING when it compiles and the 47 tests still pass; it is then either
killed by the checks (which properties, with a concrete input or through the correspondence only) or
SURVIVES (equivalent mutant or a gap: to be looked at by hand).  Results: one JSON line per mutant."""
import argparse, json, os, random, re, shutil, subprocess, sys, threading, time

SCR = "/tmp/mut"
ap = argparse.ArgumentParser()
ap.add_argument("--n", type=int, default=60)
ap.add_argument("--seed", type=int, default=1)
ap.add_argument("--out", default="/verif/seeded/mutation_sweep.jsonl")
ap.add_argument("--files", default=".")
ap.add_argument("--scale", default="0.6")
ap.add_argument("--ops", default="syntactic", help="syntactic | names (swap storage accessors / struct fields / locals)")
args = ap.parse_args()
env = dict(os.environ, CARGO_NET_OFFLINE="true", LP_REPO=f"{SCR}/repo", LP_HARNESS_DIR=f"{SCR}/harness",
           LP_EVIDENCE_DIR=f"{SCR}/evidence", LP_REPLAY_DIR=f"{SCR}/replays", LP_ALL_SCALE=args.scale)


def sh(cmd, cwd, timeout=3000, e=None):
    """runs in its own process group; on timeout the whole group is killed (a mutant may loop for ever)"""
    import signal
    p = subprocess.Popen(cmd, shell=True, cwd=cwd, stdout=subprocess.PIPE, stderr=subprocess.STDOUT, text=True,
                         env=e or env, start_new_session=True)
    try:
        out, _ = p.communicate(timeout=timeout)
        return p.returncode, out
    except subprocess.TimeoutExpired:
        try:
            os.killpg(p.pid, signal.SIGKILL)
        except Exception:
            pass
        try:
            out, _ = p.communicate(timeout=10)
        except Exception:
            out = ""
        return 124, (out or "") + "\nTIMEOUT"


os.makedirs(SCR, exist_ok=True)
if not os.path.exists(f"{SCR}/repo"):
    sh(f"git -C /repo worktree add --detach {SCR}/repo HEAD -q", "/")
if not os.path.exists(f"{SCR}/harness"):
    shutil.copytree("/verif/harness", f"{SCR}/harness", ignore=shutil.ignore_patterns("target", "target-cov"))
s = open("/verif/harness/Cargo.toml").read().replace('path = "/repo/', f'path = "{SCR}/repo/')
open(f"{SCR}/harness/Cargo.toml", "w").write(s)
for f in os.listdir("/verif/harness/src"):
    shutil.copy(f"/verif/harness/src/{f}", f"{SCR}/harness/src/{f}")

OPS = [
    (r" >= ", " > "), (r" > ", " >= "), (r" <= ", " < "), (r" < ", " <= "), (r" == ", " != "), (r" != ", " == "),
    (r" \+ 1\b", ""), (r" - 1\b", ""), (r" \+ ", " - "), (r" - ", " + "), (r" \+= ", " -= "), (r" -= ", " += "),
    (r" && ", " || "), (r" \|\| ", " && "), (r"\btrue\b", "false"), (r"\bfalse\b", "true"),
    (r"\b0\b", "1"), (r"\b1\b", "2"), (r" \* ", " / "), (r" / ", " * "), (r"!self\.", "self."),
]
DELETE = re.compile(r"^\s*(self\.[a-z_]+\([^;]*\)\s*\.(set|clear|insert|update|swap_remove|push)[^;]*;|require!\([^;]*\);|[a-z_\.]+\s*(\+=|-=)[^;]*;|return[^;]*;)\s*$")

files = []
for root, dirs, fs in os.walk("/repo"):
    if "/target" in root or "/wasm" in root or "/tests" in root or "/meta" in root or "/.git" in root or "interaction" in root:
        continue
    for f in fs:
        if f.endswith(".rs") and "/src" in root and f != "verif_hooks.rs" and re.search(args.files, os.path.join(root, f)):
            files.append(os.path.join(root, f))
files.sort()
cands = []
for path in files:
    lines = open(path).read().split("\n")
    in_hook = 0
    for i, l in enumerate(lines):
        st = l.strip()
        if "verif" in l or st.startswith("//") or st.startswith("#[") or st.startswith("use ") or "const " in l and "ERR" in l:
            continue
        if i > 0 and "cfg(feature" in lines[i - 1]:
            continue
        if '"' in l and "require!" not in l:
            continue
        code = l.split('"')[0] if '"' in l else l      # never mutate inside message strings
        for (pat, rep) in OPS:
            for m in re.finditer(pat, code):
                if pat in (r" > ", r" < ") and ("->" in code[max(0, m.start() - 2):m.end() + 1] or "=>" in code[max(0, m.start() - 2):m.end() + 1]):
                    continue
                if pat in (r" > ", r" < ", r" >= ", r" <= ") and re.search(r"(fn |impl|where|: [A-Z][A-Za-z]*<|<Self|::<)", code):
                    continue
                if pat in (r"\b0\b", r"\b1\b") and re.search(r"[A-Za-z_\.]$", code[:m.start()]):
                    continue
                new = l[:m.start()] + rep + l[m.end():]
                cands.append((path, i, l, new, f"{pat.strip()} -> {rep.strip() or '(removed)'}"))
        if DELETE.match(l):
            cands.append((path, i, l, "", "delete statement"))
if args.ops == "names":
    # wrong-name mutants: a storage accessor, a struct field or a local replaced by a sibling from the same file
    cands = []
    for path in files:
        text = open(path).read()
        lines = text.split("\n")
        accessors = sorted(set(re.findall(r"self\s*\.\s*([a-z_]+)\(", text)))
        fields = sorted(set(re.findall(r"\.([a-z_]+)\b(?!\()", text)) & set(re.findall(r"pub ([a-z_]+):", text) + re.findall(r"^\s+([a-z_]+):", text, re.M)))
        for i, l in enumerate(lines):
            st = l.strip()
            if "verif" in l or st.startswith("//") or st.startswith("#[") or st.startswith("use ") or st.startswith("fn ") or st.startswith("pub ") or (i > 0 and "cfg(feature" in lines[i - 1]):
                continue
            code = l.split('"')[0] if '"' in l else l
            for m in re.finditer(r"self\s*\.\s*([a-z_]+)\(", code):
                for other in accessors:
                    if other != m.group(1):
                        new = l[:m.start(1)] + other + l[m.end(1):]
                        cands.append((path, i, l, new, f"accessor {m.group(1)} -> {other}"))
            for m in re.finditer(r"\.([a-z_]+)\b(?!\()", code):
                if m.group(1) in fields:
                    for other in fields:
                        if other != m.group(1):
                            new = l[:m.start(1)] + other + l[m.end(1):]
                            cands.append((path, i, l, new, f"field {m.group(1)} -> {other}"))
rng = random.Random(args.seed)
rng.shuffle(cands)
# stratify: at most ~ n/len(files)+2 per file
per = {}
chosen = []
cap = max(3, args.n // max(1, len(files)) + 2)
for c in cands:
    if per.get(c[0], 0) >= cap:
        continue
    per[c[0]] = per.get(c[0], 0) + 1
    chosen.append(c)
    if len(chosen) >= args.n:
        break
print(f"{len(cands)} candidate mutants in {len(files)} files; running {len(chosen)}", flush=True)

done = set()
if os.path.exists(args.out):
    for l in open(args.out):
        try:
            d = json.loads(l)
            done.add((d["file"], d["line"], d["op"], d["new"]))
        except Exception:
            pass
out = open(args.out, "a")
for (path, i, old, new, op) in chosen:
    rel = os.path.relpath(path, "/repo")
    if (rel, i + 1, op, new.strip()) in done:
        continue
    sh("git checkout -- .", f"{SCR}/repo")
    tgt = os.path.join(SCR, "repo", rel)
    lines = open(tgt).read().split("\n")
    assert lines[i] == old, (rel, i)
    lines[i] = new
    open(tgt, "w").write("\n".join(lines))
    rec = {"file": rel, "line": i + 1, "op": op, "old": old.strip(), "new": new.strip()}
    t0 = time.time()
    tests = {}

    def run_tests():
        rc, o = sh("cargo test --workspace --no-fail-fast --offline 2>&1", f"{SCR}/repo", timeout=420)
        tests["timeout"] = rc == 124
        tests["passed"] = sum(int(m.group(1)) for m in re.finditer(r"test result: \w+\. (\d+) passed", o))
        tests["failed"] = sum(int(m.group(1)) for m in re.finditer(r"test result: \w+\. \d+ passed; (\d+) failed", o))
        tests["compiled"] = "error: could not compile" not in o and "error[E" not in o

    th = threading.Thread(target=run_tests)
    th.start()
    rc, o = sh("./check ALL quick", "/verif", timeout=900)
    th.join()
    rec["check_timeout"] = rc == 124
    rec["tests"] = tests
    if "ALL-BUILD-FAILED" in o or not tests.get("compiled", False):
        rec["status"] = "does-not-compile"
    else:
        viol = [l for l in o.splitlines() if l.startswith("ALL-VIOLATION")]
        rec["killed_by"] = sorted(set(re.search(r"property=(\S+)", l).group(1) for l in viol))
        rec["concrete"] = sorted(set(re.search(r"property=(\S+)", l).group(1) for l in viol if "concrete=1" in l))
        rec["first"] = [l[:260] for l in viol[:3]]
        passes_tests = tests.get("failed", 1) == 0 and tests.get("passed", 0) >= 47 and not tests.get("timeout")
        rec["passes_tests"] = passes_tests
        rec["status"] = ("killed" if viol else ("CHECK-TIMEOUT" if rec["check_timeout"] else "SURVIVED")) + ("" if passes_tests else " (tests also fail)")
    rec["wall_s"] = round(time.time() - t0, 1)
    out.write(json.dumps(rec) + "\n")
    out.flush()
    print(rec["status"], rel, i + 1, op, "|", old.strip()[:70], "=>", new.strip()[:70], "|", rec.get("killed_by"), flush=True)
sh("git checkout -- .", f"{SCR}/repo")
