#!/usr/bin/env python3
import glob, json, os
rows = []
for f in sorted(glob.glob("/verif/seeded/*/meta.json")):
    m = json.load(open(f))
    rows.append(m)
with open("/verif/seeded/SUMMARY.md", "w") as out:
    out.write("# Seeded changes and the checks that catch them\n\n")
    out.write("| seeded change | target | confirmed (47 pass, demo fails with / passes without) | caught by (concrete failing input) | caught by (correspondence / proof only) |\n|---|---|---|---|---|\n")
    for m in rows:
        conc = m.get("with_concrete_input", [])
        other = [p for p in m.get("detected_by", []) if p not in conc]
        out.write(f"| {m['name']} | {m['property']} | {'yes' if m.get('confirmed') and m.get('existing_47_pass_with_change') else 'NO'} | {' '.join(conc) or '-'} | {' '.join(other) or '-'} |\n")
    out.write("\nTarget property detected: " + ", ".join(f"{m['name']}={'yes' if m.get('target_property_detected') else 'NO'}" for m in rows) + "\n")
print(open("/verif/seeded/SUMMARY.md").read())
