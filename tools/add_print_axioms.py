#!/usr/bin/env python3
"""Appends `#print axioms` for every theorem of the given LP/Props files that lacks one."""
import re, sys
sys.path.insert(0, "/verif/tools")
from lpcheck.leanaudit import strip_comments
for path in sys.argv[1:]:
    src = open(path).read()
    body = strip_comments(src)
    # track namespaces (simple: first `namespace X` encloses everything)
    ns = re.findall(r"^namespace\s+([\w.]+)", body, re.M)
    prefix = ns[0] + "." if ns else ""
    thms = re.findall(r"^\s*theorem\s+([\w.']+)", body, re.M)
    have = set(re.findall(r"^#print axioms\s+([\w.']+)", body, re.M))
    add = [prefix + t for t in thms if prefix + t not in have]
    if add:
        with open(path, "a") as f:
            f.write("\n" + "\n".join("#print axioms " + t for t in add) + "\n")
    print(path, "added", len(add))
