"""Special-purpose generator profiles (besides the `life` lifecycles of gen.py):
topup   guarantee holder between plain participants, every base-lottery outcome, then distribution
fy      scripted draws: exhaustive residue vectors for small n, k; arbitrary 32-bit raws for larger n
chunks  every composition of an operation's iterations into per-call chunks vs the single call
perm    every endpoint x caller class at phase checkpoints
alloc   allocation batches: duplicates, zero counts, limits and limit+1
timeline setter calls around every boundary, gated endpoints probed in every phase
"""
import itertools

from . import canon
from .gen import (Trace, Life, Rng, call_line, deploy_line, OWNER, SUPPORT, STRANGER, LOCK, CCALLER,
                  LP_TOK, PAY_TOK, FEE_TOK, OTHER_TOK, V1ALLOC, GUAR, NFT, LOCKED, VESTED, UNBL)


def alloc_ep(v):
    return "addTicketsV1" if v in V1ALLOC else ("addTicketsV2" if v == "guarV2" else "addTickets")


def alloc_args(v, pairs):
    """pairs: list of (addr, n); plain allocations without guarantees"""
    args = [len(pairs)]
    for (a, n) in pairs:
        if v in V1ALLOC:
            args += [a, 0, n, 0]
        elif v == "guarV2":
            args += [a, n, 0]
        else:
            args += [a, n]
    return args


class Setup:
    """drives a contract to a chosen phase with simple, fully valid steps"""

    def __init__(self, trace, variant, nrw=2, price=10, per=100, paytok=0, conf=10, sel=20, claim=30,
                 minc=1, feetok=FEE_TOK, fee=5, avail=2, lockpct=5000, unlock=50):
        self.t, self.v = trace, variant
        self.nrw, self.price, self.per, self.paytok = nrw, price, per, paytok
        self.conf, self.sel, self.claim = conf, sel, claim
        self.minc, self.feetok, self.fee, self.avail = minc, feetok, fee, avail
        self.lockpct, self.unlock = lockpct, unlock
        self.users = []

    def deploy(self, users):
        t = self.t
        t.round, t.epoch = 0, 0
        self.users = users
        t.dump_addrs = [OWNER, SUPPORT] + users + [STRANGER]
        line = deploy_line(self.v, OWNER, 0, 0, LP_TOK, self.per, self.paytok, self.price, self.nrw,
                           self.conf, self.sel, self.claim, minc=self.minc, lockpct=self.lockpct,
                           unlock=self.unlock, lockaddr=LOCK, cost=(self.feetok, 0, self.fee), avail=self.avail)
        return t.send(line).startswith("R ok")

    def pay(self, amount):
        return {"egld": amount} if self.paytok == 0 else {"esdts": [(self.paytok, 0, amount)]}

    def allocate(self, pairs):
        self.t.call(OWNER, alloc_ep(self.v), alloc_args(self.v, pairs))
        self.t.bound = sum(n for _, n in pairs) + 6

    def deposit(self):
        d = self.t.dump()
        g, _ = canon.parse_D(d)
        amt = int(g["per"]) * (int(g["nrw"]) + int(g.get("tg", "0")))
        self.t.call(OWNER, "deposit", esdts=[(LP_TOK, 0, amt)])

    def confirm_all(self, pairs):
        self.t.round = self.conf
        for (a, n) in pairs:
            if n > 0:
                self.t.call(a, "confirm", [n], **self.pay(self.price * n))

    def extra_ep(self):
        return {"nft": "selectNft", "nftGuar": "secondary"}.get(self.v, "distribute" if self.v in GUAR else None)


# ------------------------------------------------------------------------------------------
# fy
# ------------------------------------------------------------------------------------------

def residue_vectors(n, k):
    ranges = [range(n - i + 1) for i in range(1, k + 1)]
    return itertools.product(*ranges)


def run_fy(pair, rng, variant, opts):
    """one trace: a filtered contract with n tickets and k winners; every residue vector (small n)
    or random 32-bit raws (large n) through `select` from a snapshot"""
    tr = Trace(pair, f"fy-{variant}")
    big = opts.get("big", False)
    if big:
        n = rng.range(7, 60)
        k = rng.range(1, n + 3)
    else:
        n = opts["n"]
        k = opts["k"]
    su = Setup(tr, variant, nrw=max(k, 1), avail=1)
    # spread n tickets over up to 3 participants
    cuts = sorted({rng.range(1, n - 1) for _ in range(2)}) if n >= 3 else []
    sizes, prev = [], 0
    for c in cuts + [n]:
        sizes.append(c - prev)
        prev = c
    if variant == "guarV2":
        sizes = [min(s, 255) for s in sizes]
    pairs = [(10 + i, s) for i, s in enumerate(sizes) if s > 0]
    if not su.deploy([a for a, _ in pairs]):
        return tr
    su.allocate(pairs)
    if variant in NFT:
        tr.call(OWNER, "sftSetup")
    su.deposit()
    su.confirm_all(pairs)
    tr.round = su.sel
    tr.call(STRANGER, "filter")
    tr.dump()
    tr.send("snap f")
    total = sum(s for _, s in pairs)
    kk = min(k, total)
    if big:
        vectors = [[rng.next() & 0xFFFFFFFF for _ in range(kk)] for _ in range(opts.get("reps", 6))]
        vectors += [[], []]     # natural draws: words of the (forced) seed, re-hashed every 8 draws
    else:
        vectors = []
        for cs in residue_vectors(total, kk):
            # present each residue as an arbitrary raw with that residue
            raws = []
            for i, c in enumerate(cs, start=1):
                m = total - i + 1
                mult = rng.below((0xFFFFFFFF - c) // m + 1)
                raws.append(c + m * mult if rng.chance(1, 2) else c)
            vectors.append(raws)
    # natural randomness: no forced seed; the implementation takes its seed from the VM's
    # block randomness; the seed it used is read from the draw tap of a first run and handed to the
    # model for the identical re-run (same snapshot, same transaction id => same randomness)
    if kk > 0:
        tr.send("restore f")
        probe = call_line(STRANGER, tr.round, tr.epoch, "select", [], budget=None)
        r0 = canon.parse_R(tr.pair.impl.ask(probe))
        taps = canon.parse_list(r0.get("tap", "[]")) if r0["st"] == "ok" else []
        tr.natural = dict(st=r0["st"], taps=taps, msg=r0.get("msg", ""))
        seed_hex = taps[0].split(":")[0] if taps else "00" * 32
        tr.send("restore f")
        tr.send(probe, model_line=call_line(STRANGER, tr.round, tr.epoch, "select", [], budget=None, seeds=[seed_hex]))
        tr.dump()
    for raws in vectors:
        tr.send("restore f")
        budget = None if rng.chance(1, 2) else rng.below(3)
        done = False
        rest = list(raws)
        for _ in range(kk + 3):
            res = tr.call(STRANGER, "select", seeds=[rng.seed32()], script=rest, budget=budget)
            if res["st"] != "ok":
                break
            used = len(canon.parse_list(res.get("draws", "[]")))
            rest = rest[used:]
            if res.get("ret") == "[0]":
                done = True
                break
        tr.dump()
        if not done:
            break
    return tr


# ------------------------------------------------------------------------------------------
# chunks
# ------------------------------------------------------------------------------------------

def compositions(n):
    """all compositions of n (ordered sums), as lists of positive parts"""
    if n == 0:
        yield []
        return
    for first in range(1, n + 1):
        for rest in compositions(n - first):
            yield [first] + rest


def drive_chunked(tr, rng, ep, first_seeds, budgets, callers, allow_noise=True):
    """run `ep` to completion with the given per-call budgets (then unbounded); the first call
    gets `first_seeds`; later calls get the NFT seed first (the draw that may start later) and
    otherwise different seeds, different callers, later rounds"""
    calls = 0
    for b in list(budgets) + [None] * 3:
        seeds = first_seeds if calls == 0 else [first_seeds[1], rng.seed32()]
        who = rng.pick(callers)
        res = tr.call(who, ep, seeds=seeds, budget=b)
        calls += 1
        if res["st"] != "ok":
            return False, calls
        if res.get("ret") == "[0]":
            return True, calls
        if allow_noise and rng.chance(1, 3):
            tr.round += 1
        if allow_noise and rng.chance(1, 4):
            # a different operation attempted in between must not disturb the saved cursor
            other = rng.pick(["filter", "select", "distribute", "claim", "selectNft", "secondary"])
            if other != ep:
                tr.call(rng.pick(callers), other, seeds=[rng.seed32(), rng.seed32()])
    return False, calls


def run_chunks(pair, rng, variant, opts):
    """single call vs chunked calls from the same snapshot, for filter / select / additional step;
    implementation-vs-implementation comparison of raw storage and balances, plus the model"""
    tr = Trace(pair, f"chunks-{variant}")
    tr.chunk_results = []
    nusers = rng.range(2, 5)
    # guarantee-heavy configuration: every participant holds guarantees whose thresholds are met and the
    # base lottery is small, so the distribution step has real work for every holder
    heavy = variant in GUAR and rng.chance(1, 2)
    su = Setup(tr, variant, nrw=(2 * nusers + rng.range(0, 1)) if heavy else rng.range(1, 5),
               minc=rng.range(1, 2), avail=rng.range(1, 3), claim=rng.pick([20, 30]))
    users = list(range(10, 10 + nusers))
    if not su.deploy(users):
        return tr
    life = Life(tr, rng, variant)
    life.users = users
    life.alloc = {}
    # allocation with guarantees where the variant has them
    ep = alloc_ep(variant)
    args = [len(users)]
    tot = 0
    for u in users:
        a, n = life.alloc_entry(u)
        if heavy:
            if variant in V1ALLOC:
                a, n = [u, su.minc, 1, 1], su.minc + 1
            else:
                g = rng.range(1, 2)
                a, n = [u, 3, 1, g, g], 3
            life.alloc[u] = n
        if n == 0:
            # keep every participant non-empty here: zero-size ranges are exercised by `life`
            if variant in V1ALLOC:
                a = [u, 1, 1, a[3]]
                n = 2
            elif variant == "guarV2":
                a = [u, 2, 0]
                n = 2
            else:
                a = [u, 2]
                n = 2
            life.alloc[u] = n
        args += a
        tot += n
    res = tr.call(OWNER, ep, args)
    if res["st"] != "ok":
        return tr
    tr.bound = tot + 6
    if variant in NFT:
        tr.call(OWNER, "sftSetup")
    su.deposit()
    tr.round = su.conf
    confirmed = []
    for u in users:
        n = life.alloc[u] if heavy else rng.range(0, life.alloc[u])
        if n > 0:
            r = tr.call(u, "confirm", [n], **su.pay(su.price * n))
            if r["st"] == "ok":
                confirmed.append(u)
    if variant in NFT:
        for u in confirmed:
            if rng.chance(2, 3):
                fee = {"egld": su.fee} if su.feetok == 0 else {"esdts": [(su.feetok, 0, su.fee)]}
                tr.call(u, "confirmNft", **fee)
    tr.round = su.sel
    callers = [OWNER, STRANGER] + users
    steps = ["filter", "select"] + ([su.extra_ep()] if su.extra_ep() else [])
    for ep in steps:
        tr.dump()
        tr.send("snap pre")
        seedsA = [rng.seed32(), rng.seed32()]
        round0 = tr.round
        # reference: one unbounded call
        res = tr.call(rng.pick(callers), ep, seeds=seedsA, budget=None)
        if res["st"] != "ok" or res.get("ret") != "[0]":
            return tr
        ref = tr.send("storage")
        tr.dump()
        # learn the iteration count: budget 0 everywhere -> number of calls
        tr.send("restore pre")
        tr.round = round0
        ok, ncalls = drive_chunked(tr, rng, ep, seedsA, [0] * 80, callers, allow_noise=False)
        s1 = tr.send("storage")
        tr.chunk_results.append((ep, "all-zero", ncalls, ref == s1))
        iters = max(ncalls - 1, 0)     # continue-decisions taken in total
        if iters <= opts.get("exhaustive_upto", 5):
            scheds = [[p - 1 for p in comp] for comp in compositions(iters + 1)]
        else:
            scheds = [[rng.below(4) for _ in range(iters + 1)] for _ in range(opts.get("random_scheds", 6))]
        for sched in scheds:
            tr.send("restore pre")
            tr.round = round0
            tr.dump()                      # gives the monitors the state the chunked run starts from
            ok, _ = drive_chunked(tr, rng, ep, seedsA, sched, callers)
            s2 = tr.send("storage")
            tr.chunk_results.append((ep, sched, ok, ref == s2))
            tr.dump()
        # continue the lifecycle from the reference result
        tr.send("restore pre")
        tr.round = round0
        tr.call(OWNER, ep, seeds=seedsA, budget=None)
        tr.dump()
    return tr


# ------------------------------------------------------------------------------------------
# perm
# ------------------------------------------------------------------------------------------

def all_endpoint_calls(v, su, rng):
    """one syntactically valid call of every endpoint of the variant: (ep, args, payment kwargs)"""
    u = su.users[0] if su.users else 10
    calls = [
        (alloc_ep(v), alloc_args(v, [(25, 1)]), {}),
        ("deposit", [], {"esdts": [(LP_TOK, 0, su.per * su.nrw)]}),
        ("setTicketPrice", [0, 7], {}),
        ("setPerTicket", [50], {}),
        ("setConfStart", [su.conf + 1], {}),
        ("setSelStart", [su.sel + 1], {}),
        ("setClaimStart", [su.claim + 1], {}),
        ("setSupport", [STRANGER], {}),
        ("pause", [], {}),
        ("unpause", [], {}),
        ("confirm", [1], su.pay(su.price)),
        ("filter", [], {}),
        ("select", [], {}),
        ("claim", [], {}),
        ("claimPayment", [], {}),
        ("blacklist", [1, u], {}),
    ]
    if v == "guarV2":
        calls += [("refundUsers", [1, u], {}), ("setSchedule2", [1, su.claim, 10000], {})]
    if v in UNBL:
        calls.append(("unblacklist", [1, u], {}))
    if v in GUAR and v != "nftGuar":
        calls.append(("distribute", [], {}))
    if v == "guarV1":
        calls.append(("setSchedule1", [su.claim, 10000, 0, 0, 0], {}))
    if v in NFT:
        fee = {"egld": su.fee} if su.feetok == 0 else {"esdts": [(su.feetok, 0, su.fee)]}
        calls += [("confirmNft", [], fee), ("setNftCost", [su.feetok, 0, su.fee + 1], {}),
                  ("createSfts", [], {}), ("setTransferRole", ["-"], {}), ("issueSft", [], {"egld": 5})]
        calls.append(("selectNft", [], {}) if v == "nft" else ("secondary", [], {}))
    return calls


def perm_sweep(tr, v, su, rng):
    callers = [OWNER, SUPPORT, su.users[0] if su.users else 10, STRANGER, CCALLER]
    for (ep, args, pay) in all_endpoint_calls(v, su, rng):
        for who in callers:
            if ep in ("issueSft", "setTransferRole", "createSfts") and who in (OWNER, SUPPORT):
                continue   # would start an asynchronous call to the system contract; not modelled
            tr.call(who, ep, args, probe=True, seeds=[rng.seed32(), rng.seed32()], **pay)


def run_perm(pair, rng, variant, opts):
    tr = Trace(pair, f"perm-{variant}")
    su = Setup(tr, variant, nrw=2, paytok=rng.pick([0, PAY_TOK]))
    users = [10, 11, 12]
    if not su.deploy(users):
        return tr
    tr.send("abi " + variant)                              # endpoint table vs the generated ABI
    tr.call(OWNER, "setSupport", [SUPPORT])
    if variant in NFT:
        # the collection exists (as after a successful issue) but the initial SFTs do not: here the owner's
        # createInitialSfts WOULD be accepted, so a refusal of anybody else is really the permission check and not
        # "Invalid token ID"; probes only (the model does not know the collection), then the full set-up on both sides
        tr.dump()
        for who in (STRANGER, 10, CCALLER):
            tr.call(who, "issueSft", egld=5, probe=True)          # nothing issued yet: only the permission check can refuse
        tr.impl_only(call_line(OWNER, tr.round, tr.epoch, "sftIssued"))
        tr.dump()
        for who in (STRANGER, 10, CCALLER):
            tr.call(who, "createSfts", probe=True)
            tr.call(who, "setTransferRole", ["-"], probe=True)
            tr.call(who, "issueSft", egld=5, probe=True)
        tr.call(OWNER, "sftSetup")
    perm_sweep(tr, variant, su, rng)                      # add-tickets phase, nothing allocated
    pairs = [(10, 3), (11, 2), (12, 1)]
    su.allocate(pairs)
    su.deposit()
    tr.dump()
    perm_sweep(tr, variant, su, rng)                      # add-tickets phase, deposited
    su.confirm_all([(10, 2), (11, 2)])
    tr.dump()
    perm_sweep(tr, variant, su, rng)                      # confirmation phase
    tr.round = su.sel
    perm_sweep(tr, variant, su, rng)                      # selection, nothing done
    tr.call(STRANGER, "filter", budget=0)
    perm_sweep(tr, variant, su, rng)                      # selection, filter interrupted
    tr.call(STRANGER, "filter")
    tr.call(STRANGER, "select", seeds=[rng.seed32()], budget=0)
    perm_sweep(tr, variant, su, rng)                      # selection, base lottery interrupted
    tr.call(STRANGER, "select", seeds=[rng.seed32()])
    tr.dump()
    perm_sweep(tr, variant, su, rng)                      # base lottery done
    ex = su.extra_ep()
    if ex:
        for _ in range(50):
            r = tr.call(STRANGER, ex, seeds=[rng.seed32(), rng.seed32()])
            if r["st"] != "ok" or r.get("ret") == "[0]":
                break
    tr.dump()
    perm_sweep(tr, variant, su, rng)                      # all steps done, before the claim round
    tr.round = su.claim
    perm_sweep(tr, variant, su, rng)                      # claim phase
    tr.call(10, "claim")
    tr.call(OWNER, "claimPayment")
    tr.dump()
    perm_sweep(tr, variant, su, rng)
    # a second deployment whose OWNER IS A CONTRACT ACCOUNT: the owner may run the selection steps although
    # contract accounts in general may not ("only from the owner or a non-contract account")
    t = tr
    t.round, t.epoch = 0, 0
    t.dump_addrs = [CCALLER, SUPPORT, 10, 11, STRANGER]
    line = deploy_line(variant, CCALLER, 0, 0, LP_TOK, su.per, su.paytok, su.price, 2, su.conf, su.sel, su.claim,
                       minc=su.minc, lockpct=su.lockpct, unlock=su.unlock, lockaddr=LOCK,
                       cost=(su.feetok, 0, su.fee), avail=su.avail)
    if not t.send(line).startswith("R ok"):
        return tr
    if variant in NFT:
        t.call(CCALLER, "sftSetup")
    t.call(CCALLER, alloc_ep(variant), alloc_args(variant, [(10, 2), (11, 2)]))
    t.bound = 12
    t.call(CCALLER, "deposit", esdts=[(LP_TOK, 0, su.per * 2)])
    t.round = su.conf
    for u in (10, 11):
        t.call(u, "confirm", [2], **su.pay(su.price * 2))
    t.round = su.sel
    t.call(STRANGER, "filter")
    t.call(902, "select", seeds=[rng.seed32()], probe=True)          # another contract account: rejected
    t.call(CCALLER, "select", seeds=[rng.seed32()], budget=0)         # the owner, a contract account: accepted
    t.call(CCALLER, "select", seeds=[rng.seed32()])
    ex = su.extra_ep()
    if ex:
        t.call(902, ex, seeds=[rng.seed32(), rng.seed32()], probe=True)
        for _ in range(20):
            r = t.call(CCALLER, ex, seeds=[rng.seed32(), rng.seed32()])
            if r["st"] != "ok" or r.get("ret") == "[0]":
                break
    t.dump()
    return tr


# ------------------------------------------------------------------------------------------
# alloc
# ------------------------------------------------------------------------------------------

def run_alloc(pair, rng, variant, opts):
    tr = Trace(pair, f"alloc-{variant}")
    su = Setup(tr, variant, nrw=rng.range(1, 6), minc=rng.range(1, 3))
    users = list(range(10, 24))
    if not su.deploy(users):
        return tr
    ep = alloc_ep(variant)
    tr.bound = 900
    pool = list(users)

    def entry(u, n, infos=None, st=None, mig=0):
        if variant in V1ALLOC:
            s = rng.range(0, n) if st is None else st
            return [u, s, n - s, mig]
        if variant == "guarV2":
            infos = infos or []
            flat = []
            for (g, m) in infos:
                flat += [g, m]
            return [u, n, len(infos)] + flat
        return [u, n]

    for _ in range(rng.range(6, 12)):
        kind = rng.below(12)
        u = rng.pick(pool)
        probe = rng.chance(1, 3)
        if kind == 0:      # duplicate within one call
            args = [2] + entry(u, 2) + entry(u, 1)
        elif kind == 1:    # zero count
            args = [1] + entry(u, 0)
        elif kind == 2 and variant == "guarV2":   # ticket limit and limit+1
            args = [1] + entry(u, rng.pick([255, 256]))
        elif kind == 3 and variant == "guarV2":   # entries limit and limit+1
            m = rng.pick([10, 11])
            args = [1] + entry(u, 30, [(0, 1)] * m)
        elif kind == 4 and variant == "guarV2":   # guarantee above its threshold
            args = [1] + entry(u, 5, [(rng.pick([2, 3]), 2)])
        elif kind == 5 and variant == "guarV2":   # contract account
            args = [1] + entry(902, 2)
        elif kind == 6 and variant == "guarV2":   # reservation up to / beyond the remaining winners
            args = [1] + entry(u, 9, [(rng.range(0, su.nrw + 1), 9)])
        elif kind == 7 and variant in V1ALLOC:    # guarantees until the winners run out
            args = [1] + entry(u, 3, st=3, mig=1)
        elif kind == 8:    # several participants in one call
            us = rng.shuffle(pool)[:rng.range(2, 4)]
            args = [len(us)]
            for x in us:
                args += entry(x, rng.range(1, 4), [(1, 1)] if variant == "guarV2" and rng.chance(1, 2) else None,
                              mig=1 if rng.chance(1, 3) else 0)
        elif kind == 9:    # not the owner
            tr.call(STRANGER, ep, [1] + entry(u, 1), probe=True)
            continue
        else:
            args = [1] + entry(u, rng.range(1, 6), [(1, 2)] if variant == "guarV2" and rng.chance(1, 3) else None,
                               mig=1 if rng.chance(1, 4) else 0)
        tr.call(OWNER, ep, args, probe=probe)
        tr.dump()
    tr.round = su.conf
    tr.call(OWNER, ep, [1] + entry(24, 1))     # after the add-tickets period
    tr.dump()
    return tr


# ------------------------------------------------------------------------------------------
# timeline
# ------------------------------------------------------------------------------------------

GATED = ["filter", "select", "claim", "claimPayment", "confirm", "deposit", "setTicketPrice", "setPerTicket",
         "blacklist", "addTickets", "extra", "unblacklist", "setNftCost", "setSchedule"]


def gated_probes(tr, v, su, rng):
    u = su.users[0]
    for ep in GATED:
        args, pay, who = [], {}, OWNER
        if ep == "confirm":
            args, pay, who = [1], su.pay(su.price), u
        elif ep == "deposit":
            d = tr.dump()
            g, _ = canon.parse_D(d)
            pay = {"esdts": [(LP_TOK, 0, int(g["per"]) * (int(g["nrw"]) + int(g.get("tg", "0"))))]}
        elif ep == "setTicketPrice":
            args = [su.paytok, su.price]
        elif ep == "setPerTicket":
            args = [su.per]
        elif ep == "blacklist":
            args = [1, su.users[-1]]
        elif ep == "unblacklist":
            if v not in UNBL:
                continue
            args = [1, su.users[-1]]
        elif ep == "addTickets":
            ep, args = alloc_ep(v), alloc_args(v, [(26, 1)])
        elif ep == "extra":
            ep = su.extra_ep()
            if not ep:
                continue
            who = STRANGER
        elif ep == "setNftCost":
            if v not in NFT:
                continue
            args = [su.feetok, 0, su.fee]
        elif ep == "setSchedule":
            if v == "guarV1":
                ep, args = "setSchedule1", [su.claim + 40, 10000, 0, 0, 0]
            elif v == "guarV2":
                ep, args = "setSchedule2", [1, su.claim + 40, 10000]
            else:
                continue
        elif ep in ("filter", "select"):
            who = STRANGER
        elif ep == "claim":
            who = u
        tr.call(who, ep, args, probe=True, seeds=[rng.seed32(), rng.seed32()], **pay)


def timeline_setters(tr, su, rng):
    """setter calls with values around every boundary; tracks accepted changes"""
    for _ in range(rng.range(1, 4)):
        which = rng.pick(["setConfStart", "setSelStart", "setClaimStart"])
        cur = {"setConfStart": su.conf, "setSelStart": su.sel, "setClaimStart": su.claim}[which]
        val = rng.pick([tr.round - 1, tr.round, tr.round + 1, cur - 1, cur, cur + 1, su.conf, su.sel, su.sel + 1,
                        su.claim, su.claim + 1, su.sel - 1, 0])
        val = max(val, 0)
        r = tr.call(OWNER, which, [val], probe=rng.chance(1, 3))
        if r["st"] == "ok" and not tr.ops[-1][0].split()[-3] == "1":
            pass
        # re-read the configuration from the implementation
        d = tr.dump()
        g, _ = canon.parse_D(d)
        su.conf, su.sel, su.claim = [int(x) for x in g["cfg"].split(",")]


def run_timeline(pair, rng, variant, opts):
    tr = Trace(pair, f"timeline-{variant}")
    claim_eq_sel = rng.chance(1, 3)
    su = Setup(tr, variant, nrw=2, sel=20, claim=20 if claim_eq_sel else rng.pick([21, 30]))
    users = [10, 11, 12]
    if not su.deploy(users):
        return tr
    if variant in NFT:
        tr.call(OWNER, "sftSetup")
    pairs = [(10, 3), (11, 2), (12, 2)]
    su.allocate(pairs)
    su.deposit()
    tr.dump()
    checkpoints = [0, "conf-1", "conf", "sel-1", "sel"]
    for cp in checkpoints:
        if cp == "conf-1":
            tr.round = su.conf - 1
        elif cp == "conf":
            tr.round = su.conf
        elif cp == "sel-1":
            tr.round = su.sel - 1
            su.confirm_all([(10, 2), (11, 1)]) if tr.round >= su.conf else None
            tr.round = su.sel - 1
        elif cp == "sel":
            tr.round = su.sel
        if cp == "conf" and tr.round >= su.conf:
            tr.call(10, "confirm", [1], **su.pay(su.price))
            tr.dump()
        timeline_setters(tr, su, rng)
        gated_probes(tr, variant, su, rng)
    # selection sub-steps
    tr.round = max(tr.round, su.sel)
    tr.call(STRANGER, "filter", budget=0)
    gated_probes(tr, variant, su, rng)
    timeline_setters(tr, su, rng)
    tr.call(STRANGER, "filter")
    gated_probes(tr, variant, su, rng)
    tr.call(STRANGER, "select", seeds=[rng.seed32()], budget=0)
    gated_probes(tr, variant, su, rng)
    tr.call(STRANGER, "select", seeds=[rng.seed32()])
    tr.dump()
    gated_probes(tr, variant, su, rng)
    ex = su.extra_ep()
    if ex:
        tr.call(STRANGER, ex, seeds=[rng.seed32(), rng.seed32()], budget=0)
        gated_probes(tr, variant, su, rng)
        for _ in range(60):
            r = tr.call(STRANGER, ex, seeds=[rng.seed32(), rng.seed32()])
            if r["st"] != "ok" or r.get("ret") == "[0]":
                break
    tr.dump()
    gated_probes(tr, variant, su, rng)
    timeline_setters(tr, su, rng)
    if tr.round < su.claim:
        tr.round = su.claim - 1
        gated_probes(tr, variant, su, rng)
    tr.round = max(tr.round, su.claim)
    gated_probes(tr, variant, su, rng)
    timeline_setters(tr, su, rng)
    tr.call(10, "claim")
    tr.call(OWNER, "claimPayment")
    tr.dump()
    # going "back in time" is not a chain behaviour: rounds only grow
    return tr


# ------------------------------------------------------------------------------------------
# deploy
# ------------------------------------------------------------------------------------------

def run_deploy(pair, rng, variant, opts):
    """deployment arguments around every validity boundary (each deploy starts a fresh world)"""
    tr = Trace(pair, f"deploy-{variant}")
    tr.dump_addrs = [OWNER, SUPPORT, 10, STRANGER]
    tr.bound = 8
    for _ in range(opts.get("n", 12)):
        good = dict(lp=LP_TOK, per=100, paytok=rng.pick([0, PAY_TOK]), price=10, nrw=2, conf=10, sel=20, claim=30,
                    minc=1, lockpct=5000, unlock=50, lockaddr=LOCK, cost=(rng.pick([0, FEE_TOK]), 0, 5), avail=2,
                    rnd=0, epoch=rng.pick([0, 7]))
        a = dict(good)
        for _k in range(rng.pick([0, 1, 1, 1, 2])):
            which = rng.below(14)
            if which == 0:
                a["price"] = rng.pick([0, 1])
            elif which == 1:
                a["per"] = rng.pick([0, 1])
            elif which == 2:
                a["nrw"] = rng.pick([0, 1])
            elif which == 3:
                a["conf"], a["sel"], a["claim"] = rng.pick([(10, 10, 30), (10, 20, 20), (10, 20, 19), (20, 10, 30),
                                                            (0, 1, 1), (5, 6, 6), (10, 9, 9)])
            elif which == 4:
                a["paytok"] = rng.pick([LP_TOK, 1, 0, OTHER_TOK])
            elif which == 5:
                a["minc"] = rng.pick([0, 1, 5])
            elif which == 6:
                a["lockpct"] = rng.pick([0, 1, 9999, 10000, 10001, 4294967295])
            elif which == 7:
                a["unlock"] = rng.pick([0, a["epoch"], a["epoch"] + 1, a["epoch"] - 1 if a["epoch"] else 0])
            elif which == 8:
                a["lockaddr"] = rng.pick([0, 10, LOCK, CCALLER])
            elif which == 9:
                a["cost"] = rng.pick([(0, 1, 5), (0, 0, 0), (1, 0, 5), (FEE_TOK, 3, 5), (FEE_TOK, 0, 0), (LP_TOK, 0, 5)])
            elif which == 10:
                a["avail"] = rng.pick([0, 1])
            elif which == 11:
                a["rnd"] = rng.pick([0, 10, 25])
            elif which == 12:
                a["lp"] = rng.pick([LP_TOK, PAY_TOK])
            else:
                a["price"] = 10 ** 30
        tr.round, tr.epoch = a["rnd"], a["epoch"]
        line = deploy_line(variant, OWNER, a["rnd"], a["epoch"], a["lp"], a["per"], a["paytok"], a["price"], a["nrw"],
                           a["conf"], a["sel"], a["claim"], minc=a["minc"], lockpct=a["lockpct"], unlock=a["unlock"],
                           lockaddr=a["lockaddr"], cost=a["cost"], avail=a["avail"])
        r = tr.send(line)
        if r.startswith("R ok"):
            tr.dump()
            # the deployed contract is usable: one allocation and a deposit probe
            tr.call(OWNER, alloc_ep(variant), alloc_args(variant, [(10, 2)]))
            tr.call(OWNER, "deposit", esdts=[(a["lp"], 0, a["per"] * a["nrw"])], probe=True)
            tr.dump()
    return tr


# ------------------------------------------------------------------------------------------
# reserve
# ------------------------------------------------------------------------------------------

def run_reserve(pair, rng, variant, opts):
    """guaranteed-ticket variants: allocation with guarantees, batched blacklisting and un-blacklisting
    (before and after the deposit, re-using freed reservations), deposit probes at every checkpoint"""
    tr = Trace(pair, f"reserve-{variant}")
    nrw = rng.range(3, 9)
    su = Setup(tr, variant, nrw=nrw, minc=rng.range(1, 2))
    users = list(range(10, 20))
    if not su.deploy(users):
        return tr
    if variant in NFT:
        tr.call(OWNER, "sftSetup")
    tr.call(OWNER, "setSupport", [SUPPORT])
    ep = alloc_ep(variant)
    tr.bound = 80
    allocated, black = [], set()
    pending = list(users)

    def entry(u):
        if variant in V1ALLOC:
            st = rng.pick([0, su.minc, su.minc + 1])
            return [u, st, rng.range(0, 2), 1 if rng.chance(1, 2) else 0]
        n = rng.range(1, 4)
        m = rng.pick([0, 1, 1, 2])
        flat = []
        for _ in range(m):
            g = rng.range(0, 2)
            flat += [g, max(g, rng.range(1, n))]
        return [u, n, m] + flat

    def deposit_probe():
        d = tr.dump()
        g, _ = canon.parse_D(d)
        amt = int(g["per"]) * (int(g["nrw"]) + int(g.get("tg", "0")))
        for delta in (0, 1, -1):
            if amt + delta > 0:
                tr.call(OWNER, "deposit", esdts=[(LP_TOK, 0, amt + delta)], probe=True)
        if amt > 0:
            tr.call(OWNER, "deposit", esdts=[(5, 0, amt)], probe=True)   # right amount, wrong token (token 5 is used by nothing else)
        return g

    deposited = False
    if variant in UNBL and rng.chance(1, 2) and len(pending) >= 2:
        # prelude: a guarantee holder whose guaranteed count is smaller than his threshold is blacklisted and
        # un-blacklisted again — the round trip must leave the reserve exactly where it was
        h, pending = pending[0], pending[1:]
        if variant in V1ALLOC:
            args = [1, h, su.minc + 1, 1, 1]
        else:
            args = [1, h, 4, 2, 1, 3, 1, 4]
        if tr.call(OWNER, ep, args)["st"] == "ok":
            allocated.append(h)
            tr.dump()
            # (v2 offers two blacklisting endpoints, `addUsersToBlacklist` and `refundUserTickets`: the round trip
            # must work after either of them)
            bep0 = "refundUsers" if variant == "guarV2" and rng.chance(1, 2) else "blacklist"
            if tr.call(OWNER, bep0, [1, h])["st"] == "ok":
                tr.dump()
                tr.call(OWNER, "unblacklist", [1, h])
            tr.dump()
    for stepi in range(rng.range(10, 22)):
        k = rng.below(10)
        if k < 3 and pending:
            cnt = rng.range(1, min(3, len(pending)))
            batch, pending = pending[:cnt], pending[cnt:]
            args = [len(batch)]
            for u in batch:
                args += entry(u)
            res = tr.call(OWNER, ep, args)
            if res["st"] == "ok":
                allocated += batch
        elif k < 6 and allocated:
            cands = [u for u in allocated if u not in black]
            if cands:
                vs = rng.shuffle(cands)[:rng.range(1, min(3, len(cands)))]
                if rng.chance(1, 8):
                    vs = vs + [vs[0]]
                bep = "refundUsers" if variant == "guarV2" and rng.chance(1, 3) else "blacklist"
                res = tr.call(rng.pick([OWNER, OWNER, SUPPORT]), bep, [len(vs)] + vs)
                if res["st"] == "ok":
                    black |= set(vs)
        elif k < 8 and black and variant in UNBL:
            vs = rng.shuffle(sorted(black))[:rng.range(1, min(2, len(black)))]
            res = tr.call(rng.pick([OWNER, SUPPORT]), "unblacklist", [len(vs)] + vs)
            if res["st"] == "ok":
                black -= set(vs)
        elif k == 8 and not deposited:
            g = deposit_probe()
            amt = int(g["per"]) * (int(g["nrw"]) + int(g.get("tg", "0")))
            res = tr.call(OWNER, "deposit", esdts=[(LP_TOK, 0, amt)])
            deposited = res["st"] == "ok"
        else:
            deposit_probe()
        tr.dump()
        if stepi == 12 and rng.chance(1, 2):
            # move into the confirmation window: allocations stop, blacklist changes continue
            if not deposited:
                g = deposit_probe()
                amt = int(g["per"]) * (int(g["nrw"]) + int(g.get("tg", "0")))
                deposited = tr.call(OWNER, "deposit", esdts=[(LP_TOK, 0, amt)])["st"] == "ok"
            tr.round = su.conf
            pending = []
            for u in allocated:
                if u not in black and rng.chance(2, 3):
                    tr.call(u, "confirm", [1], **su.pay(su.price))
            tr.dump()
    if rng.chance(2, 3):
        # run the launch to the end: whatever the allocation / blacklist / un-blacklist history did to the reserve,
        # the final number of winners must be min(configured, confirmed) and every guarantee must be honoured
        if not deposited:
            g = deposit_probe()
            amt = int(g["per"]) * (int(g["nrw"]) + int(g.get("tg", "0")))
            deposited = tr.call(OWNER, "deposit", esdts=[(LP_TOK, 0, amt)])["st"] == "ok"
        if tr.round < su.conf:
            tr.round = su.conf
        d = tr.dump()
        if d.startswith("D "):
            _, addrs = canon.parse_D(d)
            for u in allocated:
                a = addrs.get(u, {})
                rg = a.get("range", "none")
                if u in black or a.get("bl") == "1" or "-" not in rg:
                    continue
                f_, l_ = [int(x) for x in rg.split("-")]
                left = (l_ - f_ + 1) - int(a.get("conf", "0"))
                want = left if rng.chance(3, 4) else rng.range(0, max(left, 0))
                if want > 0:
                    tr.call(u, "confirm", [want], **su.pay(su.price * want))
        tr.dump()
        tr.round = su.sel
        tr.call(STRANGER, "filter", seeds=[rng.seed32()])
        tr.call(OWNER, "select", seeds=[rng.seed32()])
        tr.dump()
        xe = su.extra_ep()
        if xe:
            for _ in range(3):
                res = tr.call(OWNER, xe, seeds=[rng.seed32(), rng.seed32()])
                if res["st"] != "ok" or res.get("ret") == "[0]":
                    break
        tr.dump()
    return tr


# ------------------------------------------------------------------------------------------
# topup
# ------------------------------------------------------------------------------------------

def run_topup(pair, rng, variant, opts):
    """guaranteed-ticket variants: one small configuration (a guarantee holder between two plain
    participants), then EVERY outcome of the base lottery (scripted residue vectors) followed by the
    distribution step, each from the same snapshot: the holder's own tickets may already be winning
    at the first / middle / last position of the range, fully, or not at all"""
    tr = Trace(pair, f"topup-{variant}")
    minc = rng.range(1, 2)
    holders = rng.range(1, 2)
    order = rng.shuffle([10, 11, 12])
    hs = order[:holders]
    entries, sizes, reserved = {}, {}, 0
    for u in (10, 11, 12):
        if u in hs:
            if variant in V1ALLOC:
                st = minc + rng.range(0, 1)
                en = rng.range(0, 2)
                mig = 1 if rng.chance(2, 3) else 0
                entries[u] = [u, st, en, mig]
                sizes[u] = st + en
                reserved += 1 + mig
            else:
                n = rng.range(2, 4)
                flat, m = [], rng.range(1, 2)
                for _ in range(m):
                    g = rng.range(1, 2)
                    flat += [g, rng.range(g, n)]
                    reserved += g
                entries[u] = [u, n, m] + flat
                sizes[u] = n
        else:
            n = rng.range(1, 2)
            entries[u] = [u, 0, n, 0] if variant in V1ALLOC else ([u, n, 0] if variant == "guarV2" else [u, n])
            sizes[u] = n
    base = rng.range(0, 2)
    su = Setup(tr, variant, nrw=reserved + base, minc=minc, avail=1)
    if not su.deploy([10, 11, 12]):
        return tr
    args = [3]
    for u in (10, 11, 12):
        args += entries[u]
    if tr.call(OWNER, alloc_ep(variant), args)["st"] != "ok":
        return tr
    tr.bound = sum(sizes.values()) + 6
    if variant in NFT:
        tr.call(OWNER, "sftSetup")
    su.deposit()
    tr.round = su.conf
    total = 0
    for u in (10, 11, 12):
        n = sizes[u] if (u not in hs or rng.chance(3, 4)) else rng.range(0, sizes[u])
        if n > 0 and tr.call(u, "confirm", [n], **su.pay(su.price * n))["st"] == "ok":
            total += n
    tr.round = su.sel
    tr.call(STRANGER, "filter")
    d = tr.dump()
    g, _ = canon.parse_D(d)
    kk = min(int(g["nrw"]), total)
    tr.send("snap t")
    vectors = list(residue_vectors(total, kk)) if kk > 0 else [[]]
    if len(vectors) > opts.get("max_vectors", 40):
        vectors = rng.shuffle(vectors)[:opts.get("max_vectors", 40)]
    ep = su.extra_ep()
    for cs in vectors:
        tr.send("restore t")
        tr.dump()
        res = tr.call(STRANGER, "select", seeds=[rng.seed32()], script=list(cs), budget=None)
        if res["st"] != "ok":
            break
        tr.dump()
        budgets = [] if rng.chance(1, 2) else [rng.below(3) for _ in range(3)]
        drive_chunked(tr, rng, ep, [rng.seed32(), rng.seed32()], budgets, [OWNER, STRANGER], allow_noise=False)
        tr.dump()
    return tr


# ------------------------------------------------------------------------------------------
# vest
# ------------------------------------------------------------------------------------------

def run_vest(pair, rng, variant, opts):
    """vesting variants: a multi-release schedule, winners with entitlements not divisible by the
    percentages, claims at arbitrary rounds (before, at, between and long after the releases), repeated
    claims, schedule-change attempts and pauses in the middle of the vesting period"""
    tr = Trace(pair, f"vest-{variant}")
    nusers = rng.range(2, 4)
    per = rng.pick([100, 999, 7, 10**18 + 1, 3333])
    su = Setup(tr, variant, nrw=rng.range(nusers, 2 * nusers + 1), per=per, claim=rng.pick([20, 25, 30]))
    users = list(range(10, 10 + nusers))
    if not su.deploy(users):
        return tr
    base = su.claim
    # schedule acceptance: probes (run on a copy, discarded) with exactly ONE defect each, next to the valid twin
    if variant == "guarV2":
        now = tr.round
        LIM = 26280000
        def sched(ms):
            a = [len(ms)]
            for (r_, p_) in ms:
                a += [r_, p_]
            return a
        probes = [
            [(base, 10000)],                                         # valid
            [(base, 5000), (base, 5000)],                            # valid, equal rounds
            [(base + 5, 5000), (base + 4, 5000)],                    # decreasing rounds
            [(now + LIM, 10000)],                                    # exactly at the 5-year limit (valid)
            [(now + LIM + 1, 10000)],                                # one round beyond
            [(base, 9999)], [(base, 5000), (base + 1, 5001)],        # 99.99 % / 100.01 %
            [(base, 10001)],                                         # a single percentage above 100 %
            [],                                                      # empty
            [(base + i, 166 if i < 59 else 10000 - 166 * 59) for i in range(60)],      # 60 milestones (valid)
            [(base + i, 163 if i < 60 else 10000 - 163 * 60) for i in range(61)],      # 61 milestones
        ]
        for ms in rng.shuffle(probes)[:rng.range(3, 6)]:
            tr.call(OWNER, "setSchedule2", sched(ms), probe=True)
        if rng.chance(1, 2):
            # a release round in the past: needs time to have passed (still before the confirmation start)
            tr.round = rng.range(1, su.conf - 1)
            tr.call(OWNER, "setSchedule2", sched([(tr.round - 1, 5000), (base, 5000)]), probe=True)
            tr.call(OWNER, "setSchedule2", sched([(tr.round, 5000), (base, 5000)]), probe=True)     # "now" is allowed
    else:
        probes = [
            [base, 10000, 0, 0, 0], [base, 5000, 2, 2500, 3], [base, 5000, 2, 2500, 0],    # valid, valid, zero period
            [base, 5000, 2, 2501, 3], [base, 4999, 2, 2500, 3], [base, 0, 3, 3333, 1], [base, 1, 3, 3333, 1],
            [base, 10001, 0, 0, 1], [base, 0, 0, 0, 1], [base, 0, 1, 10000, 1],
        ]
        for a in rng.shuffle(probes)[:rng.range(3, 6)]:
            tr.call(OWNER, "setSchedule1", a, probe=True)
        if rng.chance(1, 2):
            tr.round = rng.range(1, su.conf - 1)
            tr.call(OWNER, "setSchedule1", [tr.round - 1, 10000, 0, 0, 0], probe=True)      # start in the past
            tr.call(OWNER, "setSchedule1", [tr.round, 10000, 0, 0, 0], probe=True)
    if variant == "guarV1":
        times = rng.range(1, 5)
        pct = rng.pick([10000 // (times + 1), 1000, 2500])
        initial = 10000 - times * pct
        period = rng.range(1, 7)
        start = base + rng.range(0, 4)
        if initial < 0:
            initial, times, pct = 5000, 2, 2500
        tr.call(OWNER, "setSchedule1", [start, initial, times, pct, period])
        last_release = start + times * period
    else:
        k = rng.range(1, 5)
        cuts = sorted(rng.range(1, 9999) for _ in range(k - 1))
        pcts, prev = [], 0
        for c in cuts + [10000]:
            pcts.append(c - prev)
            prev = c
        rounds, rr = [], base + rng.range(0, 3)
        for _ in pcts:
            rounds.append(rr)
            rr += rng.range(0, 6)
        args = [len(pcts)]
        for a, b in zip(rounds, pcts):
            args += [a, b]
        tr.call(OWNER, "setSchedule2", args)
        last_release = rounds[-1]
    pairs = [(u, rng.range(1, 3)) for u in users]
    su.allocate(pairs)
    su.deposit()
    # the schedule is frozen from the confirmation start round on: one round before (allowed), exactly at it and
    # after it (both rejected: confirmation has begun), each as a probe with a perfectly valid schedule
    tr.dump()
    for rr in (su.conf - 1, su.conf, su.conf + 1):
        tr.round = rr
        if variant == "guarV1":
            tr.call(OWNER, "setSchedule1", [base + 1, 10000, 0, 0, 0], probe=True)
        else:
            tr.call(OWNER, "setSchedule2", [1, base + 1, 10000], probe=True)
    tr.dump()
    su.confirm_all(pairs)
    tr.round = su.sel
    tr.call(STRANGER, "filter")
    tr.call(STRANGER, "select", seeds=[rng.seed32()])
    for _ in range(40):
        r = tr.call(STRANGER, "distribute", seeds=[rng.seed32(), rng.seed32()])
        if r["st"] != "ok" or r.get("ret") == "[0]":
            break
    tr.round = su.claim
    tr.dump()
    horizon = last_release + 8
    steps = rng.range(8, 18)
    for i in range(steps):
        tr.round = min(horizon + 5, tr.round + rng.pick([0, 0, 1, 1, 2, 3, 5]))
        k = rng.below(12)
        u = rng.pick(users)
        if k < 7:
            tr.call(u, "claim")
        elif k < 8:
            tr.call(OWNER, "claimPayment")
        elif k < 10:
            if variant == "guarV1":
                res = tr.call(OWNER, "setSchedule1", [tr.round + rng.range(0, 2), 10000, 0, 0, 0])
            else:
                res = tr.call(OWNER, "setSchedule2", [1, tr.round + rng.range(0, 2), 10000])
            if res["st"] == "ok":
                tr.dump()
                tr.round += 2
                for b in users:
                    tr.call(b, "claim")
                    tr.dump()
        else:
            tr.call(OWNER, "pause")
            tr.dump()
            tr.call(u, "claim")
            tr.dump()
            tr.call(OWNER, "unpause")
        tr.dump()
    tr.round = horizon + 10
    for u in users:
        tr.call(u, "claim")
        tr.dump()
    tr.call(OWNER, "claimPayment")
    tr.dump()
    for u in users:
        tr.call(u, "claim")
    tr.dump()
    return tr


def run_life(pair, rng, variant, opts):
    tr = Trace(pair, f"life-{variant}")
    Life(tr, rng, variant, opts).run()
    return tr


RUNNERS = {"topup": run_topup, "vest": run_vest, "reserve": run_reserve, "deploy": run_deploy, "life": run_life, "fy": run_fy, "chunks": run_chunks, "perm": run_perm, "alloc": run_alloc,
           "timeline": run_timeline}
