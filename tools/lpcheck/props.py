"""Per-property configuration: theorem modules, generator profiles, projections, monitors."""

ALL_VARIANTS = ["base", "locked", "nft", "guarV1", "guarV2", "migration", "lockedGuar", "nftGuar"]
GUAR = ["guarV1", "guarV2", "migration", "lockedGuar", "nftGuar"]

ANY = "*"

# Which disagreement belongs to which property.
#  R: result-line field -> endpoints for which it matters (ANY = all); for the status field an
#     entry may be (endpoints, [message fragments]): then the disagreement is relevant only if
#     one side's rejection message contains one of the fragments (a vesting bug that makes a
#     claim fail is not a permission problem).
#  D: dump key -> endpoints whose (committed) execution directly preceded the dump
STAGE_MSGS = ["period", "before winner selection", "already filtered", "Must filter", "already selected",
              "Must select winners", "Already distributed", "Already selected NFT", "Already performed",
              "Cannot change start round", "Start round cannot be in the past", "start round must be",
              "Claim period must be", "invalid time periods", "Winner selection start round"]
PERM_MSGS = ["only be called by owner", "Permission denied", "only be called by user accounts"]
PAUSE_MSGS = ["Contract is paused"]
FUNDS_MSGS = ["insufficient funds", "cannot subtract", "negative", "balance - needed", "claimable - claimed"]
RESERVE_MSGS = ["Too many users with guaranteed", "Not enough winning tickets", "Number of winning tickets exceeded",
                "panic", "total_guaranteed"]
SELECT_EPS = {"filter", "select", "distribute", "selectNft", "secondary"}
ALLOC_EPS = {"addTickets", "addTicketsV1", "addTicketsV2"}
BL_EPS = {"blacklist", "refundUsers", "unblacklist"}

PROPS = {
    "C01": dict(
        title="Ticket-payment solvency",
        lean=["LP.Props.C01", "LP.Props.C01reach", "LP.Props.C01reachV2", "LP.Props.C01reachV1", "LP.Props.C01reachG1", "LP.Props.C14reach", "LP.Props.C14reachG", "LP.Props.AllVariants", "LP.Props.C09nothing", "LP.Props.C01receipts", "LP.Props.C01owner", "LP.Props.C01zero", "LP.Props.C14zero", "LP.Props.C01zeroV1", "LP.Props.C01zeroG1", "LP.Props.C14zeroG", "LP.Props.C14zeroGfull", "LP.Props.C01zeroG1full", "LP.Props.C01zeroV1more", "LP.Props.C01zeroG1more"],
        profiles=[("life", ALL_VARIANTS), ("chunks", ALL_VARIANTS)],
        R={"xf.pay": {"claim", "claimPayment", "blacklist", "refundUsers"},
           "st": ({"claim", "claimPayment"}, FUNDS_MSGS)},
        D={"bal.pay": ANY, "cpay": ANY, "price": {"claim", "claimPayment", "confirm", "select", "distribute", "secondary"}},
    ),
    "C02": dict(
        title="Launchpad-token solvency",
        lean=["LP.Props.C02", "LP.Props.C01reachV2", "LP.Props.C01reachV1", "LP.Props.C01reachG1", "LP.Props.C13reachV2", "LP.Props.C14reachG", "LP.Props.C14feeLp", "LP.Props.C02reach", "LP.Props.AllVariants2", "LP.Props.C16reach", "LP.Props.C01receipts", "LP.Props.C01owner", "LP.Props.C01zero", "LP.Props.C01zeroV1more", "LP.Props.C01zeroG1more"],
        profiles=[("life", ALL_VARIANTS), ("reserve", GUAR), ("vest", ["guarV1", "guarV2"])],
        R={"st": [({"deposit"}, None), ({"claim", "claimPayment"}, FUNDS_MSGS)],
           "xf.lp": {"claim", "claimPayment"}, "lock": ANY},
        D={"bal.lp": ANY, "tdep": ANY, "dep": ANY, "per": {"deposit", "claim", "claimPayment"}, "views.C02": ANY},
    ),
    "C03": dict(
        title="Exactly min(T, confirmed) distinct winners",
        lean=["LP.Props.C03base", "LP.Props.C03final", "LP.Props.C01reach", "LP.Props.C01reachV2", "LP.Props.C01reachV1", "LP.Props.C01reachG1", "LP.Props.C14reach", "LP.Props.C14reachG", "LP.Props.AllVariants2", "LP.Props.C03proceeds", "LP.Props.C01zero", "LP.Props.C14zero", "LP.Props.C01zeroV1", "LP.Props.C01zeroG1", "LP.Props.C01zeroG1full", "LP.Props.C01zeroV1more"],
        profiles=[("life", ALL_VARIANTS), ("fy", ["base", "guarV2"]), ("chunks", GUAR), ("topup", GUAR), ("reserve", GUAR)],
        R={"ret": {"select", "distribute"}},
        D={"nrw": SELECT_EPS | {"claim"}, "status": SELECT_EPS, "cpay": SELECT_EPS, "last": SELECT_EPS, "addr.win": SELECT_EPS,
           "views.C03": ANY},
    ),
    "C04": dict(
        title="Interrupted operations resume to the same result",
        lean=["LP.Props.C04loop", "LP.Props.C08", "LP.Props.C04select", "LP.Props.C03final", "LP.Props.C04unstuck", "LP.Props.C04unstuck2", "LP.Props.C04unstuck3"],
        profiles=[("chunks", ALL_VARIANTS), ("life", ALL_VARIANTS)],
        R={"ret": SELECT_EPS, "st": (SELECT_EPS, None), "draws": SELECT_EPS, "hang": ANY},
        D={k: SELECT_EPS for k in ["op", "status", "p2i", "batch", "flags", "nrw", "last", "cpay", "wl", "payers",
                                   "nftw", "cnft", "addr.range", "addr.win"]},
    ),
    "C05": dict(
        title="Faithful, unbiased partial Fisher-Yates",
        lean=["LP.Props.C05"],
        profiles=[("fy", ["base", "guarV2", "nft"]), ("life", ["base", "locked", "guarV1"])],
        R={"draws": {"select"}},
        D={"status": {"select"}, "p2i": {"select"}, "addr.win": {"select"}},
    ),
    "C06": dict(
        title="Lifecycle gating and monotonicity",
        lean=["LP.Props.C06gates", "LP.Props.C06stage", "LP.Props.C06run", "LP.Props.C10reach", "LP.Props.C06once"],
        profiles=[("timeline", ALL_VARIANTS), ("life", ALL_VARIANTS), ("deploy", ALL_VARIANTS),
                  ("chunks", ["nft"] + GUAR)],
        R={"st": [(ANY, STAGE_MSGS), ({"deploy"}, None)]},
        D={"cfg": ANY, "flags": ANY, "views.C06": ANY},
    ),
    "C07": dict(
        title="Confirmation: exact payment, within allocation",
        lean=["LP.Props.C07", "LP.Props.C18reach", "LP.Props.C17refund"],
        profiles=[("life", ALL_VARIANTS)],
        R={"st": ({"confirm"}, None), "ev": {"confirm"}, "xf": {"confirm"}},
        D={"addr.conf": {"confirm"}, "bal.pay": {"confirm"}},
    ),
    "C08": dict(
        title="Filtering keeps exactly the confirmed tickets",
        lean=["LP.Props.C08", "LP.Props.C18reach", "LP.Props.C03proceeds"],
        profiles=[("life", ALL_VARIANTS)],
        R={"ret": {"filter"}, "st": ({"filter"}, None)},
        D={k: {"filter"} for k in ["addr.range", "addr.tix", "last", "nrw", "batch"]},
    ),
    "C09": dict(
        title="Each participant settles exactly once",
        lean=["LP.Props.C09", "LP.Props.C01reachG1", "LP.Props.C14reach", "LP.Props.C13reachV2", "LP.Props.C14reachG", "LP.Props.C02reach", "LP.Props.C09nothing", "LP.Props.C01receipts"],
        profiles=[("life", ALL_VARIANTS), ("vest", ["guarV1", "guarV2"])],
        R={"st": ({"claim"}, None), "xf": {"claim"}, "lock": {"claim"}, "sft": {"claim"}},
        D={k: {"claim"} for k in ["addr.cl", "addr.ut", "addr.uc", "addr.win", "addr.range", "addr.conf"]},
    ),
    "C10": dict(
        title="Blacklisting refunds in full and excludes; un-blacklisting restores",
        lean=["LP.Props.C10", "LP.Props.C10frame", "LP.Props.C10reach", "LP.Props.C09nothing", "LP.Props.C10roundtrip", "LP.Props.C10roundtripExec"],
        profiles=[("life", ALL_VARIANTS), ("reserve", GUAR)],
        R={"st": [(BL_EPS, None), ({"confirm"}, ["blacklist"])], "xf": {"blacklist", "refundUsers"}},
        D={k: BL_EPS for k in ["addr.bl", "addr.conf", "addr.uts", "addr.bluts", "wl", "tg", "nrw", "payers",
                               "addr.range", "bal.pay", "bal.fee"]},
    ),
    "C11": dict(
        title="Guarantees honoured with the holder's own tickets",
        lean=["LP.Props.C11topup", "LP.Props.C01reachV2", "LP.Props.C01reachV1", "LP.Props.C01reachG1", "LP.Props.C14reachG", "LP.Props.AllVariants2", "LP.Props.C14zeroG", "LP.Props.C14zeroGfull", "LP.Props.C01zeroV1more"],
        profiles=[("topup", GUAR), ("life", GUAR), ("chunks", GUAR), ("reserve", GUAR)],
        R={"ret": {"distribute"}},
        D={"status": {"distribute", "secondary"}, "addr.win": {"distribute", "secondary"}, "nrw": {"distribute", "secondary"}},
    ),
    "C12": dict(
        title="Guarantee reserve conserved; leftovers re-drawn",
        lean=["LP.Props.C12reserve", "LP.Props.C03final", "LP.Props.C01reachV2", "LP.Props.C01reachV1", "LP.Props.C01reachG1", "LP.Props.C14reachG", "LP.Props.AllVariants2", "LP.Props.C01zeroV1", "LP.Props.C01zeroG1", "LP.Props.C14zeroGfull", "LP.Props.C01zeroG1full"],
        profiles=[("reserve", GUAR), ("topup", GUAR), ("life", GUAR), ("chunks", GUAR)],
        R={"st": [(ALLOC_EPS | BL_EPS, RESERVE_MSGS), ({"deposit"}, ["Wrong amount"])],
           "draws": {"distribute"}},
        D={"nrw": ALLOC_EPS | BL_EPS | {"distribute", "secondary"}, "status": {"distribute", "secondary"}, "tg": ANY, "wl": ALLOC_EPS | BL_EPS,
           "addr.uts": ALLOC_EPS | BL_EPS, "addr.bluts": BL_EPS},
    ),
    "C13": dict(
        title="Vesting is path-independent, monotone, bounded",
        lean=["LP.Props.C13", "LP.Props.C01reachG1", "LP.Props.C13reachV2", "LP.Props.C01owner", "LP.Props.C01zeroG1full", "LP.Props.C01zeroG1more"],
        profiles=[("vest", ["guarV1", "guarV2"]), ("life", ["guarV1", "guarV2"])],
        R={"st": [({"setSchedule1", "setSchedule2"}, None), ({"claim"}, ["Already claimed all", "negative", "cannot subtract", "claimable - claimed", "insufficient funds"])],
           "xf.lp": {"claim"}},
        D={"sched": ANY, "addr.ut": {"claim"}, "addr.uc": {"claim"}, "addr.claimable": ANY},
    ),
    "C14": dict(
        title="NFT draw and fees",
        lean=["LP.Props.C14", "LP.Props.C14reach", "LP.Props.C14reachG", "LP.Props.C14feeLp", "LP.Props.C14zero", "LP.Props.C14zeroG", "LP.Props.C14zeroGfull"],
        profiles=[("life", ["nft", "nftGuar"]), ("chunks", ["nft", "nftGuar"]), ("deploy", ["nft", "nftGuar"])],
        R={"st": ({"deploy", "confirmNft", "selectNft", "secondary", "setNftCost"}, None), "sft": ANY,
           "xf.fee": {"claim", "claimPayment", "blacklist"}, "ret": {"selectNft", "secondary"}},
        D={k: ANY for k in ["payers", "nftw", "cnft", "cost", "avail", "addr.paid", "addr.won", "bal.fee"]},
    ),
    "C15": dict(
        title="Privileged endpoints reject everyone but their intended callers",
        lean=["LP.Props.C15"],
        profiles=[("perm", ALL_VARIANTS), ("life", ALL_VARIANTS)],
        R={"st": (ANY, PERM_MSGS), "abi": ANY},
        D={"sup": ANY, "views.C15": ANY},
    ),
    "C16": dict(
        title="Locked split",
        lean=["LP.Props.C16", "LP.Props.C02reach", "LP.Props.C16reach"],
        profiles=[("life", ["locked", "lockedGuar"]), ("deploy", ["locked", "lockedGuar"])],
        R={"lock": ANY, "xf.lp": {"claim"}, "st": ({"deploy"}, None)},
        D={"lockcfg": ANY, "views.C16": ANY},
    ),
    "C17": dict(
        title="Sale terms frozen",
        lean=["LP.Props.C17", "LP.Props.C13reachV2", "LP.Props.C14feeLp", "LP.Props.C17refund"],
        profiles=[("timeline", ALL_VARIANTS), ("life", ALL_VARIANTS), ("deploy", ALL_VARIANTS), ("vest", ["guarV1", "guarV2"])],
        R={"st": ({"deploy", "setTicketPrice", "setPerTicket", "setNftCost", "setSchedule1", "setSchedule2"}, None)},
        D={"price": ANY, "per": ANY, "cost": ANY, "sched": ANY, "views.C17": ANY},
    ),
    "C18": dict(
        title="Allocation",
        lean=["LP.Props.C18", "LP.Props.C18reach", "LP.Props.C03proceeds", "LP.Props.C01zero"],
        profiles=[("alloc", ALL_VARIANTS), ("life", ALL_VARIANTS)],
        R={"st": (ALLOC_EPS, None), "ev": {"addTicketsV2"}},
        D={k: ALLOC_EPS for k in ["addr.range", "addr.tix", "last", "batch", "addr.uts", "addr.utsview"]},
    ),
    "C19": dict(
        title="Pause",
        lean=["LP.Props.C19", "LP.Props.C19frame", "LP.Props.C04unstuck"],
        profiles=[("life", ALL_VARIANTS), ("vest", ["guarV2"])],
        R={"st": [(ANY, PAUSE_MSGS), ({"pause", "unpause"}, None)]},
        D={"paused": ANY, "views.C19": ANY},
    ),
    "C20": dict(
        title="Events",
        lean=["LP.Props.C20", "LP.Props.C20frame", "LP.Props.C20ledger"],
        profiles=[("life", ALL_VARIANTS), ("chunks", ALL_VARIANTS), ("topup", GUAR)],
        # the endpoints whose events the property speaks about; an event some OTHER endpoint might emit is not a
        # violation of C20 (rejected calls are reverted by the VM and cannot emit anything)
        R={"ev": {"confirm", "claim", "blacklist", "refundUsers", "unblacklist", "setTicketPrice", "filter", "select",
                  "addTicketsV2", "distribute", "setSchedule2"}},
        D={},
    ),
}


def _ep_ok(eps, ep):
    return eps == ANY or ep in eps


def relevant(pid, d):
    """does disagreement `d` (dict: kind, ep, fields, impl_msg, model_msg) concern property pid?"""
    p = PROPS[pid]
    if d.get("root"):
        return relevant(pid, d["root"])
    fields = d["fields"]
    if "protocol" in fields or "dump-format" in fields:
        return True
    ep = d.get("ep")
    if d["kind"] == "dump":
        return any(_ep_ok(p["D"][f], ep) for f in fields if f in p["D"])
    for f in fields:
        spec = p["R"].get(f)
        if spec is None and f.startswith("xf."):
            spec = p["R"].get("xf")
        if spec is None:
            continue
        if f != "st":
            if _ep_ok(spec, ep):
                return True
            continue
        specs = spec if isinstance(spec, list) else [spec]
        msgs = (d.get("impl_msg") or "") + " | " + (d.get("model_msg") or "")
        for (eps, frags) in specs:
            if not _ep_ok(eps, ep):
                continue
            if frags is None or any(fr.lower() in msgs.lower() for fr in frags):
                return True
    return False
