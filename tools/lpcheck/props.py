"""Per-property configuration: theorem modules, generator profiles, projections, monitors."""

ALL_VARIANTS = ["base", "locked", "nft", "guarV1", "guarV2", "migration", "lockedGuar", "nftGuar"]
GUAR = ["guarV1", "guarV2", "migration", "lockedGuar", "nftGuar"]

ANY = "*"

# Which disagreement fields belong to which property.
#  R: result-line field -> endpoints for which it matters (ANY = all)
#  D: dump keys (globals, or "addr.<key>")
PROPS = {
    "C01": dict(
        title="Ticket-payment solvency",
        lean=["LP.Props.C01"],
        profiles=[("life", ALL_VARIANTS)],
        R={"xf": {"claim", "claimPayment", "blacklist", "refundUsers"}, "st": {"claim", "claimPayment"}},
        D={"bal", "cpay", "price", "addr.conf", "addr.win", "cnft"},
    ),
    "C02": dict(
        title="Launchpad-token solvency",
        lean=["LP.Props.C02"],
        profiles=[("life", ALL_VARIANTS)],
        R={"st": {"deposit", "claimPayment"}, "xf": {"claim", "claimPayment"}, "lock": ANY},
        D={"bal", "tdep", "dep", "per", "addr.ut", "addr.uc"},
    ),
    "C03": dict(
        title="Exactly min(T, confirmed) distinct winners",
        lean=["LP.Props.C03base"],
        profiles=[("life", ALL_VARIANTS), ("fy", ["base", "guarV2"])],
        R={"ret": {"select", "distribute", "secondary"}},
        D={"nrw", "status", "cpay", "last", "addr.win"},
    ),
    "C04": dict(
        title="Interrupted operations resume to the same result",
        lean=["LP.Props.C04loop", "LP.Props.C08"],
        profiles=[("chunks", ALL_VARIANTS), ("life", ALL_VARIANTS)],
        R={"ret": {"filter", "select", "distribute", "selectNft", "secondary"},
           "st": {"filter", "select", "distribute", "selectNft", "secondary"},
           "draws": ANY},
        D={"op", "status", "p2i", "batch", "flags", "nrw", "last", "cpay", "wl", "payers", "nftw", "cnft",
           "addr.range", "addr.win"},
    ),
    "C05": dict(
        title="Faithful, unbiased partial Fisher-Yates",
        lean=["LP.Props.C05"],
        profiles=[("fy", ["base", "guarV2", "nft"]), ("life", ["base", "locked", "guarV1"])],
        R={"draws": {"select"}},
        D={"status", "p2i", "addr.win"},
    ),
    "C06": dict(
        title="Lifecycle gating and monotonicity",
        lean=["LP.Props.C06gates", "LP.Props.C06stage"],
        profiles=[("timeline", ALL_VARIANTS), ("life", ALL_VARIANTS)],
        R={"st": ANY},
        D={"flags", "cfg"},
    ),
    "C07": dict(
        title="Confirmation: exact payment, within allocation",
        lean=["LP.Props.C07"],
        profiles=[("life", ALL_VARIANTS)],
        R={"st": {"confirm"}, "ev": {"confirm"}, "xf": {"confirm"}},
        D={"addr.conf", "bal"},
    ),
    "C08": dict(
        title="Filtering keeps exactly the confirmed tickets",
        lean=["LP.Props.C08"],
        profiles=[("life", ALL_VARIANTS)],
        R={"ret": {"filter"}, "st": {"filter"}},
        D={"addr.range", "addr.tix", "last", "nrw", "batch"},
    ),
    "C09": dict(
        title="Each participant settles exactly once",
        lean=["LP.Props.C09"],
        profiles=[("life", ALL_VARIANTS)],
        R={"st": {"claim"}, "xf": {"claim"}, "lock": {"claim"}, "sft": {"claim"}},
        D={"addr.cl", "addr.ut", "addr.uc", "addr.win"},
    ),
    "C10": dict(
        title="Blacklisting refunds in full and excludes; un-blacklisting restores",
        lean=["LP.Props.C10"],
        profiles=[("life", ALL_VARIANTS)],
        R={"st": {"blacklist", "refundUsers", "unblacklist", "confirm"},
           "xf": {"blacklist", "refundUsers"}},
        D={"addr.bl", "addr.conf", "addr.uts", "addr.bluts", "wl", "tg", "nrw", "payers"},
    ),
    "C11": dict(
        title="Guarantees honoured with the holder's own tickets",
        lean=["LP.Props.C11topup"],
        profiles=[("life", GUAR)],
        R={"ret": {"distribute", "secondary"}},
        D={"status", "addr.win"},
    ),
    "C12": dict(
        title="Guarantee reserve conserved; leftovers re-drawn",
        lean=["LP.Props.C12reserve"],
        profiles=[("life", GUAR)],
        R={"st": {"addTicketsV1", "addTicketsV2", "blacklist", "refundUsers", "unblacklist", "deposit"},
           "draws": {"distribute", "secondary"}},
        D={"nrw", "tg", "wl", "addr.uts", "addr.bluts"},
    ),
    "C13": dict(
        title="Vesting is path-independent, monotone, bounded",
        lean=["LP.Props.C13"],
        profiles=[("life", ["guarV1", "guarV2"])],
        R={"st": {"setSchedule1", "setSchedule2", "claim"}, "xf": {"claim"}},
        D={"sched", "addr.ut", "addr.uc", "addr.claimable"},
    ),
    "C14": dict(
        title="NFT draw and fees",
        lean=["LP.Props.C14"],
        profiles=[("life", ["nft", "nftGuar"])],
        R={"st": {"confirmNft", "selectNft", "secondary", "setNftCost"}, "sft": ANY,
           "xf": {"claim", "claimPayment", "blacklist"}, "ret": {"selectNft", "secondary"}},
        D={"payers", "nftw", "cnft", "cost", "avail", "addr.paid", "addr.won"},
    ),
    "C15": dict(
        title="Privileged endpoints reject everyone but their intended callers",
        lean=["LP.Props.C15"],
        profiles=[("perm", ALL_VARIANTS), ("life", ALL_VARIANTS)],
        R={"st": ANY},
        D={"sup"},
    ),
    "C16": dict(
        title="Locked split",
        lean=["LP.Props.C16"],
        profiles=[("life", ["locked", "lockedGuar"])],
        R={"lock": ANY, "xf": {"claim"}},
        D={"lockcfg"},
    ),
    "C17": dict(
        title="Sale terms frozen",
        lean=["LP.Props.C17"],
        profiles=[("life", ALL_VARIANTS)],
        R={"st": {"setTicketPrice", "setPerTicket", "setNftCost", "setSchedule1", "setSchedule2"}},
        D={"price", "per", "cost", "sched"},
    ),
    "C18": dict(
        title="Allocation",
        lean=["LP.Props.C18"],
        profiles=[("alloc", ALL_VARIANTS), ("life", ALL_VARIANTS)],
        R={"st": {"addTickets", "addTicketsV1", "addTicketsV2"}, "ev": {"addTicketsV2"}},
        D={"addr.range", "addr.tix", "last", "batch", "addr.uts"},
    ),
    "C19": dict(
        title="Pause",
        lean=["LP.Props.C19"],
        profiles=[("life", ALL_VARIANTS)],
        R={"st": {"confirm", "filter", "select", "distribute", "claim", "pause", "unpause"}},
        D={"paused"},
    ),
    "C20": dict(
        title="Events",
        lean=["LP.Props.C20"],
        profiles=[("life", ALL_VARIANTS)],
        R={"ev": ANY},
        D=set(),
    ),
}


def relevant(pid, ep, fields):
    """does a disagreement (in `fields`, on endpoint `ep` or on a dump when ep is None) concern pid?"""
    p = PROPS[pid]
    if "protocol" in fields or "dump-format" in fields:
        return True
    if ep is None:
        return any(f in p["D"] for f in fields)
    for f in fields:
        eps = p["R"].get(f)
        if eps is None:
            continue
        if eps == ANY or ep in eps:
            return True
    return False
