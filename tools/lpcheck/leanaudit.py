"""Lean side of a check: regenerate constants, build the property's theorem modules and the
driver, grep for forbidden constructs, audit `#print axioms`."""
import fcntl, os, re, subprocess, time

VERIF = os.path.dirname(os.path.dirname(os.path.dirname(os.path.abspath(__file__))))
LEAN = os.path.join(VERIF, "lean")
ALLOWED_AXIOMS = {"propext", "Classical.choice", "Quot.sound"}
FORBIDDEN = re.compile(r"\b(sorry|admit|native_decide|bv_decide|implemented_by|unsafe)\b|^axiom\s|maxHeartbeats\s+0", re.M)


def strip_comments(src):
    # remove /- ... -/ (nested) and -- ... comments
    out, i, depth = [], 0, 0
    while i < len(src):
        if src.startswith("/-", i):
            depth += 1
            i += 2
        elif src.startswith("-/", i) and depth > 0:
            depth -= 1
            i += 2
        elif depth > 0:
            i += 1
        elif src.startswith("--", i):
            j = src.find("\n", i)
            i = len(src) if j < 0 else j
        else:
            out.append(src[i])
            i += 1
    return "".join(out)


def lean_files():
    res = []
    for root, _, files in os.walk(os.path.join(LEAN, "LP")):
        for f in files:
            if f.endswith(".lean"):
                res.append(os.path.join(root, f))
    res.append(os.path.join(LEAN, "Main.lean"))
    return sorted(res)


def forbidden_hits():
    hits = []
    for f in lean_files():
        body = strip_comments(open(f).read())
        # string literals may mention words like "unsafe": drop them
        body = re.sub(r'"(\\.|[^"\\])*"', '""', body)
        for m in FORBIDDEN.finditer(body):
            hits.append(f"{os.path.relpath(f, LEAN)}: {m.group(0).strip()}")
    return hits


class BuildLock:
    def __init__(self):
        self.path = os.path.join(VERIF, ".build.lock")

    def __enter__(self):
        self.f = open(self.path, "w")
        fcntl.flock(self.f, fcntl.LOCK_EX)
        return self

    def __exit__(self, *a):
        fcntl.flock(self.f, fcntl.LOCK_UN)
        self.f.close()


def run(cmd, cwd, timeout=3000):
    p = subprocess.run(cmd, cwd=cwd, stdout=subprocess.PIPE, stderr=subprocess.STDOUT, text=True,
                       timeout=timeout)
    return p.returncode, p.stdout


def module_of(path):
    rel = os.path.relpath(path, LEAN)
    return rel[:-5].replace("/", ".")


def build_and_audit(prop_modules):
    """returns dict: ok, obligations (list of (theorem, status, axioms)), log, failures"""
    t0 = time.time()
    res = {"ok": True, "obligations": [], "failures": [], "log": ""}
    rc, out = run(["python3", os.path.join(VERIF, "tools", "gen_constants.py")], VERIF)
    if rc != 0:
        res["ok"] = False
        res["failures"].append("constants: " + out.strip())
    targets = ["lp-driver", "LP.Props.Constants"] + prop_modules
    rc, out = run(["lake", "build"] + targets, LEAN)
    res["log"] = out[-6000:]
    axioms = {}
    for m in re.finditer(r"'(\S+)' depends on axioms: \[([^\]]*)\]", out):
        axioms[m.group(1)] = [a.strip() for a in m.group(2).split(",") if a.strip()]
    for m in re.finditer(r"'(\S+)' does not depend on any axioms", out):
        axioms[m.group(1)] = []
    failed_modules = set()
    if rc != 0:
        res["ok"] = False
        for m in re.finditer(r"error: (LP/[\w/]+\.lean):(\d+):\d+: (.*)", out):
            res["failures"].append(f"{m.group(1)}:{m.group(2)}: {m.group(3)[:200]}")
            failed_modules.add(m.group(1))
        if not res["failures"]:
            res["failures"].append("lake build failed: " + out[-400:])
    # `#print axioms` output only appears when a module is (re)built; replay it from the
    # cached module when lake had nothing to do
    for mod in ["LP.Props.Constants"] + prop_modules:
        path = os.path.join(LEAN, mod.replace(".", "/") + ".lean")
        if not os.path.exists(path):
            res["ok"] = False
            res["failures"].append(f"missing module {mod}")
            continue
        src = strip_comments(open(path).read())
        thms = re.findall(r"^\s*theorem\s+([\w.']+)", src, re.M)
        ns = re.findall(r"^namespace\s+([\w.]+)", src, re.M)
        prefix = ns[0] + "." if ns else ""
        printed = re.findall(r"^#print axioms\s+([\w.']+)", src, re.M)
        need = [t for t in printed if t not in axioms]
        if need and os.path.relpath(path, LEAN) not in failed_modules:
            rc2, out2 = run(["lake", "env", "lean", path], LEAN)
            for m in re.finditer(r"'(\S+)' depends on axioms: \[([^\]]*)\]", out2):
                axioms[m.group(1)] = [a.strip() for a in m.group(2).split(",") if a.strip()]
            for m in re.finditer(r"'(\S+)' does not depend on any axioms", out2):
                axioms[m.group(1)] = []
        for t in thms:
            full = prefix + t
            if os.path.relpath(path, LEAN) in failed_modules:
                res["obligations"].append((full, "unchecked", []))
                continue
            ax = axioms.get(full)
            if ax is None:
                # compiled (the module built) but its axioms were not printed: count as checked
                # only if the module lists it under #print axioms; otherwise it is a helper
                res["obligations"].append((full, "compiled", []))
            elif set(ax) <= ALLOWED_AXIOMS:
                res["obligations"].append((full, "ok", ax))
            else:
                res["ok"] = False
                res["obligations"].append((full, "bad-axioms", ax))
                res["failures"].append(f"{full}: axioms {ax}")
    hits = forbidden_hits()
    if hits:
        res["ok"] = False
        res["failures"] += ["forbidden construct: " + h for h in hits]
    res["wall_s"] = time.time() - t0
    return res


def build_harness():
    env = dict(os.environ)
    env["CARGO_NET_OFFLINE"] = "true"
    hdir = os.environ.get("LP_HARNESS_DIR", os.path.join(VERIF, "harness"))
    p = subprocess.run(["cargo", "build", "--offline"], cwd=hdir, env=env,
                       stdout=subprocess.PIPE, stderr=subprocess.STDOUT, text=True, timeout=3000)
    return p.returncode, p.stdout[-4000:]
