"""Parsing and canonicalisation of result lines."""
import re


def split_top(s):
    """split a '[a,b(c,d),e]' body on top-level commas"""
    out, depth, cur = [], 0, ""
    for ch in s:
        if ch in "([":
            depth += 1
        elif ch in ")]":
            depth -= 1
        if ch == "," and depth == 0:
            out.append(cur)
            cur = ""
        else:
            cur += ch
    if cur != "":
        out.append(cur)
    return out


def parse_list(v):
    assert v.startswith("[") and v.endswith("]"), v
    return split_top(v[1:-1])


def parse_R(line):
    """'R <st> k=v k=v ...' -> dict"""
    if not line.startswith("R "):
        return {"st": "X", "raw": line}
    parts = line.split(" ")
    d = {"st": parts[1]}
    for kv in parts[2:]:
        if "=" in kv:
            k, v = kv.split("=", 1)
            d[k] = v
    if "msg" in d:
        # the message may contain spaces: recover it from the raw line
        d["msg"] = line.split(" msg=", 1)[1]
    return d


def canon_xf(v):
    """aggregate transfers per (recipient, token, nonce); sorted"""
    agg = {}
    for item in parse_list(v):
        to, tok, nonce, amt = item.split(":")
        key = (int(to), int(tok), int(nonce))
        agg[key] = agg.get(key, 0) + int(amt)
    return sorted((k, a) for k, a in agg.items() if a != 0)


R_FIELDS = ["ret", "ev", "xf", "lock", "sft", "draws"]


def tok_class(code, ctx):
    """lp / pay / fee / other, given the contract's current tokens"""
    if code == ctx.get("lp", 2):
        return "lp"
    if code == ctx.get("pay"):
        return "pay"
    if code == ctx.get("fee"):
        return "fee"
    return "other"


def diff_R(impl, model, ctx=None):
    """fields in which two result lines differ"""
    ctx = ctx or {}
    a, b = parse_R(impl), parse_R(model)
    if a["st"] != b["st"]:
        return ["st"]
    if a["st"] != "ok":
        return []
    out = []
    for f in R_FIELDS:
        x, y = a.get(f, "[]"), b.get(f, "[]")
        if f == "xf":
            cx, cy = dict(canon_xf(x)), dict(canon_xf(y))
            for k in set(cx) | set(cy):
                if cx.get(k) != cy.get(k):
                    out.append("xf." + tok_class(k[1], ctx))
        elif f == "sft":
            if sorted(parse_list(x)) != sorted(parse_list(y)):
                out.append(f)
        elif x != y:
            out.append(f)
    return sorted(set(out))


def parse_D(line):
    """'D k=v ... | a1:k=v ... | ...' -> (globals dict, {addr: dict})"""
    assert line.startswith("D "), line
    segs = line[2:].split(" | ")
    g = {}
    for kv in segs[0].split(" "):
        if "=" in kv:
            k, v = kv.split("=", 1)
            g[k] = v
    addrs = {}
    for seg in segs[1:]:
        seg = seg.strip()
        if not seg:
            continue
        head, rest = seg.split(":", 1)
        d = {}
        for kv in rest.split(" "):
            if "=" in kv:
                k, v = kv.split("=", 1)
                d[k] = v
        addrs[int(head[1:])] = d
    return g, addrs


def dump_ctx(g):
    """token roles from a parsed dump's globals"""
    ctx = {"lp": 2}
    if "price" in g:
        ctx["pay"] = int(g["price"].split(":")[0])
    if "cost" in g:
        ctx["fee"] = int(g["cost"].split(":")[0])
    return ctx


VIEW_OWNER = {
    # which property a public getter that disagrees with the storage it reports belongs to
    "getTicketPrice": "C17", "getLaunchpadTokensPerWinningTicket": "C17", "getNftCost": "C17", "getUnlockSchedule": "C17",
    "getLaunchpadTokensLockPercentage": "C16", "getLaunchpadTokensUnlockEpoch": "C16",
    "getNumberOfWinningTickets": "C03", "getNumberOfWinningTicketsForAddress": "C03", "getTotalNumberOfTickets": "C03",
    "getLaunchStageFlags": "C06", "getConfiguration": "C06",
    "getTotalLaunchpadTokensDeposited": "C02", "getLaunchpadTokenId": "C02",
    "isPaused": "C19", "getSupportAddress": "C15",
}


def diff_D(impl, model):
    if not (impl.startswith("D ") and model.startswith("D ")):
        return ["dump-format"] if impl != model else []
    gi, ai = parse_D(impl)
    gm, am = parse_D(model)
    out = []
    ctx = dump_ctx(gi)
    for k in sorted(set(gi) | set(gm)):
        if gi.get(k) != gm.get(k):
            if k == "bal":
                bi = dict(x.split(":") for x in parse_list(gi.get(k, "[]")))
                bm = dict(x.split(":") for x in parse_list(gm.get(k, "[]")))
                for t in set(bi) | set(bm):
                    if bi.get(t) != bm.get(t):
                        out.append("bal." + tok_class(int(t), ctx))
                continue
            if k == "views":
                for n in (gi.get(k, "ok") + "+" + gm.get(k, "ok")).split("+"):
                    if n != "ok":
                        out.append("views." + VIEW_OWNER.get(n, "C17"))
                continue
            out.append(k)
    for a in sorted(set(ai) | set(am)):
        di, dm = ai.get(a, {}), am.get(a, {})
        for k in sorted(set(di) | set(dm)):
            if di.get(k) != dm.get(k):
                out.append(f"addr.{k}")
    return sorted(set(out))
