"""Implementation-side property monitors.

Each monitor looks ONLY at what was sent and at the implementation's answers (never at the
model) and returns a list of (op index, message) violations.  They are what turns a broken
correspondence into a concrete failing history, and they also run on every trace on their own.
"""
from . import canon, gen


class View:
    """indexable view of a finished trace (implementation side only)"""

    def __init__(self, trace, ops=None, offset=0):
        self.ops = trace.ops if ops is None else ops
        self.offset = offset
        self.kind, self.call, self.R, self.D = [], [], [], []
        self.variant = None
        self.deploy = None
        for (line, impl, _m) in self.ops:
            if line.startswith("deploy"):
                self.kind.append("deploy")
                t = line.split()
                self.variant = t[1]
                self.deploy = dict(lp=int(t[5]), per=int(t[6]), paytok=int(t[7]), price=int(t[8]),
                                   nrw=int(t[9]), conf=int(t[10]), sel=int(t[11]), claim=int(t[12]),
                                   minc=int(t[13]), lockpct=int(t[14]), unlock=int(t[15]),
                                   lockaddr=int(t[16]), feetok=int(t[17]), fee=int(t[19]), avail=int(t[20]))
                self.call.append(None); self.R.append(canon.parse_R(impl)); self.D.append(None)
            elif line.startswith("call"):
                self.kind.append("call")
                self.call.append(gen.parse_call_line(line))
                self.R.append(canon.parse_R(impl)); self.D.append(None)
            elif line.startswith("dump"):
                self.kind.append("dump")
                self.call.append(None); self.R.append(None)
                self.D.append(canon.parse_D(impl) if impl.startswith("D ") else None)
            else:
                self.kind.append("other"); self.call.append(None); self.R.append(None); self.D.append(None)

    def prev_dump(self, i):
        for j in range(i - 1, -1, -1):
            if self.ops[j][0].startswith("restore"):
                return None     # the state was replaced by a snapshot: earlier dumps are stale
            if self.kind[j] == "dump" and self.D[j]:
                # only valid if no committed call lies between j and i
                for k in range(j + 1, i):
                    if self.kind[k] == "call" and not self.call[k]["probe"] and self.R[k]["st"] == "ok":
                        return None
                return self.D[j]
        return None

    def paused_before(self, i):
        """the contract's pause flag before operation i, from the implementation's own answers:
        the latest of (dump, accepted pause, accepted unpause); None when unknown"""
        for j in range(i - 1, -1, -1):
            if self.ops[j][0].startswith("restore") or self.kind[j] == "deploy":
                return None
            if self.kind[j] == "dump" and self.D[j]:
                return self.D[j][0].get("paused") == "1"
            if self.kind[j] == "call" and not self.call[j]["probe"] and self.R[j]["st"] == "ok":
                if self.call[j]["ep"] == "pause":
                    return True
                if self.call[j]["ep"] == "unpause":
                    return False
        return None

    def next_dump(self, i):
        if self.kind[i] == "call" and self.call[i]["probe"]:
            return None     # a probe runs on a copy of the state and is discarded: no later dump shows its effect
        for j in range(i + 1, len(self.ops)):
            if self.ops[j][0].startswith("restore"):
                return None
            if self.kind[j] == "dump" and self.D[j]:
                for k in range(i + 1, j):
                    if self.kind[k] == "call" and not self.call[k]["probe"] and self.R[k]["st"] == "ok":
                        return None
                return self.D[j]
            if self.kind[j] == "deploy":
                return None
        return None

    def accepted(self, i):
        return self.kind[i] == "call" and self.R[i]["st"] == "ok"

    def committed(self, i):
        return self.accepted(i) and not self.call[i]["probe"]


def views(trace):
    """one View per deployment: a trace may deploy several contracts one after the other"""
    starts = [i for i, (l, _, _) in enumerate(trace.ops) if l.startswith("deploy")]
    if len(starts) <= 1:
        return [View(trace)]
    out = []
    bounds = starts + [len(trace.ops)]
    if starts[0] > 0:
        out.append(View(trace, trace.ops[:starts[0]], 0))
    for a, b in zip(bounds, bounds[1:]):
        out.append(View(trace, trace.ops[a:b], a))
    return out


def run_all(trace, errors=None):
    """all monitors on all deployment segments: {pid: [(global index, message)]}; a monitor that
    raises is recorded under its own property only (errors[pid]) and never affects the others"""
    import traceback
    res = {}
    for v in views(trace):
        for pid, ms in MONITORS.items():
            for m in ms:
                try:
                    found = m(v)
                except Exception:
                    if errors is not None:
                        errors.setdefault(pid, []).append(traceback.format_exc()[-600:])
                    continue
                for (idx, msg) in found:
                    res.setdefault(pid, []).append((idx + v.offset, msg))
    return res


def ilist(v):
    return [int(x) for x in canon.parse_list(v)] if v not in (None, "") else []


def bal_of(g, tok):
    for item in canon.parse_list(g["bal"]):
        t, a = item.split(":")
        if int(t) == tok:
            return int(a)
    return 0


def done(g):
    return g["flags"][2] == "1" and g["flags"][3] == "1"


def price_of(g):
    t, a = g["price"].split(":")
    return int(t), int(a)


def xf_to(R, to, tok):
    tot = 0
    for (k, a) in canon.canon_xf(R.get("xf", "[]")):
        if k[0] == to and k[1] == tok:
            tot += a
    return tot


def participants(addrs):
    return {a: d for a, d in addrs.items() if d.get("range", "none") != "none"}


def winners_of(d):
    return ilist(d.get("win", "[]"))


def nft_same_token(v, tok):
    return v.variant in gen.NFT and v.deploy is not None


# ------------------------------------------------------------------------------------------

def m_C01(v):
    """payment-token solvency: holdings == owed after every dump; claim / withdrawal amounts"""
    out = []
    for i, k in enumerate(v.kind):
        if k == "dump" and v.D[i]:
            g, addrs = v.D[i]
            ptok, price = price_of(g)
            if ptok == 1:
                continue
            holding = bal_of(g, ptok)
            parts = participants(addrs)
            fee_same = False
            fee = 0
            if v.variant in gen.NFT and "cost" in g:
                ctok, cnonce, camt = g["cost"].split(":")
                fee_same = int(ctok) == ptok and int(cnonce) == 0
                fee = int(camt)
            if not done(g):
                owed = price * sum(int(d["conf"]) for d in addrs.values())
                if fee_same:
                    owed += fee * (len(ilist(g["payers"])) + len(ilist(g["nftw"])))
            else:
                owed = int(g["cpay"]) + price * sum(int(d["conf"]) - len(winners_of(d)) for d in parts.values())
                if fee_same:
                    owed += int(g["cnft"]) + fee * len(ilist(g["payers"]))
            if holding != owed:
                out.append((i, f"C01 holdings of payment token {holding} != owed {owed}"))
        if v.committed(i) and v.call[i]["ep"] == "claim":
            pd = v.prev_dump(i)
            if pd:
                g, addrs = pd
                ptok, price = price_of(g)
                c = v.call[i]["caller"]
                d = addrs.get(c)
                if d and d.get("range", "none") != "none" and d.get("cl") == "0":
                    exp = price * (int(d["conf"]) - len(winners_of(d)))
                    if v.variant in gen.NFT and "cost" in g:
                        ctok, cnonce, camt = g["cost"].split(":")
                        if int(ctok) == ptok and c in ilist(g["payers"]):
                            exp += int(camt)
                    got = xf_to(v.R[i], c, ptok)
                    lp = v.deploy["lp"]
                    if ptok != lp and got != exp:
                        out.append((i, f"C01 claim refund {got} != price*(confirmed-winning) {exp}"))
        if v.committed(i) and v.call[i]["ep"] == "claimPayment":
            pd = v.prev_dump(i)
            if pd:
                g, _ = pd
                ptok, price = price_of(g)
                exp = int(g["cpay"])
                if v.variant in gen.NFT and "cost" in g:
                    ctok, cnonce, camt = g["cost"].split(":")
                    if int(ctok) == ptok:
                        exp += int(g["cnft"])
                got = xf_to(v.R[i], v.call[i]["caller"], ptok)
                if got != exp:
                    out.append((i, f"C01 owner proceeds {got} != claimable {exp}"))
    return out


def m_C02(v):
    """launchpad-token solvency: deposit size, coverage, final zero"""
    out = bad_views(v, "C02")
    lp = v.deploy["lp"] if v.deploy else 2
    W_total = None
    for i, k in enumerate(v.kind):
        if v.accepted(i) and v.call[i]["ep"] == "deposit":
            pd = v.prev_dump(i)
            if pd:
                g, _ = pd
                amt = sum(a for (t, n, a) in v.call[i]["esdts"])
                exp = int(g["per"]) * (int(g["nrw"]) + int(g.get("tg", "0")))
                if amt != exp:
                    out.append((i, f"C02 deposit of {amt} accepted, per-ticket x winners = {exp}"))
                if len(v.call[i]["esdts"]) != 1 or any(t != lp for (t, n, a) in v.call[i]["esdts"]) or v.call[i].get("egld", 0):
                    out.append((i, f"C02 deposit accepted although it is not a single transfer of the launchpad token: {v.call[i]['esdts']}"))
                if int(g["nrw"]) + int(g.get("tg", "0")) != v.deploy["nrw"]:
                    out.append((i, f"C02/C12 tickets that can win {int(g['nrw']) + int(g.get('tg', '0'))} != configured {v.deploy['nrw']}"))
        if k == "dump" and v.D[i]:
            g, addrs = v.D[i]
            if g["dep"] != "1":
                continue
            per = int(g["per"])
            holding = bal_of(g, lp)
            if not done(g):
                if holding != int(g["tdep"]):
                    out.append((i, f"C02 launchpad-token holdings {holding} != deposited {g['tdep']} before claims"))
            else:
                parts = participants(addrs)
                owed = per * sum(len(winners_of(d)) for d in parts.values())
                owed += sum(max(0, int(d.get("ut", "0")) - int(d.get("uc", "0"))) for d in addrs.values())
                for a_, d in addrs.items():
                    if int(d.get("uc", "0")) > int(d.get("ut", "0")):
                        out.append((i, f"C02 winner {a_} has received {d.get('uc')} launchpad tokens, entitlement {d.get('ut')}"))
                if holding < owed:
                    out.append((i, f"C02 launchpad-token holdings {holding} < owed to winners {owed}"))
    return out


def m_C03(v):
    """exactly min(T, confirmed) distinct winners; three counts agree"""
    out = bad_views(v, "C03")
    seen_done = False
    for i, k in enumerate(v.kind):
        if k != "dump" or not v.D[i]:
            continue
        g, addrs = v.D[i]
        if g["flags"][2] != "1" or g["op"] != "none":
            continue   # counts are only defined between steps, not inside an interrupted one
        any_claim = any(d.get("cl") == "1" for d in addrs.values())
        cpay_zero_after_withdraw = False
        if any_claim:
            # settled participants' tickets are gone: the reported count must follow them down
            # (reported winners = sum of the remaining per-participant winner views, at all times)
            remaining = sum(len(winners_of(d)) for d in addrs.values())
            if done(g) and int(g["nrw"]) != remaining:
                out.append((i, f"C03 reported winners {g['nrw']} != sum of per-participant winners {remaining} after claims"))
            continue
        last = int(g["last"])
        wins = []
        for a, d in addrs.items():
            w = winners_of(d)
            if w:
                if d.get("range", "none") == "none":
                    out.append((i, f"C03 address {a} reports winners without a range"))
                    continue
                f, l = [int(x) for x in d["range"].split("-")]
                for t in w:
                    if not (f <= t <= l):
                        out.append((i, f"C03 winning ticket {t} outside its owner's range {d['range']}"))
                if d.get("bl") == "1":
                    out.append((i, f"C03 blacklisted address {a} holds winning tickets"))
            wins += w
        status = ilist(g["status"])
        if sorted(wins) != sorted(status):
            out.append((i, f"C03 winning flags {status} != union of per-participant winners {sorted(wins)}"))
        if len(set(status)) != len(status) or any(t < 1 or t > last for t in status):
            out.append((i, f"C03 winning ticket ids {status} not distinct within 1..{last}"))
        nrw = int(g["nrw"])
        if nrw != len(wins):
            out.append((i, f"C03 reported winners {nrw} != sum of per-participant winners {len(wins)}"))
        ptok, price = price_of(g)
        # owner's proceeds (if not yet withdrawn) / price == winners
        if g["flags"][3] == "1" or v.variant in ("base", "locked"):
            if int(g["cpay"]) not in (0, price * nrw) or (int(g["cpay"]) == 0 and nrw > 0 and not _withdrawn_before(v, i)):
                out.append((i, f"C03 owner proceeds {g['cpay']} != price x winners {price * nrw}"))
        if done(g):
            T = v.deploy["nrw"]
            if nrw != min(T, last):
                out.append((i, f"C03 final winners {nrw} != min(configured {T}, confirmed {last})"))
    return out


def _withdrawn_before(v, i):
    for j in range(i):
        if v.committed(j) and v.call[j]["ep"] == "claimPayment":
            return True
    return False


def textbook_fy(n, k, raws):
    arr = list(range(1, n + 1))
    for i in range(1, k + 1):
        j = i + raws[i - 1] % (n - i + 1)
        arr[i - 1], arr[j - 1] = arr[j - 1], arr[i - 1]
    return arr[:k]


def m_C05(v):
    """base lottery == textbook Fisher-Yates on the recorded raws; raws are the seed's words"""
    import hashlib
    out = []
    raws = []
    pre = None
    for i, k in enumerate(v.kind):
        if v.ops[i][0].startswith("restore") or k == "deploy":
            raws, pre = [], None
        if not v.committed(i):
            continue
        c, R = v.call[i], v.R[i]
        if c["ep"] == "select":
            if pre is None:
                pd = v.prev_dump(i)
                pre = pd[0] if pd else "unknown"
            raws += ilist(R.get("draws", "[]"))
            # raw draws are successive big-endian words of the seed, re-hashed every 8 draws
            expect_next = None
            for item in canon.parse_list(R.get("tap", "[]")):
                seed_hex, idx, raw = item.split(":")
                seed, idx, raw = bytes.fromhex(seed_hex), int(idx), int(raw)
                if len(seed) != 32:
                    out.append((i, f"C05 seed of {len(seed)} bytes"))
                    expect_next = None
                    continue
                if expect_next is not None and (seed, idx) != expect_next:
                    out.append((i, f"C05 generator state ({seed.hex()[:8]}…, {idx}) does not follow the previous draw: expected ({expect_next[0].hex()[:8]}…, {expect_next[1]})"))
                if idx + 4 > 32:
                    seed, idx = hashlib.sha256(seed).digest(), 0
                expect_next = (seed, idx + 4)
                if c["script"]:
                    continue
                if int.from_bytes(seed[idx:idx + 4], "big") != raw:
                    out.append((i, f"C05 raw draw {raw} is not the big-endian word at {idx} of the seed"))
            if R.get("ret") == "[0]":
                nd = v.next_dump(i)
                if pre not in (None, "unknown") and nd:
                    n, kk = int(pre["last"]), int(pre["nrw"])
                    if pre["flags"][1] == "1" and pre["status"] == "[]" and len(raws) >= kk and kk <= n:
                        exp = sorted(textbook_fy(n, kk, raws))
                        got = sorted(ilist(nd[0]["status"]))
                        if exp != got:
                            out.append((i, f"C05 winners {got} != textbook Fisher-Yates {exp} on raws {raws[:kk]} (n={n}, k={kk})"))
                        if len(raws) != kk:
                            out.append((i, f"C05 consumed {len(raws)} raws for {kk} winners"))
                raws, pre = [], None
    return out


def m_C07(v):
    """confirmation: exact single payment, within allocation"""
    out = []
    for i, k in enumerate(v.kind):
        if not (v.kind[i] == "call" and v.call[i]["ep"] == "confirm"):
            continue
        c, R = v.call[i], v.R[i]
        pd = v.prev_dump(i)
        if not pd:
            continue
        g, addrs = pd
        d = addrs.get(c["caller"])
        if d is None:
            continue
        n = int(c["args"][0])
        ptok, price = price_of(g)
        pays = [(0, 0, c["egld"])] if not c["esdts"] else c["esdts"]
        exact = len(pays) == 1 and pays[0][0] == ptok and pays[0][1] == 0 and pays[0][2] == price * n
        rg = d.get("range", "none")
        alloc = None
        if rg != "none" and "-" in rg:
            f_, l_ = [int(x) for x in rg.split("-")]
            alloc = max(l_ - f_ + 1, 0)
        elif rg == "none":
            alloc = 0
        if R["st"] == "ok":
            if not exact:
                out.append((i, f"C07 confirmation of {n} accepted with payment {pays}, price {ptok}:{price}"))
            if g["dep"] != "1":
                out.append((i, "C07 confirmation accepted before the launchpad tokens were deposited"))
            if d.get("bl") == "1":
                out.append((i, "C07 confirmation accepted from a blacklisted address"))
            if alloc is not None and int(d["conf"]) + n > alloc:
                out.append((i, f"C07 confirmed {int(d['conf']) + n} > allocation {alloc}"))
            if not c["probe"]:
                nd = v.next_dump(i)
                if nd:
                    g2, a2 = nd
                    if int(a2[c["caller"]]["conf"]) != int(d["conf"]) + n:
                        out.append((i, f"C07 confirmed count {a2[c['caller']]['conf']} != {int(d['conf']) + n}"))
                    if bal_of(g2, ptok) != bal_of(g, ptok) + price * n:
                        out.append((i, "C07 contract holdings did not grow by exactly the payment"))
        elif not c["probe"]:
            nd = v.next_dump(i)
            if nd and nd != pd and canon_eq_state(nd, pd) is False:
                out.append((i, "C07 rejected confirmation changed the state"))
    return out


def canon_eq_state(a, b):
    return a[0] == b[0] and a[1] == b[1]


def m_C08(v):
    """filtering keeps exactly the confirmed tickets; contiguous disjoint ranges"""
    out = []
    pre = None
    for i, k in enumerate(v.kind):
        if v.ops[i][0].startswith("restore") or k == "deploy":
            pre = None
        if not v.committed(i) or v.call[i]["ep"] != "filter":
            continue
        if pre is None:
            pd = v.prev_dump(i)
            pre = pd if pd else "unknown"
        if v.R[i].get("ret") == "[0]":
            nd = v.next_dump(i)
            if pre not in (None, "unknown") and nd and pre[0]["flags"][0] == "0":
                g0, a0 = pre
                g1, a1 = nd
                # allocation order from the batch chain of the pre-filter dump
                order = []
                for item in canon.parse_list(g0["batch"]):
                    first, rest = item.split(">")
                    addr, n = rest.split("x")
                    order.append((int(first), int(addr), int(n)))
                order.sort()
                nxt = 1
                ok_chain = all(a in a0 for (_, a, _) in order)
                if ok_chain:
                    for (_, a, n) in order:
                        if n == 0:
                            continue
                        conf = int(a0[a]["conf"])
                        exp = "none" if conf == 0 else f"{nxt}-{nxt + conf - 1}"
                        if a1[a]["range"] != exp:
                            out.append((i, f"C08 address {a} confirmed {conf}: range after filter {a1[a]['range']} != {exp}"))
                        nxt += conf
                    total = nxt - 1
                    if int(g1["last"]) != total:
                        out.append((i, f"C08 total tickets after filter {g1['last']} != sum of confirmed {total}"))
                    exp_nrw = min(int(g0["nrw"]), total)
                    if int(g1["nrw"]) != exp_nrw:
                        out.append((i, f"C08 winners count after filter {g1['nrw']} != min({g0['nrw']}, {total})"))
            pre = None
    return out


def m_C09(v):
    """each participant settles exactly once for what the views reported"""
    out = []
    lp = v.deploy["lp"] if v.deploy else 2
    # a participant with surviving tickets who has not settled yet must be able to: a claim that the contract itself
    # tried to execute and that broke on a transfer (the VM's "insufficient funds") means somebody else took the value
    for i, k in enumerate(v.kind):
        if k == "call" and v.call[i]["ep"] == "claim" and v.R[i]["st"] == "vm" and "insufficient" in v.R[i].get("msg", "").lower():
            pd = v.prev_dump(i)
            d = pd[1].get(v.call[i]["caller"]) if pd else None
            if d and d.get("range", "none") != "none" and d.get("cl") == "0":
                out.append((i, f"C09 the claim of participant {v.call[i]['caller']} (range {d['range']}, not settled) failed on a transfer: "
                               f"{v.R[i].get('msg', '')[:60]}"))
    if v.variant in gen.VESTED:
        # vested variants: whatever the number of claim calls, a participant never receives more than
        # tokens-per-ticket x the winning tickets the views reported when he settled
        entitled, got = {}, {}
        for i, k in enumerate(v.kind):
            if k == "deploy" or v.ops[i][0].startswith("restore"):
                entitled, got = {}, {}
            if v.committed(i) and v.call[i]["ep"] == "claim":
                c = v.call[i]["caller"]
                pd = v.prev_dump(i)
                if pd and c in pd[1] and pd[1][c].get("cl") == "0" and pd[1][c].get("range", "none") != "none":
                    entitled[c] = int(pd[0]["per"]) * len(winners_of(pd[1][c]))
                    got[c] = 0
                if c in entitled:
                    got[c] += xf_to(v.R[i], c, lp)
                    if got[c] > entitled[c]:
                        out.append((i, f"C09 participant {c} received {got[c]} launchpad tokens in total, entitled to {entitled[c]}"))
    for i, k in enumerate(v.kind):
        if not (v.kind[i] == "call" and v.call[i]["ep"] == "claim" and not v.call[i]["probe"]):
            continue
        c, R = v.call[i], v.R[i]
        pd = v.prev_dump(i)
        if not pd:
            continue
        g, addrs = pd
        d = addrs.get(c["caller"])
        if d is None:
            continue
        per = int(g["per"])
        ptok, price = price_of(g)
        has_range = d.get("range", "none") != "none"
        if R["st"] == "ok":
            got_lp = xf_to(R, c["caller"], lp)
            locked = sum(int(x.split(":")[2]) for x in canon.parse_list(R.get("lock", "[]")))
            if v.variant in gen.VESTED:
                if d.get("cl") == "0":
                    if not has_range:
                        out.append((i, "C09 account without tickets settled"))
                else:
                    pass
            else:
                if not has_range or d.get("cl") == "1":
                    out.append((i, "C09 claim accepted without surviving tickets / twice"))
                else:
                    ent = per * len(winners_of(d))
                    if got_lp + locked != ent:
                        out.append((i, f"C09 received {got_lp}+{locked} launchpad tokens, entitled to {ent}"))
        else:
            if xf_to(R, c["caller"], lp) or xf_to(R, c["caller"], ptok):
                out.append((i, "C09 rejected claim moved funds"))
    return out


def m_C12(v):
    """reserve conservation: base winners + reserved == configured, until the filter"""
    out = []
    if v.variant not in gen.GUAR:
        return out
    for i, k in enumerate(v.kind):
        if k == "dump" and v.D[i]:
            g, _ = v.D[i]
            if g["flags"][0] == "0" and g["flags"][1] == "0":
                tot = int(g["nrw"]) + int(g["tg"])
                if tot != v.deploy["nrw"]:
                    out.append((i, f"C12 base winners {g['nrw']} + reserved {g['tg']} != configured {v.deploy['nrw']}"))
            if int(g["nrw"]) >= 2 ** 31 or int(g["tg"]) >= 2 ** 31:
                out.append((i, "C12 counter wrapped around"))
            if done(g) and g["op"] == "none" and not any(d.get("cl") == "1" for d in v.D[i][1].values()):
                # (claims remove settled winners from the count: only before the first settlement) unused reserved tickets were re-drawn: the final count is min(configured, confirmed)
                T, last = v.deploy["nrw"], int(g["last"])
                if int(g["nrw"]) != min(T, last):
                    out.append((i, f"C12 after the distribution {g['nrw']} tickets win, min(configured {T}, confirmed {last}) expected: "
                                   f"reserved tickets were lost or over-used"))
        if v.kind[i] == "call" and v.R[i]["st"] == "panic" and v.call[i]["ep"] in ("blacklist", "unblacklist", "refundUsers", "addTicketsV1", "addTicketsV2"):
            # the only other checked-arithmetic site these endpoints can reach is the tickets view of an
            # empty (zero-size) range, which the dump shows as tix=panic: not reserve accounting
            pd = v.prev_dump(i)
            if pd and not any(d.get("tix") == "panic" for d in pd[1].values()):
                out.append((i, f"C12 reserve accounting overflow/underflow in {v.call[i]['ep']} (wraps in the deployed build)"))
    return out


def m_C13(v):
    """vesting: cumulative == floor(E * pct / 100%), monotone, bounded"""
    out = []
    if v.variant not in gen.VESTED:
        return out
    received = {}
    lp = v.deploy["lp"]
    for i, k in enumerate(v.kind):
        # an accepted schedule satisfies the stated conditions (independent of the model)
        if v.accepted(i) and v.call[i]["ep"] == "setSchedule2":
            a = [int(x) for x in v.call[i]["args"]]
            ms = [(a[1 + 2 * j], a[2 + 2 * j]) for j in range(a[0])] if a else []
            now = v.call[i]["round"]
            bad = []
            if not ms or len(ms) > 60:
                bad.append(f"{len(ms)} milestones")
            if sum(p for _, p in ms) != 10000:
                bad.append(f"percentages add up to {sum(p for _, p in ms)}")
            if any(p > 10000 for _, p in ms):
                bad.append("a percentage above 100%")
            if any(r < now for r, _ in ms):
                bad.append("a release round in the past")
            if any(ms[j + 1][0] < ms[j][0] for j in range(len(ms) - 1)):
                bad.append("decreasing release rounds")
            if any(r > now + 26280000 for r, _ in ms):
                bad.append("a release round more than 5 years ahead")
            if bad:
                out.append((i, f"C13 schedule accepted although: {', '.join(bad)}"))
        if v.accepted(i) and v.call[i]["ep"] in ("setSchedule1", "setSchedule2"):
            pd = v.prev_dump(i)
            if pd and stage_of(pd[0], v.call[i]["round"]) != 0 and pd[0].get("sched", "none") != "none":
                out.append((i, f"C13 existing schedule altered at round {v.call[i]['round']}, after confirmation started"))
        if v.accepted(i) and v.call[i]["ep"] == "setSchedule1":
            st, ini, times, pct, per = [int(x) for x in v.call[i]["args"]]
            if ini + times * pct != 10000:
                out.append((i, f"C13 v1 schedule accepted with {ini} + {times} x {pct} != 100%"))
        if v.committed(i) and v.call[i]["ep"] == "claim":
            c = v.call[i]["caller"]
            received[c] = received.get(c, 0) + xf_to(v.R[i], c, lp)
            nd = v.next_dump(i)
            if nd:
                g, addrs = nd
                d = addrs.get(c)
                if d:
                    ut, uc = int(d["ut"]), int(d["uc"])
                    if uc != received[c]:
                        out.append((i, f"C13 claimed balance {uc} != tokens received {received[c]}"))
                    if uc > ut:
                        out.append((i, f"C13 received {uc} exceeds entitlement {ut}"))
                    pct = _pct(v.variant, g, v.call[i]["round"])
                    if pct is not None and uc != ut * pct // 10000:
                        out.append((i, f"C13 cumulative {uc} != floor({ut} * {pct} / 10000) at round {v.call[i]['round']}"))
    return out


def _pct(variant, g, rnd):
    s = g.get("sched", "none")
    if variant == "guarV2":
        ms = [(0, 10000)] if s == "none" else [tuple(int(x) for x in m.split("/")) for m in canon.parse_list(s)]
        p = 0
        for (r, q) in ms:
            if r <= rnd:
                p += q
            else:
                break
        return p
    if s == "none":
        return 0
    start, initial, times, pct, period = [int(x) for x in s.split(":")]
    if start > rnd:
        return 0
    if initial == 10000:
        return 10000
    periods = min((rnd - start) // period, times)
    return initial + pct * periods


MONITORS = {
    "C01": [m_C01], "C02": [m_C02], "C03": [m_C03], "C05": [m_C05], "C07": [m_C07],
    "C08": [m_C08], "C09": [m_C09], "C12": [m_C12], "C13": [m_C13],
}


# ------------------------------------------------------------------------------------------
# further monitors
# ------------------------------------------------------------------------------------------

def stage_of(g, rnd):
    conf, sel, claim = [int(x) for x in g["cfg"].split(",")]
    f = g["flags"]
    if rnd < conf:
        return 0
    if rnd < sel:
        return 1
    if not (f[2] == "1" and f[3] == "1"):
        return 2
    if rnd < claim:
        return 2
    return 3


ALLOC = ("addTickets", "addTicketsV1", "addTicketsV2")
STAGE_REQ = {
    "addTickets": (0,), "addTicketsV1": (0,), "addTicketsV2": (0,), "setTicketPrice": (0,), "setPerTicket": (0,),
    "setNftCost": (0,), "setSchedule2": (0,), "confirm": (1,), "confirmNft": (1,),
    "blacklist": (0, 1), "refundUsers": (0, 1), "unblacklist": (0, 1),
    "filter": (2,), "select": (2,), "distribute": (2,), "selectNft": (2,), "secondary": (2,),
    "claimPayment": (3,),
}


def m_C06(v):
    """gated endpoints are accepted only in their phase; sub-steps in order; stage never decreases"""
    out = bad_views(v, "C06")
    last_stage = None
    steps_done = None
    for i, k in enumerate(v.kind):
        if k == "deploy" or v.ops[i][0].startswith("restore"):
            last_stage = None
        if k == "dump" and v.D[i]:
            g, _ = v.D[i]
            rnd = int(v.ops[i][0].split()[1])
            st = stage_of(g, rnd)
            if last_stage is not None and st < last_stage[0] and rnd >= last_stage[1]:
                out.append((i, f"C06 stage moved backwards from {last_stage[0]} to {st}"))
            last_stage = (st, rnd)
            conf, sel, claim = [int(x) for x in g["cfg"].split(",")]
            if not (conf < sel <= claim):
                out.append((i, f"C06 timeline {conf},{sel},{claim} violates confirmation < selection <= claim"))
            fl = g["flags"]
            if v.variant not in ("base", "locked") and g["op"] != "none" and fl[3] == "1":
                out.append((i, f"C06 the additional selection step is marked complete while its operation ({g['op'][:24]}) is still "
                               f"saved: claims open before every selection step has completed"))
            has_extra = v.variant not in ("base", "locked")     # the plain variants deploy with the flag set
            if (fl[2] == "1" and fl[1] != "1") or (has_extra and fl[3] == "1" and fl[2] != "1"):
                out.append((i, f"C06 selection flags {fl} out of order"))
        # model-independent completion tracking: the answers of the selection endpoints themselves
        if k == "deploy" or v.ops[i][0].startswith("restore"):
            steps_done = set() if k == "deploy" else None
        if k == "call" and v.committed(i) and steps_done is not None and v.R[i].get("ret") == "[0]" \
                and v.call[i]["ep"] in ("filter", "select", "distribute", "selectNft", "secondary"):
            steps_done.add(v.call[i]["ep"])
        if k == "call" and v.call[i]["ep"] == "claim" and v.R[i]["st"] == "user" and steps_done is not None:
            need = {"filter", "select"} | ({"nft": {"selectNft"}, "nftGuar": {"secondary"}}.get(v.variant, {"distribute"} if v.variant in gen.GUAR else set()))
            pd0 = v.prev_dump(i)
            msg = v.R[i].get("msg", "")
            if pd0 and need <= steps_done and "period" in msg.lower():
                g0, a0 = pd0
                claim_round = int(g0["cfg"].split(",")[2])
                d0 = a0.get(v.call[i]["caller"])
                if v.call[i]["round"] >= claim_round and d0 and d0.get("range", "none") != "none" and d0.get("cl") == "0":
                    out.append((i, f"C06 claim refused ({msg[:40]}) although every selection step reported completion and the claim round {claim_round} is reached"))
        if not v.accepted(i):
            continue
        c = v.call[i]
        pd = v.prev_dump(i)
        if not pd:
            continue
        g, addrs = pd
        st = stage_of(g, c["round"])
        req_st = STAGE_REQ.get(c["ep"])
        if req_st is not None and st not in req_st:
            out.append((i, f"C06 {c['ep']} accepted in stage {st}, allowed only in {req_st}"))
        f = g["flags"]
        if c["ep"] == "filter" and f[1] == "1":
            out.append((i, "C06 filterTickets accepted after the filter had completed"))
        if c["ep"] == "select" and (f[1] != "1" or f[2] == "1"):
            out.append((i, "C06 selectWinners accepted out of order"))
        if c["ep"] in ("distribute", "selectNft", "secondary") and (f[2] != "1" or f[3] == "1"):
            out.append((i, f"C06 {c['ep']} accepted out of order"))
        if c["ep"] == "claim" and st != 3:
            d = addrs.get(c["caller"])
            if not (v.variant in gen.VESTED and d and d.get("cl") == "1"):
                out.append((i, f"C06 claim accepted in stage {st}"))
        if c["ep"] in ("setConfStart", "setSelStart", "setClaimStart"):
            conf, sel, claim = [int(x) for x in g["cfg"].split(",")]
            old = {"setConfStart": conf, "setSelStart": sel, "setClaimStart": claim}[c["ep"]]
            new = int(c["args"][0])
            if old <= c["round"] or new <= c["round"]:
                out.append((i, f"C06 {c['ep']}({new}) accepted at round {c['round']} with old value {old}"))
    return out


def m_C10(v):
    """blacklisting refunds in full, zeroes, blocks; un-blacklisting touches nobody else"""
    out = []
    for i, k in enumerate(v.kind):
        if not (v.kind[i] == "call"):
            continue
        c, R = v.call[i], v.R[i]
        pd = v.prev_dump(i)
        if not pd:
            continue
        g, addrs = pd
        ptok, price = price_of(g)
        if c["ep"] in ("blacklist", "refundUsers") and R["st"] == "ok":
            users = [int(x) for x in c["args"][1:]]
            fee_tok, fee = None, 0
            if v.variant in gen.NFT and "cost" in g:
                ct, cn, ca = g["cost"].split(":")
                fee_tok, fee = int(ct), int(ca)
            for u in users:
                d = addrs.get(u)
                if d is None:
                    continue
                if d.get("range", "none") == "none":
                    out.append((i, f"C10 address {u} without allocation was blacklisted"))
                exp = price * int(d["conf"])
                paid_fee = fee if (fee_tok is not None and u in ilist(g.get("payers", "[]"))) else 0
                got = xf_to(R, u, ptok)
                want = exp + (paid_fee if fee_tok == ptok else 0)
                if got != want:
                    out.append((i, f"C10 blacklisting refunded {got} of the payment token to {u}, paid {want}"))
                if fee_tok is not None and fee_tok != ptok and xf_to(R, u, fee_tok) != paid_fee:
                    out.append((i, f"C10 NFT fee refund to {u} is {xf_to(R, u, fee_tok)}, paid {paid_fee}"))
            if not c["probe"]:
                nd = v.next_dump(i)
                if nd:
                    g2, a2 = nd
                    for u, d in addrs.items():
                        d2 = a2.get(u)
                        if d2 is None:
                            continue
                        if u in users:
                            if d2["bl"] != "1" or d2["conf"] != "0":
                                out.append((i, f"C10 after blacklisting {u}: blacklisted={d2['bl']} confirmed={d2['conf']}"))
                        elif (d2["conf"], d2["range"], d2["bl"]) != (d["conf"], d["range"], d["bl"]):
                            out.append((i, f"C10 blacklisting changed the record of the unrelated address {u}"))
        if c["ep"] == "unblacklist" and R["st"] == "ok" and not c["probe"]:
            users = [int(x) for x in c["args"][1:]]
            nd = v.next_dump(i)
            if nd:
                g2, a2 = nd
                for u, d in addrs.items():
                    d2 = a2.get(u)
                    if d2 is None:
                        continue
                    same = (d2["conf"], d2["range"], d2.get("win")) == (d["conf"], d["range"], d.get("win"))
                    if not same:
                        out.append((i, f"C10 un-blacklisting changed tickets/confirmations of {u}"))
                    if u not in users and (d2["bl"], d2.get("uts")) != (d["bl"], d.get("uts")):
                        out.append((i, f"C10 un-blacklisting changed the record of the unrelated address {u}"))
                    if u in users and d["bl"] == "1":
                        if d2["bl"] != "0":
                            out.append((i, f"C10 {u} still blacklisted after un-blacklisting"))
                        if d.get("bluts", "none") != "none" and d2.get("uts") != d.get("bluts"):
                            out.append((i, f"C10 guarantee record of {u} not restored: {d2.get('uts')} vs parked {d.get('bluts')}"))
                # the reservation is restored exactly: the guaranteed tickets of the parked records move from the base
                # winners back to the reserve, nothing else
                if "tg" in g and "tg" in g2:
                    moved = 0
                    seen = set()
                    for u in users:
                        d = addrs.get(u)
                        if d is None or u in seen or d.get("bl") != "1":
                            moved = None if d is None else moved
                            continue
                        seen.add(u)
                        if moved is not None:
                            moved += guaranteed_of(v.variant, d.get("bluts", "none"))
                    if moved is not None and (int(g2["tg"]) - int(g["tg"]) != moved or int(g["nrw"]) - int(g2["nrw"]) != moved):
                        out.append((i, f"C10 un-blacklisting {users} moved {int(g2['tg']) - int(g['tg'])} tickets into the reserve and "
                                       f"{int(g['nrw']) - int(g2['nrw'])} out of the base winners; their parked guarantees are {moved}"))
        if c["ep"] == "confirm" and R["st"] == "ok":
            d = addrs.get(c["caller"])
            if d and d.get("bl") == "1":
                out.append((i, "C10 a blacklisted address confirmed tickets"))
        if c["ep"] == "unblacklist" and R["st"] != "ok" and "storage decode error" in R.get("msg", ""):
            # "where un-blacklisting is offered it restores ...": a rejection because the contract cannot decode the
            # record it parked (or failed to park) at blacklisting time is never one of the legitimate reasons
            # (stage, permission, address not blacklisted, reservation cannot be restored)
            users = [int(x) for x in c["args"][1:]]
            stuck = [u for u in users if addrs.get(u, {}).get("bl") == "1"]
            out.append((i, f"C10 un-blacklisting {users} rejected with a storage decode error: the blacklisted "
                           f"address(es) {stuck} can never be un-blacklisted ({R.get('msg', '')[:80]})"))
    return out


def guaranteed_of(variant, uts):
    """number of tickets a (parked) guarantee record reserves"""
    if uts in (None, "none"):
        return 0
    if variant == "guarV2":
        # "<allowance>:[g/m,...]"
        body = uts.split(":", 1)[1] if ":" in uts else "[]"
        return sum(int(x.split("/")[0]) for x in canon.parse_list(body))
    a, b, c, d = [int(x) for x in uts.split(":")]
    return c + d


def qualified(variant, uts, conf, minc):
    if uts in (None, "none"):
        return 0
    if variant == "guarV2":
        allow, infos = uts.split(":", 1)
        q = 0
        for item in canon.parse_list(infos):
            g, m = item.split("/")
            if conf >= int(m):
                q += int(g)
        return q
    a, b, c, d = [int(x) for x in uts.split(":")]
    g = d if conf >= b else 0
    if (g > 0 and conf >= a + b) or (g == 0 and conf >= minc):
        g += c
    return g


def m_C11(v):
    """guarantees honoured with the holder's own, existing tickets"""
    out = []
    if v.variant not in gen.GUAR:
        return out
    pre = None
    ep_name = "secondary" if v.variant == "nftGuar" else "distribute"
    for i, k in enumerate(v.kind):
        if v.ops[i][0].startswith("restore") or k == "deploy":
            pre = None
        if not v.committed(i) or v.call[i]["ep"] != ep_name:
            continue
        if pre is None:
            pd = v.prev_dump(i)
            pre = pd if pd else "unknown"
        nd = v.next_dump(i)
        if nd and pre not in (None, "unknown"):
            g1, a1 = nd
            g0, a0 = pre
            guaranteed_done = g1["flags"][3] == "1" or g1["op"].startswith("nft") or (g1["op"].startswith("guar") and g1["wl"] == "[]")
            last = int(g1["last"])
            for t in ilist(g1["status"]):
                if t < 1 or t > last:
                    out.append((i, f"C11 ticket id {t} outside 1..{last} marked winning"))
            if guaranteed_done and g0["flags"][3] == "0":
                minc = int(g0.get("minc", "0"))
                for u, d in a0.items():
                    if d.get("uts", "none") == "none" or d.get("range", "none") == "none":
                        continue
                    conf = int(d["conf"])
                    q = qualified(v.variant, d["uts"], conf, minc)
                    need = min(q, conf)
                    have = len(winners_of(a1[u])) if u in a1 else 0
                    if u in ilist(g0["wl"]) and have < need:
                        out.append((i, f"C11 participant {u} qualified for {q} guaranteed tickets (confirmed {conf}) holds {have} winning"))
                pre = None
        if v.R[i].get("ret") == "[0]":
            pre = None
    return out


def m_C14(v):
    """NFT draw: min(available, payers) distinct payers; fee accounting"""
    out = []
    if v.variant not in gen.NFT:
        return out
    pre = None
    ep_name = "secondary" if v.variant == "nftGuar" else "selectNft"
    for i, k in enumerate(v.kind):
        if v.ops[i][0].startswith("restore") or k == "deploy":
            pre = None
        if k == "dump" and v.D[i]:
            g, addrs = v.D[i]
            cands = ilist(g["payers"]) + ilist(g["nftw"])
            for u in cands:
                d = addrs.get(u)
                if d and (d.get("bl") == "1" or int(d["conf"]) == 0):
                    out.append((i, f"C14 participant {u} (confirmed {d['conf']}, blacklisted {d.get('bl')}) is still a fee payer / "
                                   f"candidate of the NFT draw"))
            ct, cn, ca = [int(x) for x in g["cost"].split(":")]
            ptok, _price = price_of(g)
            if cn == 0 and ct != ptok and ct != v.deploy["lp"] and g["op"] == "none":
                bal = dict((int(a), int(b)) for a, b in (x.split(":") for x in canon.parse_list(g["bal"])))
                held = bal.get(ct, 0)
                if g["flags"][3] == "1":
                    owed = int(g["cnft"]) + ca * len(ilist(g["payers"]))
                else:
                    owed = ca * len(cands)
                if held != owed:
                    out.append((i, f"C14 fee-token holdings {held} != fees accounted for {owed} "
                                   f"(payers {g['payers']}, drawn {g['nftw']}, owner proceeds {g['cnft']})"))
        if v.kind[i] != "call":
            continue
        c, R = v.call[i], v.R[i]
        pd = v.prev_dump(i)
        if c["ep"] == "confirmNft" and R["st"] == "ok" and pd:
            g, addrs = pd
            d = addrs.get(c["caller"])
            ct, cn, ca = g["cost"].split(":")
            pays = [(0, 0, c["egld"])] if not c["esdts"] else c["esdts"]
            exact = len(pays) == 1 and pays[0] == (int(ct), int(cn), int(ca))
            if not exact:
                out.append((i, f"C14 NFT fee accepted with payment {pays}, fee {g['cost']}"))
            if d and (int(d["conf"]) == 0 or d.get("paid") == "1"):
                out.append((i, "C14 NFT fee accepted from a participant without confirmed tickets / who already paid"))
            if stage_of(g, c["round"]) != 1:
                out.append((i, "C14 NFT fee accepted outside the confirmation window"))
        if c["ep"] == ep_name and v.committed(i):
            if pre is None and pd and pd[0]["flags"][2] == "1":
                pre = pd
            if R.get("ret") == "[0]":
                nd = v.next_dump(i)
                if nd and pre:
                    g0, _ = pre
                    g1, _ = nd
                    payers0 = ilist(g0["payers"]) + ilist(g0["nftw"])
                    if g0["nftw"] == "[]":
                        w = ilist(g1["nftw"])
                        exp = min(int(g0["avail"]), len(payers0))
                        if len(w) != exp or len(set(w)) != len(w) or not set(w) <= set(payers0):
                            out.append((i, f"C14 drew {w} from payers {payers0} with {g0['avail']} NFTs available"))
                        fee = int(g0["cost"].split(":")[2])
                        if int(g1["cnft"]) != fee * len(w):
                            out.append((i, f"C14 NFT proceeds {g1['cnft']} != fee {fee} x drawn {len(w)}"))
                pre = None
        if c["ep"] == "claim" and v.committed(i) and pd:
            g, addrs = pd
            d = addrs.get(c["caller"])
            if d:
                cat = 1 if d.get("won") == "1" else (2 if d.get("paid") == "1" else 3)
                sft = canon.parse_list(R.get("sft", "[]"))
                if sft != [f"{c['caller']}:{cat}"]:
                    out.append((i, f"C14 claimant of category {cat} received SFTs {sft}"))
                ct, cn, ca = g["cost"].split(":")
                ptok, price = price_of(g)
                refund_fee = int(ca) if cat == 2 else 0
                if int(ct) != ptok:
                    got = xf_to(R, c["caller"], int(ct))
                    if got != refund_fee:
                        out.append((i, f"C14 fee refund {got} to a category-{cat} claimant, expected {refund_fee}"))
    return out


OWNER_ONLY = {"addTickets", "addTicketsV1", "addTicketsV2", "deposit", "setTicketPrice", "setPerTicket", "setConfStart",
              "setSelStart", "setClaimStart", "setSupport", "pause", "unpause", "claimPayment", "setSchedule1",
              "setSchedule2", "setNftCost"}
EXTENDED = {"blacklist", "refundUsers", "unblacklist", "issueSft", "createSfts", "setTransferRole"}


OWNER_ONLY_ABI = {"addTickets", "depositLaunchpadTokens", "setTicketPrice", "setLaunchpadTokensPerWinningTicket",
                  "setConfirmationPeriodStartRound", "setWinnerSelectionStartRound", "setClaimStartRound",
                  "setSupportAddress", "pause", "unpause", "claimTicketPayment", "setUnlockSchedule", "setNftCost"}


def m_C15(v):
    """privileged endpoints accept only their intended callers"""
    out = bad_views(v, "C15")
    owner = None
    for i, (line, impl, _m) in enumerate(v.ops):
        if line.startswith("abi") and impl.startswith("A "):
            for item in impl[2:].split():
                name, oo, pay = item.split(":")
                if name in OWNER_ONLY_ABI and oo != "1":
                    out.append((i, f"C15 endpoint {name} is not annotated owner-only in the contract ABI"))
    for i, k in enumerate(v.kind):
        if k == "deploy":
            owner = int(v.ops[i][0].split()[2])
        if k == "call" and v.R[i]["st"] != "ok" and v.call[i]["caller"] == owner \
                and "user accounts" in v.R[i].get("msg", "") and v.call[i]["ep"] in ("select", "distribute"):
            out.append((i, f"C15 the owner (a contract account) was refused {v.call[i]['ep']} as a non-user caller"))
        if not v.accepted(i):
            continue
        c = v.call[i]
        if c["ep"] in OWNER_ONLY and c["caller"] != owner:
            out.append((i, f"C15 owner-only endpoint {c['ep']} accepted from {c['caller']}"))
        if c["ep"] in EXTENDED:
            pd = v.prev_dump(i)
            if pd and c["caller"] != owner and c["caller"] != int(pd[0]["sup"]):
                out.append((i, f"C15 {c['ep']} accepted from {c['caller']} (owner {owner}, support {pd[0]['sup']})"))
        if c["caller"] >= 900 and c["caller"] != owner:
            if c["ep"] == "select" or (c["ep"] == "distribute" and v.variant == "guarV2"):
                out.append((i, f"C15 {c['ep']} accepted from a contract account"))
    return out


def m_C16(v):
    """locked variants split exactly between the lock contract and the wallet"""
    out = bad_views(v, "C16")
    if v.variant not in gen.LOCKED:
        return out
    lp = v.deploy["lp"]
    for i, k in enumerate(v.kind):
        if not (v.committed(i) and v.call[i]["ep"] == "claim"):
            continue
        c, R = v.call[i], v.R[i]
        pd = v.prev_dump(i)
        if not pd:
            continue
        g, addrs = pd
        d = addrs.get(c["caller"])
        if not d:
            continue
        ent = int(g["per"]) * len(winners_of(d))
        pct, unlock = [int(x) for x in g["lockcfg"].split(":")]
        exp_lock = ent * pct // 10000 if c["epoch"] < unlock else 0
        locks = canon.parse_list(R.get("lock", "[]"))
        got_lock = 0
        for l in locks:
            ep_, dest, amt = [int(x) for x in l.split(":")]
            got_lock += amt
            if ep_ != unlock or dest != c["caller"]:
                out.append((i, f"C16 lock call ({ep_},{dest}) instead of ({unlock},{c['caller']})"))
        direct = xf_to(R, c["caller"], lp)
        if got_lock != exp_lock or direct != ent - exp_lock:
            out.append((i, f"C16 entitlement {ent}: locked {got_lock} (expected {exp_lock}), direct {direct} (expected {ent - exp_lock})"))
    return out


VIEW_OWNER = canon.VIEW_OWNER


def bad_views(v, pid):
    """(index, message) for every dump in which a getter owned by property `pid` lies (unknown names go to C17)"""
    out = []
    for i, k in enumerate(v.kind):
        if k == "dump" and v.D[i] and v.D[i][0].get("views", "ok") != "ok":
            names = [n for n in v.D[i][0]["views"].split("+") if VIEW_OWNER.get(n, "C17") == pid]
            if names:
                out.append((i, f"{pid} public getters disagree with the storage they report: {'+'.join(names)}"))
    return out


def m_C17(v):
    """sale terms frozen once participants can commit funds"""
    out = bad_views(v, "C17")
    for i, k in enumerate(v.kind):
        if not v.accepted(i):
            continue
        c = v.call[i]
        pd = v.prev_dump(i)
        if not pd:
            continue
        g, _ = pd
        st = stage_of(g, c["round"])
        if c["ep"] in ("setTicketPrice", "setNftCost", "setSchedule2", "setPerTicket") and st != 0:
            out.append((i, f"C17 {c['ep']} accepted after confirmation started (stage {st})"))
        committed_funds = sum(int(d["conf"]) for d in pd[1].values())
        if c["ep"] in ("setTicketPrice", "setNftCost", "setSchedule2") and committed_funds > 0:
            out.append((i, f"C17 {c['ep']} accepted while participants hold {committed_funds} confirmed (paid) tickets"))
        if c["ep"] == "setSchedule1" and st != 0 and g.get("sched", "none") != "none":
            out.append((i, "C17 existing v1 schedule changed after confirmation started"))
        if c["ep"] == "setPerTicket" and g["dep"] == "1":
            out.append((i, "C17 tokens-per-ticket changed after the deposit"))
        if c["ep"] in ("setTicketPrice",) and int(c["args"][1]) == 0:
            out.append((i, "C17 zero price accepted"))
        if c["ep"] == "setPerTicket" and int(c["args"][0]) == 0:
            out.append((i, "C17 zero tokens-per-ticket accepted"))
    # terms never change except through their setters
    prev = None
    for i, k in enumerate(v.kind):
        if k == "deploy":
            prev = None
        if k == "dump" and v.D[i]:
            g, _ = v.D[i]
            cur = (g["price"], g["per"], g.get("cost"))
            if prev is not None and cur != prev[0]:
                changed_by = [v.call[j]["ep"] for j in range(prev[1], i) if v.committed(j)]
                if not any(e in ("setTicketPrice", "setPerTicket", "setNftCost") for e in changed_by):
                    out.append((i, f"C17 sale terms changed from {prev[0]} to {cur} by {changed_by}"))
            prev = (cur, i)
    return out


def m_C18(v):
    """allocation: fresh, disjoint, exact-size ranges; once per participant; variant limits"""
    out = []
    for i, k in enumerate(v.kind):
        if not (v.kind[i] == "call" and v.call[i]["ep"] in ALLOC and v.R[i]["st"] == "ok"):
            continue
        c = v.call[i]
        pd = v.prev_dump(i)
        if not pd:
            continue
        g, addrs = pd
        a = c["args"]
        n = int(a[0])
        entries, j = [], 1
        for _ in range(n):
            if c["ep"] == "addTickets":
                entries.append((int(a[j]), int(a[j + 1]), []))
                j += 2
            elif c["ep"] == "addTicketsV1":
                entries.append((int(a[j]), int(a[j + 1]) + int(a[j + 2]), []))
                j += 4
            else:
                m = int(a[j + 2])
                infos = [(int(a[j + 3 + 2 * q]), int(a[j + 4 + 2 * q])) for q in range(m)]
                entries.append((int(a[j]), int(a[j + 1]), infos))
                j += 3 + 2 * m
        seen = set()
        nxt = int(g["last"]) + 1
        for (u, cnt, infos) in entries:
            if c["ep"] == "addTicketsV2" and cnt == 0:
                continue
            if u in seen or (u in addrs and addrs[u].get("range", "none") != "none"):
                out.append((i, f"C18 address {u} allocated twice"))
            seen.add(u)
            if c["ep"] == "addTicketsV2":
                if cnt > 255 or len(infos) > 10 or any(gq > mq for gq, mq in infos) or u >= 900:
                    out.append((i, f"C18 v2 limits not enforced for ({u}, {cnt}, {infos})"))
        if c["probe"]:
            continue
        nd = v.next_dump(i)
        if nd:
            g2, a2 = nd
            for (u, cnt, infos) in entries:
                if c["ep"] == "addTicketsV2" and cnt == 0:
                    continue
                if u in a2 and cnt > 0:
                    exp = f"{nxt}-{nxt + cnt - 1}"
                    if a2[u]["range"] != exp or a2[u]["tix"] != str(cnt):
                        out.append((i, f"C18 address {u} asked {cnt}: range {a2[u]['range']} (expected {exp}), view says {a2[u]['tix']}"))
                nxt += cnt
            if int(g2["last"]) != nxt - 1:
                out.append((i, f"C18 total tickets {g2['last']} != previous total + sum of allocations {nxt - 1}"))
    return out


def m_C19(v):
    """paused: confirmations and selection steps rejected; rejected calls change nothing"""
    out = bad_views(v, "C19")
    for i, k in enumerate(v.kind):
        if not v.accepted(i):
            continue
        c = v.call[i]
        if v.paused_before(i) is not True:
            continue
        gated = {"confirm", "filter", "select"}
        if v.variant == "guarV2":
            gated |= {"distribute", "claim"}
        if c["ep"] in gated:
            out.append((i, f"C19 {c['ep']} accepted while the contract is paused"))
    return out


def _first_call_dump(v, i, ep):
    """the dump taken before the FIRST call of the (possibly interrupted and resumed) operation that
    call i completes; None when some step in between was not observed"""
    j = i
    while True:
        pd = v.prev_dump(j)
        if pd is not None and pd[0]["op"] == "none":
            return pd
        # no dump directly before call j: accept only if the previous committed call is an interrupted
        # call of the same endpoint
        k = j - 1
        while k >= 0 and not (v.kind[k] == "call" and v.committed(k)):
            if v.kind[k] == "deploy" or v.ops[k][0].startswith("restore"):
                return None
            k -= 1
        if k < 0 or v.call[k]["ep"] != ep or v.R[k].get("ret") != "[1]":
            return None
        j = k


def parse_ev(item):
    name, rest = item.split("(", 1)
    rest = rest[:-1]
    tp, data = rest.split("|")
    return name, [int(x) for x in tp.split(",") if x], [int(x) for x in data.split(",") if x]


def m_C20(v):
    """events carry exactly the quantities that changed"""
    out = []
    for i, k in enumerate(v.kind):
        if v.kind[i] != "call":
            continue
        c, R = v.call[i], v.R[i]
        if R["st"] != "ok":
            continue
        evs = [parse_ev(x) for x in canon.parse_list(R.get("ev", "[]"))]
        for (name, tp, data) in evs:
            if name in ("pauseContract", "unpauseContract"):
                continue
            if tp != [c["caller"], c["round"], c["epoch"]]:
                out.append((i, f"C20 event {name} indexed by {tp}, transaction is ({c['caller']},{c['round']},{c['epoch']})"))
        names = [e[0] for e in evs]
        pd = v.prev_dump(i)
        ret = R.get("ret")
        for comp, ep in (("filterTicketsCompleted", "filter"), ("selectWinnersCompleted", "select"),
                         ("distributeGuaranteedTicketsCompleted", "distribute")):
            if c["ep"] == ep:
                want = 1 if ret == "[0]" and not (ep == "distribute" and v.variant != "guarV2") else 0
                if names.count(comp) != want:
                    out.append((i, f"C20 {ep} returned {ret} and emitted {names.count(comp)} {comp} events"))
                nd = v.next_dump(i)
                if want == 1 and names.count(comp) == 1 and nd:
                    val = [e for e in evs if e[0] == comp][0][2][3]
                    g1 = nd[0]
                    if ep == "filter" and val != int(g1["last"]):
                        out.append((i, f"C20 filterTicketsCompleted reports {val} tickets, {g1['last']} are left after filtering"))
                    if ep == "select":
                        marked = len(ilist(g1["status"]))
                        if val != marked or val != int(g1["nrw"]):
                            out.append((i, f"C20 selectWinnersCompleted reports {val} winners, {marked} tickets are marked winning "
                                           f"(winners count {g1['nrw']})"))
                    if ep == "distribute":
                        pre = _first_call_dump(v, i, ep)
                        if pre is not None:
                            added = len(ilist(g1["status"])) - len(ilist(pre[0]["status"]))
                            if val != added:
                                out.append((i, f"C20 distributeGuaranteedTicketsCompleted reports {val} additional winners, {added} were added"))
        if c["ep"] == "confirm":
            if names.count("confirmTickets") != 1:
                out.append((i, f"C20 accepted confirmation emitted {names}"))
            elif pd:
                g, addrs = pd
                d = addrs.get(c["caller"])
                data = [e for e in evs if e[0] == "confirmTickets"][0][2]
                n = int(c["args"][0])
                ptok, price = price_of(g)
                if d and d["tix"].isdigit():
                    exp = [c["caller"], c["round"], c["epoch"], n, int(d["conf"]) + n, int(d["tix"]), ptok, 0, price * n]
                    if data != exp:
                        out.append((i, f"C20 confirmTickets payload {data} != {exp}"))
        refunds = [e for e in evs if e[0] == "refundTicketPayment"]
        if refunds and pd:
            g, addrs = pd
            ptok, price = price_of(g)
            total = sum(e[2][6] for e in refunds)
            sent = sum(a for (kk, a) in canon.canon_xf(R.get("xf", "[]")) if kk[1] == ptok and a > 0)
            fee_part = 0
            if v.variant in gen.NFT and "cost" in g and int(g["cost"].split(":")[0]) == ptok:
                fee_part = None
            if fee_part is not None and c["ep"] in ("claim", "blacklist", "refundUsers") and total != sent:
                out.append((i, f"C20 refund events total {total}, payment tokens sent {sent}"))
            for e in refunds:
                if e[2][6] != price * e[2][3] or e[2][4] != ptok:
                    out.append((i, f"C20 refund event {e[2]}: amount is not price x tickets"))
        if c["ep"] in ("blacklist", "refundUsers") and pd:
            g, addrs = pd
            users = [int(x) for x in c["args"][1:]]
            exp = sum(1 for u in users if u in addrs and int(addrs[u]["conf"]) > 0)
            if all(u in addrs for u in users) and len(refunds) != exp:
                out.append((i, f"C20 {len(refunds)} refund events for {exp} refunded participants"))
        if c["ep"] == "setTicketPrice":
            if names != ["setTicketPrice"] or evs[0][2][3:] != [int(c["args"][0]), 0, int(c["args"][1])]:
                out.append((i, f"C20 setTicketPrice emitted {evs}"))
        if v.variant == "guarV2":
            if c["ep"] == "blacklist" and names.count("addUsersToBlacklist") != 1:
                out.append((i, "C20 v2 blacklist change without addUsersToBlacklist event"))
            if c["ep"] == "unblacklist" and names.count("removeGuaranteedUsersFromBlacklist") != 1:
                out.append((i, "C20 v2 un-blacklisting without its event"))
            if c["ep"] == "addTicketsV2" and names.count("addTickets") != 1:
                out.append((i, "C20 v2 allocation batch without addTickets event"))
            if c["ep"] == "setSchedule2" and names.count("setUnlockSchedule") != 1:
                out.append((i, "C20 v2 schedule change without setUnlockSchedule event"))
            if c["ep"] == "claim":
                lp = v.deploy["lp"]
                got = xf_to(R, c["caller"], lp)
                cl = [e for e in evs if e[0] == "claimLaunchpadTokens"]
                if (got > 0) != (len(cl) == 1) or (cl and cl[0][2][5] != got):
                    out.append((i, f"C20 v2 claim paid {got} launchpad tokens, events {cl}"))
    return out


MONITORS.update({
    "C06": [m_C06], "C10": [m_C10], "C11": [m_C11], "C14": [m_C14], "C15": [m_C15], "C16": [m_C16],
    "C17": [m_C17], "C18": [m_C18], "C19": [m_C19], "C20": [m_C20],
})


def m_deploy(v):
    """deployment must reject invalid sale terms / timelines / lock and NFT parameters"""
    out = {}
    if not v.deploy or v.kind[0] != "deploy" or v.R[0]["st"] != "ok":
        return out
    d = v.deploy
    t = v.ops[0][0].split()
    rnd, epoch = int(t[3]), int(t[4])

    def add(pid, msg):
        out.setdefault(pid, []).append((0, msg))
    if d["price"] == 0 or d["per"] == 0 or d["nrw"] == 0:
        add("C17", f"C17 deployment accepted with price {d['price']}, tokens-per-ticket {d['per']}, winners {d['nrw']}")
    if not (d["conf"] < d["sel"] <= d["claim"]):
        add("C06", f"C06 deployment accepted with timeline {d['conf']},{d['sel']},{d['claim']}")
    if d["paytok"] == d["lp"]:
        add("C01", "C01 deployment accepted with the launchpad token as payment token")
    if v.variant in gen.LOCKED:
        if not (0 < d["lockpct"] <= 10000):
            add("C16", f"C16 deployment accepted with lock percentage {d['lockpct']}")
        if d["unlock"] <= epoch:
            add("C16", f"C16 deployment accepted with unlock epoch {d['unlock']} at epoch {epoch}")
        if d["lockaddr"] < 900:
            add("C16", f"C16 deployment accepted with lock contract address {d['lockaddr']} (not a contract)")
    if v.variant in gen.NFT:
        cost_nonce = int(t[18])
        if d["avail"] == 0 or d["fee"] == 0 or (d["feetok"] == 0 and cost_nonce != 0) or d["feetok"] == 1:
            add("C14", f"C14 deployment accepted with {d['avail']} NFTs, fee {d['feetok']}:{cost_nonce}:{d['fee']}")
    if v.variant in gen.V1ALLOC and d["minc"] == 0:
        add("C11", "C11 deployment accepted with a zero confirmation threshold for guarantees")
    return out


def _deploy_monitor(pid):
    def m(v):
        return m_deploy(v).get(pid, [])
    return m


for _pid in ("C01", "C06", "C11", "C14", "C16", "C17"):
    MONITORS.setdefault(_pid, []).append(_deploy_monitor(_pid))
