"""Implementation-side property monitors.

Each monitor looks ONLY at what was sent and at the implementation's answers (never at the
model) and returns a list of (op index, message) violations.  They are what turns a broken
correspondence into a concrete failing history, and they also run on every trace on their own.
"""
from . import canon, gen


class View:
    """indexable view of a finished trace (implementation side only)"""

    def __init__(self, trace):
        self.ops = trace.ops
        self.kind, self.call, self.R, self.D = [], [], [], []
        self.variant = None
        self.deploy = None
        for (line, impl, _m) in self.ops:
            if line.startswith("deploy"):
                self.kind.append("deploy")
                t = line.split()
                self.variant = t[1]
                self.deploy = dict(lp=int(t[5]), per=int(t[6]), paytok=int(t[7]), price=int(t[8]),
                                   nrw=int(t[9]), conf=int(t[10]), sel=int(t[11]), claim=int(t[12]),
                                   minc=int(t[13]), lockpct=int(t[14]), unlock=int(t[15]),
                                   lockaddr=int(t[16]), feetok=int(t[17]), fee=int(t[19]), avail=int(t[20]))
                self.call.append(None); self.R.append(canon.parse_R(impl)); self.D.append(None)
            elif line.startswith("call"):
                self.kind.append("call")
                self.call.append(gen.parse_call_line(line))
                self.R.append(canon.parse_R(impl)); self.D.append(None)
            elif line.startswith("dump"):
                self.kind.append("dump")
                self.call.append(None); self.R.append(None)
                self.D.append(canon.parse_D(impl) if impl.startswith("D ") else None)
            else:
                self.kind.append("other"); self.call.append(None); self.R.append(None); self.D.append(None)

    def prev_dump(self, i):
        for j in range(i - 1, -1, -1):
            if self.kind[j] == "dump" and self.D[j]:
                # only valid if no committed call lies between j and i
                for k in range(j + 1, i):
                    if self.kind[k] == "call" and not self.call[k]["probe"] and self.R[k]["st"] == "ok":
                        return None
                return self.D[j]
        return None

    def next_dump(self, i):
        for j in range(i + 1, len(self.ops)):
            if self.kind[j] == "dump" and self.D[j]:
                for k in range(i + 1, j):
                    if self.kind[k] == "call" and not self.call[k]["probe"] and self.R[k]["st"] == "ok":
                        return None
                return self.D[j]
            if self.kind[j] == "deploy":
                return None
        return None

    def accepted(self, i):
        return self.kind[i] == "call" and self.R[i]["st"] == "ok"

    def committed(self, i):
        return self.accepted(i) and not self.call[i]["probe"]


def ilist(v):
    return [int(x) for x in canon.parse_list(v)] if v not in (None, "") else []


def bal_of(g, tok):
    for item in canon.parse_list(g["bal"]):
        t, a = item.split(":")
        if int(t) == tok:
            return int(a)
    return 0


def done(g):
    return g["flags"][2] == "1" and g["flags"][3] == "1"


def price_of(g):
    t, a = g["price"].split(":")
    return int(t), int(a)


def xf_to(R, to, tok):
    tot = 0
    for (k, a) in canon.canon_xf(R.get("xf", "[]")):
        if k[0] == to and k[1] == tok:
            tot += a
    return tot


def participants(addrs):
    return {a: d for a, d in addrs.items() if d.get("range", "none") != "none"}


def winners_of(d):
    return ilist(d.get("win", "[]"))


def nft_same_token(v, tok):
    return v.variant in gen.NFT and v.deploy is not None


# ------------------------------------------------------------------------------------------

def m_C01(v):
    """payment-token solvency: holdings == owed after every dump; claim / withdrawal amounts"""
    out = []
    for i, k in enumerate(v.kind):
        if k == "dump" and v.D[i]:
            g, addrs = v.D[i]
            ptok, price = price_of(g)
            if ptok == 1:
                continue
            holding = bal_of(g, ptok)
            parts = participants(addrs)
            fee_same = False
            fee = 0
            if v.variant in gen.NFT and "cost" in g:
                ctok, cnonce, camt = g["cost"].split(":")
                fee_same = int(ctok) == ptok and int(cnonce) == 0
                fee = int(camt)
            if not done(g):
                owed = price * sum(int(d["conf"]) for d in addrs.values())
                if fee_same:
                    owed += fee * (len(ilist(g["payers"])) + len(ilist(g["nftw"])))
            else:
                owed = int(g["cpay"]) + price * sum(int(d["conf"]) - len(winners_of(d)) for d in parts.values())
                if fee_same:
                    owed += int(g["cnft"]) + fee * len(ilist(g["payers"]))
            if holding != owed:
                out.append((i, f"C01 holdings of payment token {holding} != owed {owed}"))
        if v.committed(i) and v.call[i]["ep"] == "claim":
            pd = v.prev_dump(i)
            if pd:
                g, addrs = pd
                ptok, price = price_of(g)
                c = v.call[i]["caller"]
                d = addrs.get(c)
                if d and d.get("range", "none") != "none" and d.get("cl") == "0":
                    exp = price * (int(d["conf"]) - len(winners_of(d)))
                    if v.variant in gen.NFT and "cost" in g:
                        ctok, cnonce, camt = g["cost"].split(":")
                        if int(ctok) == ptok and c in ilist(g["payers"]):
                            exp += int(camt)
                    got = xf_to(v.R[i], c, ptok)
                    lp = v.deploy["lp"]
                    if ptok != lp and got != exp:
                        out.append((i, f"C01 claim refund {got} != price*(confirmed-winning) {exp}"))
        if v.committed(i) and v.call[i]["ep"] == "claimPayment":
            pd = v.prev_dump(i)
            if pd:
                g, _ = pd
                ptok, price = price_of(g)
                exp = int(g["cpay"])
                if v.variant in gen.NFT and "cost" in g:
                    ctok, cnonce, camt = g["cost"].split(":")
                    if int(ctok) == ptok:
                        exp += int(g["cnft"])
                got = xf_to(v.R[i], v.call[i]["caller"], ptok)
                if got != exp:
                    out.append((i, f"C01 owner proceeds {got} != claimable {exp}"))
    return out


def m_C02(v):
    """launchpad-token solvency: deposit size, coverage, final zero"""
    out = []
    lp = v.deploy["lp"] if v.deploy else 2
    W_total = None
    for i, k in enumerate(v.kind):
        if v.accepted(i) and v.call[i]["ep"] == "deposit":
            pd = v.prev_dump(i)
            if pd:
                g, _ = pd
                amt = sum(a for (t, n, a) in v.call[i]["esdts"])
                exp = int(g["per"]) * (int(g["nrw"]) + int(g.get("tg", "0")))
                if amt != exp:
                    out.append((i, f"C02 deposit of {amt} accepted, per-ticket x winners = {exp}"))
                if int(g["nrw"]) + int(g.get("tg", "0")) != v.deploy["nrw"]:
                    out.append((i, f"C02/C12 tickets that can win {int(g['nrw']) + int(g.get('tg', '0'))} != configured {v.deploy['nrw']}"))
        if k == "dump" and v.D[i]:
            g, addrs = v.D[i]
            if g["dep"] != "1":
                continue
            per = int(g["per"])
            holding = bal_of(g, lp)
            if not done(g):
                if holding != int(g["tdep"]):
                    out.append((i, f"C02 launchpad-token holdings {holding} != deposited {g['tdep']} before claims"))
            else:
                parts = participants(addrs)
                owed = per * sum(len(winners_of(d)) for d in parts.values())
                owed += sum(int(d.get("ut", "0")) - int(d.get("uc", "0")) for d in addrs.values())
                if holding < owed:
                    out.append((i, f"C02 launchpad-token holdings {holding} < owed to winners {owed}"))
    return out


def m_C03(v):
    """exactly min(T, confirmed) distinct winners; three counts agree"""
    out = []
    seen_done = False
    for i, k in enumerate(v.kind):
        if k != "dump" or not v.D[i]:
            continue
        g, addrs = v.D[i]
        if g["flags"][2] != "1" or g["op"] != "none":
            continue   # counts are only defined between steps, not inside an interrupted one
        any_claim = any(d.get("cl") == "1" for d in addrs.values())
        cpay_zero_after_withdraw = False
        if any_claim:
            continue
        last = int(g["last"])
        wins = []
        for a, d in addrs.items():
            w = winners_of(d)
            if w:
                if d.get("range", "none") == "none":
                    out.append((i, f"C03 address {a} reports winners without a range"))
                    continue
                f, l = [int(x) for x in d["range"].split("-")]
                for t in w:
                    if not (f <= t <= l):
                        out.append((i, f"C03 winning ticket {t} outside its owner's range {d['range']}"))
                if d.get("bl") == "1":
                    out.append((i, f"C03 blacklisted address {a} holds winning tickets"))
            wins += w
        status = ilist(g["status"])
        if sorted(wins) != sorted(status):
            out.append((i, f"C03 winning flags {status} != union of per-participant winners {sorted(wins)}"))
        if len(set(status)) != len(status) or any(t < 1 or t > last for t in status):
            out.append((i, f"C03 winning ticket ids {status} not distinct within 1..{last}"))
        nrw = int(g["nrw"])
        if nrw != len(wins):
            out.append((i, f"C03 reported winners {nrw} != sum of per-participant winners {len(wins)}"))
        ptok, price = price_of(g)
        # owner's proceeds (if not yet withdrawn) / price == winners
        if g["flags"][3] == "1" or v.variant in ("base", "locked"):
            if int(g["cpay"]) not in (0, price * nrw) or (int(g["cpay"]) == 0 and nrw > 0 and not _withdrawn_before(v, i)):
                out.append((i, f"C03 owner proceeds {g['cpay']} != price x winners {price * nrw}"))
        if done(g):
            T = v.deploy["nrw"]
            if nrw != min(T, last):
                out.append((i, f"C03 final winners {nrw} != min(configured {T}, confirmed {last})"))
    return out


def _withdrawn_before(v, i):
    for j in range(i):
        if v.committed(j) and v.call[j]["ep"] == "claimPayment":
            return True
    return False


def textbook_fy(n, k, raws):
    arr = list(range(1, n + 1))
    for i in range(1, k + 1):
        j = i + raws[i - 1] % (n - i + 1)
        arr[i - 1], arr[j - 1] = arr[j - 1], arr[i - 1]
    return arr[:k]


def m_C05(v):
    """base lottery == textbook Fisher-Yates on the recorded raws; raws are the seed's words"""
    import hashlib
    out = []
    raws = []
    pre = None
    for i, k in enumerate(v.kind):
        if not v.committed(i):
            continue
        c, R = v.call[i], v.R[i]
        if c["ep"] == "select":
            if pre is None:
                pd = v.prev_dump(i)
                pre = pd[0] if pd else "unknown"
            raws += ilist(R.get("draws", "[]"))
            # raw draws are successive big-endian words of the seed, re-hashed every 8 draws
            for item in canon.parse_list(R.get("tap", "[]")):
                seed_hex, idx, raw = item.split(":")
                seed, idx, raw = bytes.fromhex(seed_hex), int(idx), int(raw)
                if c["script"]:
                    continue
                if len(seed) != 32:
                    out.append((i, f"C05 seed of {len(seed)} bytes"))
                    continue
                if idx + 4 > 32:
                    seed, idx = hashlib.sha256(seed).digest(), 0
                if int.from_bytes(seed[idx:idx + 4], "big") != raw:
                    out.append((i, f"C05 raw draw {raw} is not the big-endian word at {idx} of the seed"))
            if R.get("ret") == "[0]":
                nd = v.next_dump(i)
                if pre not in (None, "unknown") and nd:
                    n, kk = int(pre["last"]), int(pre["nrw"])
                    if pre["flags"][1] == "1" and pre["status"] == "[]" and len(raws) >= kk:
                        exp = sorted(textbook_fy(n, kk, raws))
                        got = sorted(ilist(nd[0]["status"]))
                        if exp != got:
                            out.append((i, f"C05 winners {got} != textbook Fisher-Yates {exp} on raws {raws[:kk]} (n={n}, k={kk})"))
                        if len(raws) != kk:
                            out.append((i, f"C05 consumed {len(raws)} raws for {kk} winners"))
                raws, pre = [], None
    return out


def m_C07(v):
    """confirmation: exact single payment, within allocation"""
    out = []
    for i, k in enumerate(v.kind):
        if not (v.kind[i] == "call" and v.call[i]["ep"] == "confirm"):
            continue
        c, R = v.call[i], v.R[i]
        pd = v.prev_dump(i)
        if not pd:
            continue
        g, addrs = pd
        d = addrs.get(c["caller"])
        if d is None:
            continue
        n = int(c["args"][0])
        ptok, price = price_of(g)
        pays = [(0, 0, c["egld"])] if not c["esdts"] else c["esdts"]
        exact = len(pays) == 1 and pays[0][0] == ptok and pays[0][1] == 0 and pays[0][2] == price * n
        tix = d.get("tix")
        alloc = int(tix) if tix and tix.isdigit() else None
        if R["st"] == "ok":
            if not exact:
                out.append((i, f"C07 confirmation of {n} accepted with payment {pays}, price {ptok}:{price}"))
            if g["dep"] != "1":
                out.append((i, "C07 confirmation accepted before the launchpad tokens were deposited"))
            if d.get("bl") == "1":
                out.append((i, "C07 confirmation accepted from a blacklisted address"))
            if alloc is not None and int(d["conf"]) + n > alloc:
                out.append((i, f"C07 confirmed {int(d['conf']) + n} > allocation {alloc}"))
            if not c["probe"]:
                nd = v.next_dump(i)
                if nd:
                    g2, a2 = nd
                    if int(a2[c["caller"]]["conf"]) != int(d["conf"]) + n:
                        out.append((i, f"C07 confirmed count {a2[c['caller']]['conf']} != {int(d['conf']) + n}"))
                    if bal_of(g2, ptok) != bal_of(g, ptok) + price * n:
                        out.append((i, "C07 contract holdings did not grow by exactly the payment"))
        elif not c["probe"]:
            nd = v.next_dump(i)
            if nd and nd != pd and canon_eq_state(nd, pd) is False:
                out.append((i, "C07 rejected confirmation changed the state"))
    return out


def canon_eq_state(a, b):
    return a[0] == b[0] and a[1] == b[1]


def m_C08(v):
    """filtering keeps exactly the confirmed tickets; contiguous disjoint ranges"""
    out = []
    pre = None
    for i, k in enumerate(v.kind):
        if not v.committed(i) or v.call[i]["ep"] != "filter":
            continue
        if pre is None:
            pd = v.prev_dump(i)
            pre = pd if pd else "unknown"
        if v.R[i].get("ret") == "[0]":
            nd = v.next_dump(i)
            if pre not in (None, "unknown") and nd and pre[0]["flags"][0] == "0":
                g0, a0 = pre
                g1, a1 = nd
                # allocation order from the batch chain of the pre-filter dump
                order = []
                for item in canon.parse_list(g0["batch"]):
                    first, rest = item.split(">")
                    addr, n = rest.split("x")
                    order.append((int(first), int(addr), int(n)))
                order.sort()
                nxt = 1
                ok_chain = all(a in a0 for (_, a, _) in order)
                if ok_chain:
                    for (_, a, n) in order:
                        if n == 0:
                            continue
                        conf = int(a0[a]["conf"])
                        exp = "none" if conf == 0 else f"{nxt}-{nxt + conf - 1}"
                        if a1[a]["range"] != exp:
                            out.append((i, f"C08 address {a} confirmed {conf}: range after filter {a1[a]['range']} != {exp}"))
                        nxt += conf
                    total = nxt - 1
                    if int(g1["last"]) != total:
                        out.append((i, f"C08 total tickets after filter {g1['last']} != sum of confirmed {total}"))
                    exp_nrw = min(int(g0["nrw"]), total)
                    if int(g1["nrw"]) != exp_nrw:
                        out.append((i, f"C08 winners count after filter {g1['nrw']} != min({g0['nrw']}, {total})"))
            pre = None
    return out


def m_C09(v):
    """each participant settles exactly once for what the views reported"""
    out = []
    lp = v.deploy["lp"] if v.deploy else 2
    for i, k in enumerate(v.kind):
        if not (v.kind[i] == "call" and v.call[i]["ep"] == "claim" and not v.call[i]["probe"]):
            continue
        c, R = v.call[i], v.R[i]
        pd = v.prev_dump(i)
        if not pd:
            continue
        g, addrs = pd
        d = addrs.get(c["caller"])
        if d is None:
            continue
        per = int(g["per"])
        ptok, price = price_of(g)
        has_range = d.get("range", "none") != "none"
        if R["st"] == "ok":
            got_lp = xf_to(R, c["caller"], lp)
            locked = sum(int(x.split(":")[2]) for x in canon.parse_list(R.get("lock", "[]")))
            if v.variant in gen.VESTED:
                if d.get("cl") == "0":
                    if not has_range:
                        out.append((i, "C09 account without tickets settled"))
                else:
                    pass
            else:
                if not has_range or d.get("cl") == "1":
                    out.append((i, "C09 claim accepted without surviving tickets / twice"))
                else:
                    ent = per * len(winners_of(d))
                    if got_lp + locked != ent:
                        out.append((i, f"C09 received {got_lp}+{locked} launchpad tokens, entitled to {ent}"))
        else:
            if xf_to(R, c["caller"], lp) or xf_to(R, c["caller"], ptok):
                out.append((i, "C09 rejected claim moved funds"))
    return out


def m_C12(v):
    """reserve conservation: base winners + reserved == configured, until the filter"""
    out = []
    if v.variant not in gen.GUAR:
        return out
    for i, k in enumerate(v.kind):
        if k == "dump" and v.D[i]:
            g, _ = v.D[i]
            if g["flags"][0] == "0" and g["flags"][1] == "0":
                tot = int(g["nrw"]) + int(g["tg"])
                if tot != v.deploy["nrw"]:
                    out.append((i, f"C12 base winners {g['nrw']} + reserved {g['tg']} != configured {v.deploy['nrw']}"))
            if int(g["nrw"]) >= 2 ** 31 or int(g["tg"]) >= 2 ** 31:
                out.append((i, "C12 counter wrapped around"))
        if v.kind[i] == "call" and v.R[i]["st"] == "panic" and v.call[i]["ep"] in ("blacklist", "unblacklist", "refundUsers", "addTicketsV1", "addTicketsV2"):
            out.append((i, f"C12 reserve accounting overflow/underflow in {v.call[i]['ep']} (wraps in the deployed build)"))
    return out


def m_C13(v):
    """vesting: cumulative == floor(E * pct / 100%), monotone, bounded"""
    out = []
    if v.variant not in gen.VESTED:
        return out
    received = {}
    lp = v.deploy["lp"]
    for i, k in enumerate(v.kind):
        if v.committed(i) and v.call[i]["ep"] == "claim":
            c = v.call[i]["caller"]
            received[c] = received.get(c, 0) + xf_to(v.R[i], c, lp)
            nd = v.next_dump(i)
            if nd:
                g, addrs = nd
                d = addrs.get(c)
                if d:
                    ut, uc = int(d["ut"]), int(d["uc"])
                    if uc != received[c]:
                        out.append((i, f"C13 claimed balance {uc} != tokens received {received[c]}"))
                    if uc > ut:
                        out.append((i, f"C13 received {uc} exceeds entitlement {ut}"))
                    pct = _pct(v.variant, g, v.call[i]["round"])
                    if pct is not None and uc != ut * pct // 10000:
                        out.append((i, f"C13 cumulative {uc} != floor({ut} * {pct} / 10000) at round {v.call[i]['round']}"))
    return out


def _pct(variant, g, rnd):
    s = g.get("sched", "none")
    if variant == "guarV2":
        ms = [(0, 10000)] if s == "none" else [tuple(int(x) for x in m.split("/")) for m in canon.parse_list(s)]
        p = 0
        for (r, q) in ms:
            if r <= rnd:
                p += q
            else:
                break
        return p
    if s == "none":
        return 0
    start, initial, times, pct, period = [int(x) for x in s.split(":")]
    if start > rnd:
        return 0
    if initial == 10000:
        return 10000
    periods = min((rnd - start) // period, times)
    return initial + pct * periods


MONITORS = {
    "C01": [m_C01], "C02": [m_C02], "C03": [m_C03], "C05": [m_C05], "C07": [m_C07],
    "C08": [m_C08], "C09": [m_C09], "C12": [m_C12], "C13": [m_C13],
}
