"""Process wrappers: the Rust harness (real contracts) and the Lean driver (model)."""
import os, select, subprocess

VERIF = os.path.dirname(os.path.dirname(os.path.dirname(os.path.abspath(__file__))))
HARNESS_DIR = os.environ.get("LP_HARNESS_DIR", os.path.join(VERIF, "harness"))
HARNESS_BIN = os.environ.get("LP_HARNESS_BIN", os.path.join(HARNESS_DIR, "target", "debug", "lp-harness"))
DRIVER_BIN = os.path.join(VERIF, "lean", ".lake", "build", "bin", "lp-driver")


OP_TIMEOUT = int(os.environ.get("LP_OP_TIMEOUT", "60"))


class LineProc:
    def __init__(self, argv):
        env = dict(os.environ)
        env["RUST_BACKTRACE"] = "0"
        self.p = subprocess.Popen(argv, stdin=subprocess.PIPE, stdout=subprocess.PIPE,
                                  stderr=subprocess.DEVNULL, env=env, text=True, bufsize=1)

    def ask(self, line):
        self.p.stdin.write(line + "\n")
        self.p.stdin.flush()
        # an operation that does not answer within OP_TIMEOUT seconds (a loop that never ends in a changed
        # contract) is cut: the process is killed and the trace ends with an error instead of hanging the check
        ready, _, _ = select.select([self.p.stdout], [], [], OP_TIMEOUT)
        if not ready:
            self.p.kill()
            raise RuntimeError("no answer within %d s (non-terminating operation?) on: %s" % (OP_TIMEOUT, line[:200]))
        out = self.p.stdout.readline()
        if out == "":
            raise RuntimeError("process died on: " + line)
        return out.rstrip("\n")

    def close(self):
        try:
            self.p.stdin.close()
            self.p.wait(timeout=5)
        except Exception:
            self.p.kill()


class Pair:
    """Sends every operation to both sides and returns both answers."""

    def __init__(self, with_model=True):
        self.impl = LineProc([HARNESS_BIN])
        self.model = LineProc([DRIVER_BIN]) if with_model else None
        self.log = []          # (op line, impl answer, model answer)

    def op(self, line, model_line=None):
        i = self.impl.ask(line)
        m = self.model.ask(model_line or line) if self.model else None
        self.log.append((line, i, m))
        return i, m

    def close(self):
        self.impl.close()
        if self.model:
            self.model.close()
