"""The check of one property: proofs (Lean build + audit) + correspondence (model vs the real
contracts) + implementation-side monitors, then the VIOLATION / KNOWN-FINDING protocol and the
evidence file."""
import collections, json, multiprocessing, os, sys, time, traceback

from . import canon, gen, leanaudit, monitors, proc, profiles, props

VERIF = leanaudit.VERIF
EVIDENCE_DIR = os.environ.get("LP_EVIDENCE_DIR", os.path.join(VERIF, "evidence"))
REPLAY_DIR = os.environ.get("LP_REPLAY_DIR", os.path.join(VERIF, "replays"))
KNOWN = os.path.join(VERIF, "known_findings.json")

QUICK = {"topup": 24, "vest": 60, "reserve": 40, "deploy": 8, "life": 120, "fy": 24, "chunks": 20, "perm": 2, "alloc": 30, "timeline": 16}
THOROUGH = {"topup": 300, "vest": 900, "reserve": 600, "deploy": 120, "life": 1800, "fy": 240, "chunks": 180, "perm": 24, "alloc": 360, "timeline": 180}


def job_list(pid, tier, seed):
    """(profile, variant, seed, opts) jobs for a property"""
    counts = QUICK if tier == "quick" else THOROUGH
    jobs = []
    n = 0
    for (prof, variants) in props.PROPS[pid]["profiles"]:
        for v in variants:
            for i in range(counts[prof]):
                opts = {}
                if prof == "fy":
                    # small scopes exhaustively (n, k), then large n with arbitrary raws
                    small = [(nn, kk) for nn in range(1, 6 if tier == "quick" else 7) for kk in range(0, nn + 2)]
                    if i < len(small) and (tier != "quick" or i < 8):
                        nn, kk = small[(i * 3 + 1) % len(small)] if tier == "quick" else small[i]
                        opts = {"n": nn, "k": max(kk, 1)}
                    else:
                        opts = {"big": True, "reps": 4}
                if prof == "chunks":
                    opts = {"exhaustive_upto": 4 if tier == "quick" else 6, "random_scheds": 4 if tier == "quick" else 10}
                jobs.append((prof, v, seed * 1000003 + n, opts))
                n += 1
    return jobs


# wall-clock budget of the exploration part of one check: when a (changed) contract makes operations crawl, the
# histories not yet started are skipped and counted in the evidence, so that the check still answers in minutes
DEADLINE = [None]
BUDGET_S = {"quick": int(os.environ.get("LP_QUICK_BUDGET", "240")), "thorough": int(os.environ.get("LP_THOROUGH_BUDGET", "5400"))}


def run_job(job):
    prof, variant, seed, opts = job
    t0 = time.time()
    if DEADLINE[0] is not None and t0 > DEADLINE[0]:
        return dict(job=(prof, variant, seed), ops=0, disagreements=[], violations={}, chunk_mismatch=[],
                    cov={}, error=None, sample=None, nontrivial=None, skipped=True)
    pair = proc.Pair()
    res = dict(job=(prof, variant, seed), ops=0, disagreements=[], violations={}, chunk_mismatch=[],
               cov={}, error=None, sample=None, nontrivial=None)
    try:
        tr = profiles.RUNNERS[prof](pair, gen.Rng(seed), variant, opts)
    except gen.TraceEnded as te:
        tr = te.trace
    except Exception:
        res["error"] = traceback.format_exc()[-1500:]
        pair.close()
        return res
    pair.close()
    res["ops"] = len(tr.ops)
    lines = [l for (l, _, _) in tr.ops]
    for d in tr.disagreements:
        idx = d["index"]
        rec = dict(d)
        rec.update(op=tr.ops[idx][0][:600], impl=tr.ops[idx][1][:1500], model=(tr.ops[idx][2] or "")[:1500],
                   prefix=lines[:idx + 1])
        res["disagreements"].append(rec)
    for (ep, sched, ok, same) in tr.chunk_results:
        if not same or ok is False:
            res["chunk_mismatch"].append(dict(ep=ep, schedule=sched, completed=ok, same_storage=same, prefix=lines))
    mon_errors = {}
    found_all = monitors.run_all(tr, mon_errors)
    res["monitor_errors"] = mon_errors
    for pid, found in found_all.items():
        for (idx, msg) in found[:3]:
            res["violations"].setdefault(pid, []).append(dict(index=idx, msg=msg, prefix=lines[:idx + 1],
                                                               impl=tr.ops[idx][1][:1500]))
    cov = collections.Counter()
    phases = set()
    for (line, impl, _m) in tr.ops:
        if line.startswith("call"):
            c = gen.parse_call_line(line)
            r = canon.parse_R(impl)
            st = r["st"] + (":" + r["ret"] if r.get("ret") in ("[0]", "[1]") else "")
            cov[f"{c['ep']}/{st}"] += 1
        elif line.startswith("dump") and impl.startswith("D "):
            phases.add(impl[2:14])
    res["cov"] = dict(cov)
    # a trace is non-trivial if it got past deployment and executed at least one accepted
    # state-changing call; its signature is the multiset of (endpoint, outcome) plus the flag words seen
    accepted = sum(n for k, n in cov.items() if "/ok" in k)
    res["nontrivial"] = None if accepted == 0 else hash((tuple(sorted(cov.items())), tuple(sorted(phases))))
    res["sample"] = dict(profile=prof, variant=variant, seed=seed, ops=len(tr.ops),
                         first_ops=[l[:160] for l in lines[:6]])
    res["wall"] = time.time() - t0
    return res


def load_known():
    if not os.path.exists(KNOWN):
        return {"findings": [], "fixed": []}
    return json.load(open(KNOWN))


def write_replay(pid, name, payload):
    d = os.path.join(REPLAY_DIR, pid)
    os.makedirs(d, exist_ok=True)
    path = os.path.join(d, name + ".json")
    json.dump(payload, open(path, "w"), indent=1)
    return os.path.relpath(path, VERIF)


def check(pid, tier, seed):
    t0 = time.time()
    cfg = props.PROPS[pid]
    out_lines = []
    violations = []          # (replay path, suffix)
    notes = []

    # 1. proofs
    with leanaudit.BuildLock():
        mods = [m for m in cfg["lean"] if os.path.exists(os.path.join(leanaudit.LEAN, m.replace(".", "/") + ".lean"))]
        missing_mods = [m for m in cfg["lean"] if m not in mods]
        audit = leanaudit.build_and_audit(mods)
        if tier == "thorough" and audit["ok"] and mods:
            # independent re-check of the compiled property modules by leanchecker
            lrc, lout = leanaudit.run(["lake", "env", "leanchecker"] + mods, leanaudit.LEAN, timeout=3000)
            audit["leanchecker"] = {"modules": mods, "exit": lrc, "tail": lout[-500:]}
            if lrc != 0:
                audit["ok"] = False
                audit["failures"].append("leanchecker rejected: " + lout[-300:])
        rc, hlog = leanaudit.build_harness()
    if rc != 0:
        path = write_replay(pid, "harness-build", {"property": pid, "kind": "build",
                            "what": "the correspondence harness does not build against /repo's working tree",
                            "log": hlog})
        print(f"VIOLATION property={pid} replay={path} no-failing-input-found")
        write_evidence(pid, tier, seed, audit, [], {}, 1, time.time() - t0, notes + ["harness build failed"])
        return 1
    obligations = [o for o in audit["obligations"]]
    n_obl = len(obligations)
    n_ok = sum(1 for o in obligations if o[1] in ("ok", "compiled"))
    proof_broken = (not audit["ok"]) or bool(missing_mods)

    # 2. correspondence + monitors
    jobs = job_list(pid, tier, seed)
    corpus = corpus_jobs()
    DEADLINE[0] = time.time() + BUDGET_S.get(tier, 420)
    gen.DEADLINE[0] = DEADLINE[0]
    with multiprocessing.Pool(min(16, max(1, len(jobs)))) as pool:
        results = pool.map(run_job, jobs, chunksize=1)
    results = run_corpus(corpus) + results

    rel_dis = []
    other_dis = 0
    for r in results:
        for d in r["disagreements"]:
            if props.relevant(pid, d):
                rel_dis.append((r, d))
            else:
                other_dis += 1
    mon = []
    for r in results:
        for v in r["violations"].get(pid, []):
            mon.append((r, v))
    chunk_bad = []
    if pid == "C04":
        for r in results:
            for c in r["chunk_mismatch"]:
                chunk_bad.append((r, c))
    errors = [r["error"] for r in results if r["error"]]
    errors += [e for r in results for e in r.get("monitor_errors", {}).get(pid, [])]
    n_skipped = sum(1 for r in results if r.get("skipped"))
    if n_skipped:
        notes.append(f"{n_skipped} of {len(results)} histories were not run: the exploration budget of {BUDGET_S.get(tier)} s was used up")

    known = load_known()

    def is_known(msg):
        for f in known.get("findings", []):
            if f.get("property") == pid and f.get("match") and f["match"] in msg:
                return f
        return None

    # 3. decide
    reported = set()
    for (r, v) in mon:
        kf = is_known(v["msg"])
        if kf:
            key = ("known", kf["id"])
            if key not in reported:
                reported.add(key)
                out_lines.append(f"KNOWN-FINDING: property={pid} {kf['what']}")
            continue
        key = v["msg"].split(" ")[1] if " " in v["msg"] else v["msg"]
        if ("mon", key) in reported:
            continue
        reported.add(("mon", key))
        path = write_replay(pid, f"monitor-{r['job'][0]}-{r['job'][1]}-{r['job'][2]}",
                            {"property": pid, "kind": "monitor", "what": v["msg"], "job": r["job"],
                             "failing_step": v["index"], "impl_answer": v["impl"], "ops": v["prefix"]})
        violations.append((path, ""))
    for (r, c) in chunk_bad:
        if ("chunk", c["ep"]) in reported:
            continue
        reported.add(("chunk", c["ep"]))
        path = write_replay(pid, f"chunks-{r['job'][1]}-{r['job'][2]}-{c['ep']}",
                            {"property": pid, "kind": "chunked-vs-single",
                             "what": f"{c['ep']} split as {c['schedule']}: completed={c['completed']} same storage and balances as the single call={c['same_storage']}",
                             "job": r["job"], "ops": c["prefix"]})
        violations.append((path, ""))
    if rel_dis and not violations:
        # the correspondence is broken inside this property's projection and no monitor produced a
        # failing history: still a violation (the property is no longer shown to hold)
        r, d = rel_dis[0]
        path = write_replay(pid, f"correspondence-{r['job'][0]}-{r['job'][1]}-{r['job'][2]}",
                            {"property": pid, "kind": "correspondence",
                             "what": f"model and implementation disagree on {d['fields']} at step {d['index']} ({d['kind']}, endpoint {d.get('ep')}); implementation says: {d.get('impl_msg', '')!r}, model says: {d.get('model_msg', '')!r}",
                             "theorems_no_longer_tied_to_the_code": [o[0] for o in obligations],
                             "job": r["job"], "failing_step": d["index"], "impl_answer": d["impl"],
                             "model_answer": d["model"], "ops": d["prefix"]})
        violations.append((path, " no-failing-input-found"))
    if proof_broken and not violations:
        path = write_replay(pid, "proof-obligation",
                            {"property": pid, "kind": "proof",
                             "what": "a proof obligation no longer checks",
                             "failures": audit["failures"] + [f"missing module {m}" for m in missing_mods],
                             "log_tail": audit["log"][-3000:]})
        violations.append((path, " no-failing-input-found"))
    if errors and not violations:
        notes.append("harness/generator errors: " + errors[0][-300:])
        path = write_replay(pid, "machinery-error", {"property": pid, "kind": "machinery", "errors": errors[:3]})
        violations.append((path, " no-failing-input-found"))

    for l in out_lines:
        print(l)
    for (path, suffix) in violations:
        print(f"VIOLATION property={pid} replay={path}{suffix}")
    if other_dis:
        notes.append(f"{other_dis} model/implementation disagreement(s) outside this property's projection (reported by the properties they concern)")
    cov = collections.Counter()
    for r in results:
        cov.update(r["cov"])
    write_evidence(pid, tier, seed, audit, results, dict(cov), len(violations), time.time() - t0, notes,
                   n_rel_dis=len(rel_dis))
    ok_line = f"{pid} {tier}: obligations {n_ok}/{n_obl}, traces {len(results)}, ops {sum(r['ops'] for r in results)}, " \
              f"disagreements in projection {len(rel_dis)}, monitor violations {len(mon)}, wall {time.time() - t0:.1f}s"
    print(ok_line)
    return 1 if violations else 0


def corpus_jobs():
    d = os.path.join(VERIF, "corpus")
    return sorted(os.path.join(d, f) for f in os.listdir(d) if f.endswith(".ops")) if os.path.isdir(d) else []


def run_corpus(files):
    """minimised past failures run first, on both sides"""
    out = []
    for f in files:
        pair = proc.Pair()
        tr = gen.Trace(pair, os.path.basename(f))
        try:
            for line in open(f):
                line = line.strip()
                if line:
                    tr.send(line)
        except Exception:
            pass
        pair.close()
        lines = [l for (l, _, _) in tr.ops]
        res = dict(job=("corpus", os.path.basename(f), 0), ops=len(tr.ops), disagreements=[], violations={},
                   chunk_mismatch=[], cov={}, error=None, sample=None, nontrivial=None)
        for d in tr.disagreements:
            idx = d["index"]
            rec = dict(d)
            rec.update(op=tr.ops[idx][0][:600], impl=tr.ops[idx][1][:1500], model=(tr.ops[idx][2] or "")[:1500],
                       prefix=lines[:idx + 1])
            res["disagreements"].append(rec)
        for pid, found in monitors.run_all(tr).items():
            for (idx, msg) in found[:3]:
                res["violations"].setdefault(pid, []).append(dict(index=idx, msg=msg, prefix=lines[:idx + 1],
                                                                   impl=tr.ops[idx][1][:1500]))
        out.append(res)
    return out


def write_evidence(pid, tier, seed, audit, results, cov, nviol, wall, notes, n_rel_dis=0):
    os.makedirs(EVIDENCE_DIR, exist_ok=True)
    obligations = audit["obligations"]
    n_obl = len(obligations)
    n_ok = sum(1 for o in obligations if o[1] in ("ok", "compiled"))
    sigs = set(r["nontrivial"] for r in results if r.get("nontrivial") is not None)
    samples = [r["sample"] for r in results if r.get("sample")][:3]
    samples += [{"theorem": o[0], "status": o[1], "axioms": o[2]} for o in obligations[:12]]
    ev = {
        "property_id": pid,
        "tier": tier,
        "seed": seed,
        "level": "proof",
        "coverage": {
            "obligations": max(n_obl, 0),
            "discharged": n_ok,
            "checker_cmd": "cd /verif/lean && lake build " + " ".join(props.PROPS[pid]["lean"]) + "  (Lean 4.33.0 kernel; #print axioms audited against {propext, Classical.choice, Quot.sound})",
            "trusted_base": [
                "Lean 4.33.0 kernel and the axioms printed per theorem (at most propext, Classical.choice, Quot.sound)",
                "the hand-written model LP/*.lean as a description of /repo: tied to the code by the correspondence runs counted below, not by proof",
                "the Rust harness (line protocol executor, event/storage decoders), the MultiversX debug VM and framework (dispatch, codec, storage mappers, transfers)",
                "verif-hooks: iteration budget replaces gas metering; forced seeds replace new_random; typed-handle sha256 replaces the raw-handle call in Random::hash_seed",
            ],
            "evaluations": len(results),
            "distinct_nontrivial": len(sigs),
            "rule": "a trace = one generated operation history run on the real contracts and on the model; non-trivial = at least one accepted state-changing call; distinct = different multiset of (endpoint, outcome) pairs or different set of lifecycle flag words observed",
            "samples": samples,
            "traces_validated_against_impl": len(results),
            "operations_executed_on_both_sides": sum(r["ops"] for r in results),
            "disagreements_in_projection": n_rel_dis,
            "endpoint_outcome_distribution": dict(sorted(cov.items())),
            "theorems": [{"name": o[0], "status": o[1], "axioms": o[2]} for o in obligations],
            "proof_failures": audit["failures"],
            "leanchecker": audit.get("leanchecker", "not run in the quick tier"),
            "notes": notes,
        },
        "assumptions": [
            "theorems are about the model; the model is validated against the implementation only on the explored histories",
            "rounds and epochs are non-decreasing along a history",
            "usize inputs < 2^32 (enforced by the real argument decoder)",
        ],
        "wall_s": round(wall, 2),
        "violations": nviol,
    }
    json.dump(ev, open(os.path.join(EVIDENCE_DIR, pid + ".json"), "w"), indent=1)


def replay(path):
    data = json.load(open(path))
    ops = data.get("ops")
    if not ops:
        print(json.dumps({k: data[k] for k in data if k != "log_tail"}, indent=1)[:4000])
        return 0
    with leanaudit.BuildLock():
        leanaudit.build_and_audit([])
        leanaudit.build_harness()
    pair = proc.Pair()
    tr = gen.Trace(pair, "replay")
    for line in ops:
        tr.send(line)
    pair.close()
    print("what:", data.get("what"))
    for i, (l, a, b) in enumerate(tr.ops[-3:]):
        print("OP   ", l[:400])
        print("IMPL ", a[:1200])
        print("MODEL", (b or "")[:1200])
    if tr.disagreements:
        print("first disagreement:", {k: v for k, v in tr.disagreements[0].items()})
    for pid, found in monitors.run_all(tr).items():
        for (idx, msg) in found[:3]:
            print("MONITOR", pid, "step", idx, msg)
    return 0


def check_all(tier, seed, scale=1.0):
    """development mode (`./check ALL [tier]`): one shared set of histories, every property's decision
    evaluated on it; prints `ALL-VIOLATION property=<id> kind=<monitor|chunks|correspondence> <what>`
    lines and writes no evidence.  Used by the mutation sweep (tools/mutate.py)."""
    t0 = time.time()
    with leanaudit.BuildLock():
        rc, hlog = leanaudit.build_harness()
    if rc != 0:
        print("ALL-BUILD-FAILED")
        print(hlog[-1500:])
        return 3
    counts = QUICK if tier == "quick" else THOROUGH
    pairs = {}
    for pid, cfg in props.PROPS.items():
        for (prof, variants) in cfg["profiles"]:
            for v in variants:
                pairs.setdefault((prof, v), None)
    jobs = []
    n = 0
    for (prof, v) in sorted(pairs):
        for i in range(max(1, int(counts[prof] * scale))):
            opts = {}
            if prof == "fy":
                small = [(nn, kk) for nn in range(1, 6) for kk in range(0, nn + 2)]
                if i < 8:
                    nn, kk = small[(i * 3 + 1) % len(small)]
                    opts = {"n": nn, "k": max(kk, 1)}
                else:
                    opts = {"big": True, "reps": 4}
            if prof == "chunks":
                opts = {"exhaustive_upto": 4, "random_scheds": 4}
            jobs.append((prof, v, seed * 1000003 + n, opts))
            n += 1
    DEADLINE[0] = time.time() + BUDGET_S.get(tier, 420)
    gen.DEADLINE[0] = DEADLINE[0]
    with multiprocessing.Pool(16) as pool:
        results = pool.map(run_job, jobs, chunksize=1)
    results = run_corpus(corpus_jobs()) + results
    found = {}
    for r in results:
        for pid, vs in r["violations"].items():
            for v in vs[:1]:
                found.setdefault(pid, []).append(("monitor", v["msg"][:160], r["job"]))
        for c in r["chunk_mismatch"]:
            found.setdefault("C04", []).append(("chunks", f"{c['ep']} {c['schedule']}", r["job"]))
        for d in r["disagreements"]:
            for pid in props.PROPS:
                if props.relevant(pid, d):
                    found.setdefault(pid, []).append(("correspondence", f"{d.get('ep')} {d['fields']}", r["job"]))
        if r["error"]:
            found.setdefault("MACHINERY", []).append(("error", r["error"][-200:], r["job"]))
    for pid in sorted(found):
        kinds = sorted(set(k for (k, _, _) in found[pid]))
        first = found[pid][0]
        concrete = any(k in ("monitor", "chunks") for k in kinds)
        print(f"ALL-VIOLATION property={pid} kinds={','.join(kinds)} concrete={int(concrete)} first={first[1]!r} job={first[2]}")
    print(f"ALL {tier}: traces {len(results)}, ops {sum(r['ops'] for r in results)}, properties alarmed {len(found)}, wall {time.time() - t0:.1f}s")
    return 1 if found else 0


def main(argv):
    if len(argv) >= 2 and argv[0] == "replay":
        return replay(argv[1])
    if argv and argv[0] == "ALL":
        return check_all(argv[1] if len(argv) > 1 else "quick", int(os.environ.get("VERIF_SEED", "1")),
                         float(os.environ.get("LP_ALL_SCALE", "1")))
    pid = argv[0]
    tier = argv[1] if len(argv) > 1 else os.environ.get("VERIF_TIER", "quick")
    seed = int(os.environ.get("VERIF_SEED", "1"))
    if pid not in props.PROPS:
        print("unknown property", pid)
        return 2
    return check(pid, tier, seed)
