"""Generators: state-aware, mostly-valid lifecycles for the eight variants.

Every random choice derives from one splitmix64 state, so a (seed, index) pair replays a
trace exactly.  The generator looks only at what it sent and at the implementation's
answers (never at the model)."""

import time

from . import canon

MASK = (1 << 64) - 1

VARIANTS = ["base", "locked", "nft", "guarV1", "guarV2", "migration", "lockedGuar", "nftGuar"]
V1ALLOC = {"guarV1", "migration", "lockedGuar", "nftGuar"}
GUAR = V1ALLOC | {"guarV2"}
NFT = {"nft", "nftGuar"}
LOCKED = {"locked", "lockedGuar"}
VESTED = {"guarV1", "guarV2"}
UNBL = {"guarV1", "guarV2", "migration"}

OWNER, SUPPORT, STRANGER, LOCK, CCALLER = 1, 2, 30, 900, 901
LP_TOK, PAY_TOK, FEE_TOK, OTHER_TOK = 2, 3, 4, 5


class Rng:
    def __init__(self, seed):
        self.s = seed & MASK

    def next(self):
        self.s = (self.s + 0x9E3779B97F4A7C15) & MASK
        z = self.s
        z = ((z ^ (z >> 30)) * 0xBF58476D1CE4E5B9) & MASK
        z = ((z ^ (z >> 27)) * 0x94D049BB133111EB) & MASK
        return z ^ (z >> 31)

    def below(self, n):
        return self.next() % n if n > 0 else 0

    def range(self, lo, hi):  # inclusive
        return lo + self.below(hi - lo + 1)

    def chance(self, num, den):
        return self.below(den) < num

    def pick(self, xs):
        return xs[self.below(len(xs))]

    def seed32(self):
        return "".join("%016x" % self.next() for _ in range(4))

    def shuffle(self, xs):
        xs = list(xs)
        for i in range(len(xs) - 1, 0, -1):
            j = self.below(i + 1)
            xs[i], xs[j] = xs[j], xs[i]
        return xs


def call_line(caller, rnd, epoch, ep, args=(), egld=0, esdts=(), budget=None, seeds=(), script=(),
              probe=False):
    parts = ["call", caller, rnd, epoch, egld, len(esdts)]
    for (t, n, a) in esdts:
        parts += [t, n, a]
    parts.append("-" if budget is None else budget)
    parts.append(len(seeds))
    parts += list(seeds)
    parts.append(len(script))
    parts += list(script)
    parts.append(1 if probe else 0)
    parts.append(ep)
    parts += list(args)
    return " ".join(str(p) for p in parts)


def deploy_line(variant, caller, rnd, epoch, lp, per, paytok, price, nrw, conf, sel, claim,
                minc=1, lockpct=0, unlock=0, lockaddr=0, cost=(0, 0, 0), avail=0):
    parts = ["deploy", variant, caller, rnd, epoch, lp, per, paytok, price, nrw, conf, sel, claim,
             minc, lockpct, unlock, lockaddr, cost[0], cost[1], cost[2], avail]
    return " ".join(str(p) for p in parts)


# wall-clock deadline of the exploration (set by checks before the worker pool forks): once it has passed, running
# traces stop at their next operation and are evaluated as far as they got
DEADLINE = [None]


class TraceEnded(Exception):
    """an operation never answered (cut by proc.OP_TIMEOUT): the trace ends here and is evaluated as it is"""

    def __init__(self, trace):
        Exception.__init__(self, "trace ended by a non-terminating operation")
        self.trace = trace


class Trace:
    """One scenario: sends ops through a Pair, keeps the answers, notes disagreements."""

    def __init__(self, pair, label):
        self.pair = pair
        self.label = label
        self.ops = []            # (line, impl, model)
        self.disagreements = []  # (index, fields)
        self.diverged = False
        self.round = 0
        self.epoch = 0
        self.dump_addrs = []
        self.bound = 0
        self.chunk_results = []
        self.ctx = {"lp": 2}
        self.last_ep = None
        self.disagreements_by_index = {}
        self.ret_div = {}        # endpoint -> index of the first completed/interrupted disagreement on it

    def send(self, line, model_line=None):
        if DEADLINE[0] is not None and time.time() > DEADLINE[0] + 30:
            self.cut_short = True
            raise TraceEnded(self)
        try:
            i, m = self.pair.op(line, model_line)
        except RuntimeError as ex:
            if "no answer within" not in str(ex) and "process died" not in str(ex):
                raise
            # (a process that dies on an operation — stack overflow or abort inside the contract code — is treated
            # like an operation that never answers: the trace ends and the step is reported under C04)
            idx = len(self.ops)
            self.ops.append((line, "X hang", "X hang"))
            ep = parse_call_line(line)["ep"] if line.startswith("call") else None
            rec = dict(index=idx, kind="call", ep=ep, fields=["hang"], impl_msg=str(ex)[:200], model_msg="")
            self.disagreements_by_index[idx] = rec
            self.disagreements.append(rec)
            self.diverged = True
            raise TraceEnded(self)
        idx = len(self.ops)
        self.ops.append((line, i, m))
        if line.startswith("storage"):
            return i
        is_call = line.startswith("call")
        ep = "deploy" if line.startswith("deploy") else None
        if is_call:
            c = parse_call_line(line)
            ep = c["ep"]
        if line.startswith("dump") and i.startswith("D "):
            try:
                self.ctx = canon.dump_ctx(canon.parse_D(i)[0])
            except Exception:
                pass
        if m is not None and not self.diverged:
            rec = None
            if i.startswith("X") or m.startswith("X"):
                rec = dict(index=idx, kind="protocol", ep=ep, fields=["protocol"])
                self.diverged = True
            elif line.startswith("abi"):
                if i != m:
                    rec = dict(index=idx, kind="call", ep="abi", fields=["abi"], impl_msg="", model_msg="")
            elif line.startswith("dump"):
                f = canon.diff_D(i, m)
                if f:
                    rec = dict(index=idx, kind="dump", ep=self.last_ep, fields=f)
                    # the two states differ.  If some property owns the difference the comparison of this trace
                    # ends here (everything later is a consequence); a difference no property speaks about (for
                    # instance dead storage left behind) must not hide later, independent disagreements
                    from . import props as _props
                    if any(_props.relevant(pid, rec) for pid in _props.PROPS):
                        self.diverged = True
            else:
                f = canon.diff_R(i, m, self.ctx)
                if f:
                    ri, rm = canon.parse_R(i), canon.parse_R(m)
                    rec = dict(index=idx, kind="call", ep=ep, fields=f, impl_msg=ri.get("msg", ""),
                               model_msg=rm.get("msg", ""))
                    if "ret" in f or "draws" in f:
                        self.ret_div.setdefault(ep, idx)
                    elif "st" in f and ep in self.ret_div:
                        # the two sides already disagreed on whether this multi-call step had completed
                        # (or on its draws): a later accept/reject difference on the same endpoint is a
                        # consequence of that, and belongs to the properties the first one belongs to
                        rec["root"] = dict(self.disagreements_by_index[self.ret_div[ep]])
                    if "st" in f:
                        self.diverged = True
            if rec:
                self.disagreements_by_index[idx] = rec
                self.disagreements.append(rec)
        if is_call and i.startswith("R ok") and not c["probe"]:
            self.last_ep = ep
        return i

    def impl_only(self, line):
        """an environment action on the implementation side only (the model has no counterpart and is not told)"""
        i = self.pair.impl.ask(line)
        self.ops.append((line, i, i))
        return i

    def dump(self):
        line = "dump %d %d %d %s" % (self.round, self.bound, len(self.dump_addrs),
                                     " ".join(str(a) for a in self.dump_addrs))
        return self.send(line)

    def call(self, caller, ep, args=(), **kw):
        line = call_line(caller, self.round, self.epoch, ep, args, **kw)
        r = self.send(line)
        return canon.parse_R(r)


class Life:
    """A full lifecycle with random deviations."""

    def __init__(self, trace, rng, variant, opts=None):
        self.t = trace
        self.r = rng
        self.v = variant
        self.o = opts or {}
        self.users = []
        self.alloc = {}        # user -> tickets allocated
        self.total_alloc = 0

    # ---- parameters ------------------------------------------------------------
    def params(self):
        r = self.r
        self.paytok = r.pick([0, PAY_TOK, PAY_TOK])
        self.price = r.pick([1, 3, 10, 10, 7, 10**18, 10**21 + 7]) if not self.o.get("price") else self.o["price"]
        self.per = r.pick([1, 100, 100, 999, 10**18 + 1, 7])
        self.nrw = r.range(1, 7)
        self.conf, self.sel = 10, 20
        self.claim = r.pick([20, 30, 30])
        self.minc = r.range(1, 3)
        self.lockpct = r.pick([1, 2500, 5000, 9999, 10000, 3333])
        self.unlock = r.pick([5, 10, 50])
        self.feetok = r.pick([0, FEE_TOK, FEE_TOK, self.paytok])
        self.fee = r.pick([1, 5, 1000, 10**18])
        self.avail = r.range(1, 4)
        self.nusers = r.range(1, 6)
        self.users = list(range(10, 10 + self.nusers))

    def deploy(self):
        t = self.t
        t.round, t.epoch = 0, 0
        line = deploy_line(self.v, OWNER, 0, 0, LP_TOK, self.per, self.paytok, self.price, self.nrw,
                           self.conf, self.sel, self.claim, minc=self.minc, lockpct=self.lockpct,
                           unlock=self.unlock, lockaddr=LOCK, cost=(self.feetok, 0, self.fee),
                           avail=self.avail)
        t.dump_addrs = [OWNER, SUPPORT] + self.users + [STRANGER]
        r = t.send(line)
        return r.startswith("R ok")

    # ---- allocation ------------------------------------------------------------
    def alloc_entry(self, u):
        r = self.r
        n = r.pick([0, 1, 1, 2, 3, 4, 5])
        if self.v in V1ALLOC:
            st = r.range(0, 3)
            en = r.range(0, 3)
            mig = 1 if r.chance(1, 3) else 0
            self.alloc[u] = st + en
            return [u, st, en, mig], st + en
        if self.v == "guarV2":
            n = r.pick([0, 1, 2, 3, 4, 6])
            m = r.pick([0, 0, 1, 1, 2])
            infos = []
            for _ in range(m):
                mn = r.range(1, max(1, n))
                g = r.range(0, mn) if r.chance(9, 10) else mn + 1
                infos += [g, mn]
            self.alloc[u] = n
            return [u, n, m] + infos, n
        self.alloc[u] = n
        return [u, n], n

    def allocate(self):
        r, t = self.r, self.t
        ep = "addTicketsV1" if self.v in V1ALLOC else ("addTicketsV2" if self.v == "guarV2" else "addTickets")
        pending = list(self.users)
        while pending:
            k = r.range(1, len(pending))
            batch, pending = pending[:k], pending[k:]
            args = [len(batch)]
            tot = 0
            for u in batch:
                a, n = self.alloc_entry(u)
                args += a
                tot += n
            if r.chance(1, 12) and batch:   # duplicate inside the call
                args[0] += 1
                a, _ = self.alloc_entry(batch[0])
                args += a
            res = t.call(OWNER, ep, args)
            if res["st"] == "ok":
                self.total_alloc += tot
            t.bound = self.total_alloc + 6
            t.dump()
        if r.chance(1, 6) and self.users:   # duplicate across calls
            a, _ = self.alloc_entry(self.users[0])
            t.call(OWNER, ep, [1] + a)
            t.dump()

    def deposit_amount(self, dump):
        g, _ = canon.parse_D(dump)
        nrw = int(g["nrw"])
        tg = int(g.get("tg", "0"))
        return int(g["per"]) * (nrw + tg)

    def deposit(self):
        t, r = self.t, self.r
        d = t.dump()
        amt = self.deposit_amount(d)
        for delta in r.shuffle([-1, 1]):
            if amt + delta > 0:
                t.call(OWNER, "deposit", esdts=[(LP_TOK, 0, amt + delta)], probe=True)
        if r.chance(1, 8):
            t.call(STRANGER, "deposit", esdts=[(LP_TOK, 0, amt)], probe=True)
        # the exact amount in another token, as EGLD, or split over two transfers
        k = r.below(4)
        if k == 0:
            t.call(OWNER, "deposit", esdts=[(OTHER_TOK, 0, amt)], probe=True)
        elif k == 1:
            t.call(OWNER, "deposit", esdts=[(PAY_TOK, 0, amt)], probe=True)
        elif k == 2:
            t.call(OWNER, "deposit", egld=amt, probe=True)
        elif amt >= 2 and r.chance(1, 2):
            t.call(OWNER, "deposit", esdts=[(LP_TOK, 0, amt - 1), (LP_TOK, 0, 1)], probe=True)
        else:
            t.call(OWNER, "deposit", esdts=[(LP_TOK, 1, amt)], probe=True)      # launchpad token id, non-fungible
        t.call(OWNER, "deposit", esdts=[(LP_TOK, 0, amt)])
        t.dump()

    # ---- set-up period ---------------------------------------------------------
    def setup_misc(self):
        t, r = self.t, self.r
        if r.chance(2, 3):
            t.call(OWNER, "setSupport", [SUPPORT])
        if r.chance(1, 4):
            self.price = r.pick([2, 10, 11])
            self.paytok = r.pick([0, PAY_TOK])
            t.call(OWNER, "setTicketPrice", [self.paytok, self.price])
        if r.chance(1, 5):
            t.call(OWNER, "setPerTicket", [r.pick([0, 5, 100])])
        if r.chance(1, 6):
            t.call(OWNER, r.pick(["setConfStart", "setSelStart", "setClaimStart"]), [r.range(0, 40)], probe=True)
        if self.v == "guarV1" and r.chance(2, 3):
            self.set_schedule1()
        if self.v == "guarV2" and r.chance(2, 3):
            self.set_schedule2()
        if self.v in NFT:
            # usually the SFT collection is set up before the sale; sometimes only just before the claims — until then
            # nobody can enter the NFT draw ("SFT setup not complete")
            self.sft_late = r.chance(1, 6)
            if not self.sft_late:
                t.call(OWNER, "sftSetup")
            if r.chance(1, 4):
                self.fee = r.pick([2, 9])
                t.call(OWNER, "setNftCost", [self.feetok, 0, self.fee])
            if r.chance(1, 3):
                # invalid costs (probes): EGLD with a nonce, zero amount, the launchpad token, an invalid identifier
                bad = r.pick([[0, 1, 5], [self.feetok, 0, 0], [LP_TOK, 0, 5], [1, 0, 5], [0, 0, 0]])
                t.call(OWNER, "setNftCost", bad, probe=True)
        t.dump()

    def set_schedule1(self):
        r = self.r
        kind = r.below(4)
        if kind == 0:
            args = [self.claim, 10000, 0, 0, 0]
        elif kind == 1:
            args = [self.claim, 2500, 3, 2500, r.pick([1, 5, 10])]
        elif kind == 2:
            args = [self.claim + r.range(0, 5), 1000, 9, 1000, r.pick([1, 2])]
        else:
            args = [r.range(0, 40), r.pick([0, 5000, 10000]), r.range(0, 4), r.pick([0, 2500, 5000]), r.range(0, 3)]
        self.t.call(OWNER, "setSchedule1", args)

    def set_schedule2(self):
        r = self.r
        kind = r.below(4)
        base = self.claim
        if kind == 0:
            ms = [(base, 10000)]
        elif kind == 1:
            ms = [(base, 2500), (base + 5, 2500), (base + 5, 2500), (base + 12, 2500)]
        elif kind == 2:
            ms = [(base + 1, 3333), (base + 2, 3333), (base + 9, 3334)]
        else:
            n = r.range(0, 3)
            ms = [(r.range(0, 60), r.pick([2500, 5000, 10000, 3000])) for _ in range(n)]
        args = [len(ms)]
        for (a, b) in ms:
            args += [a, b]
        self.t.call(OWNER, "setSchedule2", args)

    # ---- confirmation period ---------------------------------------------------
    def pay(self, amount):
        if self.paytok == 0:
            return {"egld": amount}
        return {"esdts": [(self.paytok, 0, amount)]}

    def confirm_phase(self):
        t, r = self.t, self.r
        t.round = r.range(self.conf, self.sel - 1)
        confirmed = {u: 0 for u in self.users}
        black = set()
        paid_nft = set()
        if r.chance(1, 3) and self.users:
            # exactly at the first confirmation round: a participant pays, then the owner tries to move
            # the confirmation start and to re-price (both must be rejected; if a defect lets them
            # through, the rest of the lifecycle continues with the new terms and the ledger monitors
            # see the consequences)
            t.round = self.conf
            u = r.pick(self.users)
            left = self.alloc.get(u, 0)
            if left > 0:
                res = t.call(u, "confirm", [1], **self.pay(self.price))
                if res["st"] == "ok":
                    confirmed[u] += 1
            res = t.call(OWNER, "setConfStart", [self.conf + 2])
            moved = res["st"] == "ok"
            newprice = self.price + r.pick([1, 5])
            res = t.call(OWNER, "setTicketPrice", [self.paytok, newprice])
            if res["st"] == "ok":
                self.price = newprice
            t.dump()
            if moved:
                self.conf += 2
                t.round = self.conf
        steps = r.range(2 * len(self.users), 4 * len(self.users) + 3)
        if self.o.get("few_confirm"):
            steps = r.range(0, 2)
        for _ in range(steps):
            t.round = min(self.sel - 1, t.round + (1 if r.chance(1, 4) else 0))
            u = r.pick(self.users) if r.chance(14, 15) else STRANGER
            k = r.below(32)
            if k < 17:
                left = self.alloc.get(u, 0) - confirmed.get(u, 0)
                if left > 0 and r.chance(7, 8):
                    n = r.range(1, left) if r.chance(2, 3) else left
                else:
                    n = r.range(0, max(1, self.alloc.get(u, 1)) + 1)
                kind = r.below(16)
                if kind == 0:
                    res = t.call(u, "confirm", [n], **self.pay(self.price * n + 1))
                elif kind == 1 and self.price * n > 0:
                    res = t.call(u, "confirm", [n], **self.pay(self.price * n - 1))
                elif kind == 2:
                    res = t.call(u, "confirm", [n], esdts=[(OTHER_TOK, 0, self.price * n)])
                elif kind == 3 and self.paytok != 0:
                    half = self.price * n // 2
                    res = t.call(u, "confirm", [n], esdts=[(self.paytok, 0, half), (self.paytok, 0, self.price * n - half)])
                elif kind == 4 and self.paytok != 0 and r.chance(1, 2):
                    # the payment token's identifier and the exact amount, but as a non-fungible (nonce 1)
                    res = t.call(u, "confirm", [n], esdts=[(self.paytok, 1, self.price * n)])
                elif kind == 4:
                    res = t.call(u, "confirm", [n], esdts=[(OTHER_TOK, 1, self.price * n + 1)])
                else:
                    res = t.call(u, "confirm", [n], **self.pay(self.price * n))
                if res["st"] == "ok" and u in confirmed:
                    confirmed[u] += n
            elif k < 21:
                who = r.pick([OWNER, OWNER, OWNER, SUPPORT, STRANGER])
                vs = [u] if r.chance(3, 4) else [u, r.pick(self.users)]
                if self.v in NFT and paid_nft and r.chance(1, 2):
                    # a batch mixing participants who paid the NFT fee with participants who did not, in either order
                    # (every payer of the batch must get the fee back, wherever he stands in the list)
                    payers_ = [x for x in sorted(paid_nft) if x not in black]
                    others_ = [x for x in self.users if x not in paid_nft and x not in black]
                    if payers_ and others_:
                        vs = r.shuffle([r.pick(payers_), r.pick(others_)] + ([r.pick(payers_ + others_)] if r.chance(1, 3) else []))
                        vs = list(dict.fromkeys(vs))
                ep = "blacklist" if not (self.v == "guarV2" and r.chance(1, 3)) else "refundUsers"
                res = t.call(who, ep, [len(vs)] + vs)
                if res["st"] == "ok":
                    for x in vs:
                        black.add(x)
                        confirmed[x] = 0
                        paid_nft.discard(x)
            elif k < 23:
                if self.v in UNBL:
                    who = r.pick([OWNER, OWNER, SUPPORT, STRANGER])
                    x = r.pick(sorted(black)) if black and r.chance(3, 4) else u
                    res = t.call(who, "unblacklist", [1, x])
                    if res["st"] == "ok":
                        black.discard(x)
            elif k < 27:
                if self.v in NFT:
                    cands = [x for x in self.users if confirmed.get(x, 0) > 0 and x not in paid_nft]
                    x = r.pick(cands) if cands and r.chance(5, 6) else u
                    feepay = {"egld": self.fee} if self.feetok == 0 else {"esdts": [(self.feetok, 0, self.fee)]}
                    if r.chance(1, 8):
                        feepay = {"egld": self.fee + 1} if self.feetok == 0 else {"esdts": [(self.feetok, 0, self.fee - 1)]}
                    elif r.chance(1, 8):
                        # the exact fee in another token, with an NFT nonce, or split over two transfers
                        kk = r.below(3)
                        if kk == 0:
                            feepay = {"esdts": [(OTHER_TOK, 0, self.fee)]}
                        elif kk == 1:
                            feepay = {"esdts": [(self.feetok if self.feetok != 0 else OTHER_TOK, 1, self.fee)]}   # a non-fungible payment
                        elif self.feetok != 0 and self.fee >= 2:
                            feepay = {"esdts": [(self.feetok, 0, self.fee - 1), (self.feetok, 0, 1)]}
                    res = t.call(x, "confirmNft", **feepay)
                    if res["st"] == "ok":
                        paid_nft.add(x)
            elif k < 29:
                t.call(OWNER, r.pick(["pause", "unpause", "unpause"]))
            elif k < 31:
                sched = {"guarV1": "setSchedule1 30 10000 0 0 0", "guarV2": "setSchedule2 1 30 10000"}.get(self.v, "filter")
                ep = r.pick(["filter", "select", "claim", "claimPayment", "setTicketPrice 0 5", "setPerTicket 9",
                             "deposit", "distribute", sched]).split()
                t.call(r.pick([OWNER, u]), ep[0], ep[1:], probe=True)
            else:
                t.call(OWNER, "unpause")
            t.dump()
        t.call(OWNER, "unpause")
        t.dump()

    # ---- selection -------------------------------------------------------------
    def run_step(self, ep, who_choices):
        """drive one resumable endpoint to completion under random budgets"""
        t, r = self.t, self.r
        mode = r.below(4)
        for i in range(400):
            budget = None if mode == 0 else (r.below(3) if mode == 1 else r.below(6))
            who = r.pick(who_choices)
            seeds = [r.seed32(), r.seed32()]
            res = t.call(who, ep, budget=budget, seeds=seeds)
            if r.chance(1, 3):
                t.dump()
            if res["st"] != "ok":
                return False
            if res.get("ret") == "[0]":
                t.dump()
                return True
            if r.chance(1, 5):
                t.round += 1
            if r.chance(1, 6):   # other endpoints between the calls of an interrupted operation
                other = r.pick(["select", "filter", "claim", "distribute", "blacklist 1 10", "confirm 1"]).split()
                t.call(r.pick(who_choices), other[0], other[1:], probe=r.chance(1, 2), seeds=[r.seed32()])
            if r.chance(1, 10):
                t.call(OWNER, "pause")
                t.call(who, ep, budget=budget, seeds=[r.seed32()])
                t.call(OWNER, "unpause")
        return False

    def selection_phase(self):
        t, r = self.t, self.r
        t.round = r.pick([self.sel, self.sel, self.sel + 3])
        anyone = [OWNER, STRANGER] + self.users
        if r.chance(1, 4):
            t.call(r.pick(anyone), "select", probe=True, seeds=[r.seed32()])
        if not self.run_step("filter", anyone + [CCALLER]):
            return False
        if r.chance(1, 4):
            t.call(CCALLER, "select", probe=True, seeds=[r.seed32()])
        if not self.run_step("select", anyone):
            return False
        extra = {"nft": "selectNft", "nftGuar": "secondary"}.get(self.v, "distribute" if self.v in GUAR else None)
        if extra:
            if r.chance(1, 4):
                t.call(r.pick(anyone), "claim", probe=True)
            if not self.run_step(extra, anyone):
                return False
        return True

    # ---- claims ----------------------------------------------------------------
    def claim_phase(self):
        if getattr(self, "sft_late", False):
            self.t.call(OWNER, "sftSetup")
            self.sft_late = False
        t, r = self.t, self.r
        if t.round < self.claim and r.chance(1, 2):
            t.call(r.pick(self.users), "claim", probe=True)
        t.round = max(t.round, self.claim) + r.below(3)
        t.epoch = r.pick([0, 4, 5, 10, 60])
        actors = self.users + [OWNER, STRANGER]
        order = r.shuffle(actors + ([r.pick(actors)] if r.chance(1, 2) else []))
        paused_now = False
        for a in order:
            if r.chance(1, 6):
                t.call(OWNER, "unpause" if paused_now else "pause")
                paused_now = not paused_now
                t.dump()
            if a == OWNER:
                t.call(OWNER, "claimPayment")
                if r.chance(1, 3):
                    t.dump()
                    t.call(OWNER, "claimPayment")
            else:
                t.call(a, "claim")
            t.dump()
            if r.chance(1, 4):
                t.round += r.range(1, 6)
        if self.v in VESTED:
            for _ in range(r.range(2, 8)):
                t.round += r.pick([1, 2, 5, 10, 30])
                a = r.pick(self.users)
                if r.chance(1, 4):
                    # the owner tries to replace the schedule in the middle of the vesting period
                    if self.v == "guarV1":
                        res = t.call(OWNER, "setSchedule1", [t.round + 1, 10000, 0, 0, 0])
                    else:
                        res = t.call(OWNER, "setSchedule2", [1, t.round + 1, 10000])
                    t.dump()
                    if res["st"] == "ok":
                        # anomalous: follow it up so that its consequences become observable
                        t.round += 2
                        for b in self.users:
                            t.call(b, "claim")
                            t.dump()
                if r.chance(1, 4):
                    # a pause in the middle of the vesting period: claims (first and repeated) while paused
                    t.call(OWNER, "pause")
                    t.dump()
                    for b in r.shuffle(self.users)[:3]:
                        t.call(b, "claim")
                        t.dump()
                    t.call(OWNER, "unpause")
                t.call(a, "claim")
                t.dump()
        t.call(OWNER, "unpause")
        for a in self.users:
            t.call(a, "claim")
        t.call(OWNER, "claimPayment")
        t.dump()
        if self.v in VESTED:
            t.round += 200
            for a in self.users:
                t.call(a, "claim")
            t.dump()

    def run(self):
        self.params()
        if not self.deploy():
            return
        self.t.dump()
        if self.r.chance(1, 2):
            self.setup_misc()
            self.allocate()
        else:
            self.allocate()
            self.setup_misc()
        if self.r.chance(1, 10):
            # blacklist before the deposit (guarantee reservations move)
            u = self.r.pick(self.users)
            self.t.call(OWNER, "blacklist", [1, u])
            if self.v in UNBL and self.r.chance(1, 2):
                self.t.call(OWNER, "unblacklist", [1, u])
        self.deposit()
        self.confirm_phase()
        if self.selection_phase():
            self.claim_phase()


def parse_call_line(line):
    """inverse of call_line: dict with caller, round, epoch, egld, esdts, budget, seeds, script, probe, ep, args"""
    t = line.split()
    assert t[0] == "call"
    i = 1
    caller, rnd, epoch, egld, k = int(t[1]), int(t[2]), int(t[3]), int(t[4]), int(t[5])
    i = 6
    esdts = []
    for _ in range(k):
        esdts.append((int(t[i]), int(t[i + 1]), int(t[i + 2])))
        i += 3
    budget = None if t[i] == "-" else int(t[i])
    i += 1
    ns = int(t[i]); i += 1
    seeds = t[i:i + ns]; i += ns
    nsc = int(t[i]); i += 1
    script = [int(x) for x in t[i:i + nsc]]; i += nsc
    probe = t[i] != "0"; i += 1
    ep = t[i]; i += 1
    return dict(caller=caller, round=rnd, epoch=epoch, egld=egld, esdts=esdts, budget=budget,
                seeds=seeds, script=script, probe=probe, ep=ep, args=t[i:])
