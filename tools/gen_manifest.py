#!/usr/bin/env python3
"""Writes /verif/MANIFEST.json from tools/lpcheck/props.py: a property is claimed when all its
theorem modules exist; the others are listed under not_applicable with the reason."""
import json, os, sys
VERIF = os.path.dirname(os.path.dirname(os.path.abspath(__file__)))
sys.path.insert(0, os.path.join(VERIF, "tools"))
from lpcheck import props

LEVEL_TEXT = {
}
DEFAULT_TEXT = ("Lean 4 theorems about a hand-written executable model of the contracts, for all inputs, states, "
                "histories and interruption schedules the property quantifies over (no bounds); the model is tied to "
                "the current source on every run by a differential correspondence check (real contracts in the debug VM "
                "vs the model's driver on generated histories for the variants concerned), by implementation-side "
                "monitors that search for a concrete failing history, and by constants regenerated from the source.")
NOTE = ("Trusted: Lean 4.33 kernel and the axioms printed by #print axioms (at most propext, Classical.choice, Quot.sound); "
        "the statements in LP/Props; the model-to-code tie is differential (sampled histories plus exhaustive small scopes), "
        "not a proof; MultiversX framework, debug VM and the verif-hooks substitutions (iteration budget for gas, forced "
        "seeds for new_random, typed-handle sha256) are executed, not modelled.")

def main():
    ids = [json.loads(l)["id"] for l in open(os.path.join(VERIF, "properties.jsonl"))]
    claimed, na = [], []
    for pid in ids:
        cfg = props.PROPS[pid]
        mods = cfg["lean"]
        ok = mods and all(os.path.exists(os.path.join(VERIF, "lean", m.replace(".", "/") + ".lean")) for m in mods)
        (claimed if ok else na).append(pid)
    m = {
        "version": 1,
        "setup_cmd": "cd /verif && python3 tools/gen_constants.py && (cd lean && lake build lp-driver LP.Props.Constants) && (cd harness && CARGO_NET_OFFLINE=true cargo build --offline)",
        "hooks": {
            "guard": "cargo feature `verif-hooks` of launchpad-common (off by default)",
            "enable": "/verif/harness depends on launchpad-common by path with features=[\"verif-hooks\"]; cargo rebuilds it from /repo's working tree on every check",
            "baseline_off_cmd": "cd /repo && cargo test --workspace --no-fail-fast --offline",
            "source_commits": ["8faf3d6", "0d6be2e"],
            "add_only": True,
        },
        "engines": [
            {"name": "lean-model", "path": "/verif/lean", "serves_properties": claimed,
             "kind_free_text": "Lean 4 model of the eight contracts (LP/*.lean), property theorems in LP/Props, helper lemmas in LP/Proofs"},
            {"name": "correspondence", "path": "/verif/harness + /verif/tools/lpcheck", "serves_properties": claimed,
             "kind_free_text": "Rust harness running the real contracts in the debug VM through endpoint dispatch; Lean driver running the model; Python generators, differ and implementation-side monitors"},
        ],
        "checks": [],
        "notes": "See DESIGN.md. Fix commits in /repo: 480481f 0b13873 8ba92b7 8a2b22a bf202e2 (recorded in known_findings.json).",
        "not_applicable": [],
    }
    for pid in claimed:
        cfg = props.PROPS[pid]
        m["checks"].append({
            "property_id": pid,
            "quick_cmd": f"./check {pid} quick",
            "thorough_cmd": f"./check {pid} thorough",
            "evidence_file": f"/verif/evidence/{pid}.json",
            "replay_cmd_template": "./check replay {path}",
            "engine": "lean-model + correspondence",
            "level_claimed": {"category": "proof", "text": cfg.get("level_text", DEFAULT_TEXT), "design_ref": "DESIGN.md section 7, " + pid},
            "level_note": cfg.get("level_note", NOTE),
            "technique": "Lean 4 theorems (" + ", ".join(cfg["lean"]) + ") + model/implementation correspondence + monitors",
        })
    for pid in na:
        m["not_applicable"].append({"property_id": pid, "reason": "theorem modules not finished in this round: the check is not claimed until its Lean obligations exist (DESIGN.md section 7)"})
    json.dump(m, open(os.path.join(VERIF, "MANIFEST.json"), "w"), indent=1)
    print("claimed:", " ".join(claimed))
    print("not claimed:", " ".join(na))

if __name__ == "__main__":
    main()
