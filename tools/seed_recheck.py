#!/usr/bin/env python3
"""seed_recheck.py [name ...]: re-runs every claimed check against the stored seeded changes, on a scratch
worktree of /repo and a scratch copy of the harness (so /repo itself is not touched), and updates
seeded/<name>/meta.json (checks_against_change, detected_by, with_concrete_input)."""
import glob, json, os, re, shutil, subprocess, sys, time

SCR = "/tmp/recheck"
FAST = "--fast" in sys.argv
sys.argv = [a for a in sys.argv if a != "--fast"]
names = sys.argv[1:] or sorted(os.path.basename(os.path.dirname(f)) for f in glob.glob("/verif/seeded/*/meta.json"))
env = dict(os.environ, CARGO_NET_OFFLINE="true", LP_REPO=f"{SCR}/repo", LP_HARNESS_DIR=f"{SCR}/harness",
           LP_EVIDENCE_DIR=f"{SCR}/evidence", LP_REPLAY_DIR=f"{SCR}/replays")


def sh(cmd, cwd, timeout=3000, e=None):
    p = subprocess.run(cmd, shell=True, cwd=cwd, stdout=subprocess.PIPE, stderr=subprocess.STDOUT, text=True, env=e or env, timeout=timeout)
    return p.returncode, p.stdout


os.makedirs(SCR, exist_ok=True)
if not os.path.exists(f"{SCR}/repo"):
    sh(f"git -C /repo worktree add --detach {SCR}/repo HEAD -q", "/")
if not os.path.exists(f"{SCR}/harness"):
    shutil.copytree("/verif/harness", f"{SCR}/harness", ignore=shutil.ignore_patterns("target"))
for f in ("Cargo.toml",):
    p = f"{SCR}/harness/{f}"
    s = open("/verif/harness/" + f).read().replace('path = "/repo/', f'path = "{SCR}/repo/')
    open(p, "w").write(s)
for f in os.listdir("/verif/harness/src"):
    shutil.copy(f"/verif/harness/src/{f}", f"{SCR}/harness/src/{f}")
manifest = json.load(open("/verif/MANIFEST.json"))
for name in names:
    d = f"/verif/seeded/{name}"
    meta = json.load(open(f"{d}/meta.json"))
    sh("git checkout -- .", f"{SCR}/repo")
    rc, o = sh(f"git apply {d}/patch.diff", f"{SCR}/repo")
    if rc != 0:
        print(name, "patch does not apply:", o[:200])
        continue
    results = {}
    for c in manifest["checks"]:
        if FAST and c["property_id"] != meta["property"]:
            continue
        t0 = time.time()
        rc, o = sh(c["quick_cmd"], "/verif")
        viol = [l for l in o.splitlines() if l.startswith("VIOLATION") or l.startswith("KNOWN-FINDING")]
        results[c["property_id"]] = {"exit": rc, "lines": viol, "wall_s": round(time.time() - t0, 1)}
    if FAST:
        # the other properties: one shared run of all monitors and projections (`./check ALL quick`); an
        # ALL-VIOLATION line stands for the VIOLATION line that property's own check would print
        t0 = time.time()
        rc, o = sh("./check ALL quick", "/verif")
        for l in o.splitlines():
            m = re.match(r"ALL-VIOLATION property=(C\d\d) kinds=(\S+) concrete=(\d)", l)
            if m and m.group(1) not in results:
                line = f"VIOLATION property={m.group(1)} replay=(check ALL: {m.group(2)})" + ("" if m.group(3) == "1" else " no-failing-input-found")
                results[m.group(1)] = {"exit": 1, "lines": [line], "wall_s": round(time.time() - t0, 1), "via": "check ALL"}
        for c in manifest["checks"]:
            results.setdefault(c["property_id"], {"exit": 0, "lines": [], "wall_s": 0, "via": "check ALL"})
    sh("git checkout -- .", f"{SCR}/repo")
    meta["checks_against_change"] = results
    meta["detected_by"] = sorted(k for k, v in results.items() if v["exit"] != 0)
    meta["target_property_detected"] = meta["property"] in meta["detected_by"]
    meta["with_concrete_input"] = sorted(k for k, v in results.items() if v["exit"] != 0 and any("no-failing-input-found" not in l for l in v["lines"] if l.startswith("VIOLATION")))
    meta["rechecked_at_verif_commit"] = subprocess.run("git -C /verif rev-parse --short HEAD", shell=True, stdout=subprocess.PIPE, text=True).stdout.strip()
    json.dump(meta, open(f"{d}/meta.json", "w"), indent=1)
    print(name, "target", meta["property"], "detected", meta["detected_by"], "concrete", meta["with_concrete_input"], flush=True)
# clean tree must be quiet too
rc, o = sh("git status --porcelain", f"{SCR}/repo")
