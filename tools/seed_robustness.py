#!/usr/bin/env python3
"""seed_robustness.py [seed ...]: for every stored seeded change, runs the TARGET property's quick check under several
VERIF_SEED values on the scratch worktree and reports under which of them the change is caught (and with a concrete
input).  A detection that depends on the generator's luck shows up here."""
import glob, json, os, subprocess, sys
SCR = "/tmp/recheck"
SEEDS = [int(x) for x in os.environ.get("ROBUST_SEEDS", "2,3,4").split(",")]
names = sys.argv[1:] or sorted(os.path.basename(os.path.dirname(f)) for f in glob.glob("/verif/seeded/*/meta.json"))
base = dict(os.environ, CARGO_NET_OFFLINE="true", LP_REPO=f"{SCR}/repo", LP_HARNESS_DIR=f"{SCR}/harness",
            LP_EVIDENCE_DIR=f"{SCR}/evidence", LP_REPLAY_DIR=f"{SCR}/replays")
def sh(cmd, cwd, env=base):
    p = subprocess.run(cmd, shell=True, cwd=cwd, stdout=subprocess.PIPE, stderr=subprocess.STDOUT, text=True, env=env, timeout=3000)
    return p.returncode, p.stdout
for f in os.listdir("/verif/harness/src"):
    subprocess.run(["cp", f"/verif/harness/src/{f}", f"{SCR}/harness/src/{f}"])
out = {}
for name in names:
    d = f"/verif/seeded/{name}"
    meta = json.load(open(f"{d}/meta.json"))
    sh("git checkout -- .", f"{SCR}/repo")
    rc, o = sh(f"git apply {d}/patch.diff", f"{SCR}/repo")
    if rc != 0:
        print(name, "patch does not apply"); continue
    res = []
    for sd in SEEDS:
        rc, o = sh(f"./check {meta['property']} quick", "/verif", env=dict(base, VERIF_SEED=str(sd)))
        viol = [l for l in o.splitlines() if l.startswith("VIOLATION")]
        res.append("C" if any("no-failing-input-found" not in l for l in viol) else ("c" if viol else "-"))
    sh("git checkout -- .", f"{SCR}/repo")
    out[name] = "".join(res)
    print(name, meta["property"], out[name], flush=True)
json.dump({"seeds": SEEDS, "legend": "C = caught with a concrete input, c = caught through the correspondence only, - = missed", "results": out},
          open("/verif/seeded/ROBUSTNESS.json", "w"), indent=1)
