#!/usr/bin/env python3
"""benign_eval.py <worktree> <name>
Evaluates a behaviour-PRESERVING change (made by an independent sub-agent in <worktree>, which holds
SEED/patch.diff and SEED/README.md) against every claimed check: no check may raise an alarm.
 1. in the worktree: the 47 tests pass with the change;
 2. copy SEED/ to /verif/benign/<name>/;
 3. apply patch.diff to /repo, run every claimed check (quick; evidence and replays go to scratch
    directories), undo;
 4. write meta.json (alarms = false alarms unless the change turns out not to be harmless)."""
import json, os, re, shutil, subprocess, sys, time
wt, name = sys.argv[1], sys.argv[2]
seed = os.path.join(wt, "SEED"); dst = os.path.join("/verif/benign", name)
env = dict(os.environ, CARGO_NET_OFFLINE="true")
def sh(cmd, cwd, timeout=3000, env=env):
    p = subprocess.run(cmd, shell=True, cwd=cwd, stdout=subprocess.PIPE, stderr=subprocess.STDOUT, text=True, env=env, timeout=timeout)
    return p.returncode, p.stdout
patch = os.path.join(seed, "patch.diff")
meta = {"name": name, "kind": "behaviour-preserving", "worktree": wt}
if "--skip-tests" not in sys.argv:
    rc, out = sh("cargo test --workspace --no-fail-fast --offline 2>&1", wt)
    passed = sum(int(m.group(1)) for m in re.finditer(r"test result: \w+\. (\d+) passed", out))
    failed = sum(int(m.group(1)) for m in re.finditer(r"test result: \w+\. \d+ passed; (\d+) failed", out))
    meta["tests_with_change"] = {"passed": passed, "failed": failed}
if os.path.exists(dst): shutil.rmtree(dst)
shutil.copytree(seed, dst)
rc, st = sh("git status --porcelain", "/repo"); assert st.strip() == "", "/repo not clean: " + st
rc, o = sh(f"git apply {patch}", "/repo"); assert rc == 0, o
scratch = "/var/tmp/benign_scratch/" + name
os.makedirs(scratch, exist_ok=True)
cenv = dict(env, LP_EVIDENCE_DIR=scratch + "/ev", LP_REPLAY_DIR=scratch + "/rp")
res = {}
try:
    for i in range(1, 21):
        pid = f"C{i:02d}"; t = time.time()
        rc, o = sh(f"./check {pid} quick", "/verif", env=cenv)
        lines = [l for l in o.splitlines() if "VIOLATION" in l or "KNOWN-FINDING" in l]
        res[pid] = {"exit": rc, "lines": lines, "wall_s": round(time.time() - t, 1)}
        if rc != 0:
            # keep the replay for the analysis
            for l in lines:
                m = re.search(r"replay=(\S+)", l)
                if m and os.path.exists(os.path.join("/verif", m.group(1))):
                    os.makedirs(os.path.join(dst, "alarms"), exist_ok=True)
                    shutil.copy(os.path.join("/verif", m.group(1)), os.path.join(dst, "alarms", pid + "-" + os.path.basename(m.group(1))))
finally:
    sh("git checkout -- .", "/repo"); sh("git clean -fdq -- . ':!target'", "/repo")
meta["checks_against_change"] = res
meta["alarms"] = sorted(p for p, r in res.items() if r["exit"] != 0)
json.dump(meta, open(os.path.join(dst, "meta.json"), "w"), indent=1)
print(name, "alarms:", meta["alarms"], meta.get("tests_with_change"))
