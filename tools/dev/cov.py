import sys, collections
sys.path.insert(0, '/verif/tools')
from lpcheck import proc, gen, canon
variant=sys.argv[1]; n=int(sys.argv[2])
c=collections.Counter()
for i in range(n):
    pair=proc.Pair(); tr=gen.Trace(pair,"x"); gen.Life(tr, gen.Rng(1000+i), variant).run(); pair.close()
    for (l,a,b) in tr.ops:
        if l.startswith("call"):
            ep=gen.parse_call_line(l)["ep"]
            r=canon.parse_R(a)
            extra=""
            if r["st"]=="ok" and r.get("ret") in ("[0]","[1]"): extra=":"+r["ret"]
            c[(ep, r["st"]+extra)]+=1
    if tr.disagreements: print("DIS", i, tr.disagreements[0])
for k in sorted(c): print(k, c[k])
