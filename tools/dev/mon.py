import sys, time, collections
sys.path.insert(0, '/verif/tools')
from lpcheck import proc, gen, canon, monitors
variant=sys.argv[1]; n=int(sys.argv[2]); seed0=int(sys.argv[3]) if len(sys.argv)>3 else 1
cnt=collections.Counter()
shown=0
for i in range(n):
    pair=proc.Pair(with_model=False); tr=gen.Trace(pair,"x"); gen.Life(tr, gen.Rng(seed0+i), variant).run(); pair.close()
    v=monitors.View(tr)
    for pid, ms in monitors.MONITORS.items():
        for m in ms:
            for (idx,msg) in m(v):
                cnt[pid]+=1
                if shown<6:
                    shown+=1
                    print("VIOL", variant, seed0+i, idx, msg)
                    print("   ", tr.ops[idx][0][:200])
                    print("   ", tr.ops[idx][1][:900])
print(variant, dict(cnt))
