import sys, time
sys.path.insert(0, '/verif/tools')
from lpcheck import proc, gen, canon
variant = sys.argv[1]
n = int(sys.argv[2])
seed0 = int(sys.argv[3]) if len(sys.argv) > 3 else 1
maxbad = int(sys.argv[4]) if len(sys.argv) > 4 else 3
t0=time.time()
bad=0
ops=0
for i in range(n):
    pair = proc.Pair()
    tr = gen.Trace(pair, f"{variant}-{seed0+i}")
    life = gen.Life(tr, gen.Rng(seed0+i), variant)
    try:
        life.run()
    except Exception as e:
        print("EXC", variant, seed0+i, repr(e))
    ops += len(tr.ops)
    pair.close()
    if tr.disagreements:
        bad+=1
        idx, fields = tr.disagreements[0]['index'], tr.disagreements[0]['fields']
        print("DISAGREE", variant, seed0+i, "op#", idx, fields)
        for (l,a,b) in tr.ops[max(0,idx-1):idx+1]:
            print("   OP ", l[:300]); print("   IMPL", a[:1500]); print("   MODL", b[:1500])
        if bad>=maxbad: break
print(variant, "traces", i+1, "ops", ops, "bad", bad, "time %.1f"%(time.time()-t0))
