import sys
sys.path.insert(0, '/verif/tools')
from lpcheck import proc, gen, canon, monitors, profiles
prof=sys.argv[1]; variant=sys.argv[2]; seed=int(sys.argv[3])
pair=proc.Pair(); tr=profiles.RUNNERS[prof](pair, gen.Rng(seed), variant, {"exhaustive_upto":4,"random_scheds":4}); pair.close()
print(tr.disagreements[:2])
d=tr.disagreements[0]['index']
for i,(l,a,b) in enumerate(tr.ops[max(0,d-8):d+6]):
    print(max(0,d-8)+i, l[:150]); print("   I", a[:700]); 
v=monitors.View(tr)
for pid,ms in monitors.MONITORS.items():
    for m in ms:
        for x in m(v)[:2]: print("MON",pid,x)
