import sys, collections
sys.path.insert(0, '/verif/tools')
from lpcheck import proc, gen, canon
n=int(sys.argv[1])
mis=collections.Counter(); tot=0
for variant in ["base","locked","nft","guarV1","guarV2","migration","lockedGuar","nftGuar"]:
    for i in range(n):
        pair=proc.Pair(); tr=gen.Trace(pair,"x"); gen.Life(tr, gen.Rng(7000+i), variant).run(); pair.close()
        for (l,a,b) in tr.ops:
            ra, rb = canon.parse_R(a), canon.parse_R(b)
            if ra["st"]==rb["st"] and ra["st"] not in ("ok","X"):
                tot+=1
                if ra.get("msg")!=rb.get("msg"):
                    mis[(ra["st"], ra.get("msg"), rb.get("msg"))]+=1
print("total rejected", tot)
for k,v in mis.most_common(60): print(v,k)
