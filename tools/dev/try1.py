import sys, time
sys.path.insert(0, '/verif/tools')
from lpcheck import proc, gen, canon
variant = sys.argv[1]; seed=int(sys.argv[2])
pair = proc.Pair()
orig = pair.op
def op(line):
    print("OP", line[:200], file=sys.stderr, flush=True)
    r = orig(line)
    return r
pair.op = op
tr = gen.Trace(pair, "x")
gen.Life(tr, gen.Rng(seed), variant).run()
print("done", len(tr.ops), tr.disagreements[:3])
