#!/bin/bash
# Source coverage of /repo under the correspondence runs (development tool, not a registered check).
# Needs the nightly toolchain (llvm-tools).  Profiles and the instrumented build live outside /repo.
set -e
B=$(ls -d /root/.rustup/toolchains/nightly-x86_64-unknown-linux-gnu/lib/rustlib/x86_64-unknown-linux-gnu/bin)
OUT=${1:-/var/tmp/srccov}; mkdir -p $OUT/prof
cd /verif/harness
# build scripts and proc-macros are instrumented too: send their profiles to the scratch directory
LLVM_PROFILE_FILE=$OUT/build-%p.profraw RUSTFLAGS="-C instrument-coverage" CARGO_NET_OFFLINE=true \
  cargo +nightly build --offline --target-dir /verif/harness/target-cov
rm -f $OUT/build-*.profraw
cd /verif
export LP_HARNESS_BIN=/verif/harness/target-cov/debug/lp-harness LLVM_PROFILE_FILE=$OUT/prof/%p-%m.profraw
export LP_EVIDENCE_DIR=$OUT/ev LP_REPLAY_DIR=$OUT/rp
for i in $(seq -w 1 20); do ./check C$i ${TIER:-quick} | tail -1; done
ls $OUT/prof/*.profraw > $OUT/prof.list
$B/llvm-profdata merge -sparse --num-threads=16 -f $OUT/prof.list -o $OUT/cov.profdata
rm -rf $OUT/prof
$B/llvm-cov report /verif/harness/target-cov/debug/lp-harness -instr-profile=$OUT/cov.profdata \
  --ignore-filename-regex='(registry|rustc|/verif/|rustlib)' | tee $OUT/report.txt
