import sys
sys.path.insert(0, '/verif/tools')
from lpcheck import proc, gen, canon, monitors, profiles
variant=sys.argv[1]; seed=int(sys.argv[2]); pat=sys.argv[3] if len(sys.argv)>3 else None
pair=proc.Pair(); tr=gen.Trace(pair,"x"); gen.Life(tr, gen.Rng(seed), variant).run(); pair.close()
for i,(l,a,b) in enumerate(tr.ops):
    if pat is None or pat in l or (l.startswith("dump") and pat=="dump"):
        print(i, l[:160]); print("   I", a[:3000])
