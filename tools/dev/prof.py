import sys, time, collections
sys.path.insert(0, '/verif/tools')
from lpcheck import proc, gen, canon, monitors, profiles
prof=sys.argv[1]; variant=sys.argv[2]; n=int(sys.argv[3]); seed0=int(sys.argv[4]) if len(sys.argv)>4 else 1
t0=time.time(); ops=0; bad=0
for i in range(n):
    pair=proc.Pair(); rng=gen.Rng(seed0+i)
    opts={"n":3+i%3,"k":1+i%4,"big":(i%5==4)}
    try:
        tr=profiles.RUNNERS[prof](pair, rng, variant, opts)
    except Exception as e:
        import traceback; traceback.print_exc(); pair.close(); continue
    pair.close(); ops+=len(tr.ops)
    if tr.disagreements:
        bad+=1
        idx,fields=tr.disagreements[0]['index'],tr.disagreements[0]['fields']
        print("DISAGREE",prof,variant,seed0+i,idx,fields)
        for (l,a,b) in tr.ops[max(0,idx-1):idx+1]:
            print("   OP ", l[:300]); print("   IMPL", a[:700]); print("   MODL", (b or "")[:700])
    cr=[c for c in tr.chunk_results if not c[3]]
    if cr: print("CHUNK MISMATCH", variant, seed0+i, cr[:3])
    for pid, found in monitors.run_all(tr).items():
        for (idx,msg) in found[:2]:
            print("VIOL", pid, variant, seed0+i, idx, msg)
    if bad>=int(sys.argv[5]) if len(sys.argv)>5 else bad>=2: break
print(prof, variant, "traces", i+1, "ops", ops, "bad", bad, "chunkruns", len(tr.chunk_results), "time %.1f"%(time.time()-t0))
