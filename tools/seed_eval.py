#!/usr/bin/env python3
"""seed_eval.py <worktree> <name> <property>
Confirms a seeded change (made by an independent sub-agent in <worktree>, which holds SEED/patch.diff
and a demonstration test) and evaluates /verif's checks against it:
 1. in the worktree: workspace tests with the change (existing 47 must pass), demo must fail;
    change reverted: demo must pass;
 2. copy SEED/ to /verif/seeded/<name>/;
 3. apply patch.diff to /repo, run every claimed check (quick), undo;
 4. write meta.json."""
import json, os, re, shutil, subprocess, sys, time

wt, name, pid = sys.argv[1], sys.argv[2], sys.argv[3]
seed = os.path.join(wt, "SEED")
dst = os.path.join("/verif/seeded", name)
env = dict(os.environ, CARGO_NET_OFFLINE="true")
# the checks run against the PATCHED /repo here: their evidence files must not replace the committed ones
env.setdefault("LP_EVIDENCE_DIR", "/var/tmp/seed_eval_evidence")

def sh(cmd, cwd, timeout=3000):
    p = subprocess.run(cmd, shell=True, cwd=cwd, stdout=subprocess.PIPE, stderr=subprocess.STDOUT, text=True, env=env, timeout=timeout)
    return p.returncode, p.stdout

def test_summary(out):
    passed = sum(int(m.group(1)) for m in re.finditer(r"test result: \w+\. (\d+) passed", out))
    failed = sum(int(m.group(1)) for m in re.finditer(r"test result: \w+\. \d+ passed; (\d+) failed", out))
    return passed, failed

meta = {"property": pid, "name": name, "worktree": wt, "ran": []}
patch = os.path.join(seed, "patch.diff")
assert os.path.exists(patch), "no patch.diff"
# which test files did the agent add?
rc, status = sh("git status --porcelain", wt)
added = [l[3:].strip() for l in status.splitlines() if l.startswith("??") and "/tests/" in l and l.strip().endswith(".rs")]
meta["demo_files"] = added
# 1a. with the change
rc, out = sh("cargo test --workspace --no-fail-fast --offline 2>&1", wt)
p1, f1 = test_summary(out)
failing_bins = re.findall(r"error: test failed, to rerun pass `([^`]*)`", out)
meta["with_change"] = {"passed": p1, "failed": f1, "failing_targets": failing_bins}
meta["ran"].append("cargo test --workspace --no-fail-fast --offline (with change + demo)")
# 1b. without the change
rc, _ = sh(f"git apply -R {patch}", wt)
assert rc == 0, "cannot revert patch"
rc, out2 = sh("cargo test --workspace --no-fail-fast --offline 2>&1", wt)
p2, f2 = test_summary(out2)
meta["without_change"] = {"passed": p2, "failed": f2}
meta["ran"].append("git apply -R SEED/patch.diff; cargo test --workspace --no-fail-fast --offline (demo only)")
sh(f"git apply {patch}", wt)
demo_tests = p2 - 47
meta["confirmed"] = (f2 == 0 and f1 >= 1 and p1 + f1 == p2 and p2 >= 48 and (p1 >= 47))
# all failures must be in demo targets: the 47 originals pass
meta["existing_47_pass_with_change"] = (p1 >= 47 and f1 <= demo_tests)
# 2. copy
if os.path.exists(dst):
    shutil.rmtree(dst)
shutil.copytree(seed, dst)
os.makedirs(os.path.join(dst, "demo"), exist_ok=True)
for f in added:
    shutil.copy(os.path.join(wt, f), os.path.join(dst, "demo", os.path.basename(f)))
if os.environ.get("SEED_EVAL_CONFIRM_ONLY"):
    # steps 1-2 only (can run in parallel for several worktrees); the checks are then run by
    # `tools/seed_recheck.py [--fast] <name>` on a scratch worktree
    json.dump(meta, open(os.path.join(dst, "meta.json"), "w"), indent=1)
    print(json.dumps({k: meta[k] for k in ("confirmed", "existing_47_pass_with_change", "with_change", "without_change")}, indent=1))
    sys.exit(0)
# 3. run the checks against the patched /repo
rc, _ = sh("git status --porcelain", "/repo")
rc, o = sh(f"git apply {patch}", "/repo")
assert rc == 0, "patch does not apply to /repo: " + o
results = {}
try:
    m = json.load(open("/verif/MANIFEST.json"))
    for c in m["checks"]:
        t0 = time.time()
        rc, o = sh(c["quick_cmd"], "/verif", timeout=3000)
        viol = [l for l in o.splitlines() if l.startswith("VIOLATION") or l.startswith("KNOWN-FINDING")]
        results[c["property_id"]] = {"exit": rc, "lines": viol, "wall_s": round(time.time() - t0, 1)}
        if rc != 0:
            # keep the replay the check wrote
            for l in viol:
                mm = re.search(r"replay=(\S+)", l)
                if mm and os.path.exists(os.path.join("/verif", mm.group(1))):
                    os.makedirs(os.path.join(dst, "replays"), exist_ok=True)
                    shutil.copy(os.path.join("/verif", mm.group(1)), os.path.join(dst, "replays", c["property_id"] + "-" + os.path.basename(mm.group(1))))
finally:
    sh("git checkout -- .", "/repo")
    sh("cargo build --offline", "/verif/harness")   # the harness binary must match /repo again
meta["checks_against_change"] = results
meta["detected_by"] = sorted(k for k, v in results.items() if v["exit"] != 0)
meta["target_property_detected"] = pid in meta["detected_by"]
meta["with_concrete_input"] = sorted(k for k, v in results.items() if v["exit"] != 0 and any("no-failing-input-found" not in l for l in v["lines"] if l.startswith("VIOLATION")))
json.dump(meta, open(os.path.join(dst, "meta.json"), "w"), indent=1)
print(json.dumps({k: meta[k] for k in ("confirmed", "existing_47_pass_with_change", "with_change", "without_change", "detected_by", "with_concrete_input")}, indent=1))
