#!/usr/bin/env python3
"""writes seeded/MUTATION_SUMMARY.md from seeded/mutation_sweep.jsonl"""
import collections, json
import os
rows = [json.loads(l) for l in open("/verif/seeded/mutation_sweep.jsonl")]
if os.path.exists("/verif/seeded/mutation_sweep_names.jsonl"):
    rows += [json.loads(l) for l in open("/verif/seeded/mutation_sweep_names.jsonl")]
comp = [r for r in rows if r["status"] != "does-not-compile"]
interesting = [r for r in comp if r.get("passes_tests")]
killed_i = [r for r in interesting if r["status"].startswith("killed")]
surv = [r for r in comp if r["status"].startswith("SURVIVED") or "TIMEOUT" in r["status"]]
out = ["# Mutation sweep (tools/mutate.py)", "",
       f"* mutants generated: {len(rows)}; compiled: {len(comp)}",
       f"* compiled mutants killed by the checks (`./check ALL quick`): {sum(1 for r in comp if r['status'].startswith('killed'))} of {len(comp)}",
       f"* mutants that compile AND pass the repository's 47 tests (the interesting ones): {len(interesting)}; killed by the checks: {len(killed_i)}; with a concrete failing history: {sum(1 for r in killed_i if r.get('concrete'))}",
       f"* survivors: {len(surv)} (listed below with the verdict after inspection)", ""]
byprop = collections.Counter(p for r in comp for p in r.get("killed_by", []))
out += ["Kills per property (a mutant is usually seen by several): " + ", ".join(f"{p} {n}" for p, n in sorted(byprop.items())), ""]
out += ["| survivor | operator | verdict |", "|---|---|---|"]
VERDICT = {
    ("launchpad-common/src/ongoing_operation.rs", 71): "outside the executable semantics: the gas comparison is replaced by the iteration-budget hook (trusted base)",
    ("launchpad-guaranteed-tickets-v2/src/guaranteed_ticket_winners.rs", 105): "equivalent (the excess is 0 when the two are equal)",
    ("launchpad-guaranteed-tickets/src/lib.rs", 166): "equivalent on the debug VM (a transfer of 0 tokens changes nothing)",
    ("launchpad-guaranteed-tickets/src/lib.rs", 207): "equivalent (subtracts 0)",
    ("launchpad-guaranteed-tickets-v2/src/lib.rs", 228): "GAP at the time of the sweep, now killed by C03 (reported winners follow claims)",
    ("launchpad-common/src/setup.rs", 19): "GAP at the time of the sweep, now killed by C02 (deposit in the wrong token)",
    ("launchpad-guaranteed-tickets-v2/src/guaranteed_ticket_winners.rs", 160): "equivalent (the remainder is always 0 there: the guarantee is capped by the holder's confirmed tickets)",
    ("launchpad-guaranteed-tickets-v2/src/token_release.rs", 51): "GAP at the time of the sweep (schedule acceptance was never probed with exactly one defect), now killed by C13 with a concrete input",
    ("launchpad-with-nft/src/mystery_sft.rs", 48): "SFT issue parameters: asynchronous system-contract call, not modelled (documented limit)",
    ("launchpad-with-nft/src/mystery_sft.rs", 102): "partial SFT set-up states are not reachable through the harness's all-or-nothing `sftSetup` (documented limit)",
    ("launchpad-guaranteed-tickets/src/guaranteed_tickets_init.rs", 102): "equivalent (adds 0)",
    ("launchpad/src/lib.rs", 38): "the flag `has_winner_selection_process_started` is written, never read: no behaviour depends on it (only the raw flags view shows it)",
    ("launchpad-locked-tokens/src/lib.rs", 44): "same write-only flag",
    ("launchpad-migration-guaranteed-tickets/src/lib.rs", 166): "the status view of an address that was never allocated returns zeros instead of an error: no property speaks about it",
    ("launchpad-common/src/tickets.rs", 107): "equivalent in every executable build (ticket ids near usize::MAX are unreachable: arguments are below 2^32)",
    ("launchpad-common/src/winner_selection.rs", 205): "GAP at the time of the sweep (no deployment was owned by a contract account), now killed by C15",
    ("launchpad-guaranteed-tickets/src/lib.rs", 259): "the status view of an address that was never allocated returns zeros instead of an error: no property speaks about it",
    ("launchpad-common/src/tickets.rs", 126): "equivalent at the level the properties speak about: the call is still rejected (storage decode error instead of the explicit message)",
    ("launchpad-guaranteed-tickets-v2/src/lib.rs", 275): "equivalent (the surplus is 0 when the two are equal; nothing is sent)",
    ("launchpad-guaranteed-tickets-v2/src/token_release.rs", 25): "equivalent (the default release round 0 or 1 is always in the past at the claim round, which is at least 2)",
    ("launchpad-common/src/blacklist.rs", 30): "equivalent (a refund of 0 tickets returns early without transfer or event)",
    ("launchpad-with-nft/src/mystery_sft.rs", 89): "asynchronous SFT set-up callback: not modelled (documented limit)",
    ("launchpad-with-nft/src/mystery_sft.rs", 77): "asynchronous SFT set-up callback: not modelled (documented limit)",
    ("launchpad-common/src/user_interactions.rs", 79): "dead storage: winning flags of a settled participant are left behind, no view or later step reads them",
    ("launchpad-with-nft/src/nft_config.rs", 47): "GAP at the time of the sweep (EGLD fee with a nonce was never offered), now covered by invalid-cost probes (C14)",
    ("launchpad-locked-tokens/src/lib.rs", 47): "GAP at the time of the sweep: the flags word after deployment was in no property's projection and the divergence then hid everything that followed; `flags` now belongs to C06, unowned differences no longer end the comparison, and m_C06 reports a claim refused for stage reasons after every step reported completion",
    ("launchpad-common/src/random.rs", 69): "equivalent on reachable executions (min < max at every call site)",
    ("launchpad-common/src/ongoing_operation.rs", 47): "gas bookkeeping replaced by the iteration-budget hook (trusted base)",
    ("launchpad-locked-tokens/src/locked_launchpad_token_send.rs", 71): "equivalent on the debug VM (a direct transfer of 0 changes nothing)",
    ("launchpad-with-nft/src/mystery_sft.rs", 60): "SFT set-up flags: partial set-up states are not modelled (documented limit)",
    ("launchpad-guaranteed-tickets-v2/src/guaranteed_ticket_winners.rs", 214): "the leftover loop never ends; the repository's tests fail too; `check ALL` ran into its time limit (the exploration deadline now also stops running traces)",
    ("launchpad-with-nft/src/confirm_nft.rs", 17): "GAP at the time of the sweep (the SFT collection was always set up before the sale), now covered: some NFT lifecycles set it up only before the claims",
    ("launchpad-nft-and-guaranteed-tickets/src/combined_selection.rs", 46): "equivalent: the flag guards of the combined step already imply the selection stage",
    ("launchpad-with-nft/src/mystery_sft.rs", 55): "GAP at the time of the sweep (the permission check of createInitialSfts was masked by 'Invalid token ID'), now killed by C15 (probes in the issued-but-not-created state)",
    ("launchpad-with-nft/src/mystery_sft.rs", 40): "GAP at the time of the sweep (issueMysterySft was never probed by strangers before anything was issued), now killed by C15",
    ("launchpad-guaranteed-tickets/src/lib.rs", 195): "dead storage: the batch record of a settled participant is left behind; nothing reads batches after the filter",
    ("launchpad-guaranteed-tickets-v2/src/guaranteed_ticket_winners.rs", 132): "equivalent (when the two are equal both branches add the same number to the leftover and mark nothing)",
    ("launchpad-guaranteed-tickets/src/guaranteed_ticket_winners.rs", 66): "equivalent on reachable states (a whitelisted participant always has a status record: the branch is never taken)",
    ("launchpad-guaranteed-tickets-v2/src/lib.rs", 276): "equivalent (won > deposited is unreachable; when equal the surplus is 0 and nothing is sent)",
    ("launchpad-common/src/winner_selection.rs", 86): "equivalent (when equal the clamp writes the value already stored)",
    ("launchpad-common/src/random.rs", 86): "inside Random::hash_seed, whose body is replaced by the typed-handle hook on the debug VM (trusted base)",
    ("launchpad-guaranteed-tickets/src/token_release.rs", 119): "equivalent (when equal the clamp changes nothing)",
    ("launchpad-common/src/winner_selection.rs", 52): "equivalent (the branch rewrites an unchanged batch with the same values)",
    ("launchpad-with-nft/src/confirm_nft.rs", 34): "equivalent: the owner's withdrawal endpoint checks the claim period before it reaches this helper",
    ("launchpad-with-nft/src/mystery_sft.rs", 76): "SFT set-up flags: partial set-up states are not modelled (documented limit)",
    ("launchpad-guaranteed-tickets/src/token_release.rs", 56): "GAP at the time of the sweep (v1 schedule change exactly at the confirmation start round), now killed by C13 and C17 with a concrete input",
}
for r in surv:
    v = VERDICT.get((r["file"], r["line"]), "to be inspected")
    out.append(f"| {r['file']}:{r['line']} `{r['old'][:70]}` | {r['op']} | {v} |")
open("/verif/seeded/MUTATION_SUMMARY.md", "w").write("\n".join(out) + "\n")
print("\n".join(out))
