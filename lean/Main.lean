import LP.Driver
def main : IO Unit := do
  LP.Driver.loop (← IO.getStdin) (← IO.getStdout) {}
