/-
  LP.Basic — shared vocabulary of the launchpad model.
  Core Lean only (no Mathlib) so that the driver links as a `lean_exe`.
-/
namespace LP

/-- Point update of a total map `Nat → α` (storage mappers are total functions; the
    default value stands for "empty storage"). -/
def upd {α : Type} (f : Nat → α) (k : Nat) (v : α) : Nat → α :=
  fun x => if x = k then v else f x

@[simp] theorem upd_same {α : Type} (f : Nat → α) (k : Nat) (v : α) : upd f k v k = v := by
  simp [upd]

@[simp] theorem upd_other {α : Type} (f : Nat → α) (k x : Nat) (v : α) (h : x ≠ k) :
    upd f k v x = f x := by
  simp [upd, h]

theorem upd_apply {α : Type} (f : Nat → α) (k x : Nat) (v : α) :
    upd f k v x = if x = k then v else f x := rfl

/-- Error classes of a rejected transaction.  Only the class is compared with the
    implementation; the text is informational.
    `user`  : `require!` / `sc_panic!` / framework argument or payment check (status 4)
    `panic` : Rust arithmetic overflow in the dev build (status 4, "panic occurred");
              in the deployed wasm (`overflow-checks = false`) the same site *wraps*
    `vm`    : VM-level failure, e.g. insufficient funds, non-payable endpoint (status 10) -/
inductive Err where
  | user (msg : String)
  | panic (site : String)
  | vm (msg : String)
  deriving Repr, DecidableEq, Inhabited

def Err.cls : Err → String
  | .user _ => "user"
  | .panic _ => "panic"
  | .vm _ => "vm"

abbrev Res (α : Type) := Except Err α

def req (c : Bool) (msg : String) : Res Unit :=
  if c then .ok () else .error (.user msg)

/-- checked `usize`/`u64` subtraction: Rust dev build panics on underflow. -/
def csub (a b : Nat) (site : String) : Res Nat :=
  if b ≤ a then .ok (a - b) else .error (.panic site)

/-- `BigUint` subtraction: the VM signals an error when the result would be negative. -/
def bsub (a b : Nat) (site : String) : Res Nat :=
  if b ≤ a then .ok (a - b) else .error (.user site)

/-- `usize::MAX` of the build that is executed by the correspondence harness (64-bit host).
    The deployed wasm32 artefact has 2^32-1; no theorem depends on the value beyond
    `usizeMax ≥ 2^32 - 1`. -/
def usizeMax : Nat := 2^64 - 1

inductive Token where
  | egld
  | esdt (id : Nat)
  deriving Repr, DecidableEq, Inhabited, BEq

structure Pay where
  tok : Token
  nonce : Nat
  amount : Nat
  deriving Repr, DecidableEq, Inhabited

/-- The contract's own balances, keyed by (token, nonce). -/
abbrev Bal := Token → Nat → Nat

def Bal.add (b : Bal) (t : Token) (n : Nat) (a : Nat) : Bal :=
  fun t' n' => if t' = t ∧ n' = n then b t' n' + a else b t' n'

def Bal.sub (b : Bal) (t : Token) (n : Nat) (a : Nat) : Bal :=
  fun t' n' => if t' = t ∧ n' = n then b t' n' - a else b t' n'

end LP
