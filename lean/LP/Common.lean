import LP.State
/-
  LP.Common — model of the `launchpad-common` crate: stage function, set-up, allocation,
  confirmation, filtering, base winner selection, claims, blacklist.
  Every definition cites the Rust it mirrors.
-/
namespace LP

/-- call-local effects: iteration budget, fresh seeds, scripted draws, draw log -/
structure Ctx where
  budget : Option Nat := none
  seeds : List (List Nat) := []
  script : List Nat := []
  deriving Inhabited

/-- a transaction in progress -/
structure Tx where
  s : State
  c : Ctx
  o : Out := {}
  deriving Inhabited

def zeroSeed : List Nat := List.replicate 32 0

/-- `Random::default()` (random.rs:18-25): a fresh 32-byte seed, index 0. -/
def Tx.freshRng (t : Tx) : Rng × Tx :=
  match t.c.seeds with
  | [] => ({ seed := zeroSeed, index := 0 }, t)
  | sd :: rest => ({ seed := sd, index := 0 }, { t with c := { t.c with seeds := rest } })

/-- one raw draw (`Random::next_usize`), with the hook's scripted substitution -/
def Tx.draw (hash : List Nat → List Nat) (t : Tx) (rng : Rng) : Nat × Rng × Tx :=
  let (raw0, rng') := rng.next hash
  match t.c.script with
  | [] => (raw0, rng', { t with o := { t.o with draws := t.o.draws ++ [raw0] } })
  | x :: xs => (x, rng', { t with c := { t.c with script := xs },
                                  o := { t.o with draws := t.o.draws ++ [x] } })

def Tx.emit (t : Tx) (e : Ev) : Tx := { t with o := { t.o with events := t.o.events ++ [e] } }

/-- `self.send().direct(...)`: fails (whole tx) on insufficient funds. -/
def Tx.send (t : Tx) (to : Nat) (p : Pay) : Res Tx :=
  if t.s.bal p.tok p.nonce < p.amount then .error (.vm "insufficient funds")
  else .ok { t with s := { t.s with bal := t.s.bal.sub p.tok p.nonce p.amount },
                    o := { t.o with xfers := t.o.xfers ++ [(to, p)] } }

def Tx.setS (t : Tx) (s : State) : Tx := { t with s := s }

/-! ### launch_stage.rs -/

/-- `get_launch_stage` (launch_stage.rs:24-48) -/
def stageOf (round : Nat) (c : Cfg) (f : Flags) : Stage :=
  if round < c.conf then .addTickets
  else if round < c.sel then .confirm
  else if !(f.selected && f.additional) then .winnerSelection
  else if round < c.claim then .winnerSelection
  else .claim

def State.stage (s : State) (e : Env) : Stage := stageOf e.round s.cfg s.flags

def requireStage (s : State) (e : Env) (st : Stage) (msg : String) : Res Unit :=
  req (s.stage e == st) msg

/-! ### setup.rs -/

def Token.valid : Token → Bool
  | .egld => true
  | .esdt 0 => false
  | .esdt _ => true

/-- `require_valid_time_periods` (setup.rs:127-136) -/
def validPeriods (c : Cfg) : Bool := c.conf < c.sel && c.sel ≤ c.claim

/-- `try_set_ticket_price` (setup.rs:89-95), including the launchpad-token check of the
    D3 repair. -/
def trySetTicketPrice (s : State) (tok : Token) (amount : Nat) : Res State := do
  req tok.valid "Invalid token ID"
  req (tok != .esdt s.lpTok) "Launchpad token must be different from ticket payment token"
  req (amount > 0) "Ticket price must be higher than 0"
  pure { s with payTok := tok, price := amount }

/-- `require_valid_config_timeline_change` (setup.rs:115-125) -/
def validTimelineChange (round old new : Nat) : Res Unit := do
  req (old > round) "Cannot change start round, it's either in progress or passed already"
  req (new > round) "Start round cannot be in the past"

/-! ### payments (framework glue, call_value) -/

/-- `call_value().egld_or_single_fungible_esdt()` -/
def egldOrSingleFungible (e : Env) : Res (Token × Nat) :=
  match e.esdts with
  | [] => .ok (.egld, e.egld)
  | [p] => if p.nonce = 0 then .ok (p.tok, p.amount) else .error (.user "fungible ESDT token expected")
  | _ => .error (.user "incorrect number of ESDT transfers")

/-- `call_value().single_fungible_esdt()` -/
def singleFungible (e : Env) : Res (Token × Nat) :=
  match e.esdts with
  | [p] => if p.nonce = 0 then .ok (p.tok, p.amount) else .error (.user "fungible ESDT token expected")
  | _ => .error (.user "incorrect number of ESDT transfers")

/-- `call_value().egld_or_single_esdt()` -/
def egldOrSingleEsdt (e : Env) : Res Pay :=
  match e.esdts with
  | [] => .ok ⟨.egld, 0, e.egld⟩
  | [p] => .ok p
  | _ => .error (.user "incorrect number of ESDT transfers")

/-- the VM credits the call value before execution (reverted with the tx on failure) -/
def creditPayments (s : State) (e : Env) : State :=
  let b := s.bal.add .egld 0 e.egld
  { s with bal := e.esdts.foldl (fun b p => b.add p.tok p.nonce p.amount) b }

/-- `deposit_launchpad_tokens` (setup.rs:11-27) -/
def depositLaunchpadTokens (s : State) (e : Env) (totalWinning : Nat) : Res State := do
  req (!s.deposited) "Tokens already deposited"
  let (tok, amount) ← singleFungible e
  req (tok == .esdt s.lpTok) "Wrong token"
  req (amount == s.perTicket * totalWinning) "Wrong amount"
  pure { s with deposited := true, totalDeposited := amount }

/-! ### tickets.rs -/

/-- `try_create_tickets` (tickets.rs:99-122) -/
def tryCreateTickets (s : State) (buyer n : Nat) : Res State := do
  req (s.range buyer).isNone "Duplicate entry for user"
  let first := s.lastTicketId + 1
  req (first < usizeMax - n) "Maximum number of tickets was reached"
  let last := first + n - 1
  pure { s with range := upd s.range buyer (some ⟨first, last⟩),
                batch := upd s.batch first (some ⟨buyer, n⟩),
                lastTicketId := last }

/-- the loop of `add_tickets` (tickets.rs:33-37) -/
def createMany : List (Nat × Nat) → State → Res State
  | [], s => .ok s
  | (a, n) :: rest, s =>
    match tryCreateTickets s a n with
    | .error e => .error e
    | .ok s' => createMany rest s'

/-- `get_total_number_of_tickets_for_address` (tickets.rs:88-97): `last - first + 1` in
    checked `usize` arithmetic (an empty range `[f, f-1]` panics in the dev build). -/
def ticketsFor (s : State) (a : Nat) : Res Nat :=
  match s.range a with
  | none => .ok 0
  | some r => do
    let d ← csub r.last r.first "tickets.rs:96 last_id - first_id"
    pure (d + 1)

/-- `get_ticket_id_from_pos` (tickets.rs:131-138) -/
def idFromPos (posToId : Nat → Nat) (p : Nat) : Nat :=
  if posToId p = 0 then p else posToId p

/-! ### token_send.rs, events -/

def topics (e : Env) : List Nat := [e.caller, e.round, e.epoch]

/-- `refund_ticket_payment` (token_send.rs:7-25) -/
def Tx.refund (t : Tx) (e : Env) (addr n : Nat) : Res Tx :=
  if n = 0 then .ok t else do
    let amount := t.s.price * n
    let t ← t.send addr ⟨t.s.payTok, 0, amount⟩
    pure (t.emit ⟨"refundTicketPayment", topics e,
      [e.caller, e.round, e.epoch, n, t.s.payTok.code, 0, amount]⟩)

/-- `send_locked_launchpad_tokens` (locked_launchpad_token_send.rs:43-79) -/
def lockSplit (amount pct : Nat) : Nat := amount * pct / 10000

def Tx.sendLocked (t : Tx) (e : Env) (dest amount : Nat) : Res Tx := do
  let lockAmt := if e.epoch < t.s.unlockEpoch then lockSplit amount t.s.lockPct else 0
  let t ← if lockAmt > 0 then do
      let t ← t.send t.s.lockAddr ⟨.esdt t.s.lpTok, 0, lockAmt⟩
      pure { t with o := { t.o with locks := t.o.locks ++ [(t.s.unlockEpoch, dest, lockAmt)] } }
    else pure t
  let unlocked := amount - lockAmt
  if unlocked > 0 then t.send dest ⟨.esdt t.s.lpTok, 0, unlocked⟩ else pure t

/-- `send_launchpad_tokens` (token_send.rs:27-46) with the variant's send function -/
def Tx.sendLaunchpadTokens (t : Tx) (e : Env) (addr n : Nat) : Res Tx :=
  if n = 0 then .ok t else
    let amount := n * t.s.perTicket
    if t.s.variant.hasLock then t.sendLocked e addr amount
    else t.send addr ⟨.esdt t.s.lpTok, 0, amount⟩

/-! ### user_interactions.rs -/

/-- `confirm_tickets` (user_interactions.rs:16-59) -/
def confirmTickets (t : Tx) (e : Env) (n : Nat) : Res Tx := do
  let s := t.s
  req (!s.paused) "Contract is paused"
  let (tok, amount) ← egldOrSingleFungible e
  requireStage s e .confirm "Not in confirmation period"
  req s.deposited "Launchpad tokens not deposited yet"
  req (!s.blacklist e.caller) "You have been put into the blacklist and may not confirm tickets"
  let total ← ticketsFor s e.caller
  let totalConfirmed := s.confirmed e.caller + n
  req (totalConfirmed ≤ total) "Trying to confirm too many tickets"
  req (tok == s.payTok) "Wrong payment token used"
  req (amount == s.price * n) "Wrong amount sent"
  let t := t.setS { s with confirmed := upd s.confirmed e.caller totalConfirmed }
  pure (t.emit ⟨"confirmTickets", topics e,
    [e.caller, e.round, e.epoch, n, totalConfirmed, total, tok.code, 0, amount]⟩)

/-- the `for ticket_id in first..=last` loop of `claim_launchpad_tokens`
    (user_interactions.rs:76-85): clears winning flags and position entries, counts. -/
def clearRange (status : Nat → Bool) (posToId : Nat → Nat) (first : Nat) :
    Nat → (Nat → Bool) × (Nat → Nat) × Nat
  | 0 => (status, posToId, 0)
  | k+1 =>
    let (st, p, c) := clearRange status posToId first k
    let id := first + k
    (upd st id false, upd p id 0, if st id then c + 1 else c)

def rangeLen (r : Range) : Nat := r.last + 1 - r.first

/-- number of winning flags in `[first, first+len)` -/
def countWinning (status : Nat → Bool) (first : Nat) : Nat → Nat
  | 0 => 0
  | k+1 => countWinning status first k + (if status (first + k) then 1 else 0)

/-- the state part of a claim (user_interactions.rs:67-98 / `compute_launchpad_results`):
    returns (state, redeemable, refundable) -/
def settle (s : State) (e : Env) : Res (State × Nat × Nat) := do
  requireStage s e .claim "Not in claim period"
  req (!s.claimed e.caller) "Already claimed"
  match s.range e.caller with
  | none => .error (.user "You have no tickets")
  | some r =>
    let conf := s.confirmed e.caller
    let (st, p, redeem) := clearRange s.status s.posToId r.first (rangeLen r)
    let nrWinning ← if redeem > 0 then csub s.nrWinning redeem "user_interactions.rs:93 nr_winning -= redeemable" else pure s.nrWinning
    let refund ← csub conf redeem "user_interactions.rs:98 confirmed - redeemable"
    pure ({ s with status := st, posToId := p,
                   confirmed := upd s.confirmed e.caller 0,
                   range := upd s.range e.caller none,
                   batch := upd s.batch r.first none,
                   nrWinning := nrWinning,
                   claimed := upd s.claimed e.caller true }, redeem, refund)

/-! ### blacklist.rs -/

def extendedPermissions (s : State) (e : Env) : Res Unit :=
  req (e.caller == s.owner || e.caller == s.support) "Permission denied"

def stageLt (s : State) (e : Env) (st : Stage) : Bool := (s.stage e).toNat < st.toNat

/-- loop of `add_users_to_blacklist` (blacklist.rs:17-36) -/
def blacklistMany (e : Env) : List Nat → Tx → Res Tx
  | [], t => .ok t
  | a :: rest, t =>
    if t.s.blacklist a then .error (.user "User already blacklisted")
    else if (t.s.range a).isNone then .error (.user "User has no ticket allowance")
    else
      let conf := t.s.confirmed a
      match (if conf > 0 then t.refund e a conf else .ok t) with
      | .error err => .error err
      | .ok t' =>
        let s := t'.s
        let s := if conf > 0 then { s with confirmed := upd s.confirmed a 0 } else s
        blacklistMany e rest (t'.setS { s with blacklist := upd s.blacklist a true })

/-- `add_users_to_blacklist` (blacklist.rs:12-37) -/
def addUsersToBlacklist (t : Tx) (e : Env) (l : List Nat) : Res Tx := do
  extendedPermissions t.s e
  req (stageLt t.s e .winnerSelection) "May only modify blacklist before winner selection"
  blacklistMany e l t

def unblacklistMany : List Nat → State → Res State
  | [], s => .ok s
  | a :: rest, s =>
    if s.blacklist a then unblacklistMany rest { s with blacklist := upd s.blacklist a false }
    else .error (.user "User is not blacklisted")

/-- `remove_users_from_blacklist` (blacklist.rs:39-51) -/
def removeUsersFromBlacklist (s : State) (e : Env) (l : List Nat) : Res State := do
  extendedPermissions s e
  req (stageLt s e .winnerSelection) "May only modify blacklist before winner selection"
  unblacklistMany l s

/-! ### winner_selection.rs : filterTickets -/

structure FilSt where
  range : Nat → Option Range
  batch : Nat → Option Batch
  first : Nat
  removed : Nat
  deriving Inhabited

/-- closure of `filter_tickets` (winner_selection.rs:38-72) -/
def filterBody (confirmed : Nat → Nat) (last : Nat) (f : FilSt) : Res (FilSt × Bool) :=
  if f.first = last + 1 then .ok (f, false) else
  match f.batch f.first with
  | none => .error (.user "storage decode error (ticketBatch)")
  | some b =>
    let conf := confirmed b.addr
    match csub b.n conf "winner_selection.rs:68 nr_tickets_in_batch - nr_confirmed" with
    | .error e => .error e
    | .ok dropped =>
      if conf = 0 then
        .ok ({ f with range := upd f.range b.addr none, batch := upd f.batch f.first none,
                      removed := f.removed + dropped, first := f.first + b.n }, true)
      else if f.removed > 0 ∨ conf < b.n then
        match csub f.first f.removed "winner_selection.rs:53 first - nr_removed" with
        | .error e => .error e
        | .ok newFirst =>
          let newLast := newFirst + conf - 1
          .ok ({ range := upd f.range b.addr (some ⟨newFirst, newLast⟩),
                 batch := upd (upd f.batch f.first none) newFirst (some ⟨b.addr, conf⟩),
                 removed := f.removed + dropped, first := f.first + b.n }, true)
      else
        .ok ({ f with removed := f.removed + dropped, first := f.first + b.n }, true)

def statusRet : LoopStatus → Nat
  | .completed => 0
  | _ => 1

/-- `filter_tickets` (winner_selection.rs:22-100) -/
def filterTickets (t : Tx) (e : Env) : Res Tx := do
  let s := t.s
  req (!s.paused) "Contract is paused"
  requireStage s e .winnerSelection "Not in winner selection period"
  req (!s.flags.filtered) "Tickets already filtered"
  let last := s.lastTicketId
  let (first, removed) ← match s.op with
    | .none => pure (1, 0)
    | .filter f r => pure (f, r)
    | _ => .error (.user "Another ongoing operation is in progress")
  let flags := if first = 1 then { s.flags with started := true } else s.flags
  let (f, b, st) ← runWhile (filterBody s.confirmed last) (last + 2) t.c.budget
                      ⟨s.range, s.batch, first, removed⟩
  let t := { t with c := { t.c with budget := b } }
  match st with
  | .outOfFuel => .error (.vm "out of gas")
  | .interrupted =>
    pure ({ t with s := { s with range := f.range, batch := f.batch, flags := flags,
                                 op := .filter f.first f.removed },
                   o := { t.o with ret := [1] } })
  | .completed => do
    let newLast ← csub last f.removed "winner_selection.rs:84 last - nr_removed"
    let nrW := if s.nrWinning > newLast then newLast else s.nrWinning
    let t := { t with s := { s with range := f.range, batch := f.batch, op := .none,
                                    nrWinning := nrW, lastTicketId := newLast,
                                    flags := { flags with filtered := true } },
                      o := { t.o with ret := [0] } }
    pure (t.emit ⟨"filterTicketsCompleted", topics e, [e.caller, e.round, e.epoch, newLast]⟩)

/-! ### winner_selection.rs : selectWinners -/

structure SelSt where
  status : Nat → Bool
  posToId : Nat → Nat
  rng : Rng
  pos : Nat
  tx : Tx            -- carries the draw source / log only
  deriving Inhabited

/-- `shuffle_single_ticket` (winner_selection.rs:160-173) on the two maps, given the raw draw -/
def shuffleStep (last : Nat) (status : Nat → Bool) (posToId : Nat → Nat) (pos raw : Nat) :
    (Nat → Bool) × (Nat → Nat) :=
  let randPos := inRange raw pos (last + 1)
  let winId := idFromPos posToId randPos
  let curId := idFromPos posToId pos
  (upd status winId true, upd posToId randPos curId)

/-- closure of `select_winners` (winner_selection.rs:118-132) -/
def selectBody (hash : List Nat → List Nat) (nr last : Nat) (x : SelSt) : Res (SelSt × Bool) :=
  if nr = 0 then .ok (x, false) else
  let (raw, rng', tx') := x.tx.draw hash x.rng
  let (st', p') := shuffleStep last x.status x.posToId x.pos raw
  let x' : SelSt := { status := st', posToId := p', rng := rng', pos := x.pos, tx := tx' }
  if x.pos = nr then .ok (x', false) else .ok ({ x' with pos := x.pos + 1 }, true)

/-- `check_caller_owner_or_user` (winner_selection.rs:203-209) -/
def ownerOrUser (s : State) (e : Env) : Res Unit :=
  req (e.caller == s.owner || !e.callerIsContract) "Endpoint can only be called by user accounts"

/-- `select_winners` (winner_selection.rs:102-156) -/
def selectWinners (hash : List Nat → List Nat) (t : Tx) (e : Env) : Res Tx := do
  let s := t.s
  req (!s.paused) "Contract is paused"
  requireStage s e .winnerSelection "Not in winner selection period"
  ownerOrUser s e
  req s.flags.filtered "Must filter tickets first"
  req (!s.flags.selected) "Winners already selected"
  let nr := s.nrWinning
  let last := s.lastTicketId
  let (rng, pos, t) ← match s.op with
    | .none => let (r, t') := t.freshRng; pure (r, 1, t')
    | .select r p => pure (r, p, t)
    | _ => .error (.user "Another ongoing operation is in progress")
  let (x, b, st) ← runWhile (selectBody hash nr last) (nr + 2) t.c.budget
                      ⟨s.status, s.posToId, rng, pos, t⟩
  let t := { x.tx with c := { x.tx.c with budget := b } }
  match st with
  | .outOfFuel => .error (.vm "out of gas")
  | .interrupted =>
    pure ({ t with s := { s with status := x.status, posToId := x.posToId,
                                 op := .select x.rng x.pos },
                   o := { t.o with ret := [1] } })
  | .completed =>
    let t := { t with s := { s with status := x.status, posToId := x.posToId, op := .none,
                                    flags := { s.flags with selected := true },
                                    claimablePayment := s.price * nr },
                      o := { t.o with ret := [0] } }
    pure (t.emit ⟨"selectWinnersCompleted", topics e, [e.caller, e.round, e.epoch, nr]⟩)

/-! ### views -/

/-- ids of the winning tickets in `[first, first+len)`, ascending -/
def winningIds (status : Nat → Bool) (first : Nat) : Nat → List Nat
  | 0 => []
  | k+1 => winningIds status first k ++ (if status (first + k) then [first + k] else [])

/-- `get_winning_ticket_ids_for_address` (winner_selection.rs:180-201) -/
def viewWinningIds (s : State) (a : Nat) : List Nat :=
  if !s.flags.selected then [] else
  match s.range a with
  | none => []
  | some r => winningIds s.status r.first (rangeLen r)

end LP
