import LP.Guaranteed
/-
  LP.Nft — NFT fee confirmation, draw, claim category and fee accounting
  (crates 3 and 8: launchpad-with-nft modules, combined_selection.rs).
-/
namespace LP

/-- `require_valid_cost` (nft_config.rs) followed by the launchpad-token check of
    `try_set_nft_cost` (repair 4830c00: the fee may not be charged in the launchpad token) -/
def validCost (lp : Nat) (c : Pay) : Res Unit := do
  if c.tok == .egld then req (c.nonce == 0) "EGLD token has no nonce"
  else req c.tok.valid "Invalid ESDT token ID"
  req (c.amount > 0) "Cost may not be 0"
  req (c.tok != .esdt lp) "Launchpad token must be different from NFT cost token"

/-- `confirm_nft` (confirm_nft.rs:13-31) -/
def confirmNft (s : State) (e : Env) : Res State := do
  requireStage s e .confirm "Not in confirmation period"
  req (s.sftIssuedFlag && s.sftCreated && s.sftRole) "SFT setup not complete"
  req (s.confirmed e.caller > 0) "Must confirm launchpad tickets before entering NFT draw"
  let (l, isNew) := setInsert s.payers e.caller
  req isNew "Already confirmed NFT"
  let p ← egldOrSingleEsdt e
  req (p.tok == s.nftCost.tok && p.nonce == s.nftCost.nonce && p.amount == s.nftCost.amount)
    "Invalid payment"
  pure { s with payers := l }

/-- `refund_nft_cost_after_blacklist` (nft_blacklist.rs:14-27) -/
def refundNftMany : List Nat → Tx → Res Tx
  | [], t => .ok t
  | u :: rest, t =>
    let (l, did) := swapRemove t.s.payers u
    if did then
      match (t.setS { t.s with payers := l }).send u t.s.nftCost with
      | .error e => .error e
      | .ok t' => refundNftMany rest t'
    else refundNftMany rest t

structure NSt where
  payers : List Nat
  winners : List Nat
  usersLeft : Nat
  selected : Nat
  rng : Rng
  tx : Tx
  deriving Inhabited

/-- closure of `select_nft_winners` (nft_winners_selection.rs:31-46) -/
def nftBody (hash : List Nat → List Nat) (total : Nat) (x : NSt) : Res (NSt × Bool) :=
  if x.usersLeft = 0 || x.selected = total then .ok (x, false) else
  let (raw, rng', tx') := x.tx.draw hash x.rng
  let idx := inRange raw 1 (x.usersLeft + 1)
  match x.payers[idx - 1]? with
  | none => .error (.user "index out of range (confirmedNftUserList)")
  | some w =>
    .ok ({ payers := (swapRemove x.payers w).1, winners := (setInsert x.winners w).1,
           usersLeft := x.usersLeft - 1, selected := x.selected + 1, rng := rng', tx := tx' }, true)

/-- `select_nft_winners` + completion accounting (lib.rs:131-135 / combined_selection.rs:123-133) -/
def nftSubstep (hash : List Nat → List Nat) (t : Tx) (rng : Rng) : Res (Tx × Rng × LoopStatus) := do
  let s := t.s
  let (x, b, st) ← runWhile (nftBody hash s.availNfts) (s.payers.length + 2) t.c.budget
      ⟨s.payers, s.nftWinners, s.payers.length, s.nftWinners.length, rng, t⟩
  let t := { x.tx with c := { x.tx.c with budget := b },
                       s := { x.tx.s with payers := x.payers, nftWinners := x.winners } }
  match st with
  | .outOfFuel => .error (.vm "out of gas")
  | .interrupted => pure (t, x.rng, .interrupted)
  | .completed =>
    pure (t.setS { t.s with op := .none, claimableNft := t.s.nftCost.amount * x.winners.length },
          x.rng, .completed)

/-- `selectNftWinners` (launchpad-with-nft lib.rs:105-139) -/
def selectNft (hash : List Nat → List Nat) (t : Tx) (e : Env) : Res Tx := do
  let s := t.s
  requireStage s e .winnerSelection "Not in winner selection period"
  req s.flags.selected "Must select winners for base launchpad first"
  req (!s.flags.additional) "Already selected NFT winners"
  let (rng, t) ← match s.op with
    | .none => let (r, t') := t.freshRng; pure (r, t')
    | .additional (.nft r) => pure (r, t)
    | .additional (.guar _) => .error (.user "Failed to deserialize custom ongoing operation")
    | _ => .error (.user "Another ongoing operation is in progress")
  let (t, rng, st) ← nftSubstep hash t rng
  match st with
  | .completed =>
    pure { t with s := { t.s with flags := { t.s.flags with additional := true } },
                  o := { t.o with ret := [0] } }
  | _ => pure { t with s := { t.s with op := .additional (.nft rng) }, o := { t.o with ret := [1] } }

/-- `secondarySelectionStep` (combined_selection.rs:44-97) -/
def secondary (hash : List Nat → List Nat) (t : Tx) (e : Env) : Res Tx := do
  let s := t.s
  requireStage s e .winnerSelection "Not in winner selection period"
  req s.flags.selected "Must select winners for base launchpad first"
  req (!s.flags.additional) "Already performed this step"
  let (cur, t) ← match s.op with
    | .none => let (r, t') := t.freshRng; pure (AddData.guar { rng := r }, t')
    | .additional d => pure (d, t)
    | _ => .error (.user "Another ongoing operation is in progress")
  -- first sub-step: guaranteed tickets + leftover
  let stage1 ← match cur with
    | .guar g => do
      let (t, g, st) ← guaranteedSubstep hash t g
      match st with
      | .completed =>
        let t := t.setS (creditAdditional t.s g.additional)
        let (r, t) := t.freshRng
        pure (Sum.inr (t, r))
      | _ => pure (Sum.inl { t with s := { t.s with op := .additional (.guar g) },
                                    o := { t.o with ret := [1] } })
    | .nft r => pure (Sum.inr (t, r))
  match stage1 with
  | .inl t => pure t
  | .inr (t, rng) =>
    let (t, rng, st) ← nftSubstep hash t rng
    match st with
    | .completed =>
      pure { t with s := { t.s with flags := { t.s.flags with additional := true } },
                    o := { t.o with ret := [0] } }
    | _ => pure { t with s := { t.s with op := .additional (.nft rng) }, o := { t.o with ret := [1] } }

/-- `claim_nft` (claim_nft.rs:23-48) -/
def claimNft (t : Tx) (e : Env) : Res Tx := do
  let (w, won) := swapRemove t.s.nftWinners e.caller
  let t := t.setS { t.s with nftWinners := w }
  let (kind, t) :=
    if won then (1, t) else
      let (p, paid) := swapRemove t.s.payers e.caller
      if paid then (2, t.setS { t.s with payers := p }) else (3, t)
  req t.s.sftToken "Token ID not set (mysterySftTokenId)"
  let t := { t with o := { t.o with sfts := t.o.sfts ++ [(e.caller, kind)] } }
  if kind = 2 then t.send e.caller t.s.nftCost else pure t

/-- `claim_nft_payment` (confirm_nft.rs:33-52) -/
def claimNftPayment (t : Tx) (e : Env) : Res Tx := do
  requireStage t.s e .claim "Not in claim period"
  let c := t.s.claimableNft
  if c > 0 then do
    let t ← t.send e.caller { t.s.nftCost with amount := c }
    pure (t.setS { t.s with claimableNft := 0 })
  else pure t

end LP
