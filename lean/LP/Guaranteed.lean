import LP.Common
/-
  LP.Guaranteed — guaranteed-ticket allocation, blacklist hooks, the distribution step
  (top-up + leftover re-draw) of the v1 family (crates 4, 6, 7, 8) and of v2 (crate 5).
-/
namespace LP

/-! ### UnorderedSetMapper: insertion order with swap-remove -/

def setInsert (l : List Nat) (a : Nat) : List Nat × Bool :=
  if l.contains a then (l, false) else (l ++ [a], true)

/-- `UnorderedSetMapper::swap_remove`: the last element takes the removed element's slot. -/
def swapRemove (l : List Nat) (a : Nat) : List Nat × Bool :=
  match l.idxOf? a with
  | none => (l, false)
  | some i =>
    match l.getLast? with
    | none => (l, false)
    | some lastEl =>
      if i + 1 = l.length then (l.dropLast, true)
      else ((l.set i lastEl).dropLast, true)

/-! ### allocation -/

def sumG (infos : List (Nat × Nat)) : Nat := infos.foldl (fun acc i => acc + i.1) 0

/-- v1 loop of `add_tickets_with_guaranteed_winners` (v1 guaranteed_tickets_init.rs:44-75);
    accumulators: (state, totalWinning, totalGuaranteed) -/
def addV1Many : List (Nat × Nat × Nat × Bool) → State × Nat × Nat → Res (State × Nat × Nat)
  | [], acc => .ok acc
  | (buyer, staking, energy, migrated) :: rest, (s, tw, tg) =>
    match tryCreateTickets s buyer (staking + energy) with
    | .error e => .error e
    | .ok s =>
      let stakingOk := staking ≥ s.minConfirmed
      if stakingOk && tw == 0 then .error (.user "Too many users with guaranteed ticket") else
      let (wl, tw, tg, c) := if stakingOk then ((setInsert s.whitelist buyer).1, tw - 1, tg + 1, 1)
                              else (s.whitelist, tw, tg, 0)
      if migrated && tw == 0 then .error (.user "Too many users with guaranteed ticket") else
      let (wl, tw, tg, d) := if migrated then ((setInsert wl buyer).1, tw - 1, tg + 1, 1)
                              else (wl, tw, tg, 0)
      addV1Many rest ({ s with whitelist := wl,
                               uts := upd s.uts buyer (some { a := staking, b := energy, c := c, d := d }) },
                      tw, tg)

def addTicketsV1 (s : State) (e : Env) (l : List (Nat × Nat × Nat × Bool)) : Res State := do
  requireStage s e .addTickets "Add tickets period has passed"
  let (s, tw, tg) ← addV1Many l (s, s.nrWinning, s.totalGuaranteed)
  pure { s with totalGuaranteed := tg, nrWinning := tw }

def MAX_TICKETS_ALLOWANCE : Nat := 255
def MAX_GUARANTEED_TICKETS_ENTRIES : Nat := 10

/-- v2 loop (v2 guaranteed_tickets_init.rs:57-113); accumulators
    (state, totalWinning, totalGuaranteed, users, tickets, guaranteed) -/
def addV2Many (e : Env) : List (Nat × Nat × List (Nat × Nat)) →
    State × Nat × Nat × Nat × Nat × Nat → Res (State × Nat × Nat × Nat × Nat × Nat)
  | [], acc => .ok acc
  | (buyer, n, infos) :: rest, (s, tw, tg, uc, ta, ga) =>
    if n = 0 then addV2Many e rest (s, tw, tg, uc, ta, ga) else
    if e.isContract buyer then .error (.user "Only user accounts can participate") else
    if n > MAX_TICKETS_ALLOWANCE then .error (.user "Total number of tickets exceeds maximum allowed") else
    if infos.length > MAX_GUARANTEED_TICKETS_ENTRIES then
      .error (.user "Number of guaranteed tickets entries exceeds maximum allowed") else
    match tryCreateTickets s buyer n with
    | .error err => .error err
    | .ok s =>
      if infos.any (fun i => i.1 > i.2) then .error (.user "Invalid guaranteed ticket min confirmed tickets") else
      let ug := sumG infos
      if ug > 0 then
        if tw < ug then .error (.user "Not enough winning tickets for guaranteed allocation") else
        addV2Many e rest ({ s with whitelist := (setInsert s.whitelist buyer).1,
                                   uts := upd s.uts buyer (some { a := n, infos := infos }) },
                          tw - ug, tg + ug, uc + 1, ta + n, ga + ug)
      else
        addV2Many e rest ({ s with uts := upd s.uts buyer (some { a := n, infos := [] }) },
                          tw, tg, uc + 1, ta + n, ga)

def addTicketsV2 (t : Tx) (e : Env) (l : List (Nat × Nat × List (Nat × Nat))) : Res Tx := do
  requireStage t.s e .addTickets "Add tickets period has passed"
  let (s, tw, tg, uc, ta, ga) ← addV2Many e l (t.s, t.s.nrWinning, t.s.totalGuaranteed, 0, 0, 0)
  let t := t.setS { s with totalGuaranteed := tg, nrWinning := tw }
  pure (t.emit ⟨"addTickets", topics e, [e.caller, e.round, e.epoch, uc, ta, ga]⟩)

/-! ### blacklist hooks -/

/-- v1 `clear_users_with_guaranteed_ticket_after_blacklist` (v1 init.rs:82-108);
    accumulators (state, removed, totalGuaranteed) -/
def clearV1Many : List Nat → State × Nat × Nat → Res (State × Nat × Nat)
  | [], acc => .ok acc
  | u :: rest, (s, removed, tg) =>
    let (wl, was) := swapRemove s.whitelist u
    if !was then clearV1Many rest ({ s with whitelist := wl }, removed, tg) else
    let st := (s.uts u).getD {}
    match csub tg st.c "guaranteed_tickets_init.rs:95 total_guaranteed -= staking" with
    | .error e => .error e
    | .ok tg1 =>
      match csub tg1 st.d "guaranteed_tickets_init.rs:96 total_guaranteed -= migration" with
      | .error e => .error e
      | .ok tg2 =>
        clearV1Many rest ({ s with whitelist := wl, uts := upd s.uts u none,
                                   blUts := upd s.blUts u (some st) }, removed + st.c + st.d, tg2)

def clearGuaranteedV1 (s : State) (l : List Nat) : Res State := do
  let (s, removed, tg) ← clearV1Many l (s, 0, s.totalGuaranteed)
  pure { s with nrWinning := s.nrWinning + removed, totalGuaranteed := tg }

/-- v2 (v2 init.rs:126-150); accumulators (state, nrWinning, totalGuaranteed) -/
def clearV2Many : List Nat → State × Nat × Nat → Res (State × Nat × Nat)
  | [], acc => .ok acc
  | u :: rest, (s, nw, tg) =>
    let (wl, _) := swapRemove s.whitelist u
    let st := (s.uts u).getD {}
    let rec_ := sumG st.infos
    match csub tg rec_ "v2 guaranteed_tickets_init.rs:142 total_guaranteed -= recovered" with
    | .error e => .error e
    | .ok tg' =>
      clearV2Many rest ({ s with whitelist := wl, uts := upd s.uts u none,
                                 blUts := upd s.blUts u (some st) }, nw + rec_, tg')

def clearGuaranteedV2 (s : State) (l : List Nat) : Res State := do
  let (s, nw, tg) ← clearV2Many l (s, s.nrWinning, s.totalGuaranteed)
  pure { s with nrWinning := nw, totalGuaranteed := tg }

/-- v1 `remove_guaranteed_tickets_from_blacklist` (v1 init.rs:110-135) with the D4 repair
    (`require!` before the subtraction, as in v2). -/
def restoreV1Many : List Nat → State × Nat × Nat → Res (State × Nat × Nat)
  | [], acc => .ok acc
  | u :: rest, (s, nw, tg) =>
    if (s.uts u).isSome || (s.range u).isNone then restoreV1Many rest (s, nw, tg) else
    let (wl, inserted) := setInsert s.whitelist u
    if !inserted then restoreV1Many rest (s, nw, tg) else
    let st := (s.blUts u).getD {}
    if st.c + st.d > nw then .error (.user "Number of winning tickets exceeded") else
    restoreV1Many rest ({ s with whitelist := wl, blUts := upd s.blUts u none,
                                 uts := upd s.uts u (some st) },
                        nw - st.c - st.d, tg + st.c + st.d)

def restoreGuaranteedV1 (s : State) (l : List Nat) : Res State := do
  let (s, nw, tg) ← restoreV1Many l (s, s.nrWinning, s.totalGuaranteed)
  pure { s with nrWinning := nw, totalGuaranteed := tg }

/-- v2 (v2 init.rs:152-184) -/
def restoreV2Many : List Nat → State × Nat × Nat → Res (State × Nat × Nat)
  | [], acc => .ok acc
  | u :: rest, (s, nw, tg) =>
    if (s.range u).isNone then restoreV2Many rest (s, nw, tg) else
    let st := (s.blUts u).getD {}
    let added := sumG st.infos
    if added > 0 then
      if added > nw then .error (.user "Number of winning tickets exceeded") else
      restoreV2Many rest ({ s with whitelist := (setInsert s.whitelist u).1,
                                   blUts := upd s.blUts u none, uts := upd s.uts u (some st) },
                          nw - added, tg + added)
    else
      restoreV2Many rest ({ s with blUts := upd s.blUts u none, uts := upd s.uts u (some st) }, nw, tg)

def restoreGuaranteedV2 (s : State) (l : List Nat) : Res State := do
  let (s, nw, tg) ← restoreV2Many l (s, s.nrWinning, s.totalGuaranteed)
  pure { s with nrWinning := nw, totalGuaranteed := tg }

/-! ### distribution step, part 1: honour guarantees -/

/-- loop state of `select_guaranteed_tickets` -/
structure GSt where
  whitelist : List Nat
  usersLeft : Nat
  status : Nat → Bool
  leftover : Nat
  additional : Nat
  deriving Inhabited

/-- `select_additional_winning_tickets` (v2 winners.rs:141-161; v1 with the D1 repair):
    mark the first not-yet-winning tickets of `[cur, cur+len)`; returns
    (status, newly marked, still remaining). -/
def topUp (status : Nat → Bool) : (cur len remaining : Nat) → (Nat → Bool) × Nat × Nat
  | _, 0, remaining => (status, 0, remaining)
  | cur, len+1, remaining =>
    if remaining = 0 then (status, 0, 0)
    else if status cur then topUp status (cur + 1) len remaining
    else
      let (st, m, r) := topUp (upd status cur true) (cur + 1) len (remaining - 1)
      (st, m + 1, r)

/-- `calculate_guaranteed_tickets` (v2 winners.rs:89-115): (guaranteed, leftover) -/
def calcV2 (infos : List (Nat × Nat)) (conf : Nat) : Nat × Nat :=
  let g := (infos.filter (fun i => conf ≥ i.2)).foldl (fun acc i => acc + i.1) 0
  let l := (infos.filter (fun i => !(conf ≥ i.2))).foldl (fun acc i => acc + i.1) 0
  if g > conf then (conf, l + (g - conf)) else (g, l)

/-- v1 qualification (v1 winners.rs:59-76): (guaranteed, leftover) -/
def calcV1 (st : UTS) (conf minConfirmed : Nat) : Nat × Nat :=
  let (g, l) := if conf ≥ st.b then (st.d, 0) else (0, st.d)
  if (g > 0 && conf ≥ st.a + st.b) || (g == 0 && conf ≥ minConfirmed) then (g + st.c, l)
  else (g, l + st.c)

/-- `process_guaranteed_tickets` (v2 winners.rs:117-139) — also the tail of the v1 closure
    (v1 winners.rs:78-108 with the D1 repair): returns (status, leftover+, additional+) -/
def processGuaranteed (status : Nat → Bool) (range : Option Range) (g : Nat) :
    (Nat → Bool) × Nat × Nat :=
  match range with
  | none => (status, g, 0)
  | some r =>
    let w := countWinning status r.first (rangeLen r)
    if g > w then
      let (st, marked, rem) := topUp status r.first (rangeLen r) (g - w)
      (st, w + rem, marked)
    else (status, g, 0)

/-- closure of `select_guaranteed_tickets` (v2 winners.rs:60-86, v1 winners.rs:39-109) -/
def guarBody (s : State) (x : GSt) : Res (GSt × Bool) :=
  if x.usersLeft = 0 then .ok (x, false) else
  match x.whitelist with
  | [] => .error (.user "index out of range (usersWithGuaranteedTicket)")
  | u :: _ =>
    let wl := (swapRemove x.whitelist u).1
    let x := { x with whitelist := wl, usersLeft := x.usersLeft - 1 }
    match s.uts u with
    | none => .ok (x, true)
    | some st =>
      let conf := s.confirmed u
      let (g, l) := if s.variant.isV2 then calcV2 st.infos conf else calcV1 st conf s.minConfirmed
      if g > 0 then
        let (status, lo, add) := processGuaranteed x.status (s.range u) g
        .ok ({ x with status := status, leftover := x.leftover + l + lo,
                      additional := x.additional + add }, true)
      else .ok ({ x with leftover := x.leftover + l }, true)

/-! ### distribution step, part 2: re-draw the unused reserve -/

structure LSt where
  status : Nat → Bool
  posToId : Nat → Nat
  rng : Rng
  leftover : Nat
  offset : Nat
  additional : Nat
  tx : Tx
  deriving Inhabited

/-- closure of `distribute_leftover_tickets`
    (v2 winners.rs:163-264; v1 winners.rs:120-153 and 166-188) -/
def leftoverBody (hash : List Nat → List Nat) (v2 : Bool) (nrOrig last : Nat) (x : LSt) :
    Res (LSt × Bool) :=
  let x := if nrOrig + x.additional ≥ last then { x with leftover := 0 } else x
  if x.leftover = 0 then .ok (x, false) else
  let cur := nrOrig + x.offset
  let curId := idFromPos x.posToId cur
  if x.status curId then .ok ({ x with offset := x.offset + 1 }, true) else
  let (raw, rng', tx') := x.tx.draw hash x.rng
  let x := { x with rng := rng', tx := tx' }
  let randPos := inRange raw cur (last + 1)
  let selId := idFromPos x.posToId randPos
  if x.status selId then
    if v2 then
      .ok ({ x with posToId := upd (upd x.posToId cur selId) randPos curId,
                    offset := x.offset + 1 }, true)
    else .ok (x, true)
  else
    .ok ({ x with posToId := upd x.posToId randPos curId, status := upd x.status selId true,
                  leftover := x.leftover - 1, additional := x.additional + 1,
                  offset := x.offset + 1 }, true)

/-- fuel for the v1 leftover loop, whose termination is only probabilistic -/
def v1LeftoverFuel : Nat := 200000

/-- the two loops of the distribution step on one `GuarOp`; returns the transaction with
    the storage written by the loops, the updated operation and the status.
    `run_while_it_has_gas` clears the saved operation whenever a loop completes. -/
def guaranteedSubstep (hash : List Nat → List Nat) (t : Tx) (g : GuarOp) :
    Res (Tx × GuarOp × LoopStatus) := do
  let s := t.s
  let (x, b, st) ← runWhile (guarBody s) (s.whitelist.length + 2) t.c.budget
      ⟨s.whitelist, s.whitelist.length, s.status, g.leftover, g.additional⟩
  let t := { t with c := { t.c with budget := b },
                    s := { s with whitelist := x.whitelist, status := x.status } }
  let g := { g with leftover := x.leftover, additional := x.additional }
  match st with
  | .outOfFuel => .error (.vm "out of gas")
  | .interrupted => pure (t, g, .interrupted)
  | .completed =>
    let t := t.setS { t.s with op := .none }
    let s := t.s
    let nrOrig := s.nrWinning
    let last := s.lastTicketId
    let fuel := if s.variant.isV2 then last + 2 else v1LeftoverFuel
    let (y, b, st) ← runWhile (leftoverBody hash s.variant.isV2 nrOrig last) fuel t.c.budget
        ⟨s.status, s.posToId, g.rng, g.leftover, g.offset, g.additional, t⟩
    let t := { y.tx with c := { y.tx.c with budget := b },
                         s := { y.tx.s with status := y.status, posToId := y.posToId } }
    let g : GuarOp := ⟨y.rng, y.leftover, y.offset, y.additional⟩
    match st with
    | .outOfFuel => .error (.vm "out of gas")
    | .interrupted => pure (t, g, .interrupted)
    | .completed =>
      let t := t.setS { t.s with op := .none }
      pure (t, g, .completed)

/-- accounting done when the distribution completes (v2 lib.rs:160-176 and the copies) -/
def creditAdditional (s : State) (add : Nat) : State :=
  { s with claimablePayment := s.claimablePayment + s.price * add, nrWinning := s.nrWinning + add }

/-- `distributeGuaranteedTickets` (crates 4, 5, 6, 7) -/
def distribute (hash : List Nat → List Nat) (t : Tx) (e : Env) : Res Tx := do
  let s := t.s
  if s.variant.isV2 then req (!s.paused) "Contract is paused"
  requireStage s e .winnerSelection "Not in winner selection period"
  if s.variant.isV2 then ownerOrUser s e
  req s.flags.selected "Must select winners for base launchpad first"
  req (!s.flags.additional) "Already distributed tickets"
  let (g, t) ← match s.op with
    | .none => let (r, t') := t.freshRng; pure (({ rng := r } : GuarOp), t')
    | .additional (.guar g) => pure (g, t)
    | .additional (.nft _) => .error (.user "Failed to deserialize custom ongoing operation")
    | _ => .error (.user "Another ongoing operation is in progress")
  let (t, g, st) ← guaranteedSubstep hash t g
  match st with
  | .completed =>
    let s := creditAdditional t.s g.additional
    let t := { t with s := { s with flags := { s.flags with additional := true } },
                      o := { t.o with ret := [0] } }
    if s.variant.isV2 then
      pure (t.emit ⟨"distributeGuaranteedTicketsCompleted", topics e,
        [e.caller, e.round, e.epoch, g.additional]⟩)
    else pure t
  | _ =>
    pure { t with s := { t.s with op := .additional (.guar g) }, o := { t.o with ret := [1] } }

end LP
