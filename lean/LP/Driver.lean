import LP.Step
import LP.Sha256
/-
  LP.Driver — line protocol around the model (see /verif/DESIGN.md §4.3).
  One operation per input line, one result line per operation.
-/
namespace LP.Driver
open LP

def sha (bs : List Nat) : List Nat := Sha256.sha256 bs

def variantOf : String → Option Variant
  | "base" => some .base | "locked" => some .locked | "nft" => some .nft
  | "guarV1" => some .guarV1 | "guarV2" => some .guarV2 | "migration" => some .migration
  | "lockedGuar" => some .lockedGuar | "nftGuar" => some .nftGuar
  | _ => none

def tokOf (code : Nat) : Token := if code = 0 then .egld else .esdt (code - 1)

def isContractId (a : Nat) : Bool := a ≥ 900

/-- token stream parser state -/
abbrev P := StateT (List String) (Except String)

def nextTok : P String := do
  match (← get) with
  | [] => throw "unexpected end of line"
  | x :: xs => set xs; pure x

def nat : P Nat := do
  let t ← nextTok
  match t.toNat? with
  | some n => pure n
  | none => throw s!"not a number: {t}"

def optNat : P (Option Nat) := do
  let t ← nextTok
  if t == "-" then pure none else
  match t.toNat? with
  | some n => pure (some n)
  | none => throw s!"not a number: {t}"

def hexVal (c : Char) : Nat :=
  if c.isDigit then c.toNat - '0'.toNat
  else if 'a' ≤ c && c ≤ 'f' then c.toNat - 'a'.toNat + 10
  else if 'A' ≤ c && c ≤ 'F' then c.toNat - 'A'.toNat + 10 else 0

def bytesOfHex : List Char → List Nat
  | a :: b :: rest => (hexVal a * 16 + hexVal b) :: bytesOfHex rest
  | _ => []

def times {α} (n : Nat) (p : P α) : P (List α) := do
  let mut out := []
  for _ in [0:n] do
    out := out ++ [← p]
  pure out

def pay : P Pay := do
  let t ← nat; let n ← nat; let a ← nat
  pure ⟨tokOf t, n, a⟩

def addrList : P (List Nat) := do let k ← nat; times k nat

def callP : P Call := do
  let name ← nextTok
  match name with
  | "addTickets" => do
    let k ← nat
    let l ← times k (do let a ← nat; let n ← nat; pure (a, n))
    pure (.addTickets l)
  | "addTicketsV1" => do
    let k ← nat
    let l ← times k (do let a ← nat; let s ← nat; let e ← nat; let m ← nat; pure (a, s, e, m != 0))
    pure (.addTicketsV1 l)
  | "addTicketsV2" => do
    let k ← nat
    let l ← times k (do
      let a ← nat; let n ← nat; let m ← nat
      let infos ← times m (do let g ← nat; let mn ← nat; pure (g, mn))
      pure (a, n, infos))
    pure (.addTicketsV2 l)
  | "deposit" => pure .deposit
  | "setTicketPrice" => do let t ← nat; let a ← nat; pure (.setTicketPrice (tokOf t) a)
  | "setPerTicket" => do pure (.setPerTicket (← nat))
  | "setConfStart" => do pure (.setConfStart (← nat))
  | "setSelStart" => do pure (.setSelStart (← nat))
  | "setClaimStart" => do pure (.setClaimStart (← nat))
  | "setSupport" => do pure (.setSupport (← nat))
  | "pause" => pure .pause
  | "unpause" => pure .unpause
  | "confirm" => do pure (.confirm (← nat))
  | "filter" => pure .filter
  | "select" => pure .select
  | "claim" => pure .claim
  | "claimPayment" => pure .claimPayment
  | "blacklist" => do pure (.blacklist (← addrList))
  | "refundUsers" => do pure (.refundUsers (← addrList))
  | "unblacklist" => do pure (.unblacklist (← addrList))
  | "distribute" => pure .distribute
  | "setSchedule1" => do
    let a ← nat; let b ← nat; let c ← nat; let d ← nat; let e ← nat
    pure (.setSchedule1 a b c d e)
  | "setSchedule2" => do
    let k ← nat
    let l ← times k (do let r ← nat; let p ← nat; pure (r, p))
    pure (.setSchedule2 l)
  | "confirmNft" => pure .confirmNft
  | "selectNft" => pure .selectNft
  | "secondary" => pure .secondary
  | "setNftCost" => do pure (.setNftCost (← pay))
  | "issueSft" => pure .issueSft
  | "createSfts" => pure .createSfts
  | "setTransferRole" => do pure (.setTransferRole (← optNat))
  | "sftSetup" => pure .sftSetup
  | other => throw s!"unknown endpoint {other}"

/-! ### printing -/

def showList (l : List String) : String := "[" ++ ",".intercalate l ++ "]"
def showNats (l : List Nat) : String := showList (l.map toString)
def b2s (b : Bool) : String := if b then "1" else "0"

def showEv (e : Ev) : String :=
  e.name ++ "(" ++ ",".intercalate (e.topics.map toString) ++ "|" ++
    ",".intercalate (e.data.map toString) ++ ")"

def showPay (p : Pay) : String := s!"{p.tok.code}:{p.nonce}:{p.amount}"

def showOut (o : Out) : String :=
  "ret=" ++ showNats o.ret ++
  " ev=" ++ showList (o.events.map showEv) ++
  " xf=" ++ showList (o.xfers.map (fun (a, p) => s!"{a}:{showPay p}")) ++
  " lock=" ++ showList (o.locks.map (fun (ep, d, a) => s!"{ep}:{d}:{a}")) ++
  " sft=" ++ showList (o.sfts.map (fun (a, n) => s!"{a}:{n}")) ++
  " draws=" ++ showNats o.draws

def showRng (r : Rng) : String := s!"{Sha256.hex r.seed}:{r.index}"

def showOp : Op → String
  | .none => "none"
  | .filter f r => s!"filter:{f}:{r}"
  | .select r p => s!"select:{showRng r}:{p}"
  | .additional (.guar g) => s!"guar:{showRng g.rng}:{g.leftover}:{g.offset}:{g.additional}"
  | .additional (.nft r) => s!"nft:{showRng r}"

def showUts (v2 : Bool) : Option UTS → String
  | none => "none"
  | some u =>
    if v2 then s!"{u.a}:" ++ showList (u.infos.map (fun (g, m) => s!"{g}/{m}"))
    else s!"{u.a}:{u.b}:{u.c}:{u.d}"

def errMsg : Err → String
  | .user m => m
  | .panic m => "panic: " ++ m
  | .vm m => m

def showRes : Res Nat → String
  | .ok n => toString n
  | .error e => e.cls

def dumpAddr (s : State) (e : Env) (a : Nat) : String :=
  let v2 := s.variant.isV2
  let range := match s.range a with
    | none => "none"
    | some r => s!"{r.first}-{r.last}"
  let base := s!"a{a}:range={range} conf={s.confirmed a} bl={b2s (s.blacklist a)} cl={b2s (s.claimed a)} win={showNats (viewWinningIds s a)} tix={showRes (ticketsFor s a)}"
  let utsView := match s.uts a with
    | none => "user"      -- the view rejects unknown users ("User not found")
    | some u =>
      if v2 then s!"{u.a}:" ++ showList (u.infos.map (fun (p : Nat × Nat) => s!"{p.1}/{p.2}"))
      else s!"{u.a}:{u.b}:{s.confirmed a}:{u.c}:{u.d}"
  let hasView := s.variant == .guarV1 || s.variant == .guarV2 || s.variant == .migration
  let g := if s.variant.hasGuaranteed then
      s!" uts={showUts v2 (s.uts a)} bluts={showUts v2 (s.blUts a)}" ++ (if hasView then s!" utsview={utsView}" else "")
    else ""
  let vst := if s.variant.vested then
      let c := if v2 then claimable2 s e a else claimable1 s e a
      s!" ut={s.userTotal a} uc={s.userClaimed a} claimable={showRes c}"
    else ""
  let n := if s.variant.hasNft then
      s!" paid={b2s (s.payers.contains a || s.nftWinners.contains a)} won={b2s (s.nftWinners.contains a)}"
    else ""
  base ++ g ++ vst ++ n

def idsWhere (p : Nat → Bool) (bound : Nat) : List Nat := (List.range (bound + 1)).filter p

def dumpState (s : State) (e : Env) (bound : Nat) (addrs : List Nat) : String :=
  -- the window of ticket ids printed: the caller's bound, but never less than the ticket space itself
  let bound := max bound (s.lastTicketId + 2)
  let f := s.flags
  let globals := s!"flags={b2s f.started}{b2s f.filtered}{b2s f.selected}{b2s f.additional} cfg={s.cfg.conf},{s.cfg.sel},{s.cfg.claim} price={s.payTok.code}:{s.price} per={s.perTicket} nrw={s.nrWinning} last={s.lastTicketId} dep={b2s s.deposited} tdep={s.totalDeposited} cpay={s.claimablePayment} sup={s.support} paused={b2s s.paused} op={showOp s.op}"
  let bals := " bal=" ++ showList ((List.range 6).map (fun c => s!"{c}:{s.bal (tokOf c) 0}"))
  let st := " views=ok status=" ++ showNats (idsWhere s.status bound)
  let p2i := " p2i=" ++ showList ((idsWhere (fun p => s.posToId p != 0) bound).map (fun p => s!"{p}>{s.posToId p}"))
  let batches := " batch=" ++ showList (((List.range (bound + 1)).filterMap (fun i => (s.batch i).map (fun b => s!"{i}>{b.addr}x{b.n}"))))
  let g := if s.variant.hasGuaranteed then s!" wl={showNats s.whitelist} tg={s.totalGuaranteed} minc={s.minConfirmed}" else ""
  let vst := if s.variant == .guarV1 then
      match s.sched1 with
      | none => " sched=none"
      | some sc => s!" sched={sc.start}:{sc.initial}:{sc.times}:{sc.pct}:{sc.period}"
    else if s.variant.isV2 then
      match s.sched2 with
      | none => " sched=none"
      | some ms => " sched=" ++ showList (ms.map (fun (r, p) => s!"{r}/{p}"))
    else ""
  let n := if s.variant.hasNft then
      s!" payers={showNats s.payers} nftw={showNats s.nftWinners} cnft={s.claimableNft} cost={showPay s.nftCost} avail={s.availNfts} steps={b2s s.sftIssuedFlag}{b2s s.sftCreated}{b2s s.sftRole}"
    else ""
  let lk := if s.variant.hasLock then s!" lockcfg={s.lockPct}:{s.unlockEpoch}" else ""
  "D " ++ globals ++ bals ++ st ++ p2i ++ batches ++ g ++ vst ++ n ++ lk ++ " | " ++
    " | ".intercalate (addrs.map (dumpAddr s e))

/-! ### endpoint table (compared with the contracts' generated ABI) -/

/-- one representative call per endpoint of the model, with the endpoint's real name -/
def abiCalls : List (String × Call) := [
  ("addTickets", .addTickets []), ("addTickets", .addTicketsV1 []), ("addTickets", .addTicketsV2 []),
  ("depositLaunchpadTokens", .deposit), ("setTicketPrice", .setTicketPrice .egld 1),
  ("setLaunchpadTokensPerWinningTicket", .setPerTicket 1),
  ("setConfirmationPeriodStartRound", .setConfStart 0), ("setWinnerSelectionStartRound", .setSelStart 0),
  ("setClaimStartRound", .setClaimStart 0), ("setSupportAddress", .setSupport 0),
  ("pause", .pause), ("unpause", .unpause), ("confirmTickets", .confirm 0),
  ("filterTickets", .filter), ("selectWinners", .select), ("claimLaunchpadTokens", .claim),
  ("claimTicketPayment", .claimPayment), ("addUsersToBlacklist", .blacklist []),
  ("refundUserTickets", .refundUsers []), ("removeGuaranteedUsersFromBlacklist", .unblacklist []),
  ("distributeGuaranteedTickets", .distribute), ("setUnlockSchedule", .setSchedule1 0 0 0 0 0),
  ("setUnlockSchedule", .setSchedule2 []), ("confirmNft", .confirmNft), ("selectNftWinners", .selectNft),
  ("secondarySelectionStep", .secondary), ("setNftCost", .setNftCost ⟨.egld, 0, 1⟩),
  ("issueMysterySft", .issueSft), ("createInitialSfts", .createSfts),
  ("setTransferRole", .setTransferRole none)]

def insertSorted (x : String) : List String → List String
  | [] => [x]
  | y :: ys => if x ≤ y then x :: y :: ys else y :: insertSorted x ys

def abiLine (v : Variant) : String :=
  let items := abiCalls.filterMap (fun (name, c) =>
    (endpointMeta v c).map (fun m => s!"{name}:{b2s m.ownerOnly}:{b2s m.payable}"))
  "A " ++ " ".intercalate (items.foldr insertSorted [])

/-! ### driver loop -/

structure DState where
  st : Option State := none
  snaps : List (String × State) := []

def envP : P Env := do
  let caller ← nat; let round ← nat; let epoch ← nat; let egld ← nat
  let k ← nat
  let esdts ← times k pay
  let budget ← optNat
  let ns ← nat
  let seeds ← times ns (do let h ← nextTok; pure (bytesOfHex h.toList))
  let nsc ← nat
  let script ← times nsc nat
  pure { caller, round, epoch, egld, esdts, callerIsContract := isContractId caller,
         isContract := isContractId, seeds, script, budget }

def handle (d : DState) (line : String) : DState × String :=
  let toks := (line.trimAscii.toString.splitOn " ").filter (· != "")
  match toks with
  | [] => (d, "")
  | "deploy" :: rest =>
    let p : P (Variant × InitArgs × Env) := do
      let vn ← nextTok
      let some v := variantOf vn | throw s!"unknown variant {vn}"
      let caller ← nat; let round ← nat; let epoch ← nat
      let lpTok ← nat; let perTicket ← nat; let payTok ← nat; let price ← nat
      let nrWinning ← nat; let conf ← nat; let sel ← nat; let claim ← nat
      let minConfirmed ← nat; let lockPct ← nat; let unlockEpoch ← nat; let lockAddr ← nat
      let cost ← pay; let avail ← nat
      let lp := match tokOf lpTok with | .esdt i => i | .egld => 0
      pure (v, { lpTok := lp, perTicket, payTok := tokOf payTok, price, nrWinning, conf, sel, claim,
                 minConfirmed, lockPct, unlockEpoch, lockAddr, nftCost := cost, availNfts := avail },
            { caller, round, epoch, isContract := isContractId })
    match p.run rest with
    | .error m => (d, s!"X parse error: {m}")
    | .ok ((v, a, e), _) =>
      match init v a e with
      | .ok s => ({ st := some s, snaps := [] }, "R ok " ++ showOut {})
      | .error err => (d, s!"R {err.cls} " ++ showOut {})
  | "call" :: rest =>
    let p : P (Env × Bool × Call) := do
      let e ← envP
      let probe ← nat
      let c ← callP
      pure (e, probe != 0, c)
    match p.run rest with
    | .error m => (d, s!"X parse error: {m}")
    | .ok ((e, probe, c), _) =>
      match d.st with
      | none => (d, "X no contract deployed")
      | some s =>
        match step sha s e c with
        | .ok (s', o) => ((if probe then d else { d with st := some s' }), "R ok " ++ showOut o)
        | .error err => (d, s!"R {err.cls} " ++ showOut {} ++ " msg=" ++ errMsg err)
  | "dump" :: rest =>
    let p : P (Nat × Nat × List Nat) := do
      let round ← nat; let bound ← nat
      let addrs ← addrList
      pure (round, bound, addrs)
    match p.run rest with
    | .error m => (d, s!"X parse error: {m}")
    | .ok ((round, bound, addrs), _) =>
      match d.st with
      | none => (d, "X no contract deployed")
      | some s => (d, dumpState s { caller := 0, round := round } bound addrs)
  | "reset" :: _ => ({ st := none }, "R reset")
  | "snap" :: name :: _ =>
    match d.st with
    | none => (d, "X no contract deployed")
    | some s => ({ d with snaps := (name, s) :: d.snaps.filter (·.1 != name) }, "R snap")
  | "restore" :: name :: _ =>
    match d.snaps.find? (·.1 == name) with
    | none => (d, "X no such snapshot")
    | some (_, s) => ({ d with st := some s }, "R restore")
  | "storage" :: _ => (d, "S")
  | "abi" :: vn :: _ =>
    match variantOf vn with
    | some v => (d, abiLine v)
    | none => (d, "X unknown variant")
  | other :: _ => (d, s!"X unknown op {other}")

partial def loop (h : IO.FS.Stream) (out : IO.FS.Stream) (d : DState) : IO Unit := do
  let line ← h.getLine
  if line.isEmpty then return ()
  let (d', o) := handle d line
  if !o.isEmpty then
    out.putStrLn o
    out.flush
  loop h out d'

end LP.Driver
