import LP.Common
/-
  LP.Vesting — unlock schedules and claimable computation of crates 4 (v1) and 5 (v2).
-/
namespace LP

def MAX_PERCENTAGE : Nat := 10000
def MAX_UNLOCK_MILESTONES_ENTRIES : Nat := 60
def MAX_RELEASE_ROUND_DIFF : Nat := 26280000
def u64Max : Nat := 2^64 - 1

/-- `UnlockSchedule::validate` loop (v2 token_release.rs:45-56): returns the percentage sum,
    or `none` when a milestone is invalid.  `last` is the previous release round. -/
def validateMilestones (now : Nat) : List (Nat × Nat) → Nat → Nat → Option Nat
  | [], _, total => some total
  | (round, pct) :: rest, last, total =>
    if pct > MAX_PERCENTAGE || round < now || round < last || round > now + MAX_RELEASE_ROUND_DIFF
    then none
    else validateMilestones now rest round (total + pct)

/-- `UnlockSchedule::validate` (v2 token_release.rs:37-59) -/
def validSchedule2 (now : Nat) (ms : List (Nat × Nat)) : Bool :=
  !ms.isEmpty && validateMilestones now ms 0 0 == some MAX_PERCENTAGE

/-- percentage unlocked at `now` (v2 token_release.rs:118-125): leading milestones whose
    release round has been reached. -/
def unlockedPct2 (now : Nat) : List (Nat × Nat) → Nat
  | [] => 0
  | (round, pct) :: rest => if round ≤ now then pct + unlockedPct2 now rest else 0

def defaultSchedule2 : List (Nat × Nat) := [(0, MAX_PERCENTAGE)]

/-- v1 percentage unlocked at `now` (v1 token_release.rs:101-120), for a stored schedule -/
def unlockedPct1 (now : Nat) (sc : Sched1) : Nat :=
  if sc.start > now then 0
  else if sc.initial = MAX_PERCENTAGE then MAX_PERCENTAGE
  else
    let periods := (now - sc.start) / sc.period
    let periods := if periods > sc.times then sc.times else periods
    sc.initial + sc.pct * periods

/-- `compute_claimable_tokens` — v2 (token_release.rs:96-131) -/
def claimable2 (s : State) (e : Env) (a : Nat) : Res Nat :=
  let total := s.userTotal a
  if total = 0 then .ok 0 else do
    let claimed := s.userClaimed a
    req (claimed < total) "Already claimed all tokens"
    let ms := s.sched2.getD defaultSchedule2
    bsub (total * unlockedPct2 e.round ms / MAX_PERCENTAGE) claimed "claimable - claimed"

/-- `compute_claimable_tokens` — v1 (token_release.rs:87-124) -/
def claimable1 (s : State) (e : Env) (a : Nat) : Res Nat :=
  let total := s.userTotal a
  if total = 0 then .ok 0 else do
    let claimed := s.userClaimed a
    req (claimed < total) "Already claimed all tokens"
    match s.sched1 with
    | none => pure 0
    | some sc =>
      if sc.start > e.round then pure 0
      else if sc.initial = MAX_PERCENTAGE then pure total
      else bsub (total * unlockedPct1 e.round sc / MAX_PERCENTAGE) claimed "claimable - claimed"

/-- v1 `set_unlock_schedule` (token_release.rs:38-84) with the D5 repair (checked
    arithmetic: the exact, unbounded sum must be 100 %). -/
def setSchedule1 (s : State) (e : Env) (start initial times pct period : Nat) : Res State := do
  req (e.round < s.cfg.conf || s.sched1.isNone) "Can't change the unlock schedule"
  req (start ≥ e.round) "Wrong claim start round"
  req (period > 0 || initial == MAX_PERCENTAGE) "Wrong vesting release recurrency"
  req (initial + times * pct == MAX_PERCENTAGE) "Unlock percentage is not 100%"
  pure { s with sched1 := some ⟨start, initial, times, pct, period⟩ }

/-- flatten milestones for the event payload -/
def flattenPairs : List (Nat × Nat) → List Nat
  | [] => []
  | (a, b) :: rest => a :: b :: flattenPairs rest

/-- v2 `set_unlock_schedule` (token_release.rs:66-94) -/
def setSchedule2 (t : Tx) (e : Env) (ms : List (Nat × Nat)) : Res Tx := do
  requireStage t.s e .addTickets "Add tickets period has passed"
  req (ms.length ≤ MAX_UNLOCK_MILESTONES_ENTRIES) "Maximum unlock milestones entries exceeded"
  req (validSchedule2 e.round ms) "Invalid unlock schedule"
  let t := t.setS { t.s with sched2 := some ms }
  pure (t.emit ⟨"setUnlockSchedule", topics e,
    [e.caller, e.round, e.epoch, ms.length] ++ flattenPairs ms⟩)

/-- `claim_launchpad_tokens_endpoint` of crates 4 and 5 -/
def claimVested (t : Tx) (e : Env) : Res Tx := do
  let v2 := t.s.variant.isV2
  if v2 then req (!t.s.paused) "Contract is paused"
  let t ← if t.s.claimed e.caller then pure t else do
    let (s, redeem, refund) ← settle t.s e
    let t ← (t.setS s).refund e e.caller refund
    pure (if redeem > 0 then
      t.setS { t.s with userTotal := upd t.s.userTotal e.caller (redeem * t.s.perTicket) } else t)
  let c ← if v2 then claimable2 t.s e e.caller else claimable1 t.s e e.caller
  if c > 0 then do
    let t ← t.send e.caller ⟨.esdt t.s.lpTok, 0, c⟩
    let t := t.setS { t.s with userClaimed := upd t.s.userClaimed e.caller (t.s.userClaimed e.caller + c) }
    pure (if v2 then t.emit ⟨"claimLaunchpadTokens", topics e,
      [e.caller, e.round, e.epoch, t.s.lpTok + 1, 0, c]⟩ else t)
  else pure t

/-- owner withdrawal of crates 4 and 5 (lib.rs `claim_ticket_payment_endpoint`) -/
def claimPaymentOwn (t : Tx) (e : Env) : Res Tx := do
  requireStage t.s e .claim "Not in claim period"
  let claimable := t.s.claimablePayment
  let t ← if claimable > 0 then
      (t.setS { t.s with claimablePayment := 0 }).send e.caller ⟨t.s.payTok, 0, claimable⟩
    else pure t
  let deposited := t.s.totalDeposited
  let t := t.setS { t.s with totalDeposited := 0 }
  if deposited = 0 then pure t else
  let won := claimable / t.s.price * t.s.perTicket
  if won ≥ deposited then pure t else
  t.send e.caller ⟨.esdt t.s.lpTok, 0, deposited - won⟩

end LP
