import LP.Proofs.Unstuck2
import LP.Props.C04unstuck
import LP.Props.C01reachV1
import LP.Props.C01reachG1
import LP.Props.C14reachG
/-
  C04 "every step reports completion after finitely many resumed calls and cannot be left stuck",
  at the level of REACHABLE STATES, continued (LP/Props/C04unstuck.lean proves filter / select for
  all eight contracts and `selectNft` for launchpad-with-nft).

  Vocabulary (LP/Proofs/Unstuck2.lean, LP/Proofs/Unstuck.lean):
  * `us2_distOff s`      the saved offset of the leftover loop (1 when no `.guar` cursor is saved);
  * `us2_distLeft s`     `|whitelist| + (lastTicketId + 1 - (nrWinning + us2_distOff s))`;
  * `us_Outcome s' o e flag left s`   completed (`[0]`, flag set, nothing saved) or — only with a
                         finite budget — interrupted (`[1]`, flag not set, a cursor saved,
                         `left s' < left s`); `paused`, timeline, owner unchanged;
  * `us2_V1Cov hash s r` `s` is a reachable state of `migration` / `lockedGuar` (`v1_Reach`) or of
                         `guarV1` (`g1_Reach`): the three contracts with the v1 `distribute`;
  * `us2_leftStart s e`  the loop state in which the leftover loop of a `distribute`/`secondary`
                         call in environment `e` starts, with the budget left for it — defined
                         when the guaranteed-ticket loop completes within the call;
  * `us2_Spins hash s e` the call reaches the leftover loop and that loop performs
                         `v1LeftoverFuel = 200000` iterations within the call without completing
                         or being interrupted: THE condition under which the model's v1 leftover
                         loop returns an error ("out of gas");
  * `us2_redraws hash false nrW last n z`   among the first `n` iterations of the v1 leftover loop
                         from `z`, the number whose draw hits an already winning ticket;
  * `us2_V1Out` / `us2_SecOut`   the outcomes of an accepted `distribute` / `secondary` call;
  * `us2_OwnerCall s e`  `e` carries no payment, has an unlimited budget, and its caller is the
                         owner of `s`.

  Which endpoints read the pause flag: `distribute` of guarV2 does (`distribute_v2_never_stuck` has
  `paused = false`); `distribute` of the v1 family and `secondary` do NOT (and have no caller
  gate): the theorems of sections 2 and 3 have no hypothesis on `paused` or on the caller.

  PARTIAL (v1 family, nftGuar), exactly as the model is: the v1 leftover loop terminates only
  probabilistically (`C03final.C03_leftover_v1_may_spin`).  What is proved: acceptance IFF
  `¬ us2_Spins`; what `us2_Spins` implies about the draws; strict progress of the
  guaranteed-ticket phase; exact progress of the leftover phase (the offset advances by the number
  of iterations that did not re-draw a winning ticket); completion by ONE unlimited call, and by
  `us2_distLeft s + 1` calls of any budgets, under explicit hypotheses on the draws
  (`distribute_v1_completes_partial`, `distribute_v1_completes_partial_calls`, hypothesis
  `us2_DrawsOK`, satisfiable: `us2_DrawsOK_zero`).  FULL statements (the same without the
  hypotheses on the draws) are FALSE in the model.  NOT proved: for nftGuar the call-count bound of
  the guaranteed sub-step of `secondary` (the per-call outcomes `secondary_outcome` are proved; the
  sequence theorem was only derived for `distribute`); the NFT phase of `secondary` has its bound
  (`secondary_nft_phase_completes`).
-/
namespace LP.Props.C04unstuck2
open LP LP.Props.C17

variable (hash : List Nat → List Nat)

/-! ## 1. `distribute` of guarV2: strict measure and call bound -/

/-- **distribute_v2_never_stuck.**  In every reachable state of guarV2 with the base lottery
    complete and the distribution not, in the selection stage, not paused, a `distribute` call by
    the owner or a non-contract account (no payment) is ACCEPTED for every budget, whatever is
    saved (only `.none` or a `.guar` cursor can be); `us2_distLeft s ≤ |whitelist| + lastTicketId`;
    the call completes (`[0]`, `additional`, nothing saved) or — only with a finite budget — is
    interrupted (`[1]`, cursor saved) having STRICTLY decreased `us2_distLeft`; with an unlimited
    budget it completes; the new state is reachable, not paused, same timeline. -/
theorem distribute_v2_never_stuck (s : State) (r : Nat) (e : Env)
    (hs : Reach hash .guarV2 s r) (hsd : s.flags.selected = true)
    (hna : s.flags.additional = false) (hr : r ≤ e.round) (hsel : s.cfg.sel ≤ e.round)
    (hegld : e.egld = 0) (hesdt : e.esdts = []) (hp : s.paused = false)
    (hcaller : e.caller = s.owner ∨ e.callerIsContract = false) :
    (s.op = .none ∨ ∃ g, s.op = .additional (.guar g)) ∧
    us2_distLeft s ≤ s.whitelist.length + s.lastTicketId ∧
    ∃ s' o, step hash s e .distribute = .ok (s', o) ∧ Reach hash .guarV2 s' e.round ∧
      s'.paused = false ∧ s'.cfg = s.cfg ∧ s'.owner = s.owner ∧ s'.flags.selected = true ∧
      ((o.ret = [0] ∧ s'.flags.additional = true ∧ s'.op = .none) ∨
       (o.ret = [1] ∧ s'.flags.additional = false ∧ s'.op ≠ .none ∧
          us2_distLeft s' < us2_distLeft s ∧ e.budget ≠ none)) ∧
      (e.budget = none → o.ret = [0] ∧ s'.flags.additional = true ∧ s'.op = .none) := by
  obtain ⟨h1, h2, s', o, hst, hre, hsd', hout⟩ :=
    us2_dist_v2_never_stuck hash hs hsd hna hr hsel ⟨hegld, hesdt⟩ hp hcaller
  exact ⟨h1, h2, s', o, hst, hre, by rw [hout.paused]; exact hp, hout.cfg, hout.owner, hsd',
    hout.cases, hout.unlimited⟩

/-- any `us2_distLeft s + 1` successive `distribute` calls by eligible callers (arbitrary finite or
    unlimited budgets, non-decreasing rounds from the selection round on) set `additional`;
    calls after completion are rejected and change nothing -/
theorem distribute_v2_completes (s : State) (r : Nat) (hs : Reach hash .guarV2 s r)
    (hsd : s.flags.selected = true) (hsel : s.cfg.sel ≤ r) (hp : s.paused = false)
    (es : List Env) (hr : RoundsFrom r (us_hist .distribute es))
    (hq : ∀ e ∈ es, us_NoPay e ∧ (e.caller = s.owner ∨ e.callerIsContract = false))
    (hlen : us2_distLeft s + 1 ≤ es.length) :
    (run hash s (us_hist .distribute es)).flags.additional = true :=
  us2_dist_v2_completes hash hs hsd hsel hp es hr hq hlen

/-- the bound of the property text: `|whitelist| + lastTicketId + 1` calls always suffice -/
theorem distribute_v2_completes_within (s : State) (r : Nat) (hs : Reach hash .guarV2 s r)
    (hsd : s.flags.selected = true) (hsel : s.cfg.sel ≤ r) (hp : s.paused = false)
    (es : List Env) (hr : RoundsFrom r (us_hist .distribute es))
    (hq : ∀ e ∈ es, us_NoPay e ∧ (e.caller = s.owner ∨ e.callerIsContract = false))
    (hlen : s.whitelist.length + s.lastTicketId + 1 ≤ es.length) :
    (run hash s (us_hist .distribute es)).flags.additional = true :=
  us2_dist_v2_completes_within hash hs hsd hsel hp es hr hq hlen

/-! ## 2. `distribute` of the v1 family (`migration`, `lockedGuar`, `guarV1`) -/

/-- **(a) acceptance.**  In every reachable state with the lottery complete and the distribution
    not, from the selection round on — paused or not, any caller, any budget, whatever is saved
    (only `.none` or a `.guar` cursor can be) — a `distribute` call without payment is accepted IF
    AND ONLY IF the leftover loop does not exhaust its fuel in this call; if it does, the call
    fails with "out of gas" (and the state is unchanged, as for every rejected call). -/
theorem distribute_v1_accepted_iff (s : State) (r : Nat) (e : Env) (hs : us2_V1Cov hash s r)
    (hsd : s.flags.selected = true) (hna : s.flags.additional = false) (hr : r ≤ e.round)
    (hsel : s.cfg.sel ≤ e.round) (hegld : e.egld = 0) (hesdt : e.esdts = []) :
    (s.op = .none ∨ ∃ g, s.op = .additional (.guar g)) ∧
    ((∃ s' o, step hash s e .distribute = .ok (s', o)) ↔ ¬ us2_Spins hash s e) ∧
    (us2_Spins hash s e → step hash s e .distribute = .error (.vm "out of gas")) := by
  obtain ⟨h1, hA, hB⟩ := us2_dist_v1_never_stuck hash hs hsd hna hr hsel ⟨hegld, hesdt⟩
  refine ⟨h1, ⟨fun ⟨s', o, hst⟩ hsp => ?_, fun hns => ?_⟩, fun hsp => (hA hsp).1⟩
  · rw [(hA hsp).1] at hst; cases hst
  · obtain ⟨s', o, hst, _⟩ := hB hns
    exact ⟨s', o, hst⟩

/-- **what the spinning condition says about the draws**: the call reached the leftover loop, and of
    the 200000 iterations it made there at least `200000 - (lastTicketId + 1 - (nrWinning + offset))`
    drew an already winning ticket (every other iteration consumes one of the
    `lastTicketId + 1 - (nrWinning + offset)` positions left) -/
theorem distribute_v1_spin_means_redraws (s : State) (r : Nat) (e : Env)
    (hs : us2_V1Cov hash s r) (hsd : s.flags.selected = true) (hna : s.flags.additional = false)
    (hr : r ≤ e.round) (hsel : s.cfg.sel ≤ e.round) (hegld : e.egld = 0) (hesdt : e.esdts = [])
    (hsp : us2_Spins hash s e) :
    ∃ z0 b1, us2_leftStart s e = some (z0, b1) ∧
      v1LeftoverFuel ≤ s.lastTicketId + 1 - (s.nrWinning + us2_distOff s) +
        us2_redraws hash false s.nrWinning s.lastTicketId v1LeftoverFuel z0 :=
  ((us2_dist_v1_never_stuck hash hs hsd hna hr hsel ⟨hegld, hesdt⟩).2.1 hsp).2

/-- **the outcomes of an accepted call** (`us2_V1Out`): interrupted in the guaranteed-ticket phase,
    interrupted in the leftover phase, or completed; the new state is reachable; `paused`, the
    timeline, the owner, `selected`, `lastTicketId` are unchanged -/
theorem distribute_v1_outcome (s : State) (r : Nat) (e : Env) (hs : us2_V1Cov hash s r)
    (hsd : s.flags.selected = true) (hna : s.flags.additional = false) (hr : r ≤ e.round)
    (hsel : s.cfg.sel ≤ e.round) (hegld : e.egld = 0) (hesdt : e.esdts = [])
    (hns : ¬ us2_Spins hash s e) :
    ∃ s' o, step hash s e .distribute = .ok (s', o) ∧ us2_V1Cov hash s' e.round ∧
      us2_V1Out hash s e s' o :=
  (us2_dist_v1_never_stuck hash hs hsd hna hr hsel ⟨hegld, hesdt⟩).2.2 hns

/-- **(b) the guaranteed-ticket phase always makes progress**: while the stored whitelist is not
    empty, EVERY accepted call that does not complete the step strictly shortens it (and never
    moves the leftover offset backwards) -/
theorem distribute_v1_guaranteed_phase_progress (s : State) (r : Nat) (e : Env) (s' : State)
    (o : Out) (hs : us2_V1Cov hash s r) (hsd : s.flags.selected = true)
    (hna : s.flags.additional = false) (hwl : s.whitelist ≠ [])
    (hst : step hash s e .distribute = .ok (s', o)) (hret : o.ret = [1]) :
    s'.whitelist.length < s.whitelist.length ∧ s'.flags.additional = false ∧ s'.op ≠ .none := by
  obtain ⟨_, _, _, _, _, hc⟩ := us2_dist_v1_shape hash (hs.distSt hsd hna) hst
  have hpos : 0 < s.whitelist.length := List.length_pos_iff.mpr hwl
  rcases hc with ⟨_, hf, hop, _, hlt, _⟩ | ⟨_, hf, hop, _, hnil, _⟩ | ⟨h0, _⟩
  · exact ⟨hlt, by rw [hf]; exact hna, hop⟩
  · exact ⟨by rw [hnil]; exact hpos, by rw [hf]; exact hna, hop⟩
  · rw [hret] at h0; cases h0

/-- **(c) the leftover phase makes progress on every draw that hits a non-winning ticket**: once
    the whitelist is empty, an accepted call that does not complete the step performed `k + 1`
    iterations of the leftover loop (`k` = the call's budget left for that loop) and moved the
    saved offset forward by exactly the number of them that did NOT draw an already winning
    ticket; the offset never exceeds `lastTicketId + 1 - nrWinning` (so it can advance only
    `lastTicketId + 1 - (nrWinning + offset)` more times) -/
theorem distribute_v1_leftover_phase_progress (s : State) (r : Nat) (e : Env) (s' : State)
    (o : Out) (hs : us2_V1Cov hash s r) (hsd : s.flags.selected = true)
    (hna : s.flags.additional = false) (hwl : s.whitelist = [])
    (hst : step hash s e .distribute = .ok (s', o)) (hret : o.ret = [1]) :
    s'.whitelist = [] ∧ s'.flags.additional = false ∧ s'.op ≠ .none ∧
    ∃ z0 k, us2_leftStart s e = some (z0, some k) ∧
      us2_distOff s' + us2_redraws hash false s.nrWinning s.lastTicketId (k + 1) z0
        = us2_distOff s + (k + 1) := by
  obtain ⟨_, _, _, _, _, hc⟩ := us2_dist_v1_shape hash (hs.distSt hsd hna) hst
  rcases hc with ⟨_, _, _, _, hlt, _⟩ | ⟨_, hf, hop, _, hnil, _, hz⟩ | ⟨h0, _⟩
  · rw [hwl] at hlt; simp at hlt
  · exact ⟨hnil, by rw [hf]; exact hna, hop, hz⟩
  · rw [hret] at h0; cases h0

/-- **completion, PARTIAL (hypothesis on the draws explicit)**: if, in the call's own leftover
    loop, fewer than `200000 - (lastTicketId + 1 - (nrWinning + offset))` iterations draw an
    already winning ticket, ONE call with an unlimited budget is accepted and completes the step.
    (FULL statement, false for adversarial draws — `C03final.C03_leftover_v1_may_spin`:
     the same without `hdraws`.) -/
theorem distribute_v1_completes_partial (s : State) (r : Nat) (e : Env) (hs : us2_V1Cov hash s r)
    (hsd : s.flags.selected = true) (hna : s.flags.additional = false) (hr : r ≤ e.round)
    (hsel : s.cfg.sel ≤ e.round) (hegld : e.egld = 0) (hesdt : e.esdts = [])
    (hb : e.budget = none)
    (hdraws : ∀ z0 b1, us2_leftStart s e = some (z0, b1) →
      s.lastTicketId + 1 - (s.nrWinning + us2_distOff s) +
        us2_redraws hash false s.nrWinning s.lastTicketId v1LeftoverFuel z0 < v1LeftoverFuel) :
    ∃ s' o, step hash s e .distribute = .ok (s', o) ∧ us2_V1Cov hash s' e.round ∧
      o.ret = [0] ∧ s'.flags.additional = true ∧ s'.flags.selected = true ∧ s'.op = .none :=
  us2_dist_v1_completes_one hash hs hsd hna hr hsel ⟨hegld, hesdt⟩ hb hdraws

/-- **completion by finitely many calls, PARTIAL (hypothesis on the draws explicit)**:
    `us2_DrawsOK hash e` says of the draws of a call in environment `e` — in whatever reachable
    state it is made — that the leftover loop does not spin and that, when the call is
    interrupted in the leftover loop after `k + 1` iterations, at least one of them did not
    re-draw an already winning ticket ("a non-winning ticket is hit within the call's tries").
    Under it every interrupted call strictly decreases `us2_distLeft`, so any
    `us2_distLeft s + 1 ≤ |whitelist| + lastTicketId + 1` calls complete the step.
    (`us2_DrawsOK_zero`: the hypothesis holds, for instance, of every call with budget 0 whose
    scripted draw is `0`.) -/
theorem distribute_v1_completes_partial_calls (s : State) (r : Nat) (hs : us2_V1Cov hash s r)
    (hsd : s.flags.selected = true) (hsel : s.cfg.sel ≤ r) (es : List Env)
    (hr : RoundsFrom r (us_hist .distribute es))
    (hq : ∀ e ∈ es, us_NoPay e ∧ us2_DrawsOK hash e)
    (hlen : us2_distLeft s + 1 ≤ es.length) :
    (run hash s (us_hist .distribute es)).flags.additional = true :=
  us2_dist_v1_completes_calls hash hs hsd hsel es hr hq hlen

/-! ## 3. `secondary` of nftGuar -/

/-- **(a) acceptance while the guaranteed sub-step is in progress** (no NFT generator saved):
    accepted IFF the leftover loop does not exhaust its fuel in this call — paused or not, any
    caller, any budget; the NFT draw started in the same call can never fail -/
theorem secondary_accepted_iff (s : State) (r : Nat) (e : Env) (hs : ng_Reach hash s r)
    (hsd : s.flags.selected = true) (hna : s.flags.additional = false)
    (hopn : ∀ rg, s.op ≠ .additional (.nft rg)) (hr : r ≤ e.round) (hsel : s.cfg.sel ≤ e.round)
    (hegld : e.egld = 0) (hesdt : e.esdts = []) :
    (s.op = .none ∨ ∃ g, s.op = .additional (.guar g)) ∧
    ((∃ s' o, step hash s e .secondary = .ok (s', o)) ↔ ¬ us2_Spins hash s e) ∧
    (us2_Spins hash s e → step hash s e .secondary = .error (.vm "out of gas") ∧
      ∃ z0 b1, us2_leftStart s e = some (z0, b1) ∧
        v1LeftoverFuel ≤ s.lastTicketId + 1 - (s.nrWinning + us2_distOff s) +
          us2_redraws hash false s.nrWinning s.lastTicketId v1LeftoverFuel z0) := by
  obtain ⟨h1, hA, hB⟩ := us2_sec_guar_never_stuck hash hs hsd hna hopn hr hsel ⟨hegld, hesdt⟩
  refine ⟨h1, ⟨fun ⟨s', o, hst⟩ hsp => ?_, fun hns => ?_⟩, hA⟩
  · rw [(hA hsp).1] at hst; cases hst
  · obtain ⟨s', o, hst, _⟩ := hB hns
    exact ⟨s', o, hst⟩

/-- **(b), (c) the outcomes of an accepted call** (`us2_SecOut`): interrupted in the
    guaranteed-ticket phase (whitelist strictly shorter, offset unchanged), interrupted in the
    leftover phase (whitelist empty; offset advanced by the number of iterations that did not
    re-draw a winning ticket), guaranteed sub-step completed and NFT draw interrupted (the
    draw's generator saved), or step completed -/
theorem secondary_outcome (s : State) (r : Nat) (e : Env) (hs : ng_Reach hash s r)
    (hsd : s.flags.selected = true) (hna : s.flags.additional = false)
    (hopn : ∀ rg, s.op ≠ .additional (.nft rg)) (hr : r ≤ e.round) (hsel : s.cfg.sel ≤ e.round)
    (hegld : e.egld = 0) (hesdt : e.esdts = []) (hns : ¬ us2_Spins hash s e) :
    ∃ s' o, step hash s e .secondary = .ok (s', o) ∧ ng_Reach hash s' e.round ∧
      us2_SecOut hash s e s' o :=
  (us2_sec_guar_never_stuck hash hs hsd hna hopn hr hsel ⟨hegld, hesdt⟩).2.2 hns

/-- **(d) the NFT phase of `secondary` is never stuck**: once the guaranteed sub-step has
    completed (the generator of the NFT draw is saved) — which implies `selected ∧ ¬additional` —
    a `secondary` call without payment is accepted from the selection round on, paused or not,
    any caller, any budget; it completes the step or strictly decreases
    `us_nftLeft s = min |payers| (availNfts - |nftWinners|) ≤ availNfts`; an interrupted call
    saves the draw's generator again -/
theorem secondary_nft_phase_never_stuck (s : State) (r : Nat) (e : Env) (rg : Rng)
    (hs : ng_Reach hash s r) (hop : s.op = .additional (.nft rg)) (hr : r ≤ e.round)
    (hsel : s.cfg.sel ≤ e.round) (hegld : e.egld = 0) (hesdt : e.esdts = []) :
    s.flags.selected = true ∧ s.flags.additional = false ∧ us_nftLeft s ≤ s.availNfts ∧
    ∃ s' o, step hash s e .secondary = .ok (s', o) ∧ ng_Reach hash s' e.round ∧
      s'.flags.selected = true ∧ s'.cfg = s.cfg ∧
      ((o.ret = [0] ∧ s'.flags.additional = true ∧ s'.op = .none) ∨
       (o.ret = [1] ∧ s'.flags.additional = false ∧ (∃ rg', s'.op = .additional (.nft rg')) ∧
          us_nftLeft s' < us_nftLeft s ∧ e.budget ≠ none)) ∧
      (e.budget = none → o.ret = [0] ∧ s'.flags.additional = true ∧ s'.op = .none) := by
  obtain ⟨h1, h2, h3, s', o, hst, hre, hsd', hop', hout⟩ :=
    us2_sec_nft_never_stuck hash hs hop hr hsel ⟨hegld, hesdt⟩
  refine ⟨h1, h2, h3, s', o, hst, hre, hsd', hout.cfg, ?_, hout.unlimited⟩
  rcases hout.cases with h | ⟨a, b, _, c, d⟩
  · exact Or.inl h
  · exact Or.inr ⟨a, b, hop' b, c, d⟩

/-- the bound: `us_nftLeft s + 1 ≤ availNfts + 1` calls complete the step from the NFT phase -/
theorem secondary_nft_phase_completes (s : State) (r : Nat) (rg : Rng) (hs : ng_Reach hash s r)
    (hop : s.op = .additional (.nft rg)) (hsel : s.cfg.sel ≤ r) (es : List Env)
    (hr : RoundsFrom r (us_hist .secondary es)) (hpay : ∀ e ∈ es, us_NoPay e)
    (hlen : us_nftLeft s + 1 ≤ es.length) :
    (run hash s (us_hist .secondary es)).flags.additional = true :=
  us2_sec_nft_completes hash hs hop hsel es hr hpay hlen

/-! ## 4. end to end: "cannot be left stuck" (base, locked, nft, guarV2)

  From ANY reachable state in the selection stage, not paused — whatever has been done before,
  whatever operation is saved — the explicit sequence `filter`, `select` (, the additional step)
  of owner calls with unlimited budgets leads to `AllDone`.  (A call whose step is already
  complete is rejected and changes nothing.) -/

theorem all_steps_complete_plain (v : Variant) (hv : Plain v) (s : State) (r : Nat)
    (hs : Reach hash v s r) (hsel : s.cfg.sel ≤ r) (hp : s.paused = false) (e1 e2 : Env)
    (hr : RoundsFrom r [(e1, .filter), (e2, .select)])
    (h1 : us2_OwnerCall s e1) (h2 : us2_OwnerCall s e2) :
    AllDone (run hash s [(e1, .filter), (e2, .select)]) ∧
    Reach hash v (run hash s [(e1, .filter), (e2, .select)]) e2.round := by
  obtain ⟨hO, hsd⟩ := us2_two_steps hash (Or.inl hv) hs hsel hp e1 e2 hr h1 h2
  obtain ⟨a0, ha⟩ := Reach_iff.mp hO.reach
  exact ⟨⟨hsd, (reach_WF hv ha).add⟩, hO.reach⟩

theorem all_steps_complete_nft (s : State) (r : Nat)
    (hs : Reach hash .nft s r) (hsel : s.cfg.sel ≤ r) (hp : s.paused = false) (e1 e2 e3 : Env)
    (hr : RoundsFrom r [(e1, .filter), (e2, .select), (e3, .selectNft)])
    (h1 : us2_OwnerCall s e1) (h2 : us2_OwnerCall s e2) (h3 : us2_OwnerCall s e3) :
    AllDone (run hash s [(e1, .filter), (e2, .select), (e3, .selectNft)]) ∧
    Reach hash .nft (run hash s [(e1, .filter), (e2, .select), (e3, .selectNft)]) e3.round := by
  obtain ⟨hr1, hr2, hr3, _⟩ := hr
  obtain ⟨hO, hsd⟩ := us2_two_steps hash (Or.inr (Or.inl rfl)) hs hsel hp e1 e2
    ⟨hr1, hr2, trivial⟩ h1 h2
  rw [us2_run_three, ← us2_run_two hash s (e1, .filter) (e2, .select)]
  obtain ⟨hO', hd⟩ := us2_stage_nft hash hO hsd hr3 h3
  exact ⟨hd, hO'.reach⟩

theorem all_steps_complete_guarV2 (s : State) (r : Nat)
    (hs : Reach hash .guarV2 s r) (hsel : s.cfg.sel ≤ r) (hp : s.paused = false) (e1 e2 e3 : Env)
    (hr : RoundsFrom r [(e1, .filter), (e2, .select), (e3, .distribute)])
    (h1 : us2_OwnerCall s e1) (h2 : us2_OwnerCall s e2) (h3 : us2_OwnerCall s e3) :
    AllDone (run hash s [(e1, .filter), (e2, .select), (e3, .distribute)]) ∧
    Reach hash .guarV2 (run hash s [(e1, .filter), (e2, .select), (e3, .distribute)]) e3.round := by
  obtain ⟨hr1, hr2, hr3, _⟩ := hr
  obtain ⟨hO, hsd⟩ := us2_two_steps hash (Or.inr (Or.inr rfl)) hs hsel hp e1 e2
    ⟨hr1, hr2, trivial⟩ h1 h2
  rw [us2_run_three, ← us2_run_two hash s (e1, .filter) (e2, .select)]
  obtain ⟨hO', hd⟩ := us2_stage_dist_v2 hash hO hsd hr3 h3
  exact ⟨hd, hO'.reach⟩

/-! ## non-vacuity -/

section ExV2
open LP.VV LP.Props.C04unstuck

/-- `x7` (guarV2, lottery complete, nothing saved, reachable: `C04unstuck.x7_reach`): the
    hypotheses of `distribute_v2_never_stuck`; the measure is 3 = 1 whitelist entry + 2 positions;
    a call with budget 0 is interrupted and leaves measure 2 -/
example : Reach id .guarV2 x7 11 ∧ x7.flags.selected = true ∧ x7.flags.additional = false ∧
    x7.paused = false ∧ x7.cfg.sel ≤ 12 ∧ us2_distLeft x7 = 3 ∧
    (match step id x7 { caller := 9, round := 12, budget := some 0 } .distribute with
     | .ok (s', o) => some (o.ret, us2_distLeft s')
     | .error _ => none) = some ([1], 2) :=
  ⟨x7_reach, rfl, rfl, rfl, by decide, by decide, by decide⟩

/-- `all_steps_complete_guarV2` from `x5` (guarV2, nothing done yet), at the selection round -/
example : AllDone (run id x5 [({ caller := 1, round := 10 }, .filter),
    ({ caller := 1, round := 11 }, .select), ({ caller := 1, round := 12 }, .distribute)]) :=
  (all_steps_complete_guarV2 id x5 10 (.wait _ _ _ x5_reach (by decide)) (by decide) rfl _ _ _
    ⟨by decide, by decide, by decide, trivial⟩ ⟨⟨rfl, rfl⟩, rfl, rfl⟩ ⟨⟨rfl, rfl⟩, rfl, rfl⟩
    ⟨⟨rfl, rfl⟩, rfl, rfl⟩).1

end ExV2

section ExPlain
open LP.Props.C01reach LP.Props.C04unstuck LP.Props.C14reach

/-- `all_steps_complete_plain` from `ex4` (base launchpad, tickets confirmed, nothing selected) -/
example : AllDone (run id ex4 [({ caller := 1, round := 10 }, .filter),
    ({ caller := 1, round := 11 }, .select)]) :=
  (all_steps_complete_plain id .base (Or.inl rfl) ex4 10 (.wait _ _ _ ex4_reach (by decide))
    (by decide) rfl _ _ ⟨by decide, by decide, trivial⟩ ⟨⟨rfl, rfl⟩, rfl, rfl⟩
    ⟨⟨rfl, rfl⟩, rfl, rfl⟩).1

/-- ... and from `ex5`, where an interrupted `filter` has left a cursor -/
example : ex5.op ≠ .none ∧ AllDone (run id ex5 [({ caller := 1, round := 10 }, .filter),
    ({ caller := 1, round := 11 }, .select)]) :=
  ⟨by decide, (all_steps_complete_plain id .base (Or.inl rfl) ex5 10 ex5_reach
    (by decide) rfl _ _ ⟨by decide, by decide, trivial⟩ ⟨⟨rfl, rfl⟩, rfl, rfl⟩
    ⟨⟨rfl, rfl⟩, rfl, rfl⟩).1⟩

/-- `all_steps_complete_nft` from `n7` (launchpad with NFT draw, before the filter) -/
example : AllDone (run id n7 [({ caller := 1, round := 10 }, .filter),
    ({ caller := 1, round := 11 }, .select), ({ caller := 1, round := 12 }, .selectNft)]) :=
  (all_steps_complete_nft id n7 10 (.wait _ _ _ n7_reach (by decide)) (by decide) rfl _ _ _
    ⟨by decide, by decide, by decide, trivial⟩ ⟨⟨rfl, rfl⟩, rfl, rfl⟩ ⟨⟨rfl, rfl⟩, rfl, rfl⟩
    ⟨⟨rfl, rfl⟩, rfl, rfl⟩).1

end ExPlain

section ExV1
open LP.Props.C01reachV1

/-- `ex8` (migration: lottery complete, 2 whitelist entries), `ex9` (after a `distribute` call with
    budget 0: 1 entry), `ex10` (after a call with budget 1: whitelist empty, leftover offset 2) -/
theorem ex8_cov : us2_V1Cov id ex8 12 := .v1 (Or.inl rfl) (v1_Reach_iff.mpr ⟨_, ex8_reach⟩)

theorem ex10_cov : us2_V1Cov id ex10 13 := .v1 (Or.inl rfl) (v1_Reach_iff.mpr ⟨_, ex10_reach⟩)

/-- hypotheses of section 2 on `ex8`; the call with budget 0 does not spin (it is accepted), is
    interrupted in the guaranteed-ticket phase and shortens the whitelist (b) -/
example : ex8.flags.selected = true ∧ ex8.flags.additional = false ∧ ex8.cfg.sel ≤ 13 ∧
    ex8.whitelist ≠ [] ∧ ¬ us2_Spins id ex8 { caller := 9, round := 13, budget := some 0 } ∧
    ex9.whitelist.length < ex8.whitelist.length := by
  refine ⟨rfl, rfl, by decide, by decide, ?_, by decide⟩
  obtain ⟨o, h⟩ := LP.Props.C14reach.step_stOf
    (x := step id ex8 { caller := 9, round := 13, budget := some 0 } .distribute) rfl ex8
  exact (distribute_v1_accepted_iff id ex8 12 _ ex8_cov rfl rfl (by decide) (by decide) rfl
    rfl).2.1.mp ⟨_, _, h⟩

/-- hypotheses of (c) on `ex10` (leftover phase: whitelist empty, distribution not complete, a
    `.guar` cursor with offset 2 saved); the unlimited call from `ex10` completes -/
example : ex10.flags.selected = true ∧ ex10.flags.additional = false ∧ ex10.whitelist = [] ∧
    us2_distOff ex10 = 2 ∧ ex11.flags.additional = true := ⟨rfl, rfl, rfl, by decide, rfl⟩

/-- `distribute_v1_completes_partial_calls` is not vacuous: seven one-iteration calls with the
    scripted draw `0` from `ex8` (`us2_distLeft ex8 = 6`) satisfy its hypotheses -/
def exZero : Env := { caller := 9, round := 13, budget := some 0, script := [0] }

example : us2_distLeft ex8 = 6 ∧
    (run id ex8 (us_hist .distribute (List.replicate 7 exZero))).flags.additional = true := by
  refine ⟨by decide, distribute_v1_completes_partial_calls id ex8 12 ex8_cov rfl (by decide)
    (List.replicate 7 exZero) ?_ ?_ (by decide)⟩
  · exact ⟨by decide, by decide, by decide, by decide, by decide, by decide, by decide, trivial⟩
  · intro e he
    rw [List.eq_of_mem_replicate he]
    exact ⟨⟨rfl, rfl⟩, us2_DrawsOK_zero id exZero rfl rfl⟩

end ExV1

section ExG1
open LP.Props.C01reachG1

theorem w7_reach : g1_ReachA id wArgs w7 11 :=
  g1_callOk { caller := 9, round := 11 } .select
    (g1_callOk { caller := 9, round := 10 } .filter w5_reach
      (by decide) (Or.inl rfl) trivial rfl)
    (by decide) (Or.inl rfl) trivial rfl

/-- guarV1: `w7` (lottery complete, distribution not started) satisfies the hypotheses -/
example : us2_V1Cov id w7 11 ∧ w7.flags.selected = true ∧ w7.flags.additional = false ∧
    w7.cfg.sel ≤ 12 ∧ w7.whitelist ≠ [] :=
  ⟨.guarV1 (g1_Reach_iff.mpr ⟨_, w7_reach⟩), rfl, rfl, by decide, by decide⟩

end ExG1

section ExNG
open LP.Props.C14reachG

/-- nftGuar: `g11` (lottery complete, nothing saved: guaranteed phase) and `g14` (the generator of
    the NFT draw saved: NFT phase) satisfy the hypotheses of section 3 -/
example : ng_Reach id g11 12 ∧ g11.flags.selected = true ∧ g11.flags.additional = false ∧
    (∀ rg, g11.op ≠ .additional (.nft rg)) ∧ g11.cfg.sel ≤ 13 ∧ g11.whitelist.length = 2 :=
  ⟨ng_Reach_iff.mpr ⟨_, g11_reach⟩, rfl, rfl,
    fun rg h => (by
      have h0 : g11.op = .none := by decide +kernel
      rw [h0] at h; cases h), by decide, (by decide +kernel)⟩

example : ng_Reach id g14 14 ∧ (∃ rg, g14.op = .additional (.nft rg)) ∧ g14.cfg.sel ≤ 14 ∧
    g15.flags.additional = true :=
  ⟨ng_Reach_iff.mpr ⟨_, g14_reach⟩, ⟨_, rfl⟩, by decide, (by decide +kernel)⟩

end ExNG

end LP.Props.C04unstuck2

#print axioms LP.Props.C04unstuck2.distribute_v2_never_stuck
#print axioms LP.Props.C04unstuck2.distribute_v2_completes
#print axioms LP.Props.C04unstuck2.distribute_v2_completes_within
#print axioms LP.Props.C04unstuck2.distribute_v1_accepted_iff
#print axioms LP.Props.C04unstuck2.distribute_v1_spin_means_redraws
#print axioms LP.Props.C04unstuck2.distribute_v1_outcome
#print axioms LP.Props.C04unstuck2.distribute_v1_guaranteed_phase_progress
#print axioms LP.Props.C04unstuck2.distribute_v1_leftover_phase_progress
#print axioms LP.Props.C04unstuck2.distribute_v1_completes_partial
#print axioms LP.Props.C04unstuck2.distribute_v1_completes_partial_calls
#print axioms LP.Props.C04unstuck2.secondary_accepted_iff
#print axioms LP.Props.C04unstuck2.secondary_outcome
#print axioms LP.Props.C04unstuck2.secondary_nft_phase_never_stuck
#print axioms LP.Props.C04unstuck2.secondary_nft_phase_completes
#print axioms LP.Props.C04unstuck2.all_steps_complete_plain
#print axioms LP.Props.C04unstuck2.all_steps_complete_nft
#print axioms LP.Props.C04unstuck2.all_steps_complete_guarV2
#print axioms LP.Props.C04unstuck2.ex8_cov
#print axioms LP.Props.C04unstuck2.ex10_cov
#print axioms LP.Props.C04unstuck2.w7_reach
