import LP.Proofs.ZeroAllocG1
import LP.Props.C18reach
/-
  C01 / C02 / C03 / C11 / C12 headline theorems of `Variant.guarV1` (launchpad-guaranteed-tickets)
  with ZERO-SIZE allocation entries allowed.

  `g1_ReachZ hash s r` (LP/Proofs/ZeroAllocG1g.lean) is `g1_Reach hash s r` with the premise
  `v1_CallOK c` (every `addTicketsV1` entry has `1 ≤ staking + energy`) weakened to `zg_CallOK c`:
  zero-size entries `(a, 0, 0, false)` are ALLOWED; only zero-size entries carrying the migration
  flag, `(a, 0, 0, true)`, remain excluded (see PARTIAL below).  `g1_ReachFull` has no premise.

  What the model does with an entry `(a, 0, 0, false)` (minConfirmed > 0, so no staking guarantee):
    * `a` gets the EMPTY range `[last+1, last]`, a zero-size batch at `last+1` (overwritten by the
      next allocation, or dangling above `lastTicketId`) and the guarantee record
      `{a := 0, b := 0, c := 0, d := 0}`; it is not whitelisted, nothing is reserved;
    * its allocation view and every `confirm` panic (`empty_range_cannot_confirm` of C01zero): it
      never confirms;
    * `blacklist [a]` is accepted and only sets the flag (the hook finds `a` not whitelisted);
      `unblacklist [a]` is accepted and only clears the flag (the hook skips `a`: live record);
    * the filter never visits it, the distribution never reads it (not whitelisted);
    * in the claim phase its first `claim` is accepted, sets `claimed`, wipes the stale range and
      the batch slot at the stale first id, pays nothing and records NO entitlement
      (`userTotal = 0`); every later `claim` of `a` is accepted and changes NOTHING
      (`empty_range_claim_guarV1`; `zg_claim_noop`, `zg_sim_claim` in LP/Proofs/ZeroAllocG1*.lean).

  Method: SIMULATION (`simulation_guarV1`, from `zg_sim`): every `g1_ReachZ` state `s` is
  `ZGSim`-related to a `g1_Reach` state `z` of the original development: `z` is `s` with the empty
  ranges removed, the zero-size batches removed (until the filter has completed), the guarantee
  records of the empty-range addresses removed, `blacklist`/`claimed` below those of `s`, every
  other field (balances, flags, `nrWinning`, `totalGuaranteed`, whitelist, `blUts`, `status`,
  vesting records, schedule …) EQUAL.  `addTicketsV1 l` is matched by `addTicketsV1 (l without
  zero-size entries)`, `blacklist l` / `unblacklist l` by the same call without the empty-range
  addresses, a claim by an empty-range address (first or repeat) by NO step, every other call
  (including interrupted `filter`, `select`, `distribute`) by itself, with the same output.

  PARTIAL (what is missing): zero-size entries WITH the migration flag, `(a, 0, 0, true)`.  Such an
  entry whitelists `a`, reserves one ticket (`totalGuaranteed + 1`, `nrWinning − 1`), blacklisting
  `a` returns the ticket, un-blacklisting reserves it again, and at the distribution the
  guarantee of `a` (empty range) falls into the leftover and is RE-DRAWN among the other tickets
  (concrete state below: `m1`).  No erasure can simulate this in the original development, whose
  invariant says "whitelisted ⇒ holds a non-empty range" (`migrated_zero_not_simulable`): the
  extra winner is drawn by a different loop at a different time.  A proof for these entries needs
  either the invariants of LP/Proofs/ReachV1*.lean / ReachG1*.lean re-proved with empty ranges, or
  a "ghost ticket" simulation (`(a,0,0,true)` ↦ `(a,0,1,true)` never confirmed: same reserve
  arithmetic, `calcV1` sends the guarantee to the leftover in both, but ticket ids are shifted
  until the filter completes).  Not done here.
  Also not transferred: "claims never starve" — the original development has no such theorem for
  guarV1 to transfer (the coverage inequalities it would rest on ARE transferred below).
-/
namespace LP.Props.C01zeroG1
open LP LP.FY LP.Props.C01reach LP.Props.C01reachG1

/-- **SIMULATION** -/
theorem simulation_guarV1 (hash : List Nat → List Nat) (s : State) (r : Nat)
    (h : g1_ReachZ hash s r) : ∃ z, g1_Reach hash z r ∧ ZGSim s z :=
  zg_sim_reach h

/-- the original reachable states are among the new ones -/
theorem reach_is_reachZ_guarV1 (hash : List Nat → List Nat) (s : State) (r : Nat)
    (h : g1_Reach hash s r) : g1_ReachZ hash s r := h.toZ

/-! ### 1. ticket-payment solvency -/

/-- **C01 for launchpad-guaranteed-tickets, zero-size entries allowed** (same statement as
    `C01_solvent_guarV1`) -/
theorem C01_solvent_guarV1_Z (hash : List Nat → List Nat) (s : State) (r : Nat)
    (h : g1_ReachZ hash s r) :
    ∃ L : List Nat, Covers s L ∧ (¬ AllDone s → PayEqPre s L) ∧ (AllDone s → PayEqPost s L) := by
  obtain ⟨a0, h⟩ := g1_ReachZ_iff.mp h
  obtain ⟨z, hz, hsim, _⟩ := zg_sim h
  obtain ⟨L, h1, h2, h3⟩ := C01_solvent_guarV1 hash z r (g1_Reach_iff.mpr ⟨a0, hz⟩)
  have hrd : AllDone z → ∀ a, refundDue s a = refundDue z a := fun hd a =>
    hsim.refundDue_eq (v1_phase_D (g1_reach_WF hz).phase hd.2).rngNone a
  obtain ⟨w, rfl⟩ := hsim.shape'
  refine ⟨L, ⟨h1.nodup, h1.supp⟩, h2, fun hd => ?_⟩
  have := h3 hd
  unfold PayEqPost at this ⊢
  rw [sumOver_congr (fun a _ => hrd hd a)]
  exact this

/-- after completion: the winners still held add up to `nrWinning`; nobody holds more winning than
    confirmed tickets; every range — empty or not — has exactly `confirmed` tickets, and the
    holders of NON-EMPTY ranges are in the covering list -/
theorem three_counts_guarV1_Z (hash : List Nat → List Nat) (s : State) (r : Nat)
    (h : g1_ReachZ hash s r) (hd : AllDone s) :
    ∃ L : List Nat, Covers s L ∧ PayEqPost s L ∧ sumOver (winCountOf s) L = s.nrWinning ∧
      (∀ a, winCountOf s a ≤ s.confirmed a) ∧
      (∀ a rg, s.range a = some rg → rangeLen rg = s.confirmed a ∧ (rg.first ≤ rg.last → a ∈ L)) := by
  obtain ⟨a0, h⟩ := g1_ReachZ_iff.mp h
  obtain ⟨z, hz, hsim, _⟩ := zg_sim h
  have hfl : z.flags = s.flags := hsim.fields.2.1
  have hdz : AllDone z := by unfold AllDone; rw [hfl]; exact hd
  obtain ⟨L, h1, h2, h3, h4, h5⟩ := three_counts_guarV1 hash z r (g1_Reach_iff.mpr ⟨a0, hz⟩) hdz
  have hnone := (v1_phase_D (g1_reach_WF hz).phase hdz.2).rngNone
  have hrd : ∀ a, refundDue s a = refundDue z a := fun a => hsim.refundDue_eq hnone a
  have hwc : ∀ a, winCountOf s a = winCountOf z a := fun a => hsim.winCountOf_eq a
  have hrange := hsim.range
  obtain ⟨w, rfl⟩ := hsim.shape'
  refine ⟨L, ⟨h1.nodup, h1.supp⟩, ?_, ?_, ?_, ?_⟩
  · unfold PayEqPost at h2 ⊢
    rw [sumOver_congr (fun a _ => hrd a)]
    exact h2
  · rw [sumOver_congr (fun a _ => hwc a)]; exact h3
  · intro a; rw [hwc a]; exact h4 a
  · intro a rg hr
    by_cases hne : rg.first ≤ rg.last
    · have hzr : (zg_w s w).range a = some rg := by rw [hrange]; exact z_eraseR_of_ne hr hne
      obtain ⟨k1, k2⟩ := h5 a rg hzr
      exact ⟨k2, fun _ => k1⟩
    · have hzr : (zg_w s w).range a = none := by rw [hrange]; exact z_eraseR_of_empty hr hne
      have hc : s.confirmed a = 0 := hnone a hzr
      refine ⟨?_, fun hh => absurd hh hne⟩
      rw [hc]; unfold rangeLen; omega

/-- the refund of ANY address holding a range (empty or not) is covered, together with the owner's
    proceeds -/
theorem claim_refund_covered_guarV1_Z (hash : List Nat → List Nat) (s : State) (r : Nat)
    (h : g1_ReachZ hash s r) (hd : AllDone s) (a : Nat) (rg : Range) (hr : s.range a = some rg) :
    s.claimablePayment + s.price * (s.confirmed a - winCountOf s a) ≤ s.bal s.payTok 0 := by
  obtain ⟨L, _, hpost, _, _, hrg⟩ := three_counts_guarV1_Z hash s r h hd
  by_cases hne : rg.first ≤ rg.last
  · have haL := (hrg a rg hr).2 hne
    have hle := rb_le_sumOver (refundDue s) L a haL
    have hdue : refundDue s a = s.price * (s.confirmed a - winCountOf s a) := by
      simp only [refundDue, hr]
    unfold PayEqPost at hpost
    omega
  · have hc : s.confirmed a = 0 := by
      have := (hrg a rg hr).1
      unfold rangeLen at this; omega
    rw [hc]
    unfold PayEqPost at hpost
    simp only [Nat.zero_sub, Nat.mul_zero, Nat.add_zero]
    omega

/-! ### 2. reserve, final winners, guarantees -/

/-- the reserve until the filter completes, and the bound afterwards -/
theorem reserve_guarV1_Z (hash : List Nat → List Nat) (a0 : InitArgs)
    (s : State) (r : Nat) (h : g1_ReachZA hash a0 s r) :
    (s.flags.filtered = false → s.nrWinning + s.totalGuaranteed = a0.nrWinning) ∧
    (s.flags.additional = false → s.nrWinning + s.totalGuaranteed ≤ a0.nrWinning) := by
  obtain ⟨z, hz, hsim, _⟩ := zg_sim h
  have := reserve_guarV1 hash a0 z r hz
  obtain ⟨w, rfl⟩ := hsim.shape'
  exact this

/-- **final winner count, PARTIAL exactly as `final_winners_guarV1_partial`** (conditional on the
    `distribute` call having completed: termination of the v1 leftover loop is not a theorem) -/
theorem final_winners_guarV1_Z_partial (hash : List Nat → List Nat)
    (a0 : InitArgs) (s : State) (r : Nat) (h : g1_ReachZA hash a0 s r) (e : Env) (s' : State)
    (o : Out) (hr : r ≤ e.round) (hok : EnvOK e)
    (hs : step hash s e .distribute = .ok (s', o)) (hret : o.ret = [0]) :
    AllDone s' ∧
    countTrue s'.status s'.lastTicketId = s'.nrWinning ∧
    s'.nrWinning = min a0.nrWinning s'.lastTicketId ∧
    s'.claimablePayment = s'.price * s'.nrWinning ∧
    (∀ t, s'.status t = true → 1 ≤ t ∧ t ≤ s'.lastTicketId) ∧
    (∀ t, s.status t = true → s'.status t = true) := by
  obtain ⟨z, hz, hsim, _⟩ := zg_sim h
  obtain ⟨z', _, hsim', _, hstep⟩ := zg_sim_distribute hz hsim hr hok hs
  obtain ⟨h1, h2, _, h4, h5, h6, h7⟩ := final_winners_guarV1_partial hash a0 z r hz e z' o hstep hret
  obtain ⟨w, rfl⟩ := hsim.shape'
  obtain ⟨w', rfl⟩ := hsim'.shape'
  exact ⟨h1, h2, h4, h5, h6, h7⟩

/-- **guarantees honoured**: when the distribution completes, every holder `u` of a guarantee
    record `st` — also the guarantee-free records of empty-range addresses — owns at least
    `min (qualified guarantee) (confirmed tickets)` winning tickets -/
theorem guarantee_honoured_guarV1_Z (hash : List Nat → List Nat)
    (a0 : InitArgs) (s : State) (r : Nat) (h : g1_ReachZA hash a0 s r) (e : Env) (s' : State)
    (o : Out) (hr : r ≤ e.round) (hok : EnvOK e)
    (hs : step hash s e .distribute = .ok (s', o)) (hret : o.ret = [0]) :
    (∀ u st, s'.uts u = some st →
      min (calcV1 st (s'.confirmed u) s'.minConfirmed).1 (s'.confirmed u) ≤ winCountOf s' u) ∧
    (∀ t, s'.status t = true → 1 ≤ t ∧ t ≤ s'.lastTicketId) := by
  obtain ⟨z, hz, hsim, _⟩ := zg_sim h
  obtain ⟨z', _, hsim', _, hstep⟩ := zg_sim_distribute hz hsim hr hok hs
  obtain ⟨h1, h2⟩ := guarantee_honoured_guarV1 hash a0 z r hz e z' o hstep hret
  have hwc : ∀ a, winCountOf s' a = winCountOf z' a := fun a => hsim'.winCountOf_eq a
  have hu := hsim'.uts
  obtain ⟨w', rfl⟩ := hsim'.shape'
  refine ⟨fun u st hst => ?_, h2⟩
  rcases hu u with h0 | ⟨_, st', h0, hc, hd⟩
  · rw [hwc u]
    exact h1 u st (by rw [← hst]; exact h0)
  · rw [hst] at h0
    injection h0 with h0
    subst h0
    rw [zg_calcV1_zero st _ _ hc hd]
    simp

/-! ### 3. launchpad tokens -/

/-- **`LpCover` in every state**: after the distribution the launchpad tokens held cover every
    outstanding winner; before, a deposit covers the base winners and the whole reserve -/
theorem lp_cover_guarV1_Z (hash : List Nat → List Nat) (s : State) (r : Nat)
    (h : g1_ReachZ hash s r) :
    (s.flags.additional = true → LP.Props.C02.LpCover s) ∧
    (s.flags.additional = false → s.deposited = true →
      s.perTicket * (s.nrWinning + s.totalGuaranteed) ≤ s.bal (.esdt s.lpTok) 0) := by
  obtain ⟨z, hz, hsim⟩ := zg_sim_reach h
  have := lp_cover_guarV1 hash z r hz
  obtain ⟨w, rfl⟩ := hsim.shape'
  exact this

/-- **the launchpad-token balance in closed form** (same statement as `lp_exact_guarV1`) -/
theorem lp_exact_guarV1_Z (hash : List Nat → List Nat) (s : State) (r : Nat)
    (h : g1_ReachZ hash s r) (hd : AllDone s) :
    ∃ L : List Nat, L.Nodup ∧ (∀ a, a ∉ L → s.userTotal a = 0 ∧ s.userClaimed a = 0) ∧
      s.bal (.esdt s.lpTok) 0 = ownSurplus s + s.perTicket * s.nrWinning
        + sumOver (fun a => s.userTotal a - s.userClaimed a) L := by
  obtain ⟨z, hz, hsim⟩ := zg_sim_reach h
  have hfl : z.flags = s.flags := hsim.fields.2.1
  have := lp_exact_guarV1 hash z r hz (by unfold AllDone; rw [hfl]; exact hd)
  obtain ⟨w, rfl⟩ := hsim.shape'
  exact this

/-- **every vested claim is covered** (same statement as `vested_claim_covered_guarV1`) -/
theorem vested_claim_covered_guarV1_Z (hash : List Nat → List Nat) (s : State) (r : Nat)
    (h : g1_ReachZ hash s r) (hd : AllDone s) (a : Nat) :
    ownSurplus s + s.perTicket * s.nrWinning + (s.userTotal a - s.userClaimed a)
      ≤ s.bal (.esdt s.lpTok) 0 := by
  obtain ⟨z, hz, hsim⟩ := zg_sim_reach h
  have hfl : z.flags = s.flags := hsim.fields.2.1
  have := vested_claim_covered_guarV1 hash z r hz (by unfold AllDone; rw [hfl]; exact hd) a
  obtain ⟨w, rfl⟩ := hsim.shape'
  exact this

/-- the launchpad tokens of the winning tickets of ANY address are there -/
theorem unsettled_winner_covered_guarV1_Z (hash : List Nat → List Nat) (s : State) (r : Nat)
    (h : g1_ReachZ hash s r) (hd : AllDone s) (a : Nat) :
    s.perTicket * winCountOf s a ≤ s.bal (.esdt s.lpTok) 0 ∧ winCountOf s a ≤ s.nrWinning := by
  have h1 := vested_claim_covered_guarV1_Z hash s r h hd a
  obtain ⟨L, hcov, _, hwin, hle, hrg⟩ := three_counts_guarV1_Z hash s r h hd
  have hw : winCountOf s a ≤ s.nrWinning := by
    by_cases hz : winCountOf s a = 0
    · omega
    · have hc : s.confirmed a ≠ 0 := by have := hle a; omega
      have := rb_le_sumOver (winCountOf s) L a (hcov.supp a hc)
      omega
  have h2 : s.perTicket * winCountOf s a ≤ s.perTicket * s.nrWinning := Nat.mul_le_mul_left _ hw
  exact ⟨by omega, hw⟩

/-- "not yet settled ⇒ no vesting record", and nobody is booked more than his entitlement -/
theorem unsettled_no_record_guarV1_Z (hash : List Nat → List Nat) (s : State) (r : Nat)
    (h : g1_ReachZ hash s r) : ∀ a, s.userClaimed a ≤ s.userTotal a := by
  obtain ⟨z, hz, hsim⟩ := zg_sim_reach h
  have := (unsettled_no_record_guarV1 hash z r hz).2
  obtain ⟨w, rfl⟩ := hsim.shape'
  exact this

/-! ### 4. what an address with an empty range can do at claim time -/

/-- its FIRST claim pays nothing, moves no balance and records no entitlement: only the caller's
    `claimed` flag, its stale range and the batch slot at the range's first id change -/
theorem empty_range_claim_guarV1 (hash : List Nat → List Nat) (s : State)
    (r : Nat) (h : g1_ReachZ hash s r) (e : Env) (s' : State) (o : Out) (rg : Range)
    (hr : r ≤ e.round) (hok : EnvOK e) (hcl : s.claimed e.caller = false)
    (hrg : s.range e.caller = some rg) (he : rg.last < rg.first)
    (hs : step hash s e .claim = .ok (s', o)) :
    s' = zg_w s ⟨upd s.range e.caller none, upd s.batch rg.first none, s.blacklist,
                 upd s.claimed e.caller true, s.uts⟩ ∧
    s'.bal = s.bal ∧ s'.nrWinning = s.nrWinning ∧ s'.userTotal = s.userTotal ∧
    s'.userClaimed = s.userClaimed := by
  obtain ⟨a0, h⟩ := g1_ReachZ_iff.mp h
  obtain ⟨z, hz, hsim, _⟩ := zg_sim h
  obtain ⟨z', _, _, _, hcase⟩ := zg_sim_claim hz hsim hr hok hs
  have key : s' = zg_w s ⟨upd s.range e.caller none, upd s.batch rg.first none, s.blacklist,
      upd s.claimed e.caller true, s.uts⟩ := by
    rcases hcase with hstep | ⟨_, hs' | ⟨rg', hrg', _, hs'⟩⟩
    · -- the erased state has no range for the caller and the caller is not settled there
      exfalso
      have hzn : z.range e.caller = none := by
        rw [hsim.range]; exact z_eraseR_of_empty hrg (by omega)
      have hzc : z.claimed e.caller = false := by
        cases hk : z.claimed e.caller with
        | false => rfl
        | true => rw [hsim.cl _ hk] at hcl; cases hcl
      have h0 := (LP.Props.C10.no_range_cannot_claim hash z e (z', o) hzn hstep).2
      rw [hzc] at h0; cases h0
    · -- `s' = s` is impossible: the flag is set
      exfalso
      have := (LP.Props.C09.step_claimed_exact hash s e .claim s' o hs).2 rfl
      rw [hs'] at this
      have h2 := congrFun this e.caller
      rw [hcl] at h2; simp at h2
    · rw [hrg] at hrg'
      injection hrg' with hrg'
      subst hrg'
      exact hs'
  exact ⟨key, by rw [key]; rfl, by rw [key]; rfl, by rw [key]; rfl, by rw [key]; rfl⟩

/-- a state with a zero-size entry: NOT a state of the original development -/
theorem empty_range_not_reach (hash : List Nat → List Nat) (s : State) (r : Nat) (a : Nat)
    (rg : Range) (hrg : s.range a = some rg) (he : rg.last < rg.first) : ¬ g1_Reach hash s r := by
  intro h
  have := LP.Props.C18reach.ranges_bounded hash s r (.guarV1 h) a rg hrg
  omega

/-- **no erasure simulates a MIGRATED zero-size entry**: a state whose whitelist contains an address
    with an empty range (before the filter starts) is `ZGSim`-related to NO state of the original
    development -/
theorem migrated_zero_not_simulable (hash : List Nat → List Nat) (s : State) (r : Nat) (a : Nat)
    (rg : Range) (hrg : s.range a = some rg) (he : rg.last < rg.first) (hw : a ∈ s.whitelist)
    (hns : s.flags.started = false) : ¬ ∃ z, g1_Reach hash z r ∧ ZGSim s z := by
  rintro ⟨z, hz, hsim⟩
  obtain ⟨a0, hz⟩ := g1_Reach_iff.mp hz
  obtain ⟨_, hfl, _, _, _, _, _, _, hwl, _⟩ := hsim.fields
  obtain ⟨_, _, q3, _⟩ := zg_phaseA_facts (g1_reach_WF hz) (by rw [hfl]; exact hns)
  have := q3 a (by rw [hwl]; exact hw)
  rw [hsim.range, z_eraseR_of_empty hrg (by omega)] at this
  cases this

/-! ### non-vacuity -/

theorem g1Z_callOk {hash : List Nat → List Nat} {a0 : InitArgs} {s : State} {r : Nat}
    (e : Env) (c : Call)
    (h : g1_ReachZA hash a0 s r) (hr : r ≤ e.round) (hok : EnvOK e) (hc : zg_CallOK c)
    (hs : isOk (step hash s e c) = true) :
    g1_ReachZA hash a0 (stOf (step hash s e c) s) e.round := by
  cases hx : step hash s e c with
  | error err => rw [hx] at hs; cases hs
  | ok q =>
    obtain ⟨s', o⟩ := q
    exact .call s r e c s' o h hr hok hc hx

/-- 7: staking guarantee, two tickets; 9: a ZERO-size entry; 8: two energy tickets; 5: a second
    zero-size entry (dangling batch) -/
def zAlloc : List (Nat × Nat × Nat × Bool) := [(7, 2, 0, false), (9, 0, 0, false), (8, 0, 2, false), (5, 0, 0, false)]

def y1 : State := stOf (step id w0 { caller := 1, round := 1 } (.addTicketsV1 zAlloc)) w0
def y2 : State := stOf (step id y1 { caller := 1, round := 1 } (.setSchedule1 16 2500 3 2500 10)) y1
def y3 : State := stOf (step id y2 { caller := 1, round := 2, esdts := [⟨.esdt 1, 0, 40⟩] } .deposit) y2
def y4 : State := stOf (step id y3 { caller := 7, round := 5, egld := 20 } (.confirm 2)) y3
def y5 : State := stOf (step id y4 { caller := 8, round := 6, egld := 10 } (.confirm 1)) y4
def y5b : State := stOf (step id y5 { caller := 1, round := 6 } (.blacklist [9, 5])) y5
def y5c : State := stOf (step id y5b { caller := 1, round := 7 } (.unblacklist [9])) y5b
def y6 : State := stOf (step id y5c { caller := 9, round := 10 } .filter) y5c
def y7 : State := stOf (step id y6 { caller := 9, round := 11 } .select) y6
def y8 : State := stOf (step id y7 { caller := 9, round := 12 } .distribute) y7
def y9 : State := stOf (step id y8 { caller := 9, round := 16 } .claim) y8
def y10 : State := stOf (step id y9 { caller := 9, round := 17 } .claim) y9
def y11 : State := stOf (step id y10 { caller := 7, round := 50 } .claim) y10

theorem y1_reachZ : g1_ReachZA id wArgs y1 1 :=
  g1Z_callOk { caller := 1, round := 1 } (.addTicketsV1 zAlloc) w0_reach.toZ (by decide) (Or.inl rfl)
    (by show ∀ q ∈ zAlloc, q.2.1 + q.2.2.1 = 0 → q.2.2.2 = false; decide) rfl

/-- the zero-size entries created empty ranges, records without guarantee, no reserve -/
example : y1.range 9 = some ⟨3, 2⟩ ∧ y1.range 8 = some ⟨3, 4⟩ ∧ y1.batch 3 = some ⟨8, 2⟩ ∧
    y1.range 5 = some ⟨5, 4⟩ ∧ y1.batch 5 = some ⟨5, 0⟩ ∧ y1.lastTicketId = 4 ∧
    y1.uts 9 = some { a := 0, b := 0, c := 0, d := 0 } ∧ y1.whitelist = [7] ∧
    y1.totalGuaranteed = 1 ∧ y1.nrWinning = 1 := by
  refine ⟨rfl, rfl, rfl, rfl, rfl, rfl, rfl, rfl, rfl, rfl⟩

/-- **`y1` is a `g1_ReachZ` state that is NOT a `g1_Reach` state** (of any deployment, any round) -/
theorem y1_not_reach (hash : List Nat → List Nat) (r : Nat) : ¬ g1_Reach hash y1 r :=
  empty_range_not_reach hash y1 r 9 ⟨3, 2⟩ rfl (by decide)

theorem y8_reachZ : g1_ReachZA id wArgs y8 12 :=
  g1Z_callOk { caller := 9, round := 12 } .distribute
    (g1Z_callOk { caller := 9, round := 11 } .select
      (g1Z_callOk { caller := 9, round := 10 } .filter
        (g1Z_callOk { caller := 1, round := 7 } (.unblacklist [9])
          (g1Z_callOk { caller := 1, round := 6 } (.blacklist [9, 5])
            (g1Z_callOk { caller := 8, round := 6, egld := 10 } (.confirm 1)
              (g1Z_callOk { caller := 7, round := 5, egld := 20 } (.confirm 2)
                (g1Z_callOk { caller := 1, round := 2, esdts := [⟨.esdt 1, 0, 40⟩] } .deposit
                  (g1Z_callOk { caller := 1, round := 1 } (.setSchedule1 16 2500 3 2500 10) y1_reachZ
                    (by decide) (Or.inl rfl) trivial rfl)
                  (by decide) (Or.inl rfl) trivial rfl)
                (by decide) (Or.inr rfl) trivial rfl)
              (by decide) (Or.inr rfl) trivial rfl)
            (by decide) (Or.inl rfl) trivial rfl)
          (by decide) (Or.inl rfl) trivial rfl)
        (by decide) (Or.inl rfl) trivial rfl)
      (by decide) (Or.inl rfl) trivial rfl)
    (by decide) (Or.inl rfl) trivial rfl

theorem y11_reachZ : g1_ReachZA id wArgs y11 50 :=
  g1Z_callOk { caller := 7, round := 50 } .claim
    (g1Z_callOk { caller := 9, round := 17 } .claim
      (g1Z_callOk { caller := 9, round := 16 } .claim y8_reachZ
        (by decide) (Or.inl rfl) trivial rfl)
      (by decide) (Or.inl rfl) trivial rfl)
    (by decide) (Or.inl rfl) trivial rfl

/-- blacklisting / un-blacklisting an empty-range address only moves its flag; the stale empty
    ranges survive the filter; 9's first claim sets the flag and pays nothing, its second claim
    changes nothing; 7 then receives its full entitlement -/
example : y5b.blacklist 9 = true ∧ y5b.whitelist = [7] ∧ y5b.totalGuaranteed = 1 ∧
    y5c.blacklist 9 = false ∧ y5c.blacklist 5 = true ∧ y5c.uts 9 = y1.uts 9 ∧
    y6.flags.filtered = true ∧ y6.range 9 = some ⟨3, 2⟩ ∧ y6.range 5 = some ⟨5, 4⟩ ∧
    AllDone y8 ∧ y8.nrWinning = 2 ∧
    y9.claimed 9 = true ∧ y9.range 9 = none ∧ y9.userTotal 9 = 0 ∧
    y9.bal (.esdt 1) 0 = y8.bal (.esdt 1) 0 ∧ y9.bal .egld 0 = y8.bal .egld 0 ∧
    y10.bal (.esdt 1) 0 = y9.bal (.esdt 1) 0 ∧ y10.claimed 9 = true ∧
    y11.userTotal 7 = 40 ∧ y11.userClaimed 7 = 40 := by
  refine ⟨rfl, rfl, rfl, rfl, rfl, rfl, rfl, rfl, rfl, ⟨rfl, rfl⟩, rfl, rfl, rfl, rfl, rfl, rfl, rfl,
    rfl, rfl, rfl⟩

/-- the theorems applied to the concrete history -/
example : ∃ L : List Nat, Covers y11 L ∧ PayEqPost y11 L :=
  let ⟨L, h1, _, h3⟩ := C01_solvent_guarV1_Z id y11 50 (g1_ReachZ_iff.mpr ⟨_, y11_reachZ⟩)
  ⟨L, h1, h3 ⟨rfl, rfl⟩⟩

example : y8.perTicket * (y8.nrWinning) ≤ y8.bal (.esdt y8.lpTok) 0 := by
  have := vested_claim_covered_guarV1_Z id y8 12 (g1_ReachZ_iff.mpr ⟨_, y8_reachZ⟩) ⟨rfl, rfl⟩ 7
  omega

/-- a MIGRATED zero-size entry (not covered): 6 is whitelisted with an empty range, one ticket is
    reserved; such a state is reachable without any premise, and no erasure simulates it -/
def m1 : State := stOf (step id w0 { caller := 1, round := 1 } (.addTicketsV1 [(6, 0, 0, true), (7, 2, 0, false)])) w0

theorem m1_reachFull : g1_ReachFull id m1 1 := by
  have h0 : g1_ReachFull id w0 0 := (g1_ReachZ_iff.mpr ⟨_, w0_reach.toZ⟩).toFull
  have hx : step id w0 { caller := 1, round := 1 } (.addTicketsV1 [(6, 0, 0, true), (7, 2, 0, false)])
      = .ok (m1, (match step id w0 { caller := 1, round := 1 } (.addTicketsV1 [(6, 0, 0, true), (7, 2, 0, false)]) with
                  | .ok q => q.2 | .error _ => {})) := by
    rfl
  exact .call w0 0 { caller := 1, round := 1 } _ m1 _ h0 (by decide) (Or.inl rfl) hx

example : m1.range 6 = some ⟨1, 0⟩ ∧ m1.whitelist = [6, 7] ∧ m1.totalGuaranteed = 2 ∧ m1.nrWinning = 0 := by
  refine ⟨rfl, rfl, rfl, rfl⟩

theorem m1_not_simulable (hash : List Nat → List Nat) (r : Nat) :
    ¬ ∃ z, g1_Reach hash z r ∧ ZGSim m1 z :=
  migrated_zero_not_simulable hash m1 r 6 ⟨1, 0⟩ rfl (by decide) (by decide) rfl

end LP.Props.C01zeroG1

#print axioms LP.Props.C01zeroG1.simulation_guarV1
#print axioms LP.Props.C01zeroG1.reach_is_reachZ_guarV1
#print axioms LP.Props.C01zeroG1.C01_solvent_guarV1_Z
#print axioms LP.Props.C01zeroG1.three_counts_guarV1_Z
#print axioms LP.Props.C01zeroG1.claim_refund_covered_guarV1_Z
#print axioms LP.Props.C01zeroG1.reserve_guarV1_Z
#print axioms LP.Props.C01zeroG1.final_winners_guarV1_Z_partial
#print axioms LP.Props.C01zeroG1.guarantee_honoured_guarV1_Z
#print axioms LP.Props.C01zeroG1.lp_cover_guarV1_Z
#print axioms LP.Props.C01zeroG1.lp_exact_guarV1_Z
#print axioms LP.Props.C01zeroG1.vested_claim_covered_guarV1_Z
#print axioms LP.Props.C01zeroG1.unsettled_winner_covered_guarV1_Z
#print axioms LP.Props.C01zeroG1.unsettled_no_record_guarV1_Z
#print axioms LP.Props.C01zeroG1.empty_range_claim_guarV1
#print axioms LP.Props.C01zeroG1.empty_range_not_reach
#print axioms LP.Props.C01zeroG1.migrated_zero_not_simulable
#print axioms LP.Props.C01zeroG1.g1Z_callOk
#print axioms LP.Props.C01zeroG1.y1_reachZ
#print axioms LP.Props.C01zeroG1.y1_not_reach
#print axioms LP.Props.C01zeroG1.y8_reachZ
#print axioms LP.Props.C01zeroG1.y11_reachZ
#print axioms LP.Props.C01zeroG1.m1_reachFull
#print axioms LP.Props.C01zeroG1.m1_not_simulable
