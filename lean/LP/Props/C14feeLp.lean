import LP.Proofs.ReachFLLp
import LP.Props.C14reachG
/-
  C14 / C02 — consequences of "the NFT fee token differs from the launchpad token" (repair 4830c00:
  `validCost lp c` ends with `req (c.tok != .esdt lp) …`, called by `init` and by `setNftCost`).

  1  THE INVARIANT.  `fl_fee_ne_lp_run`: after ANY history of a variant with the NFT hook (`.nft`,
     `.nftGuar`) — accepted and rejected transactions, any call values, any arguments —
     `nftCost.tok ≠ .esdt lpTok`.  `fl_fee_ne_lp_reachV`, `fl_fee_ne_lp_reach_ng`,
     `fl_fee_ne_lp_reach`: the same on the two reachable-state inductives.  Hence
     `fl_not_FeeInLpToken_nft/_nftGuar`, `fl_ng_LpSep`.

  2  THE CASE SPLIT IS EXHAUSTIVE.  With the invariant, `FeeTokenSeparate s ↔ ¬ FeeInPayToken s`
     (`fl_separate_iff`).  The three token configurations of the fee (`fl_fee_config_cases`):
       (i)   token = payment token, nonce 0      — `FeeInPayToken s`   : configuration (b), the
             combined ledger `C14b_solvent_same` / `ng_solvent_same`;
       (ii)  token ≠ payment token               — `FeeTokenSeparate s`: configuration (a), the two
             separate ledgers `C14a_solvent_separate` + `C14a_fee_ledger` (resp. `ng_…`);
       (iii) token = payment token, nonce ≠ 0 (an SFT/NFT nonce of the same collection, only
             possible for an ESDT: `fl_case_iii_esdt_run/_reach`) — also `FeeTokenSeparate s`: the fees sit in the slot
             `(payTok, nonce)`, which is not the ticket-payment slot `(payTok, 0)`; configuration (a).
     `C14_fee_dichotomy_nft/_nftGuar` give the ledger in each case, `C14_fee_reconciles_nft/_nftGuar`
     are the hypothesis-free packages, `C14_contract_empty_nft` the end of the lifecycle.

  3  LAUNCHPAD TOKENS, NO HYPOTHESIS.  nftGuar: `lp_cover_nftGuar`, `lp_owed_cover_nftGuar`,
     `owner_surplus_nftGuar`, `lp_zero_at_end_nftGuar` (= the `C14reachG` theorems without
     `¬ FeeInLpToken s` / `ng_LpSep`).  nft: `C14reach` had NO launchpad-token statement; now
     `lp_cover_nft` (+ `lp_cover_nft_run` along any history), `owner_surplus_nft`,
     `lp_zero_at_end_nft` (invariant `fl_NftLp`, LP/Proofs/ReachFLLp.lean).
-/
namespace LP.FL
open LP LP.FY LP.Props.C09 LP.Props.C14 LP.Props.C01reach LP.Props.C14reach LP.Props.C14reachG
open LP.Props.C02 (LpCover)

/-! ### 1. the fee token is never the launchpad token -/

/-- **along ANY history** of a launchpad with the NFT hook (`v = .nft` or `.nftGuar`): whatever
    transactions were sent (accepted or rejected, any call value), the NFT fee token differs from
    the launchpad token -/
theorem fl_fee_ne_lp_run (hash : List Nat → List Nat) (v : Variant) (hv : v.hasNft = true)
    (a : InitArgs) (e : Env) (s0 : State) (hi : init v a e = .ok s0) (h : List (Env × Call)) :
    (run hash s0 h).nftCost.tok ≠ .esdt (run hash s0 h).lpTok :=
  fl_run_fee_ne_lp hash hi hv h

/-- one step: an accepted call keeps it and never changes the launchpad token; the only call that
    changes the fee is `setNftCost`, which checks the token -/
theorem fl_fee_ne_lp_step (hash : List Nat → List Nat) (s : State) (e : Env) (c : Call) (s' : State)
    (o : Out) (hs : step hash s e c = .ok (s', o)) :
    s'.lpTok = s.lpTok ∧ ((∀ p, c ≠ .setNftCost p) → s'.nftCost = s.nftCost) ∧
    (∀ p, c = .setNftCost p → s'.nftCost = p ∧ p.tok ≠ .esdt s.lpTok) ∧
    (s.nftCost.tok ≠ .esdt s.lpTok → s'.nftCost.tok ≠ .esdt s'.lpTok) := by
  refine ⟨fl_step_lpTok hs, fun hc => nftCost_frame hs hc, ?_, fun h => fl_step_fee_ne_lp hs h⟩
  rintro p rfl
  obtain ⟨h1, h2⟩ := fl_setNftCost_checked hs
  exact ⟨h2, h1⟩

/-- on the generic reachable-state inductive of `LP/Proofs/ReachBase.lean`, any variant with the NFT
    hook -/
theorem fl_fee_ne_lp_reachV (hash : List Nat → List Nat) (v : Variant) (hv : v.hasNft = true)
    (s : State) (r : Nat) (h : Reach hash v s r) : s.nftCost.tok ≠ .esdt s.lpTok := by
  induction h with
  | init a e s h => exact fl_init_fee_ne_lp h hv
  | call s r e c s' o _ _ _ _ h4 ih => exact fl_step_fee_ne_lp h4 ih
  | wait s r r' _ _ ih => exact ih

/-- on the reachable states of launchpad-nft-and-guaranteed-tickets -/
theorem fl_fee_ne_lp_reach_ng (hash : List Nat → List Nat) (s : State) (r : Nat)
    (h : ng_Reach hash s r) : s.nftCost.tok ≠ .esdt s.lpTok := by
  induction h with
  | init a e s h => exact fl_init_fee_ne_lp h rfl
  | call s r e c s' o _ _ _ _ h4 ih => exact fl_step_fee_ne_lp h4 ih
  | wait s r r' _ _ ih => exact ih

/-- **every reachable state of either NFT variant**: the fee token is not the launchpad token -/
theorem fl_fee_ne_lp_reach (hash : List Nat → List Nat) (s : State) (r : Nat)
    (h : Reach hash .nft s r ∨ ng_Reach hash s r) : s.nftCost.tok ≠ .esdt s.lpTok := by
  rcases h with h | h
  · exact fl_fee_ne_lp_reachV hash .nft rfl s r h
  · exact fl_fee_ne_lp_reach_ng hash s r h

/-- the hypothesis `¬ FeeInLpToken s` of `C14reachG` holds in every reachable state -/
theorem fl_not_FeeInLpToken_nftGuar (hash : List Nat → List Nat) (s : State) (r : Nat)
    (h : ng_Reach hash s r) : ¬ FeeInLpToken s :=
  fun hh => fl_fee_ne_lp_reach_ng hash s r h hh.1

theorem fl_not_FeeInLpToken_nft (hash : List Nat → List Nat) (s : State) (r : Nat)
    (h : Reach hash .nft s r) : ¬ FeeInLpToken s :=
  fun hh => fl_fee_ne_lp_reachV hash .nft rfl s r h hh.1

/-- the guard `ng_LpSep` of the field `ng_WF.lp` holds in every reachable state -/
theorem fl_ng_LpSep (hash : List Nat → List Nat) (s : State) (r : Nat) (h : ng_Reach hash s r) :
    ng_LpSep s r :=
  Or.inl (fl_not_FeeInLpToken_nftGuar hash s r h)

/-! ### 2. the case split on the fee token is exhaustive -/

/-- the three token configurations of the fee (pure logic): (i) the ticket-payment slot,
    (ii) another token, (iii) the payment token's identifier with a non-zero nonce -/
theorem fl_fee_config_cases (s : State) :
    (s.nftCost.tok = s.payTok ∧ s.nftCost.nonce = 0) ∨ s.nftCost.tok ≠ s.payTok ∨
    (s.nftCost.tok = s.payTok ∧ s.nftCost.nonce ≠ 0) := by
  by_cases h1 : s.nftCost.tok = s.payTok
  · by_cases h2 : s.nftCost.nonce = 0
    · exact Or.inl ⟨h1, h2⟩
    · exact Or.inr (Or.inr ⟨h1, h2⟩)
  · exact Or.inr (Or.inl h1)

/-- (i) is configuration (b) -/
theorem fl_case_i_iff (s : State) :
    (s.nftCost.tok = s.payTok ∧ s.nftCost.nonce = 0) ↔ FeeInPayToken s := Iff.rfl

/-- (ii) is configuration (a), given the invariant -/
theorem fl_case_ii_separate (s : State) (hne : s.nftCost.tok ≠ .esdt s.lpTok)
    (h : s.nftCost.tok ≠ s.payTok) : FeeTokenSeparate s :=
  ⟨fun hh => h hh.1, fun hh => hne hh.1⟩

/-- (iii) is configuration (a) as well, given the invariant: the fee slot `(payTok, nonce)` is not
    the ticket-payment slot `(payTok, 0)` -/
theorem fl_case_iii_separate (s : State) (hne : s.nftCost.tok ≠ .esdt s.lpTok)
    (h : s.nftCost.nonce ≠ 0) : FeeTokenSeparate s :=
  ⟨fun hh => h hh.2, fun hh => hne hh.1⟩

/-- configuration (iii) needs an ESDT: along any history of a variant with the NFT hook an EGLD fee
    has nonce 0 (first check of `validCost`), so a fee with a non-zero nonce is an ESDT -/
theorem fl_case_iii_esdt_run (hash : List Nat → List Nat) (v : Variant) (hv : v.hasNft = true)
    (a : InitArgs) (e : Env) (s0 : State) (hi : init v a e = .ok s0) (h : List (Env × Call))
    (hn : (run hash s0 h).nftCost.nonce ≠ 0) : ∃ id, (run hash s0 h).nftCost.tok = .esdt id := by
  have hk := fl_run_nonceOk_preserves hash h s0 (fl_init_nonceOk hi hv)
  cases ht : (run hash s0 h).nftCost.tok with
  | egld => exact absurd (hk ht) hn
  | esdt id => exact ⟨id, rfl⟩

/-- the same on the reachable states of either NFT variant -/
theorem fl_case_iii_esdt_reach (hash : List Nat → List Nat) (s : State) (r : Nat)
    (h : Reach hash .nft s r ∨ ng_Reach hash s r) (hn : s.nftCost.nonce ≠ 0) :
    ∃ id, s.nftCost.tok = .esdt id := by
  have hk : fl_FeeNonceOk s := by
    clear hn
    rcases h with h | h
    · induction h with
      | init a e s h => exact fl_init_nonceOk h rfl
      | call s r e c s' o _ _ _ _ h4 ih => exact fl_step_nonceOk h4 ih
      | wait s r r' _ _ ih => exact ih
    · induction h with
      | init a e s h => exact fl_init_nonceOk h rfl
      | call s r e c s' o _ _ _ _ h4 ih => exact fl_step_nonceOk h4 ih
      | wait s r r' _ _ ih => exact ih
  cases ht : s.nftCost.tok with
  | egld => exact absurd (hk ht) hn
  | esdt id => exact ⟨id, rfl⟩

/-- given the invariant, configuration (a) is exactly the negation of configuration (b) -/
theorem fl_separate_iff (s : State) (hne : s.nftCost.tok ≠ .esdt s.lpTok) :
    FeeTokenSeparate s ↔ ¬ FeeInPayToken s :=
  ⟨fun h => h.1, fun h => ⟨h, fun hh => hne hh.1⟩⟩

/-- **dichotomy**: given the invariant, exactly one of the two configurations holds -/
theorem fl_dichotomy (s : State) (hne : s.nftCost.tok ≠ .esdt s.lpTok) :
    (FeeInPayToken s ∧ ¬ FeeTokenSeparate s) ∨ (FeeTokenSeparate s ∧ ¬ FeeInPayToken s) := by
  by_cases h : FeeInPayToken s
  · exact Or.inl ⟨h, fun hh => hh.1 h⟩
  · exact Or.inr ⟨(fl_separate_iff s hne).mpr h, h⟩

/-- **launchpad with NFT draw: every reachable state is in configuration (b) or (a), and the
    corresponding ledger theorem applies** — (b): the combined ledger in the payment slot;
    (a): the plain ticket ledger in the payment slot and the fee ledger in the fee slot -/
theorem C14_fee_dichotomy_nft (hash : List Nat → List Nat) (s : State) (r : Nat)
    (h : Reach hash .nft s r) :
    (FeeInPayToken s ∧ ¬ FeeTokenSeparate s ∧
      ∃ L : List Nat, Covers s L ∧ (¬ AllDone s → CombinedPre s L) ∧ (AllDone s → CombinedPost s L)) ∨
    (FeeTokenSeparate s ∧ ¬ FeeInPayToken s ∧ feeBal s = feeHeld s ∧
      ∃ L : List Nat, Covers s L ∧ (¬ AllDone s → PayEqPre s L) ∧ (AllDone s → PayEqPost s L)) := by
  rcases fl_dichotomy s (fl_fee_ne_lp_reachV hash .nft rfl s r h) with ⟨h1, h2⟩ | ⟨h1, h2⟩
  · exact Or.inl ⟨h1, h2, C14b_solvent_same hash s r h h1⟩
  · exact Or.inr ⟨h1, h2, C14a_fee_ledger hash s r h h1, C14a_solvent_separate hash s r h h1⟩

/-- the same for launchpad-nft-and-guaranteed-tickets -/
theorem C14_fee_dichotomy_nftGuar (hash : List Nat → List Nat) (s : State) (r : Nat)
    (h : ng_Reach hash s r) :
    (FeeInPayToken s ∧ ¬ FeeTokenSeparate s ∧
      ∃ L : List Nat, Covers s L ∧ (¬ AllDone s → CombinedPre s L) ∧ (AllDone s → CombinedPost s L)) ∨
    (FeeTokenSeparate s ∧ ¬ FeeInPayToken s ∧ feeBal s = feeHeld s ∧
      ∃ L : List Nat, Covers s L ∧ (¬ AllDone s → PayEqPre s L) ∧ (AllDone s → PayEqPost s L)) := by
  rcases fl_dichotomy s (fl_fee_ne_lp_reach_ng hash s r h) with ⟨h1, h2⟩ | ⟨h1, h2⟩
  · exact Or.inl ⟨h1, h2, ng_solvent_same hash s r h h1⟩
  · exact Or.inr ⟨h1, h2, ng_fee_ledger hash s r h h1, ng_solvent_separate hash s r h h1⟩

/-- **C14, fees reconcile — launchpad with NFT draw, EVERY reachable state, no hypothesis on the
    token configuration.**
    (1) the payment-token holdings are exactly the ticket ledger plus `feeInPay s`;
    (2) `feeInPay s` is the whole fee liability `feeHeld s` when the fee is paid in the payment slot,
        and zero otherwise — and then the fee slot holds exactly `feeHeld s`;
    (3) once everything is complete, every participant has settled and the owner has withdrawn both
        proceeds, the contract holds zero of the payment token and zero of the fee token. -/
theorem C14_fee_reconciles_nft (hash : List Nat → List Nat) (s : State) (r : Nat)
    (h : Reach hash .nft s r) :
    (∃ L : List Nat, Covers s L ∧
      (¬ AllDone s → s.bal s.payTok 0 = s.price * sumOver s.confirmed L + feeInPay s) ∧
      (AllDone s → s.bal s.payTok 0 = s.claimablePayment + sumOver (refundDue s) L + feeInPay s)) ∧
    (FeeInPayToken s → feeInPay s = feeHeld s ∧ feeBal s = s.bal s.payTok 0) ∧
    (¬ FeeInPayToken s → feeInPay s = 0 ∧ feeBal s = feeHeld s) ∧
    (AllDone s → (∀ a, s.range a = none) → s.claimablePayment = 0 → s.claimableNft = 0 →
      s.bal s.payTok 0 = 0 ∧ feeBal s = 0) := by
  have hne := fl_fee_ne_lp_reachV hash .nft rfl s r h
  have hslot : FeeInPayToken s → feeBal s = s.bal s.payTok 0 := by
    intro hsame; unfold feeBal; rw [hsame.1, hsame.2]
  refine ⟨C14_solvent_general hash s r h, fun hsame => ⟨?_, hslot hsame⟩, fun hn => ⟨?_, ?_⟩, ?_⟩
  · unfold feeInPay; rw [if_pos hsame]
  · unfold feeInPay; rw [if_neg hn]
  · exact C14a_fee_ledger hash s r h ((fl_separate_iff s hne).mpr hn)
  · intro hd hall hcp hcn
    by_cases hsame : FeeInPayToken s
    · have h0 := C14b_nothing_left hash s r h hsame hd hall hcp hcn
      exact ⟨h0, by rw [hslot hsame]; exact h0⟩
    · exact C14a_nothing_left hash s r h ((fl_separate_iff s hne).mpr hsame) hd hall hcp hcn

/-- **C14, fees reconcile — launchpad-nft-and-guaranteed-tickets, EVERY reachable state** (including
    the middle of interrupted `filter` / `select` / `secondary` calls), no hypothesis on the token
    configuration; statement as `C14_fee_reconciles_nft` -/
theorem C14_fee_reconciles_nftGuar (hash : List Nat → List Nat) (s : State) (r : Nat)
    (h : ng_Reach hash s r) :
    (∃ L : List Nat, Covers s L ∧
      (¬ AllDone s → s.bal s.payTok 0 = s.price * sumOver s.confirmed L + feeInPay s) ∧
      (AllDone s → s.bal s.payTok 0 = s.claimablePayment + sumOver (refundDue s) L + feeInPay s)) ∧
    (FeeInPayToken s → feeInPay s = feeHeld s ∧ feeBal s = s.bal s.payTok 0) ∧
    (¬ FeeInPayToken s → feeInPay s = 0 ∧ feeBal s = feeHeld s) ∧
    (AllDone s → (∀ a, s.range a = none) → s.claimablePayment = 0 → s.claimableNft = 0 →
      s.bal s.payTok 0 = 0 ∧ feeBal s = 0) := by
  have hne := fl_fee_ne_lp_reach_ng hash s r h
  have hslot : FeeInPayToken s → feeBal s = s.bal s.payTok 0 := by
    intro hsame; unfold feeBal; rw [hsame.1, hsame.2]
  refine ⟨ng_solvent_general hash s r h, fun hsame => ⟨?_, hslot hsame⟩, fun hn => ⟨?_, ?_⟩, ?_⟩
  · unfold feeInPay; rw [if_pos hsame]
  · unfold feeInPay; rw [if_neg hn]
  · exact ng_fee_ledger hash s r h ((fl_separate_iff s hne).mpr hn)
  · intro hd hall hcp hcn
    by_cases hsame : FeeInPayToken s
    · have h0 := ng_nothing_left_same hash s r h hsame hd hall hcp hcn
      exact ⟨h0, by rw [hslot hsame]; exact h0⟩
    · exact ng_nothing_left_separate hash s r h ((fl_separate_iff s hne).mpr hsame) hd hall hcp hcn

/-- the fee held is covered in every reachable state, whichever slot it sits in -/
theorem C14_fee_covered_nft (hash : List Nat → List Nat) (s : State) (r : Nat)
    (h : Reach hash .nft s r) : feeHeld s ≤ feeBal s := by
  obtain ⟨_, h2, h3, _⟩ := C14_fee_reconciles_nft hash s r h
  by_cases hsame : FeeInPayToken s
  · obtain ⟨a0, h0⟩ := Reach_iff.mp h
    have hle : feeHeld s ≤ s.bal s.payTok 0 := (nf_reach_WF h0).side.feeLe hsame
    rw [(h2 hsame).2]; exact hle
  · rw [(h3 hsame).2]; exact Nat.le_refl _

theorem C14_fee_covered_nftGuar (hash : List Nat → List Nat) (s : State) (r : Nat)
    (h : ng_Reach hash s r) : feeHeld s ≤ feeBal s := by
  obtain ⟨_, h2, h3, _⟩ := C14_fee_reconciles_nftGuar hash s r h
  by_cases hsame : FeeInPayToken s
  · obtain ⟨a0, h0⟩ := ng_Reach_iff.mp h
    have hle : feeHeld s ≤ s.bal s.payTok 0 := (ng_reach_WF h0).side.feeLe hsame
    rw [(h2 hsame).2]; exact hle
  · rw [(h3 hsame).2]; exact Nat.le_refl _

/-! ### 3a. launchpad tokens, launchpad-nft-and-guaranteed-tickets: no hypothesis left -/

/-- **`LpCover` from the deposit on, in every reachable state** (`ng_lp_cover` without
    `¬ FeeInLpToken s`): the launchpad tokens held cover every outstanding winner; until the
    guaranteed-ticket sub-step is complete they even cover the whole reserve -/
theorem lp_cover_nftGuar (hash : List Nat → List Nat) (s : State) (r : Nat)
    (h : ng_Reach hash s r) (hd : s.deposited = true) :
    LpCover s ∧
    (s.flags.additional = false → (∀ rg, s.op ≠ .additional (.nft rg)) →
      s.perTicket * (s.nrWinning + s.totalGuaranteed) ≤ s.bal (.esdt s.lpTok) 0) :=
  ng_lp_cover hash s r h hd (fl_not_FeeInLpToken_nftGuar hash s r h)

/-- the field `ng_WF.lp` without its guard `ng_LpSep` -/
theorem lp_owed_cover_nftGuar (hash : List Nat → List Nat) (s : State) (r : Nat)
    (h : ng_Reach hash s r) (hd : s.deposited = true) :
    s.perTicket * ng_owed s ≤ s.bal (.esdt s.lpTok) 0 := by
  obtain ⟨a0, h0⟩ := ng_Reach_iff.mp h
  exact (ng_reach_WF h0).lp (fl_ng_LpSep hash s r h) hd

/-- **the owner can withdraw only the surplus** (`ng_owner_surplus_reach` without
    `¬ FeeInLpToken s`) -/
theorem owner_surplus_nftGuar (hash : List Nat → List Nat) (s : State) (r : Nat)
    (h : ng_Reach hash s r) (e : Env) (s' : State) (o : Out)
    (hs : step hash s e .claimPayment = .ok (s', o)) :
    s'.bal (.esdt s'.lpTok) 0 = s'.perTicket * s'.nrWinning ∧ s'.nrWinning = s.nrWinning ∧
    s'.claimablePayment = 0 ∧ s'.claimableNft = 0 :=
  ng_owner_surplus_reach hash s r h (fl_not_FeeInLpToken_nftGuar hash s r h) e s' o hs

/-- **nothing is left at the end** (`ng_lp_zero_at_end` without `¬ FeeInLpToken s`) -/
theorem lp_zero_at_end_nftGuar (hash : List Nat → List Nat) (s : State) (r : Nat)
    (h : ng_Reach hash s r) (hd : AllDone s) (hall : ∀ a, s.range a = none)
    (e : Env) (s' : State) (o : Out) (hs : step hash s e .claimPayment = .ok (s', o)) :
    s.nrWinning = 0 ∧ s'.bal (.esdt s'.lpTok) 0 = 0 :=
  ng_lp_zero_at_end hash s r h (fl_not_FeeInLpToken_nftGuar hash s r h) hd hall e s' o hs

/-! ### 3b. launchpad tokens, launchpad with NFT draw (new: `C14reach` had no such statement) -/

/-- **`LpCover` from the deposit on, in every reachable state**: the launchpad tokens held cover
    every outstanding winner (`nrWinning` is the configured number until the filter completes, then
    `min` with the confirmed tickets, and is decremented by every settlement) -/
theorem lp_cover_nft (hash : List Nat → List Nat) (s : State) (r : Nat)
    (h : Reach hash .nft s r) (hd : s.deposited = true) : LpCover s :=
  (fl_reach_NftLp h).cover hd

/-- the same along ANY history of the launchpad with NFT draw: no restriction on the calls, their
    arguments or call values (rejected transactions leave no trace) -/
theorem lp_cover_nft_run (hash : List Nat → List Nat) (a : InitArgs) (e : Env) (s0 : State)
    (hi : init .nft a e = .ok s0) (h : List (Env × Call))
    (hd : (run hash s0 h).deposited = true) : LpCover (run hash s0 h) :=
  (fl_run_NftLp hash hi h).cover hd

/-- before the deposit nothing can be owed: a confirmation needs the deposit, so nobody has
    confirmed a ticket -/
theorem lp_deposit_first_nft (hash : List Nat → List Nat) (s : State) (e : Env) (n : Nat)
    (s' : State) (o : Out) (hs : step hash s e (.confirm n) = .ok (s', o)) :
    s.deposited = true := by
  obtain ⟨total, hacc, _⟩ := LP.Props.C07.confirm_effect hash s e n s' o hs
  exact hacc.2.2.2.1

/-- **the owner can withdraw only the surplus**: an accepted `claimPayment` in a reachable state
    leaves exactly the outstanding winners' launchpad tokens (never a winner's share, and no NFT
    fee is taken out of the launchpad-token slot); both recorded proceeds are zero afterwards -/
theorem owner_surplus_nft (hash : List Nat → List Nat) (s : State) (r : Nat)
    (h : Reach hash .nft s r) (e : Env) (s' : State) (o : Out)
    (hs : step hash s e .claimPayment = .ok (s', o)) :
    s'.bal (.esdt s'.lpTok) 0 = s'.perTicket * s'.nrWinning ∧ s'.nrWinning = s.nrWinning ∧
    s'.claimablePayment = 0 ∧ s'.claimableNft = 0 := by
  obtain ⟨_, h1, h2, _, _, _, h6, h7, _⟩ := fl_owner_surplus_step (fl_reach_NftLp h) hs
  exact ⟨h1, h2, h6, h7⟩

/-- once everybody has settled no winner is outstanding -/
theorem all_settled_nrWinning_nft (hash : List Nat → List Nat) (s : State) (r : Nat)
    (h : Reach hash .nft s r) (hd : AllDone s) (hall : ∀ a, s.range a = none) :
    s.nrWinning = 0 := by
  obtain ⟨L, _, _, hwin, _⟩ := three_counts_nft hash s r h hd
  rw [← hwin]
  apply sumOver_zero
  intro a _
  simp [winCountOf, hall a]

/-- **nothing is left at the end**: once every participant has settled, no winner is outstanding,
    and the owner's withdrawal leaves no launchpad token in the contract -/
theorem lp_zero_at_end_nft (hash : List Nat → List Nat) (s : State) (r : Nat)
    (h : Reach hash .nft s r) (hd : AllDone s) (hall : ∀ a, s.range a = none)
    (e : Env) (s' : State) (o : Out) (hs : step hash s e .claimPayment = .ok (s', o)) :
    s.nrWinning = 0 ∧ s'.bal (.esdt s'.lpTok) 0 = 0 := by
  have hz := all_settled_nrWinning_nft hash s r h hd hall
  obtain ⟨k1, k2, _⟩ := owner_surplus_nft hash s r h e s' o hs
  exact ⟨hz, by rw [k1, k2, hz]; simp⟩

/-- **the contract is empty at the end of the lifecycle** (launchpad with NFT draw): everything
    complete, every participant settled, then the owner's accepted `claimPayment` leaves NO token
    of any kind in the contract — payment token, fee token, launchpad token, anything else -/
theorem C14_contract_empty_nft (hash : List Nat → List Nat) (s : State) (r : Nat)
    (h : Reach hash .nft s r) (hd : AllDone s) (hall : ∀ a, s.range a = none)
    (e : Env) (hr : r ≤ e.round) (hok : EnvOK e) (s' : State) (o : Out)
    (hs : step hash s e .claimPayment = .ok (s', o)) :
    ∀ t n, s'.bal t n = 0 := by
  have h' : Reach hash .nft s' e.round := .call s r e .claimPayment s' o h hr hok trivial hs
  obtain ⟨_, _, _, _, _, _, hcp, hcn, B, hB⟩ := fl_owner_surplus_step (fl_reach_NftLp h) hs
  have hd' : AllDone s' := by rw [hB]; exact hd
  have hall' : ∀ a, s'.range a = none := by rw [hB]; exact hall
  obtain ⟨_, _, _, hend⟩ := C14_fee_reconciles_nft hash s' e.round h'
  obtain ⟨z1, z2⟩ := hend hd' hall' hcp hcn
  obtain ⟨_, z3⟩ := lp_zero_at_end_nft hash s r h hd hall e s' o hs
  obtain ⟨a0, h0⟩ := Reach_iff.mp h'
  have hside := (nf_reach_WF h0).side
  intro t n
  by_cases c1 : t = s'.payTok ∧ n = 0
  · rw [c1.1, c1.2]; exact z1
  · by_cases c2 : t = .esdt s'.lpTok ∧ n = 0
    · rw [c2.1, c2.2]; exact z3
    · by_cases c3 : t = s'.nftCost.tok ∧ n = s'.nftCost.nonce
      · rw [c3.1, c3.2]; exact z2
      · exact hside.balOther t n c1 c2 c3

/-! ### non-vacuity: the concrete histories of `C14reach` (`n0 … n15`) and `C14reachG` (`g0 … g18`) -/

/-- the repaired check at work: a fee in the launchpad token (`lpTok = 1`) is rejected at deployment
    and by `setNftCost`; other tokens are accepted -/
example :
    isOk (init .nft { nArgs with nftCost := ⟨.esdt 1, 0, 3⟩ } { caller := 1, round := 0 }) = false ∧
    isOk (init .nftGuar { gArgs with nftCost := ⟨.esdt 1, 7, 3⟩ } { caller := 1, round := 0 }) = false ∧
    isOk (step id n0 { caller := 1, round := 1 } (.setNftCost ⟨.esdt 1, 0, 3⟩)) = false ∧
    isOk (step id n0 { caller := 1, round := 1 } (.setNftCost ⟨.esdt 9, 0, 3⟩)) = true := by
  decide +kernel

/-- `fl_fee_ne_lp_run` on a history with accepted and rejected transactions (the second one tries
    to move the fee into the launchpad token, the third moves it to another token) -/
example : (run id n0 [({ caller := 1, round := 1 }, .addTickets [(7, 2), (8, 1)]),
      ({ caller := 1, round := 1 }, .setNftCost ⟨.esdt 1, 0, 3⟩),
      ({ caller := 1, round := 2 }, .setNftCost ⟨.esdt 9, 4, 3⟩)]).nftCost.tok ≠ .esdt 1 :=
  fl_fee_ne_lp_run id .nft rfl nArgs { caller := 1, round := 0 } n0 rfl _

example : (run id n0 [({ caller := 1, round := 1 }, .addTickets [(7, 2), (8, 1)]),
      ({ caller := 1, round := 1 }, .setNftCost ⟨.esdt 1, 0, 3⟩),
      ({ caller := 1, round := 2 }, .setNftCost ⟨.esdt 9, 4, 3⟩)]).nftCost = ⟨.esdt 9, 4, 3⟩ := by
  decide +kernel

/-- configuration (iii) is reachable: the payment token's identifier with a non-zero nonce; it is
    configuration (a) -/
example : ∃ s, Reach id .nft s 0 ∧ s.nftCost.tok = s.payTok ∧ s.nftCost.nonce ≠ 0 ∧
    FeeTokenSeparate s ∧ ¬ FeeInPayToken s :=
  ⟨_, Reach.init { nArgs with payTok := .esdt 2, nftCost := ⟨.esdt 2, 7, 500⟩ }
      { caller := 1, round := 0 } _ rfl, rfl, by decide, by constructor <;> decide, by decide⟩

/-- configuration (b) on the concrete history, all four parts of `C14_fee_reconciles_nft` -/
example : FeeInPayToken n12 ∧ AllDone n12 ∧ feeInPay n12 = feeHeld n12 ∧ feeHeld n12 = 6 ∧
    ∃ L : List Nat, Covers n12 L ∧
      n12.bal n12.payTok 0 = n12.claimablePayment + sumOver (refundDue n12) L + feeInPay n12 := by
  obtain ⟨⟨L, h1, _, h3⟩, h4, _, _⟩ := C14_fee_reconciles_nft id n12 14 n12_reach
  exact ⟨⟨rfl, rfl⟩, ⟨rfl, rfl⟩, (h4 ⟨rfl, rfl⟩).1, rfl, L, h1, h3 ⟨rfl, rfl⟩⟩

theorem fl_cpState_range (s : State) (B : Bal) (cp cn : Nat) :
    (nf_cpState s B cp cn).range = s.range := rfl

theorem fl_claimState_range (s : State) (a : Nat) (r : Range) (P W : List Nat) (B : Bal) :
    (nf_claimState s a r P W B).range = upd s.range a none := rfl

/-- in the concrete history both participants have settled in `n15`: no range is left -/
theorem fl_n15_ranges : ∀ a, n15.range a = none := by
  intro a
  match a with
  | 0 | 1 | 2 | 3 | 4 | 5 | 6 | 7 | 8 => decide +kernel
  | a + 9 =>
    obtain ⟨o1, h1⟩ := step_stOf (x := step id n12 { caller := 7, round := 15 } .claim)
      (by decide +kernel) n12
    obtain ⟨o2, h2⟩ := step_stOf (x := step id n13 { caller := 1, round := 16 } .claimPayment)
      (by decide +kernel) n13
    obtain ⟨o3, h3⟩ := step_stOf (x := step id n14 { caller := 8, round := 17 } .claim)
      (by decide +kernel) n14
    have h1' : step id n12 { caller := 7, round := 15 } .claim = .ok (n13, o1) := h1
    have h2' : step id n13 { caller := 1, round := 16 } .claimPayment = .ok (n14, o2) := h2
    have h3' : step id n14 { caller := 8, round := 17 } .claim = .ok (n15, o3) := h3
    obtain ⟨r1, _, _, e1⟩ := nf_claim_shape id n12 _ n13 o1 (by decide +kernel) h1'
    obtain ⟨_, _, _, _, _, _, _, _, B, e2⟩ := fl_owner_surplus_step (fl_reach_NftLp n13_reach) h2'
    obtain ⟨r3, _, _, e3⟩ := nf_claim_shape id n14 _ n15 o3 (by decide +kernel) h3'
    have q1 : n13.range (a + 9) = n12.range (a + 9) := by
      rw [e1, fl_claimState_range]
      exact upd_other _ _ _ _ (by show a + 9 ≠ 7; omega)
    have q2 : n14.range (a + 9) = n13.range (a + 9) := by rw [e2, fl_cpState_range]
    have q3 : n15.range (a + 9) = n14.range (a + 9) := by
      rw [e3, fl_claimState_range]
      exact upd_other _ _ _ _ (by show a + 9 ≠ 8; omega)
    rw [q3, q2, q1]
    rfl

/-- the premises of part (3) of `C14_fee_reconciles_nft` are satisfiable: `n15` (both participants
    settled, the owner has withdrawn) holds neither payment nor fee tokens -/
example : n15.bal n15.payTok 0 = 0 ∧ feeBal n15 = 0 := by
  obtain ⟨_, _, _, h⟩ := C14_fee_reconciles_nft id n15 17 n15_reach
  exact h ⟨by decide +kernel, by decide +kernel⟩ fl_n15_ranges (by decide +kernel) (by decide +kernel)

/-- `lp_cover_nft` / `owner_surplus_nft` on the concrete history: 5 launchpad tokens cover the one
    outstanding winner in `n12`; the owner's withdrawal `n13 → n14` leaves exactly what the
    outstanding winners are owed -/
example : LpCover n12 ∧ n12.perTicket * n12.nrWinning = 5 ∧ n12.bal (.esdt 1) 0 = 5 :=
  ⟨lp_cover_nft id n12 14 n12_reach rfl, rfl, rfl⟩

example : n14.bal (.esdt n14.lpTok) 0 = n14.perTicket * n14.nrWinning ∧ n14.claimableNft = 0 := by
  obtain ⟨o2, h2⟩ := step_stOf (x := step id n13 { caller := 1, round := 16 } .claimPayment)
    (by decide +kernel) n13
  have h2' : step id n13 { caller := 1, round := 16 } .claimPayment = .ok (n14, o2) := h2
  obtain ⟨k1, _, _, k4⟩ := owner_surplus_nft id n13 15 n13_reach _ n14 o2 h2'
  exact ⟨k1, k4⟩

/-- the end of the lifecycle: after `n15` one more (empty) owner withdrawal is accepted, and the
    contract holds nothing at all (`C14_contract_empty_nft`) -/
example : ∃ s' o, step id n15 { caller := 1, round := 18 } .claimPayment = .ok (s', o) ∧
    ∀ t n, s'.bal t n = 0 := by
  obtain ⟨o, h⟩ := step_stOf (x := step id n15 { caller := 1, round := 18 } .claimPayment)
    (by decide +kernel) n15
  exact ⟨_, o, h, C14_contract_empty_nft id n15 17 n15_reach ⟨by decide +kernel, by decide +kernel⟩ fl_n15_ranges
    { caller := 1, round := 18 } (by decide) (Or.inl rfl) _ o h⟩

/-- nftGuar, in the middle of the NFT draw (`g14`) and after completion (`g15`): the package
    applies without any token hypothesis; the launchpad tokens cover all 3 winners -/
example : (∃ L : List Nat, Covers g14 L ∧
      g14.bal g14.payTok 0 = g14.price * sumOver g14.confirmed L + feeInPay g14) ∧
    feeInPay g15 = feeHeld g15 ∧ LpCover g15 ∧ g15.perTicket * g15.nrWinning = 15 := by
  obtain ⟨⟨L, h1, h2, _⟩, _⟩ := C14_fee_reconciles_nftGuar id g14 14 (ng_Reach_iff.mpr ⟨_, g14_reach⟩)
  obtain ⟨_, k2, _⟩ := C14_fee_reconciles_nftGuar id g15 14 (ng_Reach_iff.mpr ⟨_, g15_reach⟩)
  exact ⟨⟨L, h1, h2 (fun h => by cases h.2)⟩, (k2 ⟨rfl, rfl⟩).1,
    (lp_cover_nftGuar id g15 14 (ng_Reach_iff.mpr ⟨_, g15_reach⟩) rfl).1, rfl⟩

/-- nftGuar: the owner's withdrawal `g16 → g17` leaves exactly the outstanding winners' tokens -/
example : g17.bal (.esdt g17.lpTok) 0 = g17.perTicket * g17.nrWinning := by
  obtain ⟨o, h⟩ := step_stOf (x := step id g16 { caller := 1, round := 16 } .claimPayment)
    (by decide +kernel) g16
  have h' : step id g16 { caller := 1, round := 16 } .claimPayment = .ok (g17, o) := h
  have hr : ng_ReachA id gArgs g16 15 :=
    callOk { caller := 7, round := 15 } .claim g15_reach (by decide) (Or.inl rfl) trivial
      (by decide +kernel)
  exact (owner_surplus_nftGuar id g16 15 (ng_Reach_iff.mpr ⟨_, hr⟩) _ g17 o h').1

end LP.FL

#print axioms LP.FL.fl_fee_ne_lp_run
#print axioms LP.FL.fl_fee_ne_lp_step
#print axioms LP.FL.fl_fee_ne_lp_reachV
#print axioms LP.FL.fl_fee_ne_lp_reach_ng
#print axioms LP.FL.fl_fee_ne_lp_reach
#print axioms LP.FL.fl_not_FeeInLpToken_nftGuar
#print axioms LP.FL.fl_not_FeeInLpToken_nft
#print axioms LP.FL.fl_ng_LpSep
#print axioms LP.FL.fl_fee_config_cases
#print axioms LP.FL.fl_case_ii_separate
#print axioms LP.FL.fl_case_iii_separate
#print axioms LP.FL.fl_case_iii_esdt_run
#print axioms LP.FL.fl_case_iii_esdt_reach
#print axioms LP.FL.fl_separate_iff
#print axioms LP.FL.fl_dichotomy
#print axioms LP.FL.C14_fee_dichotomy_nft
#print axioms LP.FL.C14_fee_dichotomy_nftGuar
#print axioms LP.FL.C14_fee_reconciles_nft
#print axioms LP.FL.C14_fee_reconciles_nftGuar
#print axioms LP.FL.C14_fee_covered_nft
#print axioms LP.FL.C14_fee_covered_nftGuar
#print axioms LP.FL.lp_cover_nftGuar
#print axioms LP.FL.lp_owed_cover_nftGuar
#print axioms LP.FL.owner_surplus_nftGuar
#print axioms LP.FL.lp_zero_at_end_nftGuar
#print axioms LP.FL.lp_cover_nft
#print axioms LP.FL.lp_cover_nft_run
#print axioms LP.FL.lp_deposit_first_nft
#print axioms LP.FL.owner_surplus_nft
#print axioms LP.FL.all_settled_nrWinning_nft
#print axioms LP.FL.lp_zero_at_end_nft
#print axioms LP.FL.C14_contract_empty_nft
#print axioms LP.FL.fl_n15_ranges
#print axioms LP.fl_step_fee_ne_lp
#print axioms LP.fl_run_fee_ne_lp
#print axioms LP.fl_step_NftLp
#print axioms LP.fl_run_NftLp
#print axioms LP.fl_reach_NftLp
#print axioms LP.fl_owner_surplus_step

#print axioms LP.FL.fl_case_i_iff
#print axioms LP.FL.fl_cpState_range
#print axioms LP.FL.fl_claimState_range
