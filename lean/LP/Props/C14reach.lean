import LP.Proofs.ReachNftFrame
import LP.Props.C01reach
/-
  C14 / C01 (reachable-state form) for `Variant.nft` — launchpad-with-nft.

  `Reach hash .nft s r` (LP/Proofs/ReachBase.lean): `s` is reachable from some deployment of the
  contract by accepted transactions with non-decreasing rounds (`r` = round of the latest one, or
  later).  Every transaction carries EGLD or ESDT but not both (`EnvOK`); every `addTickets` entry
  allocates at least one ticket (`CallOK`, as for the plain launchpad).  The SFT set-up is the
  environment action `sftSetup`.  `filter`, `select`, `selectNft` may carry ANY budget:
  interrupted and resumed calls are covered.

  WHAT IS ASSUMED ABOUT THE TOKENS: nothing about the history.  `setNftCost` / `setTicketPrice` may
  change the fee token / payment token in the AddTickets stage (the invariant shows the contract
  then holds nothing but launchpad tokens, so nothing is mis-attributed).  Each theorem only has a
  hypothesis on the CURRENT state: `FeeTokenSeparate s` (configuration a), `FeeInPayToken s`
  (configuration b: fee paid in the ticket-payment token, e.g. EGLD / EGLD).  The general form
  `C14_solvent_general` covers both (and says nothing about fees held in the launchpad-token slot).

  1. ticket-payment solvency + fee ledger
        `C14_solvent_general`, `C14a_solvent_separate`, `C14a_fee_ledger`, `C14a_nothing_left`,
        `C14b_solvent_same`, `C14b_nothing_left`, `fee_refund_covered_separate`,
        `claim_refund_covered_nft`, `claim_refund_covered_same`
  2. NFT draw end to end
        `nft_lists_reach`, `draw_completion_reach`, `participants_frozen`, `draw_end_to_end`
  3. claim categories
        `claim_category_reach`, `claimed_not_listed`
  4. counts
        `three_counts_nft`, `three_counts_at_completion_nft`, `winners_before_filter_nft`
-/
namespace LP.Props.C14reach
open LP LP.FY LP.Props.C09 LP.Props.C14 LP.Props.C01reach

/-- configuration (b): the NFT fee is paid in the ticket-payment token -/
def FeeInPayToken (s : State) : Prop := s.nftCost.tok = s.payTok ∧ s.nftCost.nonce = 0

instance (s : State) : Decidable (FeeInPayToken s) := by unfold FeeInPayToken; infer_instance

/-- NFT fees held in the ticket-payment slot -/
def feeInPay (s : State) : Nat := if FeeInPayToken s then feeHeld s else 0

theorem feeInPay_eq (s : State) : feeInPay s = (nf_side s).feeIn := rfl

/-! ### 1. solvency -/

/-- **general form**: in every reachable state the payment-token holdings are exactly the ticket
    ledger plus the NFT fees held in the same slot -/
theorem C14_solvent_general (hash : List Nat → List Nat) (s : State) (r : Nat)
    (h : Reach hash .nft s r) :
    ∃ L : List Nat, Covers s L ∧
      (¬ AllDone s → s.bal s.payTok 0 = s.price * sumOver s.confirmed L + feeInPay s) ∧
      (AllDone s → s.bal s.payTok 0 = s.claimablePayment + sumOver (refundDue s) L + feeInPay s) := by
  obtain ⟨a0, h⟩ := Reach_iff.mp h
  have hwf := nf_reach_WF h
  obtain ⟨L, h1, h2, h3⟩ := nf_WF_ledger hwf
  have hadd := nf_tix_add hwf.side
  have hadd' : (nf_side s).tix + feeInPay s = s.bal s.payTok 0 := hadd
  refine ⟨L, h1, fun hd => ?_, fun hd => ?_⟩
  · rw [← h2 hd]; omega
  · rw [← (h3 hd).1]; omega

/-- **(a) fee token separate**: the ticket-payment ledger is exactly that of the plain launchpad -/
theorem C14a_solvent_separate (hash : List Nat → List Nat) (s : State) (r : Nat)
    (h : Reach hash .nft s r) (hsep : FeeTokenSeparate s) :
    ∃ L : List Nat, Covers s L ∧ (¬ AllDone s → PayEqPre s L) ∧ (AllDone s → PayEqPost s L) := by
  obtain ⟨L, h1, h2, h3⟩ := C14_solvent_general hash s r h
  have hz : feeInPay s = 0 := by
    have hn : ¬ FeeInPayToken s := hsep.1
    unfold feeInPay; rw [if_neg hn]
  rw [hz] at h2 h3
  exact ⟨L, h1, fun hd => h2 hd, fun hd => h3 hd⟩

/-- **(a) the fee ledger**: holdings of the fee token = fee × (payers + drawn) before the draw
    completes, = claimableNft + fee × remaining losing payers afterwards -/
theorem C14a_fee_ledger (hash : List Nat → List Nat) (s : State) (r : Nat)
    (h : Reach hash .nft s r) (hsep : FeeTokenSeparate s) : feeBal s = feeHeld s := by
  obtain ⟨a0, h⟩ := Reach_iff.mp h
  exact (nf_reach_WF h).side.feeEq hsep.1 hsep.2

/-- after completion, a range-less address has no confirmed tickets, hence is in neither NFT list -/
theorem all_settled_lists_empty (hash : List Nat → List Nat) (s : State) (r : Nat)
    (h : Reach hash .nft s r) (hd : AllDone s) (hall : ∀ a, s.range a = none) :
    s.payers = [] ∧ s.nftWinners = [] := by
  obtain ⟨a0, h⟩ := Reach_iff.mp h
  have hwf := nf_reach_WF h
  have hD : PhD (nf_core s) := nf_phase_done hwf.phase hd.2
  have hz : ∀ a, s.confirmed a = 0 := fun a => hD.rngNone a (hall a)
  constructor
  · cases hp : s.payers with
    | nil => rfl
    | cons a rest =>
      have := hwf.side.conf a (Or.inl (by show a ∈ s.payers; rw [hp]; simp))
      have : 0 < s.confirmed a := this
      rw [hz a] at this; cases this
  · cases hp : s.nftWinners with
    | nil => rfl
    | cons a rest =>
      have := hwf.side.conf a (Or.inr (by show a ∈ s.nftWinners; rw [hp]; simp))
      have : 0 < s.confirmed a := this
      rw [hz a] at this; cases this

/-- **(a) both tokens reconcile to zero** after all claims and the owner's withdrawal -/
theorem C14a_nothing_left (hash : List Nat → List Nat) (s : State) (r : Nat)
    (h : Reach hash .nft s r) (hsep : FeeTokenSeparate s) (hd : AllDone s)
    (hall : ∀ a, s.range a = none) (hcp : s.claimablePayment = 0) (hcn : s.claimableNft = 0) :
    s.bal s.payTok 0 = 0 ∧ feeBal s = 0 := by
  obtain ⟨L, _, _, h3⟩ := C14a_solvent_separate hash s r h hsep
  refine ⟨all_settled_zero s L (h3 hd) (fun a _ => hall a) hcp, ?_⟩
  rw [C14a_fee_ledger hash s r h hsep]
  obtain ⟨hp, _⟩ := all_settled_lists_empty hash s r h hd hall
  unfold feeHeld
  rw [hd.2, hcn, hp]; simp

/-- (a) the fee refund of a losing payer and the owner's NFT proceeds are covered -/
theorem fee_refund_covered_separate (hash : List Nat → List Nat) (s : State) (r : Nat)
    (h : Reach hash .nft s r) (hsep : FeeTokenSeparate s) (hd : AllDone s) (a : Nat)
    (ha : a ∈ s.payers) : s.claimableNft + s.nftCost.amount ≤ feeBal s := by
  rw [C14a_fee_ledger hash s r h hsep]
  unfold feeHeld
  rw [hd.2]
  simp only [if_true]
  have : 0 < s.payers.length := List.length_pos_of_mem ha
  have : s.nftCost.amount * 1 ≤ s.nftCost.amount * s.payers.length := Nat.mul_le_mul_left _ this
  omega

/-- combined ledger before completion (configuration b) -/
def CombinedPre (s : State) (L : List Nat) : Prop :=
  s.bal s.payTok 0 = s.price * sumOver s.confirmed L +
    s.nftCost.amount * (s.payers.length + s.nftWinners.length)

/-- combined ledger after completion (configuration b) -/
def CombinedPost (s : State) (L : List Nat) : Prop :=
  s.bal s.payTok 0 = s.claimablePayment + sumOver (refundDue s) L +
    s.claimableNft + s.nftCost.amount * s.payers.length

/-- **(b) fee token = ticket-payment token** (EGLD/EGLD): the combined ledger -/
theorem C14b_solvent_same (hash : List Nat → List Nat) (s : State) (r : Nat)
    (h : Reach hash .nft s r) (hsame : FeeInPayToken s) :
    ∃ L : List Nat, Covers s L ∧ (¬ AllDone s → CombinedPre s L) ∧ (AllDone s → CombinedPost s L) := by
  obtain ⟨L, h1, h2, h3⟩ := C14_solvent_general hash s r h
  have hreach := h
  obtain ⟨a0, h⟩ := Reach_iff.mp h
  have hwf := nf_reach_WF h
  have hz : feeInPay s = feeHeld s := by unfold feeInPay; rw [if_pos hsame]
  rw [hz] at h2 h3
  refine ⟨L, h1, fun hd => ?_, fun hd => ?_⟩
  · have hna : s.flags.additional = false := by
      cases hq : s.flags.additional with
      | false => rfl
      | true =>
        exfalso
        have hD : PhD (nf_core s) := nf_phase_done hwf.phase hq
        exact hd ⟨hD.selected, hq⟩
    have := h2 hd
    unfold feeHeld at this
    rw [hna] at this
    exact this
  · have := h3 hd
    unfold feeHeld at this
    rw [hd.2] at this
    unfold CombinedPost
    simp only [if_true] at this
    omega

/-- **(b) nothing is left** after all claims and the owner's withdrawal -/
theorem C14b_nothing_left (hash : List Nat → List Nat) (s : State) (r : Nat)
    (h : Reach hash .nft s r) (hsame : FeeInPayToken s) (hd : AllDone s)
    (hall : ∀ a, s.range a = none) (hcp : s.claimablePayment = 0) (hcn : s.claimableNft = 0) :
    s.bal s.payTok 0 = 0 := by
  obtain ⟨L, _, _, h3⟩ := C14b_solvent_same hash s r h hsame
  obtain ⟨hp, _⟩ := all_settled_lists_empty hash s r h hd hall
  have := h3 hd
  unfold CombinedPost at this
  rw [this, hcp, hcn, hp, sumOver_zero]
  · simp
  · intro a _; simp [refundDue, hall a]

/-! ### 2. the NFT draw -/

/-- in every reachable state: the two lists are duplicate-free and disjoint (`NftOk`), at most
    `availNfts` are drawn, every payer / drawn participant has confirmed tickets, nobody is drawn
    before the base lottery is complete, settled participants are in neither list -/
theorem nft_lists_reach (hash : List Nat → List Nat) (s : State) (r : Nat)
    (h : Reach hash .nft s r) :
    NftOk s ∧ s.nftWinners.length ≤ s.availNfts ∧
    (∀ a, a ∈ s.payers ∨ a ∈ s.nftWinners → 0 < s.confirmed a) ∧
    (s.flags.selected = false → s.nftWinners = []) ∧
    (∀ a, s.claimed a = true → a ∉ s.payers ∧ a ∉ s.nftWinners) ∧
    (s.flags.additional = false → ∀ a, s.claimed a = false) := by
  obtain ⟨a0, h⟩ := Reach_iff.mp h
  have hs := (nf_reach_WF h).side
  exact ⟨⟨hs.nodupP, hs.nodupW, hs.disj⟩, hs.winLe, hs.conf, hs.noWin, hs.claimedOut, hs.fresh⟩

/-- settled participants are in neither NFT list -/
theorem claimed_not_listed (hash : List Nat → List Nat) (s : State) (r : Nat)
    (h : Reach hash .nft s r) (a : Nat) (hc : s.claimed a = true) :
    a ∉ s.payers ∧ a ∉ s.nftWinners :=
  (nft_lists_reach hash s r h).2.2.2.2.1 a hc

/-- the call that completes the draw, from any reachable state (whatever interrupted calls came
    before): the winners are `min availNfts (participants)`, distinct, all participants, disjoint
    from the remaining payers, and `claimableNft = fee × winners` -/
theorem draw_completion_reach (hash : List Nat → List Nat) (s : State) (r : Nat)
    (h : Reach hash .nft s r) (e : Env) (s' : State) (o : Out)
    (hs : step hash s e .selectNft = .ok (s', o)) (hdone : s'.flags.additional = true) :
    s'.nftWinners.length = min s.availNfts (s.payers.length + s.nftWinners.length) ∧
    s'.claimableNft = s.nftCost.amount * s'.nftWinners.length ∧
    NftOk s' ∧ (∀ a, (a ∈ s'.payers ∨ a ∈ s'.nftWinners) ↔ (a ∈ s.payers ∨ a ∈ s.nftWinners)) ∧
    s.nftWinners <+: s'.nftWinners ∧ AllDone s' ∧ o.ret = [0] := by
  obtain ⟨hok, hle, _⟩ := nft_lists_reach hash s r h
  obtain ⟨_, hsel, _, hok', _, _, _, _, hun, hpre, hret, hfin, _⟩ :=
    selectNft_call hash s e s' o hs hok hle
  obtain ⟨f1, f2⟩ := hfin hdone
  exact ⟨f1, f2, hok', hun, hpre, ⟨(step_flags_gain hs).1 hsel, hdone⟩, hret.mp hdone⟩

/-- from the start of the filter until the draw completes the NFT participants cannot change:
    along ANY accepted calls, `payers ∪ nftWinners`, its size, the fee and `availNfts` are constant
    and already drawn participants stay drawn -/
theorem participants_frozen (hash : List Nat → List Nat) (a0 : InitArgs) (s : State) (r : Nat)
    (h : ReachA hash .nft a0 s r) (hstd : s.flags.started = true) (s2 : State) (r2 : Nat)
    (hl : nf_Later hash s r s2 r2) (hna : s2.flags.additional = false) :
    nf_Frozen s s2 :=
  ((nf_later_frozen h hstd hl).2 hna).1

/-- **the draw end to end**: `s` is any reachable state after the filter has started and before the
    base lottery is complete (the confirmation period is over; nobody is drawn yet), `s.payers` are
    the fee payers when the draw starts.  After ANY accepted calls (interrupted `filter` /
    `select` / `selectNft` calls with any budgets, anything else), the `selectNft` call that
    completes the draw leaves exactly `min availNfts (number of fee payers)` winners, all distinct,
    all fee payers, the others remain in `payers`; the owner's NFT proceeds are fee × winners. -/
theorem draw_end_to_end (hash : List Nat → List Nat) (a0 : InitArgs) (s : State) (r : Nat)
    (h : ReachA hash .nft a0 s r) (hstd : s.flags.started = true) (hns : s.flags.selected = false)
    (s1 : State) (r1 : Nat) (hl : nf_Later hash s r s1 r1)
    (e : Env) (s2 : State) (o : Out)
    (hs : step hash s1 e .selectNft = .ok (s2, o)) (hdone : s2.flags.additional = true) :
    s2.nftWinners.length = min s.availNfts s.payers.length ∧
    s2.claimableNft = s.nftCost.amount * s2.nftWinners.length ∧
    s2.nftWinners.Nodup ∧ s2.payers.Nodup ∧ (∀ a, a ∈ s2.payers → a ∉ s2.nftWinners) ∧
    (∀ a, (a ∈ s2.payers ∨ a ∈ s2.nftWinners) ↔ a ∈ s.payers) ∧
    s2.payers.length + s2.nftWinners.length = s.payers.length := by
  obtain ⟨hr1, hfz⟩ := nf_later_frozen h hstd hl
  have hreach1 : Reach hash .nft s1 r1 := Reach_iff.mpr ⟨a0, hr1⟩
  have hw0 : s.nftWinners = [] := (nf_reach_WF h).side.noWin hns
  obtain ⟨hok1, hle1, _⟩ := nft_lists_reach hash s1 r1 hreach1
  obtain ⟨_, _, hna1, hok2, _, _, _, hlen2, hun2, _, _, hfin, _⟩ :=
    selectNft_call hash s1 e s2 o hs hok1 hle1
  obtain ⟨hF, _⟩ := hfz hna1
  obtain ⟨f1, f2⟩ := hfin hdone
  have hlen : s1.payers.length + s1.nftWinners.length = s.payers.length := by
    rw [hF.len, hw0]; simp
  refine ⟨by rw [f1, hF.avail, hlen], by rw [f2, hF.cost], hok2.nodupW, hok2.nodupP, hok2.disj, ?_,
    by rw [hlen2, hlen]⟩
  intro a
  rw [hun2 a, hF.mem a, hw0]
  simp

/-! ### 3. claim categories -/

/-- **claim categories**: an accepted `claim` in a reachable state (which is then `AllDone`) hands
    out exactly one SFT whose category is determined by membership — 1 iff drawn, 2 iff paid the
    fee and not drawn (then, and only then, the full fee is refunded), 3 iff the caller never paid
    the fee — and removes the caller from the list it was in -/
theorem claim_category_reach (hash : List Nat → List Nat) (s : State) (r : Nat)
    (h : Reach hash .nft s r) (e : Env) (s' : State) (o : Out)
    (hs : step hash s e .claim = .ok (s', o)) :
    AllDone s ∧ s.claimed e.caller = false ∧
    ∃ k, o.sfts = [(e.caller, k)] ∧
      (k = 1 ↔ e.caller ∈ s.nftWinners) ∧ (k = 2 ↔ e.caller ∈ s.payers) ∧
      (k = 3 ↔ e.caller ∉ s.nftWinners ∧ e.caller ∉ s.payers) ∧ (k = 1 ∨ k = 2 ∨ k = 3) ∧
      o.xfers = refundXfers s e.caller ++ tokenXfers s e.caller ++
        (if k = 2 then [(e.caller, s.nftCost)] else []) ∧
      e.caller ∉ s'.payers ∧ e.caller ∉ s'.nftWinners ∧ s'.claimed e.caller = true ∧ NftOk s' := by
  obtain ⟨hok, _⟩ := nft_lists_reach hash s r h
  have hvar : s.variant = .nft := by
    obtain ⟨a0, h⟩ := Reach_iff.mp h
    exact (nf_reach_WF h).var
  obtain ⟨_, hn, _⟩ := nf_flags hvar
  obtain ⟨rg, hacc, _, hx, hsf, _, _, _, hcl, _, _, _, hafter, _, _⟩ :=
    claim_nft_effect hash s e s' o hn hs
  obtain ⟨c1, c2, c3, c4⟩ := nftCategory_exact s e.caller hok
  obtain ⟨hcat3, hok'⟩ := hafter hok
  obtain ⟨_, _, d3, _⟩ := nftCategory_exact s' e.caller hok'
  obtain ⟨hsel, hadd, _⟩ := claim_stage_selected hacc.2.2.1
  exact ⟨⟨hsel, hadd⟩, hacc.2.2.2.1, nftCategory s e.caller, hsf, c1, c2, c3, c4, hx,
    (d3.mp hcat3).2, (d3.mp hcat3).1, hcl, hok'⟩

/-! ### 4. the counts -/

/-- after completion, in every reachable state: the winning tickets still held add up to
    `nrWinning`, nobody holds more winning than confirmed tickets, every range has exactly
    `confirmed` tickets; the ledger is the general post-completion one -/
theorem three_counts_nft (hash : List Nat → List Nat) (s : State) (r : Nat)
    (h : Reach hash .nft s r) (hd : AllDone s) :
    ∃ L : List Nat, Covers s L ∧
      s.bal s.payTok 0 = s.claimablePayment + sumOver (refundDue s) L + feeInPay s ∧
      sumOver (winCountOf s) L = s.nrWinning ∧
      (∀ a, winCountOf s a ≤ s.confirmed a) ∧
      (∀ a rg, s.range a = some rg → a ∈ L ∧ rangeLen rg = s.confirmed a) := by
  obtain ⟨a0, h⟩ := Reach_iff.mp h
  have hwf := nf_reach_WF h
  obtain ⟨L, h1, _, h3⟩ := nf_WF_ledger hwf
  obtain ⟨hpost, hwin, hle, hrg⟩ := h3 hd
  have hadd := nf_tix_add hwf.side
  have hadd' : (nf_side s).tix + feeInPay s = s.bal s.payTok 0 := hadd
  refine ⟨L, h1, by omega, hwin, hle, fun a rg hr => ?_⟩
  obtain ⟨k1, k2, k3⟩ := hrg a rg hr
  exact ⟨k1, by unfold rangeLen; omega⟩

/-- after completion, whatever claims and withdrawals happened before: the payment-token holdings
    cover the owner's recorded proceeds, the ticket refund of any participant who still has a
    range, and all NFT fees held in the same slot -/
theorem claim_refund_covered_nft (hash : List Nat → List Nat) (s : State) (r : Nat)
    (h : Reach hash .nft s r) (hd : AllDone s) (a : Nat) (rg : Range) (hr : s.range a = some rg) :
    s.claimablePayment + s.price * (s.confirmed a - winCountOf s a) + feeInPay s
      ≤ s.bal s.payTok 0 := by
  obtain ⟨L, _, hpost, _, _, hrg⟩ := three_counts_nft hash s r h hd
  have haL := (hrg a rg hr).1
  have hle := rb_le_sumOver (refundDue s) L a haL
  have hdue : refundDue s a = s.price * (s.confirmed a - winCountOf s a) := by
    simp only [refundDue, hr]
  omega

/-- (b) with the fee in the payment token: ticket refund, the full fee refund of a losing payer
    and both of the owner's withdrawals are covered together -/
theorem claim_refund_covered_same (hash : List Nat → List Nat) (s : State) (r : Nat)
    (h : Reach hash .nft s r) (hsame : FeeInPayToken s) (hd : AllDone s) (a : Nat) (rg : Range)
    (hr : s.range a = some rg) (ha : a ∈ s.payers) :
    s.claimablePayment + s.price * (s.confirmed a - winCountOf s a) + s.claimableNft +
      s.nftCost.amount ≤ s.bal s.payTok 0 := by
  have h1 := claim_refund_covered_nft hash s r h hd a rg hr
  have hz : feeInPay s = s.claimableNft + s.nftCost.amount * s.payers.length := by
    unfold feeInPay feeHeld; rw [if_pos hsame, hd.2]; rfl
  have : 0 < s.payers.length := List.length_pos_of_mem ha
  have : s.nftCost.amount * 1 ≤ s.nftCost.amount * s.payers.length := Nat.mul_le_mul_left _ this
  omega

/-- with a separate fee token the ledger of `three_counts_nft` is `PayEqPost` -/
theorem three_counts_nft_separate (hash : List Nat → List Nat) (s : State) (r : Nat)
    (h : Reach hash .nft s r) (hd : AllDone s) (hsep : FeeTokenSeparate s) :
    ∃ L : List Nat, Covers s L ∧ PayEqPost s L ∧ sumOver (winCountOf s) L = s.nrWinning ∧
      (∀ a, winCountOf s a ≤ s.confirmed a) ∧
      (∀ a rg, s.range a = some rg → a ∈ L ∧ rangeLen rg = s.confirmed a) := by
  obtain ⟨L, h1, h2, h3, h4, h5⟩ := three_counts_nft hash s r h hd
  have hz : feeInPay s = 0 := by
    have hn : ¬ FeeInPayToken s := hsep.1
    unfold feeInPay; rw [if_neg hn]
  rw [hz] at h2
  exact ⟨L, h1, h2, h3, h4, h5⟩

/-- at the completion of the base lottery `selectWinners`: winning flags = `nrWinning` =
    `min (configured winners) (confirmed tickets)`, proceeds = price × winners; the NFT draw is
    still to come (`flags.additional = false`) -/
theorem three_counts_at_completion_nft (hash : List Nat → List Nat) (a0 : InitArgs) (s : State)
    (r : Nat) (h : ReachA hash .nft a0 s r) (e : Env) (s' : State) (o : Out)
    (hs : step hash s e .select = .ok (s', o)) (hsel : s'.flags.selected = true) :
    countTrue s'.status s'.lastTicketId = s'.nrWinning ∧
    s'.nrWinning = min a0.nrWinning s'.lastTicketId ∧
    s'.claimablePayment = s'.price * s'.nrWinning ∧
    (∀ t, s'.status t = true → 1 ≤ t ∧ t ≤ s'.lastTicketId) :=
  nf_select_completion (nf_reach_WF h) hs hsel

/-- until the filter completes the winners count is the configured one -/
theorem winners_before_filter_nft (hash : List Nat → List Nat) (a0 : InitArgs) (s : State) (r : Nat)
    (h : ReachA hash .nft a0 s r) (hf : s.flags.filtered = false) : s.nrWinning = a0.nrWinning := by
  have hwf := nf_reach_WF h
  have hns : s.flags.selected = false := by
    cases hq : s.flags.selected with
    | false => rfl
    | true =>
      rcases hwf.phase with ⟨_, h2, _⟩ | ⟨_, hD, _⟩ | ⟨_, hD⟩
      · have h2' : s.flags.selected = false := h2
        rw [h2'] at hq; cases hq
      · have : s.flags.filtered = true := hD.filtered
        rw [hf] at this; cases this
      · have : s.flags.filtered = true := hD.filtered
        rw [hf] at this; cases this
  obtain ⟨_, hph⟩ := nf_phase_early hwf.phase hns
  obtain ⟨L0, hp, _⟩ := rb_phase_notFiltered hph hf
  exact hp.nrw

/-! ### non-vacuity: a concrete history through the whole lifecycle (configuration b, EGLD/EGLD) -/

def nArgs : InitArgs :=
  { lpTok := 1, perTicket := 5, payTok := .egld, price := 10, nrWinning := 1, conf := 5, sel := 10,
    claim := 15, nftCost := ⟨.egld, 0, 3⟩, availNfts := 1 }

def n0 : State := match init .nft nArgs { caller := 1, round := 0 } with
  | .ok s => s
  | .error _ => default

def n1 : State := stOf (step id n0 { caller := 1, round := 1 } (.addTickets [(7, 2), (8, 1)])) n0
def n2 : State := stOf (step id n1 { caller := 1, round := 2, esdts := [⟨.esdt 1, 0, 5⟩] } .deposit) n1
def n3 : State := stOf (step id n2 { caller := 9, round := 3 } .sftSetup) n2
def n4 : State := stOf (step id n3 { caller := 7, round := 5, egld := 20 } (.confirm 2)) n3
def n5 : State := stOf (step id n4 { caller := 8, round := 6, egld := 10 } (.confirm 1)) n4
def n6 : State := stOf (step id n5 { caller := 7, round := 7, egld := 3 } .confirmNft) n5
def n7 : State := stOf (step id n6 { caller := 8, round := 8, egld := 3 } .confirmNft) n6
def n8 : State := stOf (step id n7 { caller := 9, round := 10, budget := some 0 } .filter) n7
def n9 : State := stOf (step id n8 { caller := 9, round := 11 } .filter) n8
def n10 : State := stOf (step id n9 { caller := 9, round := 12 } .select) n9
def n11 : State := stOf (step id n10 { caller := 9, round := 13, budget := some 0 } .selectNft) n10
def n12 : State := stOf (step id n11 { caller := 9, round := 14 } .selectNft) n11
def n13 : State := stOf (step id n12 { caller := 7, round := 15 } .claim) n12
def n14 : State := stOf (step id n13 { caller := 1, round := 16 } .claimPayment) n13
def n15 : State := stOf (step id n14 { caller := 8, round := 17 } .claim) n14

theorem n0_reach : Reach id .nft n0 0 := Reach.init nArgs { caller := 1, round := 0 } n0 rfl

theorem n7_reach : Reach id .nft n7 8 :=
  Reach.callOk { caller := 8, round := 8, egld := 3 } .confirmNft
    (Reach.callOk { caller := 7, round := 7, egld := 3 } .confirmNft
      (Reach.callOk { caller := 8, round := 6, egld := 10 } (.confirm 1)
        (Reach.callOk { caller := 7, round := 5, egld := 20 } (.confirm 2)
          (Reach.callOk { caller := 9, round := 3 } .sftSetup
            (Reach.callOk { caller := 1, round := 2, esdts := [⟨.esdt 1, 0, 5⟩] } .deposit
              (Reach.callOk { caller := 1, round := 1 } (.addTickets [(7, 2), (8, 1)])
                n0_reach (by decide) (Or.inl rfl) (by show ∀ p ∈ [(7, 2), (8, 1)], 1 ≤ p.2; decide) rfl)
              (by decide) (Or.inl rfl) trivial rfl)
            (by decide) (Or.inl rfl) trivial rfl)
          (by decide) (Or.inr rfl) trivial rfl)
        (by decide) (Or.inr rfl) trivial rfl)
      (by decide) (Or.inr rfl) trivial rfl)
    (by decide) (Or.inr rfl) trivial rfl

theorem n9_reach : Reach id .nft n9 11 :=
  Reach.callOk { caller := 9, round := 11 } .filter
    (Reach.callOk { caller := 9, round := 10, budget := some 0 } .filter n7_reach
      (by decide) (Or.inl rfl) trivial rfl)
    (by decide) (Or.inl rfl) trivial rfl

/-- the hypotheses of the theorems are satisfiable: two participants who both pay the fee, one NFT,
    an interrupted filter call, an interrupted and a completing draw call -/
theorem n12_reach : Reach id .nft n12 14 :=
  Reach.callOk { caller := 9, round := 14 } .selectNft
    (Reach.callOk { caller := 9, round := 13, budget := some 0 } .selectNft
      (Reach.callOk { caller := 9, round := 12 } .select n9_reach
        (by decide) (Or.inl rfl) trivial rfl)
      (by decide) (Or.inl rfl) trivial rfl)
    (by decide) (Or.inl rfl) trivial rfl

theorem step_stOf {x : Res (State × Out)} (h : isOk x = true) (d : State) :
    ∃ o, x = .ok (stOf x d, o) := by
  cases x with
  | error err => cases h
  | ok q => exact ⟨q.2, rfl⟩

/-- `draw_end_to_end` applied to the concrete history: from `n9` (filter complete, base lottery
    not yet run) through `select`, an interrupted and a completing `selectNft` -/
example : n12.nftWinners.length = min n9.availNfts n9.payers.length ∧
    n12.claimableNft = n9.nftCost.amount * n12.nftWinners.length := by
  obtain ⟨a0, h⟩ := Reach_iff.mp n9_reach
  obtain ⟨o1, h1⟩ := step_stOf (x := step id n9 { caller := 9, round := 12 } .select) rfl n9
  obtain ⟨o2, h2⟩ := step_stOf
    (x := step id n10 { caller := 9, round := 13, budget := some 0 } .selectNft) rfl n10
  obtain ⟨o3, h3⟩ := step_stOf (x := step id n11 { caller := 9, round := 14 } .selectNft) rfl n11
  have hl : nf_Later id n9 11 n11 13 :=
    nf_Later.call n10 12 { caller := 9, round := 13, budget := some 0 } .selectNft n11 o2
      (nf_Later.call n9 11 { caller := 9, round := 12 } .select n10 o1 nf_Later.refl
        (by decide) (Or.inl rfl) trivial h1)
      (by decide) (Or.inl rfl) trivial h2
  obtain ⟨e1, e2, _⟩ := draw_end_to_end id a0 n9 11 h rfl rfl n11 13 hl
    { caller := 9, round := 14 } n12 o3 h3 rfl
  exact ⟨e1, e2⟩

theorem n13_reach : Reach id .nft n13 15 :=
  Reach.callOk { caller := 7, round := 15 } .claim n12_reach
    (by decide) (Or.inl rfl) trivial (by decide +kernel)

theorem n14_reach : Reach id .nft n14 16 :=
  Reach.callOk { caller := 1, round := 16 } .claimPayment n13_reach
    (by decide) (Or.inl rfl) trivial (by decide +kernel)

theorem n15_reach : Reach id .nft n15 17 :=
  Reach.callOk { caller := 8, round := 17 } .claim n14_reach
    (by decide) (Or.inl rfl) trivial (by decide +kernel)

example : FeeInPayToken n12 ∧ AllDone n12 := ⟨⟨rfl, rfl⟩, ⟨rfl, rfl⟩⟩

example : n7.bal .egld 0 = 36 ∧ n7.payers = [7, 8] ∧
    n11.flags.additional = false ∧ n11.payers = [8] ∧ n11.nftWinners = [7] ∧
    n12.nftWinners = [7] ∧ n12.claimableNft = 3 ∧ n12.bal .egld 0 = 36 := by decide +kernel

example : n13.bal .egld 0 = 26 ∧ n14.bal .egld 0 = 13 ∧ n15.bal .egld 0 = 0 ∧
    n15.payers = [] ∧ n15.nftWinners = [] := by decide +kernel

/-- the main theorem (b) applied to the concrete history -/
example : ∃ L : List Nat, Covers n12 L ∧ CombinedPost n12 L := by
  obtain ⟨L, h1, _, h3⟩ := C14b_solvent_same id n12 14 n12_reach ⟨rfl, rfl⟩
  exact ⟨L, h1, h3 ⟨rfl, rfl⟩⟩

/-- a separate fee token (configuration a) is accepted by deployment and by `confirmNft` as well -/
example : FeeTokenSeparate
    { variant := .nft, owner := 1, lpTok := 1, perTicket := 1, payTok := .egld, price := 10,
      nrWinning := 1, cfg := ⟨5, 10, 15⟩, flags := {}, support := 1,
      nftCost := ⟨.esdt 9, 0, 500⟩ } := by
  constructor <;> decide

end LP.Props.C14reach

#print axioms LP.Props.C14reach.C14_solvent_general
#print axioms LP.Props.C14reach.C14a_solvent_separate
#print axioms LP.Props.C14reach.C14a_fee_ledger
#print axioms LP.Props.C14reach.C14a_nothing_left
#print axioms LP.Props.C14reach.fee_refund_covered_separate
#print axioms LP.Props.C14reach.C14b_solvent_same
#print axioms LP.Props.C14reach.C14b_nothing_left
#print axioms LP.Props.C14reach.all_settled_lists_empty
#print axioms LP.Props.C14reach.nft_lists_reach
#print axioms LP.Props.C14reach.claimed_not_listed
#print axioms LP.Props.C14reach.draw_completion_reach
#print axioms LP.Props.C14reach.participants_frozen
#print axioms LP.Props.C14reach.draw_end_to_end
#print axioms LP.Props.C14reach.claim_category_reach
#print axioms LP.Props.C14reach.three_counts_nft
#print axioms LP.Props.C14reach.three_counts_nft_separate
#print axioms LP.Props.C14reach.claim_refund_covered_nft
#print axioms LP.Props.C14reach.claim_refund_covered_same
#print axioms LP.Props.C14reach.three_counts_at_completion_nft
#print axioms LP.Props.C14reach.winners_before_filter_nft
#print axioms LP.Props.C14reach.n12_reach
#print axioms LP.Props.C14reach.n15_reach
#print axioms LP.Props.C14reach.feeInPay_eq
#print axioms LP.Props.C14reach.n0_reach
#print axioms LP.Props.C14reach.n7_reach
#print axioms LP.Props.C14reach.n9_reach
#print axioms LP.Props.C14reach.n13_reach
#print axioms LP.Props.C14reach.n14_reach
#print axioms LP.Props.C14reach.step_stOf
