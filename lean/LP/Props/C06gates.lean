import LP.Proofs.StepLemmas
/-
  C06 (gating half) — which lifecycle phase each gated endpoint requires.
  The monotonicity half (the stage never moves backwards) is in LP/Props/C06stage.lean.
-/
namespace LP.Props.C06
open LP

theorem stage_lt_iff (s : State) (e : Env) :
    stageLt s e .winnerSelection = true ↔ (s.stage e = .addTickets ∨ s.stage e = .confirm) := by
  unfold stageLt
  cases h : s.stage e <;> simp [Stage.toNat]

/-- allocations are accepted only before confirmation starts -/
theorem alloc_only_in_addTickets (hash : List Nat → List Nat) (s : State) (e : Env) (c : Call) (r : State × Out)
    (hc : (∃ l, c = .addTickets l) ∨ (∃ l, c = .addTicketsV1 l) ∨ (∃ l, c = .addTicketsV2 l))
    (h : step hash s e c = .ok r) : s.stage e = .addTickets := by
  obtain ⟨s', o⟩ := r
  obtain ⟨m, t, _, _, _, hx, _, _⟩ := step_ok_inv h
  rcases hc with ⟨l, rfl⟩ | ⟨l, rfl⟩ | ⟨l, rfl⟩
  · simp [exec, bind_ok_iff, requireStage, tx0] at hx; exact hx.1
  · simp [exec, addTicketsV1, bind_ok_iff, requireStage, tx0] at hx; exact hx.1
  · simp [exec, addTicketsV2, bind_ok_iff, requireStage, tx0] at hx; exact hx.1

/-- price, tokens-per-ticket, NFT fee and the v2 schedule change only before confirmation starts -/
theorem terms_only_in_addTickets (hash : List Nat → List Nat) (s : State) (e : Env) (c : Call) (r : State × Out)
    (hc : (∃ a b, c = .setTicketPrice a b) ∨ (∃ a, c = .setPerTicket a) ∨ (∃ a, c = .setNftCost a) ∨
          (∃ l, c = .setSchedule2 l))
    (h : step hash s e c = .ok r) : s.stage e = .addTickets := by
  obtain ⟨s', o⟩ := r
  obtain ⟨m, t, _, _, _, hx, _, _⟩ := step_ok_inv h
  rcases hc with ⟨a, b, rfl⟩ | ⟨a, rfl⟩ | ⟨a, rfl⟩ | ⟨l, rfl⟩
  · simp [exec, bind_ok_iff, requireStage, tx0] at hx; exact hx.1
  · simp [exec, bind_ok_iff, requireStage, tx0] at hx; exact hx.1
  · simp [exec, bind_ok_iff, requireStage, tx0] at hx; exact hx.1
  · simp [exec, setSchedule2, bind_ok_iff, requireStage, tx0] at hx; exact hx.1

/-- the v1 schedule changes only before confirmation starts, or when none has been set yet -/
theorem schedule1_gate (hash : List Nat → List Nat) (s : State) (e : Env) (a b c d f : Nat) (r : State × Out)
    (h : step hash s e (.setSchedule1 a b c d f) = .ok r) : e.round < s.cfg.conf ∨ s.sched1 = none := by
  obtain ⟨s', o⟩ := r
  obtain ⟨m, t, _, _, _, hx, _, _⟩ := step_ok_inv h
  simp [exec, setSchedule1, bind_ok_iff, tx0] at hx
  rcases hx.1 with h1 | h1
  · exact Or.inl (of_decide_eq_true h1)
  · right
    have : (creditPayments s e).sched1 = s.sched1 := rfl
    rw [← this]
    simpa [Option.isNone_iff_eq_none] using h1

/-- confirmations (tickets and NFT fee) only inside the confirmation window -/
theorem confirm_only_in_confirm (hash : List Nat → List Nat) (s : State) (e : Env) (c : Call) (r : State × Out)
    (hc : (∃ n, c = .confirm n) ∨ c = .confirmNft)
    (h : step hash s e c = .ok r) : s.stage e = .confirm := by
  obtain ⟨s', o⟩ := r
  obtain ⟨m, t, _, _, _, hx, _, _⟩ := step_ok_inv h
  rcases hc with ⟨n, rfl⟩ | rfl
  · simp only [exec, confirmTickets, bind_ok_iff, requireStage, tx0] at hx
    obtain ⟨_, _, _, _, _, hst, _⟩ := hx
    simpa using hst
  · simp only [exec, confirmNft, bind_ok_iff, requireStage, tx0] at hx
    obtain ⟨_, ⟨_, hst, _⟩, _⟩ := hx
    simpa using hst

/-- blacklist changes only before selection starts -/
theorem blacklist_only_before_selection (hash : List Nat → List Nat) (s : State) (e : Env) (c : Call) (r : State × Out)
    (hc : (∃ l, c = .blacklist l) ∨ (∃ l, c = .refundUsers l) ∨ (∃ l, c = .unblacklist l))
    (h : step hash s e c = .ok r) : s.stage e = .addTickets ∨ s.stage e = .confirm := by
  rw [← stage_lt_iff]
  cases hlt : stageLt s e .winnerSelection with
  | true => rfl
  | false =>
    exfalso
    obtain ⟨s', o⟩ := r
    obtain ⟨m, t, _, _, _, hx, _, _⟩ := step_ok_inv h
    have hlt' : stageLt (creditPayments s e) e .winnerSelection = false := hlt
    rcases hc with ⟨l, rfl⟩ | ⟨l, rfl⟩ | ⟨l, rfl⟩
    · simp only [exec, addUsersToBlacklist, bind_ok_iff, tx0, hlt'] at hx
      obtain ⟨_, ⟨_, _, _, hst, _⟩, _⟩ := hx
      simp at hst
    · simp only [exec, addUsersToBlacklist, bind_ok_iff, tx0, hlt'] at hx
      obtain ⟨_, ⟨_, _, _, hst, _⟩, _⟩ := hx
      simp at hst
    · simp only [exec, removeUsersFromBlacklist, bind_ok_iff, tx0, hlt'] at hx
      obtain ⟨_, ⟨_, _, _, hst, _⟩, _⟩ := hx
      simp at hst

/-- selection steps only during selection, each gated by the flags of the previous ones:
    filter (not yet filtered) → base selection (filtered, not yet selected) →
    additional step (selected, not yet completed) -/
theorem filter_gate (hash : List Nat → List Nat) (s : State) (e : Env) (r : State × Out)
    (h : step hash s e .filter = .ok r) : s.stage e = .winnerSelection ∧ s.flags.filtered = false := by
  obtain ⟨s', o⟩ := r
  obtain ⟨m, t, _, _, _, hx, _, _⟩ := step_ok_inv h
  simp [exec, filterTickets, bind_ok_iff, requireStage, tx0] at hx
  exact ⟨hx.2.1, hx.2.2.1⟩

theorem select_gate (hash : List Nat → List Nat) (s : State) (e : Env) (r : State × Out)
    (h : step hash s e .select = .ok r) :
    s.stage e = .winnerSelection ∧ s.flags.filtered = true ∧ s.flags.selected = false := by
  obtain ⟨s', o⟩ := r
  obtain ⟨m, t, _, _, _, hx, _, _⟩ := step_ok_inv h
  simp [exec, selectWinners, bind_ok_iff, requireStage, tx0] at hx
  exact ⟨hx.2.1, hx.2.2.2.1, hx.2.2.2.2.1⟩

theorem additional_gate (hash : List Nat → List Nat) (s : State) (e : Env) (c : Call) (r : State × Out)
    (hc : c = .distribute ∨ c = .selectNft ∨ c = .secondary)
    (h : step hash s e c = .ok r) :
    s.stage e = .winnerSelection ∧ s.flags.selected = true ∧ s.flags.additional = false := by
  obtain ⟨s', o⟩ := r
  obtain ⟨m, t, _, _, _, hx, _, _⟩ := step_ok_inv h
  by_cases hst : (s.stage e == Stage.winnerSelection) = true
  · by_cases hsel : s.flags.selected = true
    · by_cases hadd : s.flags.additional = false
      · exact ⟨by simpa using hst, hsel, hadd⟩
      · exfalso
        have hadd' : s.flags.additional = true := by simpa using hadd
        rcases hc with rfl | rfl | rfl
        · unfold exec distribute at hx
          by_cases hv : s.variant.isV2 = true <;> by_cases hp : s.paused = true <;>
            by_cases hou : (e.caller == s.owner || !e.callerIsContract) = true <;>
            simp [tx0, hv, hp, hou, hst, hsel, hadd', requireStage, ownerOrUser, req, bind, Except.bind] at hx
        · simp [exec, selectNft, tx0, hst, hsel, hadd', requireStage, req, bind, Except.bind] at hx
        · simp [exec, secondary, tx0, hst, hsel, hadd', requireStage, req, bind, Except.bind] at hx
    · exfalso
      have hsel' : s.flags.selected = false := by simpa using hsel
      rcases hc with rfl | rfl | rfl
      · unfold exec distribute at hx
        by_cases hv : s.variant.isV2 = true <;> by_cases hp : s.paused = true <;>
          by_cases hou : (e.caller == s.owner || !e.callerIsContract) = true <;>
          simp [tx0, hv, hp, hou, hst, hsel', requireStage, ownerOrUser, req, bind, Except.bind] at hx
      · simp [exec, selectNft, tx0, hst, hsel', requireStage, req, bind, Except.bind] at hx
      · simp [exec, secondary, tx0, hst, hsel', requireStage, req, bind, Except.bind] at hx
  · exfalso
    have hst' : (s.stage e == Stage.winnerSelection) = false := by simpa using hst
    rcases hc with rfl | rfl | rfl
    · unfold exec distribute at hx
      by_cases hv : s.variant.isV2 = true <;> by_cases hp : s.paused = true <;>
        simp [tx0, hv, hp, hst', requireStage, req, bind, Except.bind] at hx
    · simp [exec, selectNft, tx0, hst', requireStage, req, bind, Except.bind] at hx
    · simp [exec, secondary, tx0, hst', requireStage, req, bind, Except.bind] at hx

/-- the claim phase presupposes that every selection step has completed and the claim round is reached -/
theorem claim_stage_means_all_done (round : Nat) (c : Cfg) (f : Flags) (h : stageOf round c f = .claim) :
    f.selected = true ∧ f.additional = true ∧ c.claim ≤ round ∧ c.sel ≤ round := by
  unfold stageOf at h
  split at h; · simp at h
  split at h; · simp at h
  split at h; · simp at h
  split at h; · simp at h
  rename_i h1 h2 h3 h4
  simp at h3
  exact ⟨h3.1, h3.2, by omega, by omega⟩

/-- owner withdrawal only in the claim phase (all variants) -/
theorem claimPayment_gate (hash : List Nat → List Nat) (s : State) (e : Env) (r : State × Out)
    (h : step hash s e .claimPayment = .ok r) : s.stage e = .claim := by
  obtain ⟨s', o⟩ := r
  obtain ⟨m, t, _, _, _, hx, _, _⟩ := step_ok_inv h
  by_cases hst : (s.stage e == Stage.claim) = true
  · simpa using hst
  · exfalso
    have hst' : (s.stage e == Stage.claim) = false := by simpa using hst
    unfold exec at hx
    by_cases hv : s.variant.vested = true
    · simp [tx0, hv, claimPaymentOwn, hst', requireStage, req, bind, Except.bind] at hx
    · simp [tx0, hv, claimPaymentCommon, hst', requireStage, req, bind, Except.bind] at hx

/-- a participant's settlement (first claim) only in the claim phase; in the vesting variants a
    later call of an already settled participant only releases vested tokens -/
theorem claim_gate (hash : List Nat → List Nat) (s : State) (e : Env) (r : State × Out)
    (h : step hash s e .claim = .ok r) : s.stage e = .claim ∨ (s.variant.vested = true ∧ s.claimed e.caller = true) := by
  obtain ⟨s', o⟩ := r
  obtain ⟨m, t, _, _, _, hx, _, _⟩ := step_ok_inv h
  by_cases hst : (s.stage e == Stage.claim) = true
  · exact Or.inl (by simpa using hst)
  · have hst' : (s.stage e == Stage.claim) = false := by simpa using hst
    by_cases hv : s.variant.vested = true
    · by_cases hcl : s.claimed e.caller = true
      · exact Or.inr ⟨hv, hcl⟩
      · exfalso
        have hcl' : (creditPayments s e).claimed e.caller = false := by simpa [creditPayments] using hcl
        unfold exec at hx
        by_cases hv2 : s.variant.isV2 = true <;> by_cases hp : s.paused = true <;>
          simp [tx0, hv, hv2, hp, hcl', claimVested, settle, hst', requireStage, req, bind, Except.bind] at hx
    · exfalso
      unfold exec at hx
      simp [tx0, hv, settle, hst', requireStage, req, bind, Except.bind] at hx

/-- non-vacuity: a claim-phase state exists and `claim_stage_means_all_done` applies to it -/
example : stageOf 15 ⟨5, 10, 15⟩ { filtered := true, selected := true, additional := true } = .claim := by decide

end LP.Props.C06

#print axioms LP.Props.C06.alloc_only_in_addTickets
#print axioms LP.Props.C06.terms_only_in_addTickets
#print axioms LP.Props.C06.schedule1_gate
#print axioms LP.Props.C06.confirm_only_in_confirm
#print axioms LP.Props.C06.blacklist_only_before_selection
#print axioms LP.Props.C06.filter_gate
#print axioms LP.Props.C06.select_gate
#print axioms LP.Props.C06.additional_gate
#print axioms LP.Props.C06.claim_stage_means_all_done
#print axioms LP.Props.C06.claimPayment_gate
#print axioms LP.Props.C06.claim_gate

#print axioms LP.Props.C06.stage_lt_iff
