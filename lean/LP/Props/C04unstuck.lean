import LP.Proofs.Unstuck
import LP.Props.C02reach
import LP.Props.C13reachV2
import LP.Props.C14reach
/-
  C04 "every step reports completion after finitely many resumed calls and cannot be left stuck"
  and C19 "resuming an operation that was interrupted before the pause", at the level of
  REACHABLE STATES.

  `be_Covered hash s r` (LP/Proofs/ReachBEAll.lean): `s` is a reachable state (latest transaction
  at a round `≤ r`) of one of the eight launchpads.  `Reach hash .nft s r`: reachable state of the
  launchpad with NFT draw.

  Vocabulary (LP/Proofs/Unstuck.lean):
  * `us_NoPay e`         the call carries neither EGLD nor ESDT;
  * `us_filLeft s`       `lastTicketId + 1 - cursor`, cursor = saved `first` (1 when nothing is saved);
  * `us_selLeft s`       `nrWinning + 1 - pos`, pos = saved position (1 when nothing is saved);
  * `us_nftLeft s`       `min |payers| (availNfts - |nftWinners|)`;
  * `us_Outcome s' o e flag left s`   the call reported completion (`ret = [0]`, flag set, no
                         operation saved) or — only possible with a finite budget — an interruption
                         (`ret = [1]`, flag not set, an operation saved, `left s' < left s`); it
                         changed neither `paused` nor the timeline nor the owner;
  * `us_hist c es`       the history that calls endpoint `c` once in each environment of `es`;
  * `us_Kept s s'`       same cursor (saved operation + all the data the loops work on), same
                         completion flags, same selection round.

  PARTIAL (task item 3): the additional step is proved never stuck, with its bound, for
  `Variant.nft` (`selectNft_never_stuck`, `selectNft_completes`); for `Variant.guarV2` the step
  is proved ALWAYS ACCEPTED and completing with an unlimited budget
  (`distribute_v2_never_stuck_partial`) — the strictly decreasing measure / the bound on the
  number of calls is missing.  For `distribute` of the v1 family and `secondary` (nftGuar) only the
  endpoint-level results exist; the full statements are recorded at the end of this file, with
  what is missing.
-/
namespace LP.Props.C04unstuck
open LP LP.Props.C17

variable (hash : List Nat → List Nat)

/-! ## 1. `filterTickets` -/

/-- **filter_never_stuck.**  In every reachable state of any of the eight launchpads in which the
    filter has not completed, once the selection round is reached and while the contract is not
    paused, a `filter` call (no payment, any caller, any budget) is ACCEPTED, whatever is saved:
    (a) only `op = .none` or a filter cursor can be saved in such a state;
    (b) at most `lastTicketId` ids are left;
    (c) the call either completes (`[0]`, `filtered`, nothing saved) or is interrupted (`[1]`,
        a filter cursor saved) having strictly decreased the number of ids left — the latter only
        with a finite budget; the resulting state is again reachable, not paused, same timeline. -/
theorem filter_never_stuck (s : State) (r : Nat) (e : Env) (hs : be_Covered hash s r)
    (hnf : s.flags.filtered = false) (hr : r ≤ e.round) (hsel : s.cfg.sel ≤ e.round)
    (hegld : e.egld = 0) (hesdt : e.esdts = []) (hp : s.paused = false) :
    (s.op = .none ∨ ∃ f rm, s.op = .filter f rm) ∧ us_filLeft s ≤ s.lastTicketId ∧
    ∃ s' o, step hash s e .filter = .ok (s', o) ∧ be_Covered hash s' e.round ∧
      s'.paused = false ∧ s'.cfg = s.cfg ∧
      ((o.ret = [0] ∧ s'.flags.filtered = true ∧ s'.op = .none) ∨
       (o.ret = [1] ∧ s'.flags.filtered = false ∧ (∃ f rm, s'.op = .filter f rm) ∧
          us_filLeft s' < us_filLeft s ∧ e.budget ≠ none)) ∧
      (e.budget = none → o.ret = [0] ∧ s'.flags.filtered = true ∧ s'.op = .none) := by
  obtain ⟨h1, h2, s', o, hst, hcov, hout⟩ :=
    us_filter_never_stuck hash hs hnf hr hsel ⟨hegld, hesdt⟩ hp
  refine ⟨h1, h2, s', o, hst, hcov, by rw [hout.paused]; exact hp, hout.cfg, ?_, hout.unlimited⟩
  rcases hout.cases with h | ⟨h3, h4, h5, h6, h7⟩
  · exact Or.inl h
  · refine Or.inr ⟨h3, h4, ?_, h6, h7⟩
    obtain ⟨_, f, rm, _, hop, _⟩ := (us_live_covered hcov).fil h4
    rcases hop with ⟨hop, _⟩ | hop
    · exact absurd hop h5
    · exact ⟨f, rm, hop⟩

/-- any `us_filLeft s + 1 ≤ lastTicketId + 1` successive `filter` calls (arbitrary callers,
    budgets, non-decreasing rounds from the selection round on, no payment) complete the filter;
    calls after completion are rejected and change nothing -/
theorem filter_completes (s : State) (r : Nat) (hs : be_Covered hash s r) (hsel : s.cfg.sel ≤ r)
    (hp : s.paused = false) (es : List Env) (hr : RoundsFrom r (us_hist .filter es))
    (hpay : ∀ e ∈ es, us_NoPay e) (hlen : us_filLeft s + 1 ≤ es.length) :
    (run hash s (us_hist .filter es)).flags.filtered = true :=
  us_filter_completes hash hs hsel hp es hr hpay hlen

/-- the bound of the property text: `lastTicketId + 1` calls always suffice -/
theorem filter_completes_within_last (s : State) (r : Nat) (hs : be_Covered hash s r)
    (hsel : s.cfg.sel ≤ r) (hp : s.paused = false) (es : List Env)
    (hr : RoundsFrom r (us_hist .filter es)) (hpay : ∀ e ∈ es, us_NoPay e)
    (hlen : s.lastTicketId + 1 ≤ es.length) :
    (run hash s (us_hist .filter es)).flags.filtered = true := by
  cases hf : s.flags.filtered with
  | true =>
    rw [us_run_done hash .filter (fun s => s.flags.filtered)
      (fun s e h => us_filter_rejected_when_done hash s e h) es s hf]
    exact hf
  | false =>
    cases es with
    | nil => simp at hlen
    | cons e rest =>
      have hr1 : r ≤ e.round := hr.1
      have hle := (us_filter_never_stuck hash hs hf hr1 (Nat.le_trans hsel hr1)
        (hpay e (List.mem_cons_self ..)) hp).2.1
      exact us_filter_completes hash hs hsel hp _ hr hpay (by omega)

/-! ## 2. `selectWinners` -/

/-- **select_never_stuck.**  In every reachable state of any of the eight launchpads with the
    filter complete and the base lottery not, in the selection stage, contract not paused, a
    `select` call by the owner or by a non-contract account (no payment, any budget, ANY seeds —
    a seed is only read when `op = .none`, and an absent seed is replaced by the zero seed) is
    accepted; only `.none` or a `.select` cursor can be saved; at most `nrWinning` positions are
    left; the call completes or strictly decreases the number of positions left. -/
theorem select_never_stuck (s : State) (r : Nat) (e : Env) (hs : be_Covered hash s r)
    (hf : s.flags.filtered = true) (hns : s.flags.selected = false) (hr : r ≤ e.round)
    (hsel : s.cfg.sel ≤ e.round) (hegld : e.egld = 0) (hesdt : e.esdts = [])
    (hp : s.paused = false) (hcaller : e.caller = s.owner ∨ e.callerIsContract = false) :
    (s.op = .none ∨ ∃ rg p, s.op = .select rg p) ∧ us_selLeft s ≤ s.nrWinning ∧
    ∃ s' o, step hash s e .select = .ok (s', o) ∧ be_Covered hash s' e.round ∧
      s'.paused = false ∧ s'.cfg = s.cfg ∧ s'.owner = s.owner ∧
      ((o.ret = [0] ∧ s'.flags.selected = true ∧ s'.op = .none) ∨
       (o.ret = [1] ∧ s'.flags.selected = false ∧ s'.op ≠ .none ∧
          us_selLeft s' < us_selLeft s ∧ e.budget ≠ none)) ∧
      (e.budget = none → o.ret = [0] ∧ s'.flags.selected = true ∧ s'.op = .none) := by
  obtain ⟨h1, h2, s', o, hst, hcov, hout⟩ :=
    us_select_never_stuck hash hs hf hns hr hsel ⟨hegld, hesdt⟩ hp hcaller
  exact ⟨h1, h2, s', o, hst, hcov, by rw [hout.paused]; exact hp, hout.cfg, hout.owner, hout.cases,
    hout.unlimited⟩

/-- any `us_selLeft s + 1 ≤ nrWinning + 1` successive `select` calls complete the lottery -/
theorem select_completes (s : State) (r : Nat) (hs : be_Covered hash s r)
    (hf : s.flags.filtered = true) (hsel : s.cfg.sel ≤ r) (hp : s.paused = false) (es : List Env)
    (hr : RoundsFrom r (us_hist .select es))
    (hq : ∀ e ∈ es, us_NoPay e ∧ (e.caller = s.owner ∨ e.callerIsContract = false))
    (hlen : us_selLeft s + 1 ≤ es.length) :
    (run hash s (us_hist .select es)).flags.selected = true :=
  us_select_completes hash hs hf hsel hp es hr hq hlen

theorem select_completes_within_nrWinning (s : State) (r : Nat) (hs : be_Covered hash s r)
    (hf : s.flags.filtered = true) (hsel : s.cfg.sel ≤ r) (hp : s.paused = false) (es : List Env)
    (hr : RoundsFrom r (us_hist .select es))
    (hq : ∀ e ∈ es, us_NoPay e ∧ (e.caller = s.owner ∨ e.callerIsContract = false))
    (hlen : s.nrWinning + 1 ≤ es.length) :
    (run hash s (us_hist .select es)).flags.selected = true := by
  cases hsd : s.flags.selected with
  | true =>
    rw [us_run_done hash .select (fun s => s.flags.selected)
      (fun s e h => us_select_rejected_when_done hash s e h) es s hsd]
    exact hsd
  | false =>
    cases es with
    | nil => simp at hlen
    | cons e rest =>
      have hr1 : r ≤ e.round := hr.1
      have hq1 := hq e (List.mem_cons_self ..)
      have hle := (us_select_never_stuck hash hs hf hsd hr1 (Nat.le_trans hsel hr1) hq1.1 hp
        hq1.2).2.1
      exact us_select_completes hash hs hf hsel hp _ hr hq (by omega)

/-! ## 3. the additional step: `selectNft` (launchpad-with-nft) -/

/-- in every reachable state of the launchpad with NFT draw, base lottery complete and NFT draw
    not: `selectNft` (the endpoint has no pause gate and no caller gate) is accepted from the
    selection round on; only `.none` or an `.nft` cursor can be saved; the call completes or
    strictly decreases `us_nftLeft ≤ availNfts` -/
theorem selectNft_never_stuck (s : State) (r : Nat) (e : Env) (hs : Reach hash .nft s r)
    (hsd : s.flags.selected = true) (hna : s.flags.additional = false) (hr : r ≤ e.round)
    (hsel : s.cfg.sel ≤ e.round) (hegld : e.egld = 0) (hesdt : e.esdts = []) :
    (s.op = .none ∨ ∃ rg, s.op = .additional (.nft rg)) ∧ us_nftLeft s ≤ s.availNfts ∧
    ∃ s' o, step hash s e .selectNft = .ok (s', o) ∧ Reach hash .nft s' e.round ∧
      s'.flags.selected = true ∧ s'.cfg = s.cfg ∧
      ((o.ret = [0] ∧ s'.flags.additional = true ∧ s'.op = .none) ∨
       (o.ret = [1] ∧ s'.flags.additional = false ∧ s'.op ≠ .none ∧
          us_nftLeft s' < us_nftLeft s ∧ e.budget ≠ none)) ∧
      (e.budget = none → o.ret = [0] ∧ s'.flags.additional = true ∧ s'.op = .none) := by
  obtain ⟨h1, h2, s', o, hst, hre, hsd', hout⟩ :=
    us_nft_never_stuck hash hs hsd hna hr hsel ⟨hegld, hesdt⟩
  exact ⟨h1, h2, s', o, hst, hre, hsd', hout.cfg, hout.cases, hout.unlimited⟩

theorem selectNft_completes (s : State) (r : Nat) (hs : Reach hash .nft s r)
    (hsd : s.flags.selected = true) (hsel : s.cfg.sel ≤ r) (es : List Env)
    (hr : RoundsFrom r (us_hist .selectNft es)) (hpay : ∀ e ∈ es, us_NoPay e)
    (hlen : us_nftLeft s + 1 ≤ es.length) :
    (run hash s (us_hist .selectNft es)).flags.additional = true :=
  us_nft_completes hash hs hsd hsel es hr hpay hlen

/-- **`distribute` (guarV2), PARTIAL**: in every reachable state with the base lottery complete
    and the distribution not, un-paused, in the selection stage, a `distribute` call by the owner
    or a non-contract account is ACCEPTED whatever is saved (only `.none` or a `.guar` cursor can
    be) and whatever the budget — neither loop can fail or run out of fuel; it reports `[0]`
    (step complete) or, only with a finite budget, `[1]`; with an unlimited budget it completes.
    MISSING for the full statement: the strictly decreasing measure
    `|whitelist| + (lastTicketId + 1 - (nrWinning + offset))` on interrupted calls and hence the bound
    `|whitelist| + lastTicketId + 2` on the number of calls (the two ingredients exist at loop level:
    `C04select.dist_whitelist_progress`, `C03final.C03_leftover_v2_iterations`). -/
theorem distribute_v2_never_stuck_partial (s : State) (r : Nat) (e : Env)
    (hs : Reach hash .guarV2 s r) (hsd : s.flags.selected = true)
    (hna : s.flags.additional = false) (hr : r ≤ e.round) (hsel : s.cfg.sel ≤ e.round)
    (hegld : e.egld = 0) (hesdt : e.esdts = []) (hp : s.paused = false)
    (hcaller : e.caller = s.owner ∨ e.callerIsContract = false) :
    (s.op = .none ∨ ∃ g, s.op = .additional (.guar g)) ∧
    ∃ s' o, step hash s e .distribute = .ok (s', o) ∧ Reach hash .guarV2 s' e.round ∧
      s'.paused = false ∧ s'.cfg = s.cfg ∧
      ((o.ret = [0] ∧ s'.flags.additional = true) ∨
       (o.ret = [1] ∧ s'.flags.additional = false ∧ e.budget ≠ none)) :=
  us_dist_v2_never_stuck hash hs hsd hna hr hsel ⟨hegld, hesdt⟩ hp hcaller

/-! ## 4. C19: a pause between the calls of an interrupted operation loses nothing -/

/-- `pause`, then calls that are all rejected (as every `filter` / `select` / `confirm` call is
    while the flag is set), then `unpause`: the state is EXACTLY the state before the pause, so
    every later call — in particular the resumed one — behaves as if the pause had never
    happened -/
theorem pause_does_not_lose_progress (s : State) (e1 e2 : Env) (mid : Hist) (s1 s2 : State)
    (o1 o2 : Out) (hnp : s.paused = false) (h1 : step hash s e1 .pause = .ok (s1, o1))
    (hmid : ∀ ec ∈ mid, ∃ err, step hash s1 ec.1 ec.2 = .error err)
    (h2 : step hash s1 e2 .unpause = .ok (s2, o2)) :
    s1.op = s.op ∧ s1.cursor = s.cursor ∧ s1.flags = s.flags ∧
    (∀ e, ∃ err, step hash s1 e .filter = .error err) ∧
    (∀ e, ∃ err, step hash s1 e .select = .error err) ∧
    run hash s ((e1, Call.pause) :: mid ++ [(e2, Call.unpause)]) = s ∧
    ∀ e c, step hash (run hash s ((e1, Call.pause) :: mid ++ [(e2, Call.unpause)])) e c
      = step hash s e c := by
  have hs1 := (C19.pause_effect hash s e1 s1 o1 h1).1
  have hp1 : s1.paused = true := by rw [hs1]
  have hrt := C19frame.pause_roundtrip hash s e1 e2 mid s1 s2 o1 o2 hnp h1 hmid h2
  refine ⟨by rw [hs1], by rw [hs1]; rfl, by rw [hs1],
    fun e => C19.paused_rejects hash s1 e .filter hp1 (Or.inr (Or.inl rfl)),
    fun e => C19.paused_rejects hash s1 e .select hp1 (Or.inr (Or.inr rfl)), hrt, ?_⟩
  intro e c
  rw [hrt]

/-- the general frame: from a reachable state with a saved operation, in the selection stage,
    ANY history — accepted or rejected calls, pauses and un-pauses included — none of whose calls
    is the endpoint resuming the saved operation, leads to a reachable state with the same cursor,
    the same loop data, the same completion flags and the same selection round -/
theorem saved_operation_survives (s : State) (r : Nat) (hs : be_Covered hash s r)
    (hop : s.op ≠ .none) (hfl : (s.flags.selected && s.flags.additional) = false)
    (hsel : s.cfg.sel ≤ r) (h : Hist) (hr : RoundsFrom r h) (hok : ∀ p ∈ h, be_HistOK p.1 p.2)
    (hres : ∀ p ∈ h, p.2.resumes s.op = false) :
    us_Kept s (run hash s h) ∧
    ∃ r', be_Covered hash (run hash s h) r' ∧ r ≤ r' ∧
      ∀ q : Hist, RoundsFrom r (h ++ q) → RoundsFrom r' q :=
  us_frame_run hash hs hop hfl hsel h hr hok hres

/-- **interrupted filter, then anything but `filter` — pauses included.**  As soon as the contract
    is un-paused again, the next `filter` call is accepted and continues from the saved cursor:
    nothing of the progress made before the pause is lost (`us_filLeft` unchanged), and the call
    completes or makes further progress -/
theorem filter_resumes_after_pause (s : State) (r : Nat) (hs : be_Covered hash s r) (f rm : Nat)
    (hop : s.op = .filter f rm) (hsel : s.cfg.sel ≤ r) (h : Hist) (hr : RoundsFrom r h)
    (hok : ∀ p ∈ h, be_HistOK p.1 p.2) (hnf : ∀ p ∈ h, p.2 ≠ .filter)
    (hp : (run hash s h).paused = false) (e : Env)
    (hre : RoundsFrom r (h ++ [(e, .filter)])) (hpay : us_NoPay e) :
    us_Kept s (run hash s h) ∧ us_filLeft (run hash s h) = us_filLeft s ∧
    ∃ s' o, step hash (run hash s h) e .filter = .ok (s', o) ∧ be_Covered hash s' e.round ∧
      us_Outcome s' o e (fun s => s.flags.filtered) us_filLeft (run hash s h) :=
  us_filter_resume_after hash hs hop hsel h hr hok hnf hp e hre hpay

/-- the same for an interrupted `select` -/
theorem select_resumes_after_pause (s : State) (r : Nat) (hs : be_Covered hash s r) (rg : Rng)
    (pos : Nat) (hop : s.op = .select rg pos) (hf : s.flags.filtered = true)
    (hns : s.flags.selected = false) (hsel : s.cfg.sel ≤ r) (h : Hist) (hr : RoundsFrom r h)
    (hok : ∀ p ∈ h, be_HistOK p.1 p.2) (hnf : ∀ p ∈ h, p.2 ≠ .select)
    (hp : (run hash s h).paused = false) (e : Env)
    (hre : RoundsFrom r (h ++ [(e, .select)])) (hpay : us_NoPay e)
    (hcaller : e.caller = (run hash s h).owner ∨ e.callerIsContract = false) :
    us_Kept s (run hash s h) ∧ us_selLeft (run hash s h) = us_selLeft s ∧
    ∃ s' o, step hash (run hash s h) e .select = .ok (s', o) ∧ be_Covered hash s' e.round ∧
      us_Outcome s' o e (fun s => s.flags.selected) us_selLeft (run hash s h) :=
  us_select_resume_after hash hs hop hf hns hsel h hr hok hnf hp e hre hpay hcaller

/-! ## non-vacuity: the concrete history `ex0 … ex7` of `C01reach` (base launchpad, `T0 = 1`,
    participants 7 and 8 hold 2 + 1 tickets and confirm them; `ex4` = before the filter,
    `ex5` = after a `filter` call with budget 0 (interrupted), `ex6` = filtered) -/

open LP.Props.C01reach LP.PL

theorem ex4_reach : Reach id .base ex4 6 :=
  Reach.callOk { caller := 8, round := 6, egld := 10 } (.confirm 1)
    (Reach.callOk { caller := 7, round := 5, egld := 20 } (.confirm 2) ex2_reach
      (by decide) (Or.inr rfl) trivial rfl)
    (by decide) (Or.inr rfl) trivial rfl

theorem ex5_reach : Reach id .base ex5 10 :=
  Reach.callOk { caller := 9, round := 10, budget := some 0 } .filter ex4_reach
    (by decide) (Or.inl rfl) trivial rfl

theorem ex6_reach : Reach id .base ex6 11 :=
  Reach.callOk { caller := 9, round := 11 } .filter ex5_reach (by decide) (Or.inl rfl) trivial rfl

/-- hypotheses of `filter_never_stuck` on `ex4` (nothing saved) and on `ex5` (a filter cursor is
    saved, 1 id fewer left), and of `select_never_stuck` on `ex6` -/
example : be_Covered id ex4 6 ∧ ex4.flags.filtered = false ∧ ex4.cfg.sel ≤ 10 ∧ ex4.paused = false ∧
    ex4.op = .none ∧ us_filLeft ex4 = 3 :=
  ⟨.plain (Or.inl rfl) ex4_reach, rfl, by decide, rfl, rfl, by decide⟩

example : be_Covered id ex5 10 ∧ ex5.flags.filtered = false ∧ ex5.cfg.sel ≤ 10 ∧
    ex5.paused = false ∧ ex5.op = .filter 3 0 ∧ us_filLeft ex5 = 1 ∧ ex5.lastTicketId = 3 :=
  ⟨.plain (Or.inl rfl) ex5_reach, rfl, by decide, rfl, by decide, by decide, by decide⟩

example : be_Covered id ex6 11 ∧ ex6.flags.filtered = true ∧ ex6.flags.selected = false ∧
    ex6.paused = false ∧ ex6.op = .none ∧ us_selLeft ex6 = 1 :=
  ⟨.plain (Or.inl rfl) ex6_reach, rfl, rfl, rfl, rfl, by decide⟩

/-- the conclusion of `filter_never_stuck` on the instance: budget 0 from `ex4` is interrupted
    with progress, the unlimited call from `ex5` completes -/
example :
    (match step id ex4 { caller := 9, round := 10, budget := some 0 } .filter with
     | .ok (s', o) => some (o.ret, s'.flags.filtered, us_filLeft s')
     | .error _ => none) = some ([1], false, 1) ∧
    (match step id ex5 { caller := 3, round := 12 } .filter with
     | .ok (s', o) => some (o.ret, s'.flags.filtered, decide (s'.op = .none))
     | .error _ => none) = some ([0], true, true) := by
  constructor <;> decide

/-- `pause_does_not_lose_progress` / `filter_resumes_after_pause` on the instance: after the
    interrupted filter the owner pauses, somebody tries `filter` (rejected), the support address
    is changed (accepted), the owner un-pauses; the saved cursor is intact and the resumed call
    completes -/
def exPauseHist : Hist :=
  [({ caller := 1, round := 10 }, .pause), ({ caller := 1, round := 11 }, .setSupport 4),
   ({ caller := 1, round := 12 }, .unpause)]

example : RoundsFrom 10 exPauseHist ∧ (∀ p ∈ exPauseHist, be_HistOK p.1 p.2) ∧
    (∀ p ∈ exPauseHist, p.2 ≠ .filter) ∧ (run id ex5 exPauseHist).paused = false ∧
    (run id ex5 exPauseHist).op = ex5.op ∧ (run id ex5 exPauseHist).support = 4 := by
  refine ⟨⟨by decide, by decide, by decide, trivial⟩, ?_, ?_, by decide, by decide, by decide⟩
  · intro p hp
    simp only [exPauseHist, List.mem_cons, List.mem_nil_iff, or_false] at hp
    rcases hp with rfl | rfl | rfl <;> exact ⟨Or.inl rfl, trivial, trivial⟩
  · intro p hp
    simp only [exPauseHist, List.mem_cons, List.mem_nil_iff, or_false] at hp
    rcases hp with rfl | rfl | rfl <;> exact nofun

example :
    (match step id ex5 { caller := 1, round := 10 } .pause with
     | .ok (s1, _) =>
       (match step id s1 { caller := 9, round := 11 } .filter with
        | .ok _ => none
        | .error _ => some (decide (s1.op = ex5.op)))
     | .error _ => none) = some true := by decide

/-! ### the additional steps: `n10` / `n11` (launchpad with NFT draw: lottery complete; an
    interrupted draw call) and `x7` (guarV2: lottery complete, distribution not started) -/

open LP.Props.C14reach LP.VV

theorem n10_reach : Reach id .nft n10 12 :=
  Reach.callOk { caller := 9, round := 12 } .select n9_reach (by decide) (Or.inl rfl) trivial rfl

theorem n11_reach : Reach id .nft n11 13 :=
  Reach.callOk { caller := 9, round := 13, budget := some 0 } .selectNft n10_reach
    (by decide) (Or.inl rfl) trivial rfl

example : n10.flags.selected = true ∧ n10.flags.additional = false ∧ n10.cfg.sel ≤ 13 ∧
    n10.op = .none ∧ us_nftLeft n10 = 1 := ⟨rfl, rfl, by decide, rfl, by decide⟩

example : n11.flags.selected = true ∧ n11.flags.additional = false ∧
    (∃ rg, n11.op = .additional (.nft rg)) ∧ us_nftLeft n11 = 0 :=
  ⟨rfl, rfl, ⟨_, rfl⟩, by decide⟩

theorem x7_reach : Reach id .guarV2 x7 11 :=
  Reach.callOk { caller := 9, round := 11 } .select
    (Reach.callOk { caller := 9, round := 10 } .filter x5_reach (by decide) (Or.inl rfl) trivial rfl)
    (by decide) (Or.inl rfl) trivial rfl

example : x7.flags.selected = true ∧ x7.flags.additional = false ∧ x7.paused = false ∧
    x7.cfg.sel ≤ 12 ∧ x7.op = .none ∧
    (match step id x7 { caller := 9, round := 12, budget := some 0 } .distribute with
     | .ok (s', o) => some (o.ret, s'.flags.additional)
     | .error _ => none) = some ([1], false) :=
  ⟨rfl, rfl, rfl, by decide, rfl, by decide⟩

end LP.Props.C04unstuck

/-
  NOT PROVED (task item 3, remaining endpoints) — full statements:

  distribute_never_stuck_v2 (full form) :
    … hypotheses of `distribute_v2_never_stuck_partial` … →
    ∃ s' o, step hash s e .distribute = .ok (s', o) ∧ Reach hash .guarV2 s' e.round ∧
      us_Outcome s' o e (fun s => s.flags.additional)
        (fun s => s.whitelist.length + (s.lastTicketId + 1 - (s.nrWinning + offset s))) s
    (bound: |whitelist| + lastTicketId + 2 calls).
  PROVED: acceptance for every budget / completion with an unlimited budget
  (`distribute_v2_never_stuck_partial`).  MISSING: the strict measure on an interrupted call — in the
  first loop the stored whitelist gets shorter (`C04select.dist_whitelist_progress`), in the second
  the saved `offset` increases on every v2 iteration (`leftover_v2_run` in LP/Proofs/Leftover2.lean
  uses `last + 1 - (nrOrig + offset)` as its fuel measure, but does not export it for an
  interrupted run).

  distribute_never_stuck_v1_partial (migration, lockedGuar, guarV1), secondary (nftGuar):
  guaranteed phase never stuck as for v2 (`v1_loop1`); the leftover phase makes progress only when
  the draw does not hit an already winning ticket (`C03final.C03_leftover_run_partial`,
  `C03_leftover_v1_may_spin` shows that the unconditional statement is FALSE for adversarial draw
  streams: the model's fuel `v1LeftoverFuel` can be exhausted, and the call is then rejected with
  "out of gas").
-/

#print axioms LP.Props.C04unstuck.filter_never_stuck
#print axioms LP.Props.C04unstuck.filter_completes
#print axioms LP.Props.C04unstuck.filter_completes_within_last
#print axioms LP.Props.C04unstuck.select_never_stuck
#print axioms LP.Props.C04unstuck.select_completes
#print axioms LP.Props.C04unstuck.select_completes_within_nrWinning
#print axioms LP.Props.C04unstuck.selectNft_never_stuck
#print axioms LP.Props.C04unstuck.selectNft_completes
#print axioms LP.Props.C04unstuck.distribute_v2_never_stuck_partial
#print axioms LP.Props.C04unstuck.pause_does_not_lose_progress
#print axioms LP.Props.C04unstuck.saved_operation_survives
#print axioms LP.Props.C04unstuck.filter_resumes_after_pause
#print axioms LP.Props.C04unstuck.select_resumes_after_pause
#print axioms LP.Props.C04unstuck.ex4_reach
#print axioms LP.Props.C04unstuck.ex5_reach
#print axioms LP.Props.C04unstuck.ex6_reach
#print axioms LP.Props.C04unstuck.n10_reach
#print axioms LP.Props.C04unstuck.n11_reach
#print axioms LP.Props.C04unstuck.x7_reach
