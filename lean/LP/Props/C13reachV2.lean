import LP.Proofs.ReachVVLive
import LP.Props.C01reachV2
/-
  C13 / C17 / C02 (reachable-state form) for `Variant.guarV2` — launchpad-guaranteed-tickets-v2:
  EXACTNESS of vesting along reachable histories.

  `Reach hash .guarV2 s r` (LP/Proofs/ReachBase.lean): `s` is reachable from some deployment of the
  v2 contract by accepted transactions with non-decreasing rounds (`EnvOK`: a transaction carries
  EGLD or ESDT, not both; `CallOK` puts no condition on the v2 endpoints; `filter`, `select`,
  `distribute` may be interrupted by any budget).  `sched2Of s` is the schedule in force: the stored
  milestone list `s.sched2`, or the default `[(0, 100 %)]` while none is stored;
  `entitled E p = E * p / 10000`.

  Main theorems
    1. `released_exact_guarV2`           the invariant `vv_Exact` (+ the `WF2` facts on vesting
                                         records) in every reachable state
       `entitlement_is_won_tickets_guarV2`  `userTotal a = perTicket ×` winning tickets of `a` at
                                         his settlement (ghost record `vv_ReachW`)
    2. `claim_releases_exactly_guarV2`   one accepted claim, first or repeat
       `repeat_claim_never_stuck_guarV2` a settled participant's claim is rejected only when
                                         paused or when he has received everything
       `first_claim_never_stuck_guarV2`  the settlement claim is accepted in the claim stage
    3. `vesting_path_independent_guarV2`, `vesting_path_independent_run_guarV2` (over `run`),
       `later_amount_guarV2`             any later history
    4. `schedule_frozen_guarV2`, `default_schedule_guarV2`, `no_schedule_stays_guarV2`,
       `setSchedule2_only_before_release_guarV2`
    5. `lp_exact_guarV2`, `lp_exact_unsettled_guarV2`, `owner_withdrawal_guarV2`,
       `vested_claim_covered_exact_guarV2`, `lp_nothing_left_exact_guarV2`
-/
namespace LP.VV
open LP LP.FY LP.Events

/-! ### 1. exactness of the booked amounts in every reachable state -/

/-- **exactness of the booked amounts (C13 as a reachable-state invariant)**: in every reachable
    state of the v2 launchpad
    * for every SETTLED participant `userClaimed` is EXACTLY the released amount
      `userTotal × unlockedPct2 r' sched / 10000` of the schedule in force at some round `r' ≤ r`
      (the round of his latest claim); hence for every participant it is `0` or that amount (the
      form of C13: a participant who has not settled has `userClaimed = 0`);
    * a stored schedule has at most 60 milestones and was accepted by `validSchedule2 t0` at some
      past round `t0 ≤ r` before the confirmation start round: it is non-empty, every milestone has
      `pct ≤ 100 %` and `t0 ≤ round ≤ t0 + 26280000`, the rounds are sorted, the percentages add up
      to exactly 100 %;
    * the unlocked percentage of the schedule in force never exceeds 100 %;
    * a participant who has not settled has no vesting record (`userTotal = userClaimed = 0`);
    * nobody is booked more than his entitlement;
    * every entitlement is a multiple of `perTicket` (which multiple:
      `entitlement_is_won_tickets_guarV2`). -/
theorem released_exact_guarV2 (hash : List Nat → List Nat) (s : State) (r : Nat)
    (h : Reach hash .guarV2 s r) :
    (∀ a, s.claimed a = true → ∃ r', r' ≤ r ∧
      s.userClaimed a = entitled (s.userTotal a) (unlockedPct2 r' (sched2Of s))) ∧
    (∀ a, s.userClaimed a = 0 ∨ ∃ r', r' ≤ r ∧
      s.userClaimed a = entitled (s.userTotal a) (unlockedPct2 r' (sched2Of s))) ∧
    (∀ ms, s.sched2 = some ms → ms.length ≤ 60 ∧ ∃ t0, t0 ≤ r ∧ t0 < s.cfg.conf ∧
      validSchedule2 t0 ms = true ∧ ms ≠ [] ∧
      (∀ m ∈ ms, m.2 ≤ 10000 ∧ t0 ≤ m.1 ∧ m.1 ≤ t0 + 26280000) ∧
      ms.Pairwise (fun a b => a.1 ≤ b.1) ∧ (ms.map (·.2)).sum = 10000) ∧
    (∀ now, unlockedPct2 now (sched2Of s) ≤ 10000) ∧
    (∀ a, s.claimed a = false → s.userTotal a = 0 ∧ s.userClaimed a = 0) ∧
    (∀ a, s.userClaimed a ≤ s.userTotal a) ∧
    (∀ a, ∃ k, s.userTotal a = k * s.perTicket) := by
  obtain ⟨a0, h⟩ := Reach_iff.mp h
  have hwf := reach_WF2 h
  have hx := vv_reach_Exact h
  refine ⟨hx.settled, hx.exact, fun ms hms => ?_, vv_pct_le hwf, fun a => (vv_records hwf a).1,
    fun a => (vv_records hwf a).2, hx.unit⟩
  obtain ⟨q1, t0, q2, q3, q4⟩ := hx.sch ms hms
  obtain ⟨k1, k2, k3, k4⟩ := vv_valid_props q4
  exact ⟨q1, t0, q2, q3, q4, k1, k2, k3, k4⟩

/-- **the entitlement is `perTicket ×` the winning tickets held at settlement**: every reachable
    state carries a ghost record `w` (`vv_ReachW`: `w a` is written exactly once, by the accepted
    first claim of `a`, with `winCountOf s a` = the number of winning tickets in his range in the
    state that claim is executed in) such that `userTotal a = w a × perTicket` for everybody, and
    `w a = 0` for whoever has not settled -/
theorem entitlement_is_won_tickets_guarV2 (hash : List Nat → List Nat) (s : State) (r : Nat)
    (h : Reach hash .guarV2 s r) :
    ∃ w, vv_ReachW hash s r w ∧
      ∀ a, s.userTotal a = w a * s.perTicket ∧ (s.claimed a = false → w a = 0) := by
  obtain ⟨w, hw⟩ := vv_reach_ghost h
  exact ⟨w, hw, vv_ghost_total hw⟩

/-! ### 2. one accepted claim -/

/-- **one vested claim, first or repeat, from any reachable state**: afterwards the caller's
    cumulative received amount `userClaimed` is EXACTLY the released part
    `userTotal × unlockedPct2 round sched / 10000` of his entitlement at the round of the call —
    whatever he claimed before (path independence) —; it did not decrease; it never exceeds the
    entitlement; it equals the entitlement once every milestone round (equivalently: the last one)
    has been reached; the contract's launchpad-token balance drops by exactly the increment; the
    call sends exactly one launchpad-token transfer of the increment to the caller and emits exactly
    one `claimLaunchpadTokens` event carrying the increment iff the increment is positive (preceded,
    on a first claim with losing confirmed tickets, by the payment-token refund and its event);
    nobody else's record is touched; the schedule is untouched; the entitlement is unchanged on a
    repeat claim and is `winning tickets × perTicket` (nothing booked before) on the first. -/
theorem claim_releases_exactly_guarV2 (hash : List Nat → List Nat) (s : State) (r : Nat)
    (h : Reach hash .guarV2 s r) (e : Env) (s' : State) (o : Out) (hr : r ≤ e.round)
    (hs : step hash s e .claim = .ok (s', o)) :
    s'.sched2 = s.sched2 ∧
    s'.userClaimed e.caller
      = entitled (s'.userTotal e.caller) (unlockedPct2 e.round (sched2Of s)) ∧
    s.userClaimed e.caller ≤ s'.userClaimed e.caller ∧
    s'.userClaimed e.caller ≤ s'.userTotal e.caller ∧
    ((∀ m ∈ sched2Of s, m.1 ≤ e.round) → s'.userClaimed e.caller = s'.userTotal e.caller) ∧
    (∀ hne : sched2Of s ≠ [], ((sched2Of s).getLast hne).1 ≤ e.round →
      s'.userClaimed e.caller = s'.userTotal e.caller) ∧
    s'.bal (.esdt s.lpTok) 0 + (s'.userClaimed e.caller - s.userClaimed e.caller)
      = s.bal (.esdt s.lpTok) 0 ∧
    (∃ rf, (s.claimed e.caller = true → rf = 0) ∧
      o.xfers = (if rf > 0 then [(e.caller, refundPay s rf)] else []) ++
        (if s'.userClaimed e.caller - s.userClaimed e.caller > 0 then
          [(e.caller, (⟨.esdt s.lpTok, 0, s'.userClaimed e.caller - s.userClaimed e.caller⟩ : Pay))]
          else []) ∧
      o.events = (if rf > 0 then [refundEv s e rf] else []) ++
        (if s'.userClaimed e.caller - s.userClaimed e.caller > 0 then
          [claimEv s e (s'.userClaimed e.caller - s.userClaimed e.caller)] else [])) ∧
    (∀ a, a ≠ e.caller → s'.userClaimed a = s.userClaimed a ∧ s'.userTotal a = s.userTotal a) ∧
    (s.claimed e.caller = true → s'.userTotal e.caller = s.userTotal e.caller) ∧
    (s.claimed e.caller = false →
      s'.userTotal e.caller = winCountOf s e.caller * s.perTicket ∧ s.userClaimed e.caller = 0) := by
  obtain ⟨a0, h⟩ := Reach_iff.mp h
  have hwf := reach_WF2 h
  have hx := vv_reach_Exact h
  obtain ⟨j1, _, _, _, j5, j6, j7, j8, _, j10, j11⟩ := vv_claim_effect hwf hx hr hs
  have hfull : ∀ now, unlockedPct2 now (sched2Of s) = 10000 →
      entitled (s'.userTotal e.caller) (unlockedPct2 now (sched2Of s)) = s'.userTotal e.caller :=
    fun now hn => by rw [hn]; exact entitled_full _
  refine ⟨j1, j5, j6, ?_, fun hall => ?_, fun hne hlast => ?_, j7, vv_claim_transfers hwf.var hs,
    fun a ha => ⟨(j8 a ha).1, (j8 a ha).2.1⟩, j10, fun hq => ⟨(j11 hq).1, (j11 hq).2.1⟩⟩
  · rw [j5]; exact entitled_le _ (vv_pct_le hwf _)
  · rw [j5]; exact hfull _ ((vv_sched_in_force hx).2.2.2 e.round hall)
  · rw [j5]; exact hfull _ (vv_sched_after_last hx e.round hne hlast)

/-- **a settled participant's claim is never stuck**: from any reachable state, a claim of a
    settled participant — contract not paused, no call value attached — is either accepted or
    rejected with "Already claimed all tokens", and in the latter case he has received his whole
    (positive) entitlement.  In particular the subtraction `claimable − claimed` of
    `compute_claimable_tokens` never underflows and the transfer never fails for lack of launchpad
    tokens, on any reachable history. -/
theorem repeat_claim_never_stuck_guarV2 (hash : List Nat → List Nat) (s : State) (r : Nat)
    (h : Reach hash .guarV2 s r) (e : Env) (hr : r ≤ e.round) (hcl : s.claimed e.caller = true)
    (hp : s.paused = false) (h1 : e.egld = 0) (h2 : e.esdts = []) :
    (∃ s' o, step hash s e .claim = .ok (s', o)) ∨
    (step hash s e .claim = .error (.user "Already claimed all tokens") ∧
      0 < s.userTotal e.caller ∧ s.userClaimed e.caller = s.userTotal e.caller) := by
  obtain ⟨a0, h⟩ := Reach_iff.mp h
  exact vv_repeat_claim_total hash (reach_WF2 h) (vv_reach_Exact h) e hr hcl hp h1 h2

/-- **the first claim is never stuck**: from any reachable state in the claim stage, the claim of
    a participant who has not settled yet and owns a ticket range — contract not paused, no call
    value attached — is accepted (settlement arithmetic, payment-token refund and launchpad-token
    instalment all succeed) -/
theorem first_claim_never_stuck_guarV2 (hash : List Nat → List Nat) (s : State) (r : Nat)
    (h : Reach hash .guarV2 s r) (e : Env) (hst : s.stage e = .claim)
    (hcl : s.claimed e.caller = false) (rg : Range) (hrg : s.range e.caller = some rg)
    (hp : s.paused = false) (h1 : e.egld = 0) (h2 : e.esdts = []) :
    ∃ s' o, step hash s e .claim = .ok (s', o) :=
  vv_first_claim_total hash h e hst hcl hrg hp h1 h2

/-! ### 3. path independence along histories -/

/-- **path independence along histories**: let `a = e.caller` have settled in a reachable state
    `s`.  Whatever happens afterwards (`vv_Later`: any accepted calls — claims of `a` at rounds
    `r1 ≤ r2 ≤ …`, claims of others, the owner's withdrawal, pause / unpause, rejected attempts to
    change the schedule — and the passing of time), after an accepted claim of `a` at round
    `e.round` his cumulative received amount is EXACTLY
    `userTotal a × unlockedPct2 e.round sched / 10000` for the entitlement `userTotal a` fixed at
    his settlement and the schedule in force in `s` — regardless of how many claims happened in
    between or when; it is at most the entitlement and equals it once every milestone round has
    been reached. -/
theorem vesting_path_independent_guarV2 (hash : List Nat → List Nat) (s : State) (r : Nat)
    (h : Reach hash .guarV2 s r) (e : Env) (hcl : s.claimed e.caller = true)
    (s1 : State) (r1 : Nat) (hl : vv_Later hash s r s1 r1)
    (s2 : State) (o : Out) (hr : r1 ≤ e.round) (hs : step hash s1 e .claim = .ok (s2, o)) :
    s2.userTotal e.caller = s.userTotal e.caller ∧ s2.sched2 = s.sched2 ∧
    s2.userClaimed e.caller
      = entitled (s.userTotal e.caller) (unlockedPct2 e.round (sched2Of s)) ∧
    s.userClaimed e.caller ≤ s2.userClaimed e.caller ∧
    s2.userClaimed e.caller ≤ s.userTotal e.caller ∧
    ((∀ m ∈ sched2Of s, m.1 ≤ e.round) → s2.userClaimed e.caller = s.userTotal e.caller) := by
  obtain ⟨a0, h⟩ := Reach_iff.mp h
  have hconf := vv_settled_conf (reach_WF2 h) hcl
  obtain ⟨f1, _, _, _, _⟩ := vv_later_frozen hconf hl
  obtain ⟨k1, k2, k3, _⟩ := vv_later_settled h hcl hl
  have h1reach : Reach hash .guarV2 s1 r1 := Reach_iff.mpr ⟨a0, (vv_Later.reach h hl).1⟩
  obtain ⟨j1, j2, j3, j4, j5, _, _, _, _, j10, _⟩ :=
    claim_releases_exactly_guarV2 hash s1 r1 h1reach e s2 o hr hs
  have hsc : sched2Of s1 = sched2Of s := vv_sched2Of_congr f1
  have hut : s2.userTotal e.caller = s.userTotal e.caller := by rw [j10 k1]; exact k2
  rw [hsc] at j2 j5
  rw [hut] at j2 j4 j5
  exact ⟨hut, by rw [j1]; exact f1, j2, by omega, j4, j5⟩

/-- **path independence over `run`**: let `a = e.caller` have settled in a reachable state `s`
    (round `r`).  Run ANY list `hist` of transactions on it (`run`: accepted ones change the state,
    rejected ones do not) — rounds non-decreasing and `≥ r`, each transaction carrying EGLD or ESDT
    but not both — and then an accepted claim of `a` at `e` (`e.round` not before the last round of
    `hist`): his cumulative received amount is exactly
    `userTotal a × unlockedPct2 e.round sched / 10000`, for the entitlement and the schedule of `s`,
    however many of the transactions in `hist` were claims of `a`, and at whichever rounds. -/
theorem vesting_path_independent_run_guarV2 (hash : List Nat → List Nat) (s : State) (r : Nat)
    (h : Reach hash .guarV2 s r) (e : Env) (hcl : s.claimed e.caller = true)
    (hist : LP.Props.C17.Hist) (hr : LP.Props.C17.RoundsFrom r (hist ++ [(e, .claim)]))
    (hok : ∀ p ∈ hist, EnvOK p.1 ∧ CallOK p.2)
    (s2 : State) (o : Out) (hs : step hash (run hash s hist) e .claim = .ok (s2, o)) :
    s2.userTotal e.caller = s.userTotal e.caller ∧ s2.sched2 = s.sched2 ∧
    s2.userClaimed e.caller
      = entitled (s.userTotal e.caller) (unlockedPct2 e.round (sched2Of s)) ∧
    s.userClaimed e.caller ≤ s2.userClaimed e.caller ∧
    s2.userClaimed e.caller ≤ s.userTotal e.caller ∧
    ((∀ m ∈ sched2Of s, m.1 ≤ e.round) → s2.userClaimed e.caller = s.userTotal e.caller) := by
  obtain ⟨r1, hr1, hl⟩ := vv_Later_run hash hist s r e .claim hr hok
  exact vesting_path_independent_guarV2 hash s r h e hcl _ r1 hl s2 o hr1 hs

/-- the same at EVERY later state (not only right after a claim of `a`): the entitlement and the
    schedule are those of `s`, the cumulative received amount never decreases, never exceeds the
    entitlement, and is `0` or the schedule's released amount at some round `r' ≤ r2` -/
theorem later_amount_guarV2 (hash : List Nat → List Nat) (s : State) (r : Nat)
    (h : Reach hash .guarV2 s r) (a : Nat) (hcl : s.claimed a = true) (s2 : State) (r2 : Nat)
    (hl : vv_Later hash s r s2 r2) :
    s2.claimed a = true ∧ s2.userTotal a = s.userTotal a ∧ s2.sched2 = s.sched2 ∧
    s2.perTicket = s.perTicket ∧
    s.userClaimed a ≤ s2.userClaimed a ∧ s2.userClaimed a ≤ s.userTotal a ∧
    (s2.userClaimed a = 0 ∨
      ∃ r', r' ≤ r2 ∧ s2.userClaimed a = entitled (s.userTotal a) (unlockedPct2 r' (sched2Of s))) := by
  obtain ⟨a0, h⟩ := Reach_iff.mp h
  have hconf := vv_settled_conf (reach_WF2 h) hcl
  obtain ⟨f1, _, f3, _, _⟩ := vv_later_frozen hconf hl
  obtain ⟨k1, k2, k3, _⟩ := vv_later_settled h hcl hl
  have h2 := (vv_Later.reach h hl).1
  have hwf2 := reach_WF2 h2
  have hx2 := vv_reach_Exact h2
  have j2 := (vv_records hwf2 a).2
  refine ⟨k1, k2, f1, f3, k3, by rw [← k2]; exact j2, ?_⟩
  rcases hx2.exact a with h0 | ⟨r', hr', h0⟩
  · exact Or.inl h0
  · refine Or.inr ⟨r', hr', ?_⟩
    rw [h0, k2, vv_sched2Of_congr f1]

/-! ### 4. the schedule is frozen once the confirmation period has started; the default -/

/-- **C17 / C13 `schedule_frozen` along reachability**: from a (reachable or not) state in which
    the confirmation start round has been reached, no sequence of accepted calls changes the stored
    schedule — whether one is stored or not —, the confirmation start round or `perTicket` -/
theorem schedule_frozen_guarV2 (hash : List Nat → List Nat) (s : State) (r : Nat)
    (hconf : s.cfg.conf ≤ r) (s2 : State) (r2 : Nat) (hl : vv_Later hash s r s2 r2) :
    s2.sched2 = s.sched2 ∧ s2.cfg.conf = s.cfg.conf ∧ s2.perTicket = s.perTicket :=
  ⟨(vv_later_frozen hconf hl).1, (vv_later_frozen hconf hl).2.1, (vv_later_frozen hconf hl).2.2.1⟩

/-- if no schedule was stored when the confirmation period started, none is ever stored: the
    default `[(0, 100 %)]` stays in force for ever -/
theorem no_schedule_stays_guarV2 (hash : List Nat → List Nat) (s : State) (r : Nat)
    (hconf : s.cfg.conf ≤ r) (hnone : s.sched2 = none) (s2 : State) (r2 : Nat)
    (hl : vv_Later hash s r s2 r2) :
    s2.sched2 = none ∧ sched2Of s2 = defaultSchedule2 ∧ ∀ now, unlockedPct2 now (sched2Of s2) = 10000 := by
  have h1 : s2.sched2 = none := by rw [(vv_later_frozen hconf hl).1]; exact hnone
  have h2 : sched2Of s2 = defaultSchedule2 := by unfold sched2Of; rw [h1]; rfl
  exact ⟨h1, h2, fun now => by rw [h2]; exact unlockedPct2_default now⟩

/-- **the DEFAULT behaviour** (no schedule was ever set: `unlockedPct2 _ defaultSchedule2 = 100 %`
    at every round, `unlockedPct2_default_props`): an accepted claim from a reachable state without
    a stored schedule releases EVERYTHING at once — after the call the caller has received his whole
    entitlement; on his first claim that is `winning tickets × perTicket` launchpad tokens, paid in
    this very call; a repeat claim (accepted only when the entitlement is `0`; otherwise `claimable2`
    rejects it with "Already claimed all tokens") pays nothing. -/
theorem default_schedule_guarV2 (hash : List Nat → List Nat) (s : State) (r : Nat)
    (h : Reach hash .guarV2 s r) (hnone : s.sched2 = none) (e : Env) (s' : State) (o : Out)
    (hr : r ≤ e.round) (hs : step hash s e .claim = .ok (s', o)) :
    s'.sched2 = none ∧ s'.userClaimed e.caller = s'.userTotal e.caller ∧
    (s.claimed e.caller = false →
      s'.userClaimed e.caller = winCountOf s e.caller * s.perTicket ∧
      s'.bal (.esdt s.lpTok) 0 + winCountOf s e.caller * s.perTicket = s.bal (.esdt s.lpTok) 0) ∧
    (s.claimed e.caller = true → s'.userClaimed e.caller = s.userClaimed e.caller ∧
      s'.bal (.esdt s.lpTok) 0 = s.bal (.esdt s.lpTok) 0) := by
  obtain ⟨j1, j2, j3, _, _, _, j7, _, _, j10, j11⟩ :=
    claim_releases_exactly_guarV2 hash s r h e s' o hr hs
  have hdef : sched2Of s = defaultSchedule2 := by unfold sched2Of; rw [hnone]; rfl
  have hall : s'.userClaimed e.caller = s'.userTotal e.caller := by
    rw [j2, hdef, unlockedPct2_default]; exact entitled_full _
  refine ⟨by rw [j1]; exact hnone, hall, fun hq => ?_, fun hq => ?_⟩
  · obtain ⟨q1, q2⟩ := j11 hq
    rw [hall, q1] at j7 ⊢
    rw [q2, Nat.sub_zero] at j7
    exact ⟨rfl, j7⟩
  · obtain ⟨hset, _⟩ := released_exact_guarV2 hash s r h
    obtain ⟨r', _, h1⟩ := hset e.caller hq
    rw [hdef, unlockedPct2_default, entitled_full] at h1
    have h2 := j10 hq
    have h3 : s'.userClaimed e.caller = s.userClaimed e.caller := by omega
    rw [h3, Nat.sub_self, Nat.add_zero] at j7
    exact ⟨h3, j7⟩

/-- the schedule can be (re)placed only while nobody has been paid: an accepted `setSchedule2`
    from a reachable state finds `userClaimed = 0` and `userTotal = 0` for everybody, and stores a
    valid schedule of at most 60 milestones -/
theorem setSchedule2_only_before_release_guarV2 (hash : List Nat → List Nat) (s : State) (r : Nat)
    (h : Reach hash .guarV2 s r) (e : Env) (ms : List (Nat × Nat)) (s' : State) (o : Out)
    (hr : r ≤ e.round) (hs : step hash s e (.setSchedule2 ms) = .ok (s', o)) :
    (∀ u, s.userClaimed u = 0 ∧ s.userTotal u = 0) ∧ s'.sched2 = some ms ∧ ms.length ≤ 60 ∧
    validSchedule2 e.round ms = true ∧ e.round < s.cfg.conf := by
  obtain ⟨a0, h⟩ := Reach_iff.mp h
  have hwf := reach_WF2 h
  have hst : s.stage e = .addTickets :=
    LP.Props.C06.terms_only_in_addTickets hash s e _ _ (Or.inr (Or.inr (Or.inr ⟨ms, rfl⟩))) hs
  have hlt : e.round < s.cfg.conf := rb_stage_addTickets hst
  have hns : s.flags.started = false := v2_notStarted_of_lt hwf hr (Or.inl hlt)
  obtain ⟨hna, _⟩ := v2_phase_notStarted hwf.phase hns
  have hf := (hwf.lp.pre hna).fresh
  obtain ⟨m, t, _, _, _, hxx, rfl, _⟩ := step_ok_inv hs
  simp only [exec] at hxx
  obtain ⟨_, k2, k3, rfl⟩ := (setSchedule2_eq_ok _ _ _ _).mp hxx
  exact ⟨fun u => ⟨(hf u).2.1, (hf u).1⟩, rfl, k2, k3, hlt⟩

/-! ### 5. the launchpad-token ledger in closed form -/

/-- **the launchpad-token balance in closed form** (an EQUALITY, not just coverage): once every
    selection step is complete, in every reachable state (deposit made or not, owner withdrawn or
    not, any number of vested claims),

      balance = (owner's not yet withdrawn surplus `ownSurplus`)
              + perTicket × (winning tickets of the participants who have not settled: `nrWinning`,
                             which is `Σ winCountOf` by `three_counts_guarV2`)
              + Σ over the settled participants (userTotal − userClaimed). -/
theorem lp_exact_guarV2 (hash : List Nat → List Nat) (s : State) (r : Nat)
    (h : Reach hash .guarV2 s r) (hd : AllDone s) :
    ∃ L : List Nat, L.Nodup ∧ (∀ a, a ∉ L → s.userTotal a = 0 ∧ s.userClaimed a = 0) ∧
      s.bal (.esdt s.lpTok) 0 = ownSurplus s + s.perTicket * s.nrWinning
        + sumOver (fun a => s.userTotal a - s.userClaimed a) L := by
  obtain ⟨a0, h⟩ := Reach_iff.mp h
  exact vv_lp_exact (reach_WF2 h) hd

/-- the closed form with the unsettled winners spelled out: `Lw` lists the participants who may
    still hold a range (their winning tickets add up to `nrWinning`), `L` those with a vesting record -/
theorem lp_exact_unsettled_guarV2 (hash : List Nat → List Nat) (s : State) (r : Nat)
    (h : Reach hash .guarV2 s r) (hd : AllDone s) :
    ∃ Lw L : List Nat, Covers s Lw ∧ (∀ a rg, s.range a = some rg → a ∈ Lw) ∧
      L.Nodup ∧ (∀ a, a ∉ L → s.userTotal a = 0 ∧ s.userClaimed a = 0) ∧
      s.bal (.esdt s.lpTok) 0 = ownSurplus s + s.perTicket * sumOver (winCountOf s) Lw
        + sumOver (fun a => s.userTotal a - s.userClaimed a) L := by
  obtain ⟨Lw, h1, _, hwin, _, hrg⟩ := LP.Props.C01reachV2.three_counts_guarV2 hash s r h hd
  obtain ⟨L, k1, k2, k3⟩ := lp_exact_guarV2 hash s r h hd
  exact ⟨Lw, L, h1, fun a rg hr => (hrg a rg hr).1, k1, k2, by rw [hwin]; exact k3⟩

/-- coverage as a corollary of the closed form: the balance covers the owner's surplus, the
    launchpad tokens of ALL winning tickets not yet settled, and everything still owed to any
    settled participant (= `owner_surplus_safe_guarV2` of C01reachV2, re-derived from the equality) -/
theorem vested_claim_covered_exact_guarV2 (hash : List Nat → List Nat) (s : State) (r : Nat)
    (h : Reach hash .guarV2 s r) (hd : AllDone s) (a : Nat) :
    ownSurplus s + s.perTicket * s.nrWinning + (s.userTotal a - s.userClaimed a)
      ≤ s.bal (.esdt s.lpTok) 0 := by
  obtain ⟨a0, h⟩ := Reach_iff.mp h
  obtain ⟨L, haL, _, _, heq⟩ := vv_lp_exact_with (reach_WF2 h) hd a
  have := rb_le_sumOver (fun x => s.userTotal x - s.userClaimed x) L a haL
  have this' : s.userTotal a - s.userClaimed a ≤ sumOver (fun x => s.userTotal x - s.userClaimed x) L := this
  omega

/-- **the owner's withdrawal**: an accepted `claimPayment` from a reachable state pays the recorded
    proceeds and exactly `ownSurplus` launchpad tokens, clears both records, and leaves in the
    contract exactly the unsettled winners' tokens plus everything still owed to the settled -/
theorem owner_withdrawal_guarV2 (hash : List Nat → List Nat) (s : State) (r : Nat)
    (h : Reach hash .guarV2 s r) (e : Env) (s' : State) (o : Out) (hr : r ≤ e.round) (hok : EnvOK e)
    (hs : step hash s e .claimPayment = .ok (s', o)) :
    AllDone s ∧ s'.claimablePayment = 0 ∧ s'.totalDeposited = 0 ∧ s'.nrWinning = s.nrWinning ∧
    s'.bal (.esdt s.lpTok) 0 + ownSurplus s = s.bal (.esdt s.lpTok) 0 ∧
    s'.bal s.payTok 0 + s.claimablePayment = s.bal s.payTok 0 ∧
    ∃ L : List Nat, L.Nodup ∧ (∀ a, a ∉ L → s'.userTotal a = 0 ∧ s'.userClaimed a = 0) ∧
      s'.bal (.esdt s'.lpTok) 0 = s'.perTicket * s'.nrWinning
        + sumOver (fun a => s'.userTotal a - s'.userClaimed a) L := by
  have h' : Reach hash .guarV2 s' e.round := .call s r e .claimPayment s' o h hr hok trivial hs
  obtain ⟨a0, h0⟩ := Reach_iff.mp h
  have hwf := reach_WF2 h0
  obtain ⟨t, hx, rfl⟩ := rb_step_np (by intro m hm; simp [endpointMeta] at hm; rw [← hm]) hs
  obtain ⟨hvest, _⟩ := v2_flags hwf.var
  simp only [exec, rbTx_s, hvest, if_true] at hx
  obtain ⟨hst, hle1, hle2, hts⟩ := v2_claimPaymentOwn_state hwf.tokNe hx
  obtain ⟨hsel, hadd, _, _⟩ := v2_stage_claim hst
  have hne : Token.esdt s.lpTok ≠ s.payTok := fun hh => hwf.tokNe hh.symm
  have hd' : AllDone t.s := by rw [hts]; exact ⟨hsel, hadd⟩
  obtain ⟨L, k1, k2, k3⟩ := lp_exact_guarV2 hash t.s e.round h' hd'
  have hsur : ownSurplus t.s = 0 := by unfold ownSurplus; rw [hts]; rfl
  rw [hsur, Nat.zero_add] at k3
  refine ⟨⟨hsel, hadd⟩, by rw [hts], by rw [hts], by rw [hts], ?_, ?_, L, k1, k2, k3⟩
  · rw [hts]
    show ((s.bal.sub s.payTok 0 s.claimablePayment).sub (.esdt s.lpTok) 0 (ownSurplus s)) (.esdt s.lpTok) 0
      + ownSurplus s = _
    simp only [Bal.sub, hne, and_self, false_and, if_true, if_false]
    omega
  · rw [hts]
    show ((s.bal.sub s.payTok 0 s.claimablePayment).sub (.esdt s.lpTok) 0 (ownSurplus s)) s.payTok 0
      + s.claimablePayment = _
    simp only [Bal.sub, hwf.tokNe, and_self, false_and, if_true, if_false]
    omega

/-- **nothing is left** (`lp_nothing_left_guarV2` of C01reachV2, here as a corollary of the closed
    form): once every participant has settled and claimed everything and the owner has withdrawn
    (`totalDeposited` cleared), the contract holds no launchpad tokens; and conversely, as long as
    the balance is positive after the owner's withdrawal, somebody has not settled or is still owed
    a part of his entitlement -/
theorem lp_nothing_left_exact_guarV2 (hash : List Nat → List Nat) (s : State) (r : Nat)
    (h : Reach hash .guarV2 s r) (hd : AllDone s) (hown : s.totalDeposited = 0) :
    ((∀ a, s.range a = none) → (∀ a, s.userClaimed a = s.userTotal a) →
      s.bal (.esdt s.lpTok) 0 = 0) ∧
    (0 < s.bal (.esdt s.lpTok) 0 →
      0 < s.nrWinning ∨ ∃ a, s.userClaimed a < s.userTotal a) := by
  obtain ⟨L, _, _, heq⟩ := lp_exact_guarV2 hash s r h hd
  have hsur : ownSurplus s = 0 := by unfold ownSurplus; rw [if_pos hown]
  constructor
  · intro hall hclaimed
    exact LP.Props.C01reachV2.lp_nothing_left_guarV2 hash s r h hd hall hclaimed hown
  · intro hpos
    by_cases hnw : 0 < s.nrWinning
    · exact Or.inl hnw
    · right
      have hnw0 : s.nrWinning = 0 := by omega
      apply Classical.byContradiction
      intro hno
      have hsum : sumOver (fun a => s.userTotal a - s.userClaimed a) L = 0 :=
        sumOver_zero _ _ (fun a _ => by
          show s.userTotal a - s.userClaimed a = 0
          have : ¬ s.userClaimed a < s.userTotal a := fun hh => hno ⟨a, hh⟩
          omega)
      rw [heq, hsur, hnw0, hsum] at hpos
      simp at hpos

/-! ### non-vacuity: a concrete guarV2 history through the whole lifecycle with a milestone schedule

  Two participants (7: one guaranteed ticket, two of three tickets confirmed; 8: one ticket
  confirmed), `T0 = 2`, `perTicket = 20`, three milestones "25 % at round 16, 25 % at round 26,
  50 % at round 50".  7 wins both tickets (entitlement 40) and claims at rounds 16 (25 % → 10),
  26 (50 % → 20 in total), 30 (nothing new) and 50 (100 % → 40 in total); the owner withdraws in
  between; 8 settles with no winning ticket (refund only); a late `setSchedule2` is rejected. -/

open LP.Props.C01reach (stOf isOk)

def xArgs : InitArgs :=
  { lpTok := 1, perTicket := 20, payTok := .egld, price := 10, nrWinning := 2, conf := 5, sel := 10, claim := 15 }

def xSched : List (Nat × Nat) := [(16, 2500), (26, 2500), (50, 5000)]

def x0 : State := match init .guarV2 xArgs { caller := 1, round := 0 } with
  | .ok s => s
  | .error _ => default

def x1 : State := stOf (step id x0 { caller := 1, round := 1 }
  (.addTicketsV2 [(7, 3, [(1, 1)]), (8, 1, []), (9, 0, [])])) x0
def x2 : State := stOf (step id x1 { caller := 1, round := 1 } (.setSchedule2 xSched)) x1
def x3 : State := stOf (step id x2 { caller := 1, round := 2, esdts := [⟨.esdt 1, 0, 40⟩] } .deposit) x2
def x4 : State := stOf (step id x3 { caller := 7, round := 5, egld := 20 } (.confirm 2)) x3
def x5 : State := stOf (step id x4 { caller := 8, round := 6, egld := 10 } (.confirm 1)) x4
def x6 : State := stOf (step id x5 { caller := 9, round := 10 } .filter) x5
def x7 : State := stOf (step id x6 { caller := 9, round := 11 } .select) x6
def x8 : State := stOf (step id x7 { caller := 9, round := 12 } .distribute) x7
def x9 : State := stOf (step id x8 { caller := 7, round := 16 } .claim) x8
def x10 : State := stOf (step id x9 { caller := 1, round := 17 } .claimPayment) x9
def x11 : State := stOf (step id x10 { caller := 7, round := 26 } .claim) x10
def x12 : State := stOf (step id x11 { caller := 7, round := 30 } .claim) x11
def x13 : State := stOf (step id x12 { caller := 8, round := 31 } .claim) x12
def x14 : State := stOf (step id x13 { caller := 7, round := 50 } .claim) x13

open LP.Props.C01reach (Reach.callOk) in
theorem x0_reach : Reach id .guarV2 x0 0 := Reach.init xArgs { caller := 1, round := 0 } x0 rfl

open LP.Props.C01reach (Reach.callOk) in
theorem x5_reach : Reach id .guarV2 x5 6 :=
  Reach.callOk { caller := 8, round := 6, egld := 10 } (.confirm 1)
    (Reach.callOk { caller := 7, round := 5, egld := 20 } (.confirm 2)
      (Reach.callOk { caller := 1, round := 2, esdts := [⟨.esdt 1, 0, 40⟩] } .deposit
        (Reach.callOk { caller := 1, round := 1 } (.setSchedule2 xSched)
          (Reach.callOk { caller := 1, round := 1 }
            (.addTicketsV2 [(7, 3, [(1, 1)]), (8, 1, []), (9, 0, [])])
            x0_reach (by decide) (Or.inl rfl) trivial rfl)
          (by decide) (Or.inl rfl) trivial rfl)
        (by decide) (Or.inl rfl) trivial rfl)
      (by decide) (Or.inr rfl) trivial rfl)
    (by decide) (Or.inr rfl) trivial rfl

open LP.Props.C01reach (Reach.callOk) in
theorem x8_reach : Reach id .guarV2 x8 12 :=
  Reach.callOk { caller := 9, round := 12 } .distribute
    (Reach.callOk { caller := 9, round := 11 } .select
      (Reach.callOk { caller := 9, round := 10 } .filter x5_reach
        (by decide) (Or.inl rfl) trivial rfl)
      (by decide) (Or.inl rfl) trivial rfl)
    (by decide) (Or.inl rfl) trivial rfl

open LP.Props.C01reach (Reach.callOk) in
theorem x9_reach : Reach id .guarV2 x9 16 :=
  Reach.callOk { caller := 7, round := 16 } .claim x8_reach (by decide) (Or.inl rfl) trivial rfl

open LP.Props.C01reach (Reach.callOk) in
theorem x14_reach : Reach id .guarV2 x14 50 :=
  Reach.callOk { caller := 7, round := 50 } .claim
    (Reach.callOk { caller := 8, round := 31 } .claim
      (Reach.callOk { caller := 7, round := 30 } .claim
        (Reach.callOk { caller := 7, round := 26 } .claim
          (Reach.callOk { caller := 1, round := 17 } .claimPayment x9_reach
            (by decide) (Or.inl rfl) trivial rfl)
          (by decide) (Or.inl rfl) trivial rfl)
        (by decide) (Or.inl rfl) trivial rfl)
      (by decide) (Or.inl rfl) trivial rfl)
    (by decide) (Or.inl rfl) trivial rfl

/-- the later history after 7's settlement, as a `vv_Later` -/
theorem x9_later_x13 : vv_Later id x9 16 x13 31 :=
  .call x12 30 { caller := 8, round := 31 } .claim x13 _
    (.call x11 26 { caller := 7, round := 30 } .claim x12 _
      (.call x10 17 { caller := 7, round := 26 } .claim x11 _
        (.call x9 16 { caller := 1, round := 17 } .claimPayment x10 _ .refl
          (by decide) (Or.inl rfl) trivial rfl)
        (by decide) (Or.inl rfl) trivial rfl)
      (by decide) (Or.inl rfl) trivial rfl)
    (by decide) (Or.inl rfl) trivial rfl

/-- the schedule is stored, 7 wins both tickets, the entitlement is `2 × 20`, and the three paying
    claims land exactly on 25 %, 50 %, 100 % of it; the claim at round 30 pays nothing -/
example : x2.sched2 = some xSched ∧ x8.nrWinning = 2 ∧ AllDone x8 ∧ winCountOf x8 7 = 2 ∧
    x9.userTotal 7 = 40 ∧ x9.userClaimed 7 = 10 ∧ x11.userClaimed 7 = 20 ∧
    x12.userClaimed 7 = 20 ∧ x14.userClaimed 7 = 40 ∧ x14.userTotal 7 = 40 ∧
    x13.claimed 8 = true ∧ x13.userTotal 8 = 0 := by
  refine ⟨rfl, rfl, ⟨rfl, rfl⟩, rfl, rfl, rfl, rfl, rfl, rfl, rfl, rfl, rfl⟩

/-- the launchpad-token side: deposit 40, the owner takes nothing back (both tickets won), the
    balance drops by exactly the increments 10, 10, 0, 20; nothing is left at the end -/
example : x8.bal (.esdt 1) 0 = 40 ∧ x9.bal (.esdt 1) 0 = 30 ∧ x10.bal (.esdt 1) 0 = 30 ∧
    x11.bal (.esdt 1) 0 = 20 ∧ x12.bal (.esdt 1) 0 = 20 ∧ x14.bal (.esdt 1) 0 = 0 ∧
    x14.bal .egld 0 = 0 ∧ ownSurplus x9 = 0 := by
  refine ⟨rfl, rfl, rfl, rfl, rfl, rfl, rfl, rfl⟩

/-- a late `setSchedule2` is rejected; so is a fifth claim of 7 ("Already claimed all tokens") -/
example : isOk (step id x10 { caller := 1, round := 18 } (.setSchedule2 [(60, 10000)])) = false ∧
    isOk (step id x14 { caller := 7, round := 60 } .claim) = false := ⟨rfl, rfl⟩

/-- the rejection at the end is the one `repeat_claim_never_stuck_guarV2` allows -/
example : step id x14 { caller := 7, round := 60 } .claim
    = .error (.user "Already claimed all tokens") ∧ x14.paused = false := ⟨rfl, rfl⟩

/-- `claim_releases_exactly_guarV2` applied to the claim at round 26 -/
example : x11.userClaimed 7 = entitled (x11.userTotal 7) (unlockedPct2 26 (sched2Of x10)) :=
  (claim_releases_exactly_guarV2 id x10 17
    (Reach.call x9 16 { caller := 1, round := 17 } .claimPayment x10 _ x9_reach
      (by decide) (Or.inl rfl) trivial rfl)
    { caller := 7, round := 26 } x11 _ (by decide) rfl).2.1

/-- `vesting_path_independent_guarV2` applied to the claim at round 50 after the later history
    `x9 → x13` (owner's withdrawal, two more claims of 7, the settlement of 8) -/
example : x14.userClaimed 7 = entitled (x9.userTotal 7) (unlockedPct2 50 (sched2Of x9)) ∧
    x14.userClaimed 7 = x9.userTotal 7 :=
  have h := vesting_path_independent_guarV2 id x9 16 x9_reach { caller := 7, round := 50 } rfl
    x13 31 x9_later_x13 x14 _ (by decide) rfl
  ⟨h.2.2.1, h.2.2.2.2.2 (by decide)⟩

/-- `vesting_path_independent_run_guarV2` applied to the same history given as a list for `run`,
    with a REJECTED transaction (a late `setSchedule2`) in the middle -/
def xHist : LP.Props.C17.Hist :=
  [({ caller := 1, round := 17 }, .claimPayment), ({ caller := 1, round := 18 }, .setSchedule2 [(60, 10000)]),
   ({ caller := 7, round := 26 }, .claim), ({ caller := 7, round := 30 }, .claim),
   ({ caller := 8, round := 31 }, .claim)]

theorem xHist_run : run id x9 xHist = x13 := by
  obtain ⟨o1, h1⟩ : ∃ o, step id x9 { caller := 1, round := 17 } .claimPayment = .ok (x10, o) := ⟨_, rfl⟩
  have h2 : step id x10 { caller := 1, round := 18 } (.setSchedule2 [(60, 10000)])
      = .error (.user "Add tickets period has passed") := rfl
  obtain ⟨o3, h3⟩ : ∃ o, step id x10 { caller := 7, round := 26 } .claim = .ok (x11, o) := ⟨_, rfl⟩
  obtain ⟨o4, h4⟩ : ∃ o, step id x11 { caller := 7, round := 30 } .claim = .ok (x12, o) := ⟨_, rfl⟩
  obtain ⟨o5, h5⟩ : ∃ o, step id x12 { caller := 8, round := 31 } .claim = .ok (x13, o) := ⟨_, rfl⟩
  unfold xHist
  rw [vv_run_cons_ok h1, vv_run_cons_err h2, vv_run_cons_ok h3, vv_run_cons_ok h4, vv_run_cons_ok h5]
  rfl

theorem x14_step : ∃ o, step id (run id x9 xHist) { caller := 7, round := 50 } .claim = .ok (x14, o) := by
  rw [xHist_run]; exact ⟨_, rfl⟩

example : x14.userClaimed 7 = entitled (x9.userTotal 7) (unlockedPct2 50 (sched2Of x9)) := by
  obtain ⟨o, ho⟩ := x14_step
  exact (vesting_path_independent_run_guarV2 id x9 16 x9_reach { caller := 7, round := 50 } rfl xHist
    ⟨by decide, by decide, by decide, by decide, by decide, by decide, trivial⟩ (by
      intro p hp
      simp only [xHist, List.mem_cons, List.not_mem_nil, or_false] at hp
      rcases hp with rfl | rfl | rfl | rfl | rfl <;> exact ⟨Or.inl rfl, trivial⟩)
    x14 o ho).2.2.1

/-- the closed form of the launchpad-token balance, applied to the state after the second claim -/
example : ∃ L : List Nat, L.Nodup ∧ x11.bal (.esdt 1) 0 = ownSurplus x11 + x11.perTicket * x11.nrWinning
    + sumOver (fun a => x11.userTotal a - x11.userClaimed a) L := by
  obtain ⟨L, h1, _, h3⟩ := lp_exact_guarV2 id x11 26
    (Reach.call x10 17 { caller := 7, round := 26 } .claim x11 _
      (Reach.call x9 16 { caller := 1, round := 17 } .claimPayment x10 _ x9_reach
        (by decide) (Or.inl rfl) trivial rfl)
      (by decide) (Or.inl rfl) trivial rfl) ⟨rfl, rfl⟩
  exact ⟨L, h1, h3⟩

/-- the default behaviour: the same history WITHOUT `setSchedule2` — the first claim releases the
    whole entitlement -/
def y2 : State := stOf (step id x1 { caller := 1, round := 2, esdts := [⟨.esdt 1, 0, 40⟩] } .deposit) x1
def y3 : State := stOf (step id y2 { caller := 7, round := 5, egld := 20 } (.confirm 2)) y2
def y4 : State := stOf (step id y3 { caller := 8, round := 6, egld := 10 } (.confirm 1)) y3
def y5 : State := stOf (step id y4 { caller := 9, round := 10 } .filter) y4
def y6 : State := stOf (step id y5 { caller := 9, round := 11 } .select) y5
def y7 : State := stOf (step id y6 { caller := 9, round := 12 } .distribute) y6
def y8 : State := stOf (step id y7 { caller := 7, round := 15 } .claim) y7

example : y7.sched2 = none ∧ y8.userTotal 7 = 40 ∧ y8.userClaimed 7 = 40 ∧
    y7.bal (.esdt 1) 0 = 40 ∧ y8.bal (.esdt 1) 0 = 0 := ⟨rfl, rfl, rfl, rfl, rfl⟩

end LP.VV

#print axioms LP.VV.released_exact_guarV2
#print axioms LP.VV.entitlement_is_won_tickets_guarV2
#print axioms LP.VV.claim_releases_exactly_guarV2
#print axioms LP.VV.repeat_claim_never_stuck_guarV2
#print axioms LP.VV.first_claim_never_stuck_guarV2
#print axioms LP.VV.vesting_path_independent_guarV2
#print axioms LP.VV.vesting_path_independent_run_guarV2
#print axioms LP.VV.later_amount_guarV2
#print axioms LP.VV.schedule_frozen_guarV2
#print axioms LP.VV.no_schedule_stays_guarV2
#print axioms LP.VV.default_schedule_guarV2
#print axioms LP.VV.setSchedule2_only_before_release_guarV2
#print axioms LP.VV.lp_exact_guarV2
#print axioms LP.VV.lp_exact_unsettled_guarV2
#print axioms LP.VV.vested_claim_covered_exact_guarV2
#print axioms LP.VV.owner_withdrawal_guarV2
#print axioms LP.VV.lp_nothing_left_exact_guarV2
#print axioms LP.VV.x0_reach
#print axioms LP.VV.x5_reach
#print axioms LP.VV.x8_reach
#print axioms LP.VV.x9_reach
#print axioms LP.VV.x14_reach
#print axioms LP.VV.x9_later_x13
#print axioms LP.VV.xHist_run
#print axioms LP.VV.x14_step
