import LP.Proofs.StepLemmas
/-
  C18 — Allocation gives each participant one fresh, disjoint, exact-size ticket range.
-/
namespace LP.Props.C18
open LP

/-- every existing range lies inside `1 .. lastTicketId` -/
def RangesBounded (s : State) : Prop :=
  ∀ a r, s.range a = some r → 1 ≤ r.first ∧ r.last ≤ s.lastTicketId

/-- `try_create_tickets`, exactly: accepted iff the buyer has no range yet (and the ticket space
    does not overflow); the new range is `[last+1, last+n]`, everything else is untouched -/
theorem tryCreateTickets_ok_iff (s : State) (buyer n : Nat) (s' : State) :
    tryCreateTickets s buyer n = .ok s' ↔
      s.range buyer = none ∧ s.lastTicketId + 1 < usizeMax - n ∧
      s' = { s with range := upd s.range buyer (some ⟨s.lastTicketId + 1, s.lastTicketId + 1 + n - 1⟩),
                    batch := upd s.batch (s.lastTicketId + 1) (some ⟨buyer, n⟩),
                    lastTicketId := s.lastTicketId + 1 + n - 1 } := by
  unfold tryCreateTickets
  simp only [bind_ok_iff, pure_ok_iff, req_ok_iff, exists_const, Option.isNone_iff_eq_none,
    decide_eq_true_eq]
  constructor
  · rintro ⟨h1, h2, rfl⟩; exact ⟨h1, h2, rfl⟩
  · rintro ⟨h1, h2, rfl⟩; exact ⟨h1, h2, rfl⟩

/-- the allocated range has exactly the requested size, starts immediately after the previously
    allocated tickets, and the total grows by exactly `n` -/
theorem fresh_exact_range (s : State) (buyer n : Nat) (s' : State) (hn : 1 ≤ n)
    (h : tryCreateTickets s buyer n = .ok s') :
    s'.range buyer = some ⟨s.lastTicketId + 1, s.lastTicketId + n⟩ ∧
    s'.lastTicketId = s.lastTicketId + n ∧
    ticketsFor s' buyer = .ok n ∧
    (∀ a, a ≠ buyer → s'.range a = s.range a) ∧
    s'.confirmed = s.confirmed := by
  obtain ⟨_, _, rfl⟩ := (tryCreateTickets_ok_iff s buyer n s').mp h
  refine ⟨?_, ?_, ?_, ?_, rfl⟩
  · simp only [upd_same, Option.some.injEq, Range.mk.injEq, true_and]; omega
  · show s.lastTicketId + 1 + n - 1 = s.lastTicketId + n; omega
  · have hle : s.lastTicketId + 1 ≤ s.lastTicketId + 1 + n - 1 := by omega
    simp only [ticketsFor, upd_same, csub, hle, ↓reduceIte, bind, Except.bind, pure, Except.pure]
    congr 1; omega
  · intro a ha; simp [upd, ha]

/-- ranges never overlap: a new range lies strictly above every existing one, and the bound
    invariant is preserved -/
theorem new_range_disjoint (s : State) (buyer n : Nat) (s' : State) (hn : 1 ≤ n)
    (hb : RangesBounded s) (h : tryCreateTickets s buyer n = .ok s') :
    RangesBounded s' ∧
    ∀ a r, a ≠ buyer → s.range a = some r → r.last < s.lastTicketId + 1 := by
  obtain ⟨hnone, _, rfl⟩ := (tryCreateTickets_ok_iff s buyer n s').mp h
  constructor
  · intro a r hr
    by_cases ha : a = buyer
    · subst ha
      simp only [upd_same, Option.some.injEq] at hr
      subst hr
      show 1 ≤ s.lastTicketId + 1 ∧ s.lastTicketId + 1 + n - 1 ≤ s.lastTicketId + 1 + n - 1
      omega
    · simp [upd, ha] at hr
      obtain ⟨h1, h2⟩ := hb a r hr
      show 1 ≤ r.first ∧ r.last ≤ s.lastTicketId + 1 + n - 1
      omega
  · intro a r _ hr
    have := (hb a r hr).2
    omega

/-- a participant can be allocated at most once — across calls … -/
theorem duplicate_rejected (s : State) (buyer n : Nat) (h : s.range buyer ≠ none) :
    ∃ err, tryCreateTickets s buyer n = .error err := by
  cases hx : tryCreateTickets s buyer n with
  | error err => exact ⟨err, rfl⟩
  | ok s' => exact absurd ((tryCreateTickets_ok_iff s buyer n s').mp hx).1 h

/-- … as well as within one call: a batch that lists an address twice is rejected as a whole -/
theorem duplicate_in_batch_rejected (buyer n1 n2 : Nat) (pre mid post : List (Nat × Nat)) (s : State) :
    ∃ err, createMany (pre ++ (buyer, n1) :: mid ++ (buyer, n2) :: post) s = .error err := by
  -- once `buyer` has a range it keeps it through the rest of the batch
  have keep : ∀ (l : List (Nat × Nat)) (s s' : State), createMany l s = .ok s' →
      s.range buyer ≠ none → s'.range buyer ≠ none := by
    intro l
    induction l with
    | nil => intro s s' h; simp [createMany] at h; subst h; exact id
    | cons x xs ih =>
      intro s s' h hne
      obtain ⟨a, k⟩ := x
      simp only [createMany] at h
      cases hc : tryCreateTickets s a k with
      | error err => simp [hc] at h
      | ok s1 =>
        simp [hc] at h
        refine ih s1 s' h ?_
        obtain ⟨hnone, _, rfl⟩ := (tryCreateTickets_ok_iff s a k s1).mp hc
        by_cases hab : buyer = a
        · subst hab; simp
        · simpa [upd, hab] using hne
  have split : ∀ (l1 l2 : List (Nat × Nat)) (s s' : State), createMany (l1 ++ l2) s = .ok s' →
      ∃ s1, createMany l1 s = .ok s1 ∧ createMany l2 s1 = .ok s' := by
    intro l1
    induction l1 with
    | nil => intro l2 s s' h; exact ⟨s, rfl, by simpa using h⟩
    | cons x xs ih =>
      intro l2 s s' h
      obtain ⟨a, k⟩ := x
      simp only [List.cons_append, createMany] at h ⊢
      cases hc : tryCreateTickets s a k with
      | error err => simp [hc] at h
      | ok s1 => simp [hc] at h ⊢; exact ih l2 s1 s' h
  cases hx : createMany (pre ++ (buyer, n1) :: mid ++ (buyer, n2) :: post) s with
  | error err => exact ⟨err, rfl⟩
  | ok s' =>
    exfalso
    have hx' : createMany (pre ++ ((buyer, n1) :: mid ++ (buyer, n2) :: post)) s = .ok s' := by
      simpa [List.append_assoc] using hx
    obtain ⟨s1, _, h2⟩ := split pre _ s s' hx'
    simp only [List.cons_append, createMany] at h2
    cases hc : tryCreateTickets s1 buyer n1 with
    | error err => simp [hc] at h2
    | ok s2 =>
      simp [hc] at h2
      obtain ⟨s3, h3, h4⟩ := split mid _ s2 s' h2
      have hs2 : s2.range buyer ≠ none := by
        obtain ⟨_, _, rfl⟩ := (tryCreateTickets_ok_iff s1 buyer n1 s2).mp hc
        simp
      have hs3 := keep mid s2 s3 h3 hs2
      simp only [createMany] at h4
      obtain ⟨err, herr⟩ := duplicate_rejected s3 buyer n2 hs3
      simp [herr] at h4

/-! ### v2 limits -/

/-- v2 rejects more than 255 tickets, more than 10 guarantee entries, a guarantee above its
    confirmation threshold, contract accounts, and a reservation exceeding the base winners left -/
theorem v2_limits (e : Env) (buyer n : Nat) (infos : List (Nat × Nat)) (rest : List (Nat × Nat × List (Nat × Nat)))
    (s : State) (tw tg uc ta ga : Nat) (hn : n ≠ 0)
    (hbad : e.isContract buyer = true ∨ n > 255 ∨ infos.length > 10 ∨ (∃ i ∈ infos, i.1 > i.2) ∨
            (sumG infos > 0 ∧ tw < sumG infos)) :
    ∃ err, addV2Many e ((buyer, n, infos) :: rest) (s, tw, tg, uc, ta, ga) = .error err := by
  unfold addV2Many
  simp only [hn, ↓reduceIte]
  by_cases h1 : e.isContract buyer = true
  · simp [h1]
  · by_cases h2 : n > MAX_TICKETS_ALLOWANCE
    · simp [h1, h2]
    · by_cases h3 : infos.length > MAX_GUARANTEED_TICKETS_ENTRIES
      · simp [h1, h2, h3]
      · simp only [h1, h2, h3, Bool.false_eq_true, ↓reduceIte]
        cases hc : tryCreateTickets s buyer n with
        | error err => exact ⟨err, rfl⟩
        | ok s1 =>
          simp only []
          by_cases h4 : (infos.any fun i => decide (i.1 > i.2)) = true
          · simp [h4]
          · simp only [h4, Bool.false_eq_true, ↓reduceIte]
            rcases hbad with hb | hb | hb | hb | hb
            · exact absurd hb h1
            · exact absurd hb (by simpa [MAX_TICKETS_ALLOWANCE] using h2)
            · exact absurd hb (by simpa [MAX_GUARANTEED_TICKETS_ENTRIES] using h3)
            · exfalso
              obtain ⟨i, hi, hgt⟩ := hb
              apply h4
              simp only [List.any_eq_true, decide_eq_true_eq]
              exact ⟨i, hi, hgt⟩
            · simp [hb.1, hb.2]

/-- v2 skips zero-count entries entirely -/
theorem v2_zero_skipped (e : Env) (buyer : Nat) (infos : List (Nat × Nat)) (rest : List (Nat × Nat × List (Nat × Nat)))
    (acc : State × Nat × Nat × Nat × Nat × Nat) :
    addV2Many e ((buyer, 0, infos) :: rest) acc = addV2Many e rest acc := by
  obtain ⟨s, tw, tg, uc, ta, ga⟩ := acc
  simp [addV2Many]

/-- non-vacuity: allocating 3 tickets to address 7 on a fresh state gives [1,3] -/
example : ∃ s', tryCreateTickets { (default : State) with lastTicketId := 0, range := fun _ => none } 7 3 = .ok s' ∧
    s'.range 7 = some ⟨1, 3⟩ := by
  refine ⟨_, rfl, ?_⟩
  simp

end LP.Props.C18

#print axioms LP.Props.C18.tryCreateTickets_ok_iff
#print axioms LP.Props.C18.fresh_exact_range
#print axioms LP.Props.C18.new_range_disjoint
#print axioms LP.Props.C18.duplicate_rejected
#print axioms LP.Props.C18.duplicate_in_batch_rejected
#print axioms LP.Props.C18.v2_limits
#print axioms LP.Props.C18.v2_zero_skipped
