import LP.Proofs.Events
import LP.Props.C10roundtrip
/-
  C10 — the v2 round trip at the level of the endpoint bodies (`exec`): an accepted
  `refundUserTickets [u]` can always be undone by `removeGuaranteedUsersFromBlacklist [u]` from the same
  caller in the same block (any state, no reachability assumption).
-/
namespace LP.Props.C10roundtripExec
open LP LP.Events LP.Props.C10roundtrip

theorem refund_then_unblacklist_exec (hash : List Nat → List Nat) (t t1 : Tx) (e : Env) (u : Nat)
    (hv : t.s.variant.isV2 = true)
    (h : exec hash t e (.refundUsers [u]) = .ok t1) (c' : Ctx) (o' : Out) :
    ∃ t2, exec hash ⟨t1.s, c', o'⟩ e (.unblacklist [u]) = .ok t2 ∧
      t2.s.blacklist u = false ∧
      t2.s.uts u = some ((t.s.uts u).getD {}) ∧ t2.s.blUts u = none ∧
      t2.s.nrWinning = t.s.nrWinning ∧ t2.s.totalGuaranteed = t.s.totalGuaranteed := by
  have h0 := h
  simp only [exec, bind_ok_iff, pure_ok_iff] at h
  obtain ⟨t1', h1, s1, h2, rfl⟩ := h
  obtain ⟨hperm, hstage, hnd, hall, _, rfl⟩ := (addUsersToBlacklist_ok_iff _ _ _ _).mp h1
  have hr : ((blTx t e [u]).s.range u).isSome = true := (hall u (by simp)).2
  obtain ⟨⟨wl, uu, bb, nw, tg, hs1⟩, _⟩ := clearGuaranteedV2_frame h2
  obtain ⟨s2, hres, hu, hb, hnw, htg, _⟩ :=
    clear_then_restore_v2 (blTx t e [u]).s s1 u hr h2 (unblState s1 [u]).blacklist
  have hrem : removeUsersFromBlacklist s1 e [u] = .ok (unblState s1 [u]) := by
    rw [removeUsersFromBlacklist_ok_iff]
    subst hs1
    refine ⟨hperm, hstage, by simp, ?_, rfl⟩
    intro a ha
    simp at ha; subst ha
    simp [blTx, blState]
  have hv1 : (unblState s1 [u]).variant.isV2 = true := by subst hs1; exact hv
  have hbl2 : s2.blacklist u = false := by
    have := restoreGuaranteedV2_frame hres
    obtain ⟨⟨wl2, u2, b2, nw2, tg2, hs2⟩, _⟩ := this
    rw [hs2]; simp [unblState]
  refine ⟨((Tx.mk ((blTx t e [u]).setS s1).s c' o').setS s2).emit (unblacklistEv e [u]), ?_, ?_⟩
  · simp only [exec, Tx.setS]
    rw [hrem]
    simp only [bind, Except.bind, hv1, ↓reduceIte]
    have : restoreGuaranteedV2 (unblState s1 [u]) [u] = .ok s2 := hres
    rw [this]
    rfl
  · exact ⟨hbl2, hu, hb, hnw, htg⟩

end LP.Props.C10roundtripExec

#print axioms LP.Props.C10roundtripExec.refund_then_unblacklist_exec
