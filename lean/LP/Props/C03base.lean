import LP.Proofs.FY
/-
  LP.Props.C03base — the base lottery (`shuffleStep` iterated from the all-identity state)
  refines the textbook partial Fisher–Yates shuffle, and therefore marks exactly `k`
  distinct tickets of `1..n` after `k` steps.
-/
namespace LP.FY

/-- The sparse representation refines the textbook array:
    (a) the invariant `R` holds initially,
    (b) one `shuffleStep` at position `i` (`1 ≤ i ≤ n`) corresponds to swapping the entries
        `i-1` and `j-1`, `j = i + raw % (n-i+1)`, of the textbook array,
    (c) hence it holds after any `k ≤ n` steps from the initial state. -/
theorem fy_refines_textbook (n : Nat) :
    R n 1 (fun _ => false) (fun _ => 0) (List.range' 1 n) ∧
    (∀ (i : Nat) (st : Nat → Bool) (pi : Nat → Nat) (arr : List Nat) (raw : Nat),
      1 ≤ i → i ≤ n → R n i st pi arr →
      R n (i + 1) (shuffleStep n st pi i raw).1 (shuffleStep n st pi i raw).2
        (swapAt arr (i - 1) (i + raw % (n - i + 1) - 1))) ∧
    (∀ raws : List Nat, raws.length ≤ n →
      R n (raws.length + 1) (fySteps n (fun _ => false, fun _ => 0) 1 raws).1
        (fySteps n (fun _ => false, fun _ => 0) 1 raws).2 (tbRun n raws)) := by
  refine ⟨R_init n, ?_, ?_⟩
  · intro i st pi arr raw h1 h2 h
    exact R_step raw h1 h2 h
  · intro raws hk
    have := R_steps (n := n) raws (i := 1) (s := (fun _ => false, fun _ => 0))
      (Nat.le_refl 1) (by omega) (R_init n)
    rw [Nat.add_comm] at this
    exact this

/-- After `k = raws.length ≤ n` steps from the initial state: the winners are exactly the
    entries of the textbook selection `tbSel n raws`, which has `k` distinct entries, all in
    `1..n`; exactly `k` ids of `1..n` are marked and none outside. -/
theorem base_lottery_winners (n : Nat) (raws : List Nat) (hk : raws.length ≤ n) :
    let st := (fySteps n (fun _ => false, fun _ => 0) 1 raws).1
    (∀ t, st t = true ↔ t ∈ tbSel n raws) ∧
    (tbSel n raws).Nodup ∧ (tbSel n raws).length = raws.length ∧
    (∀ t ∈ tbSel n raws, 1 ≤ t ∧ t ≤ n) ∧
    (∀ t, st t = true → 1 ≤ t ∧ t ≤ n) ∧
    countTrue st n = raws.length := by
  intro st
  have h := (fy_refines_textbook n).2.2 raws hk
  have hstat : ∀ t, st t = true ↔ t ∈ tbSel n raws := by
    intro t; have := h.stat t; simpa [tbSel] using this
  have hnd : (tbSel n raws).Nodup := h.nodup.sublist (List.take_sublist _ _)
  have hlen : (tbSel n raws).length = raws.length := by
    simp only [tbSel, List.length_take, h.len]; omega
  have hrange : ∀ t ∈ tbSel n raws, 1 ≤ t ∧ t ≤ n := by
    intro t ht; exact (h.mem t).mp (List.mem_of_mem_take ht)
  refine ⟨hstat, hnd, hlen, hrange, ?_, ?_⟩
  · intro t ht; exact hrange t ((hstat t).mp ht)
  · rw [countTrue_eq_length st n (tbSel n raws) hnd hrange (fun t _ _ => hstat t), hlen]

/-- the same for `k = min nr n` draws (the endpoint caps `nr_winning_tickets` at the number of
    tickets): exactly `min nr n` distinct tickets of `1..n` win, nothing outside is marked. -/
theorem base_lottery_count_min (n nr : Nat) (raws : List Nat) (hk : raws.length = min nr n) :
    let st := (fySteps n (fun _ => false, fun _ => 0) 1 raws).1
    countTrue st n = min nr n ∧ (∀ t, st t = true → 1 ≤ t ∧ t ≤ n) ∧
    (∀ m, n ≤ m → countTrue st m = min nr n) := by
  intro st
  have h := base_lottery_winners n raws (by omega)
  refine ⟨by rw [← hk]; exact h.2.2.2.2.2, h.2.2.2.2.1, ?_⟩
  intro m hm
  rw [← hk]
  exact countTrue_eq_length st m (tbSel n raws) h.2.1
    (fun t ht => by have := h.2.2.2.1 t ht; omega)
    (fun t _ _ => h.1 t) |>.trans h.2.2.1

/-- non-trivial instance: 5 tickets, 3 draws; winners 3, 5, 4 -/
example : tbSel 5 [7, 11, 1] = [3, 5, 4] ∧
    ((List.range' 1 5).filter (fySteps 5 (fun _ => false, fun _ => 0) 1 [7, 11, 1]).1) = [3, 4, 5] := by
  decide


/-- The endpoint's loop is `fySteps`: `selectBody hash nr last` run by `runWhile … none` (never
    interrupted) from position 1 on a state without scripted draws completes (any `fuel ≥ nr+1`;
    the endpoint passes `nr+2`) and leaves `fySteps last (status, posToId) 1 raws`, where `raws`
    are the first `nr` raw draws of the generator.  (`nr = 0`: no draw, nothing changes.) -/
theorem select_loop_is_fy (hash : List Nat → List Nat) (nr last fuel : Nat) (x : SelSt)
    (hs : x.tx.c.script = []) (hp : x.pos = 1) (hf : nr + 1 ≤ fuel) :
    ∃ x', runWhile (selectBody hash nr last) fuel none x = .ok (x', none, .completed) ∧
      (x'.status, x'.posToId) = fySteps last (x.status, x.posToId) 1 (draws hash x.rng nr) ∧
      (draws hash x.rng nr).length = nr :=
  let ⟨x', h1, h2⟩ := select_loop_full hash nr last fuel x hs hp hf
  ⟨x', h1, h2, length_draws hash nr x.rng⟩

/-- hence the count theorem applies to the loop: started on the all-clear maps with
    `nr ≤ last`, it marks exactly `nr` distinct tickets, all in `1..last`. -/
theorem select_loop_count (hash : List Nat → List Nat) (nr last fuel : Nat) (x : SelSt)
    (hs : x.tx.c.script = []) (hp : x.pos = 1) (hf : nr + 1 ≤ fuel)
    (hst : x.status = fun _ => false) (hpi : x.posToId = fun _ => 0) (hle : nr ≤ last) :
    ∃ x', runWhile (selectBody hash nr last) fuel none x = .ok (x', none, .completed) ∧
      countTrue x'.status last = nr ∧
      (∀ t, x'.status t = true → 1 ≤ t ∧ t ≤ last) ∧
      (∀ t, x'.status t = true ↔ t ∈ tbSel last (draws hash x.rng nr)) := by
  obtain ⟨x', h1, h2, h3⟩ := select_loop_is_fy hash nr last fuel x hs hp hf
  have hb := base_lottery_winners last (draws hash x.rng nr) (by rw [h3]; exact hle)
  rw [hst, hpi] at h2
  have e : x'.status = (fySteps last (fun _ => false, fun _ => 0) 1 (draws hash x.rng nr)).1 :=
    congrArg Prod.fst h2
  rw [← e, h3] at hb
  exact ⟨x', h1, hb.2.2.2.2.2, hb.2.2.2.2.1, hb.1⟩

/-- Endpoint level: a successful `selectWinners` call that starts the operation (`op = none`),
    is never interrupted (`budget = none`), uses the real generator (`script = []`), on cleared
    ticket maps with `nrWinning ≤ lastTicketId` (established by `filterTickets`), sets the
    `selected` flag and marks exactly `nrWinning` distinct tickets, all in `1..lastTicketId`. -/
theorem selectWinners_count (hash : List Nat → List Nat) (t : Tx) (e : Env) (t' : Tx)
    (hop : t.s.op = .none) (hb : t.c.budget = none) (hscr : t.c.script = [])
    (hst : t.s.status = fun _ => false) (hpi : t.s.posToId = fun _ => 0)
    (hle : t.s.nrWinning ≤ t.s.lastTicketId)
    (hok : selectWinners hash t e = .ok t') :
    t'.s.flags.selected = true ∧
    countTrue t'.s.status t.s.lastTicketId = t.s.nrWinning ∧
    (∀ id, t'.s.status id = true → 1 ≤ id ∧ id ≤ t.s.lastTicketId) ∧
    (∀ id, t'.s.status id = true ↔
      id ∈ tbSel t.s.lastTicketId (draws hash t.freshRng.1 t.s.nrWinning)) := by
  obtain ⟨h1, h2, _, _⟩ := selectWinners_fy hash t e t' hop hb hscr hok
  have h3 := length_draws hash t.s.nrWinning t.freshRng.1
  have hbw := base_lottery_winners t.s.lastTicketId (draws hash t.freshRng.1 t.s.nrWinning)
    (by rw [h3]; exact hle)
  rw [hst, hpi] at h1
  have e' : t'.s.status =
      (fySteps t.s.lastTicketId (fun _ => false, fun _ => 0) 1
        (draws hash t.freshRng.1 t.s.nrWinning)).1 := congrArg Prod.fst h1
  rw [← e', h3] at hbw
  exact ⟨h2, hbw.2.2.2.2.2, hbw.2.2.2.2.1, hbw.1⟩

/-- the hypotheses of `selectWinners_count` are satisfiable: 5 tickets, 2 winners, identity
    "hash", all-zero seed: every draw is 0, so tickets 1 and 2 win -/
example :
    let t : Tx := { s := { variant := .base, owner := 1, lpTok := 2, perTicket := 1, payTok := .egld,
                           price := 1, nrWinning := 2, cfg := ⟨1, 2, 3⟩, flags := { filtered := true },
                           support := 0, lastTicketId := 5 }, c := {} }
    let e : Env := { caller := 1, round := 2 }
    (match selectWinners id t e with
     | .ok t' => (t'.s.flags.selected, (List.range' 1 7).filter t'.s.status)
     | .error _ => (false, [])) = (true, [1, 2]) := by
  decide

end LP.FY

#print axioms LP.FY.fy_refines_textbook
#print axioms LP.FY.base_lottery_winners
#print axioms LP.FY.base_lottery_count_min
#print axioms LP.FY.select_loop_is_fy
#print axioms LP.FY.select_loop_count
#print axioms LP.FY.selectWinners_count
