import LP.Proofs.Recipients
import LP.Props.C10reach
import LP.Props.C02reach
/-
  C09 "an account without surviving tickets can obtain nothing", C10 "a blacklisted participant
  can claim nothing", C01 "nobody receives more than owed" — the RECIPIENTS FRAME: who can be the
  addressee of anything a transaction sends out (direct transfers `o.xfers`, SFT hand-outs `o.sfts`,
  lock calls `o.locks`).

  1  `xfers_recipients`          ANY state, ANY of the eight variants, every accepted call: a transfer
                                  goes to the caller (only `claim`; `claimPayment` when the caller is
                                  the owner), to a listed user of `blacklist`/`refundUsers` who has an
                                  allocation record and was not blacklisted, or to the lock contract
                                  (`claim` of a locking variant); SFTs and lock destinations: the caller
                                  of a `claim` (NFT / locking variants only).
     `only_four_endpoints_pay`   the other 27 endpoints send nothing at all;
     `sfts_only_nft_claim`, `locks_only_locked_claim`, `refundUsers_only_v2`.
  2  `owner_only_proceeds`       `claimPayment` pays only the caller, who is the owner.
  3  `out_of_sale_obtains_nothing`   ONE call, ANY state (no reachability): an address with no
                                  allocation record that is not the owner, not the lock contract and has
                                  no vesting record is the addressee of nothing, whoever calls whatever.
     `out_of_sale_is_permanent`  ANY state with a valid timeline, call at a round `≥ sel`: such an
                                  address stays out (given the filter has completed or no batch names it).
     `nothing_ever`              all eight contracts, reachable state, selection started:
                                  NOTHING from any transaction by ANYBODY in any later state.
     `nothing_ever_run`          the `run` form.
     `nothing_ever_after_filter` / `_run`   ANY state (not necessarily reachable) in which the filter has
                                  completed.
     `nothing_ever_unclaimed`    the same with "has not claimed" in place of "no vesting record"
                                  (reachable states: unsettled ⇒ `userTotal = 0`).
     `nothing_ever_from_deployment`  in terms of `init` / `run` / `step` only (all eight variants).
  4  `blacklisted_receives_nothing` (every reachable state), `blacklisted_receives_nothing_ever`
     (from the selection start, `Later` form), `blacklisted_receives_nothing_run`.

  HYPOTHESES.  The brief suggested "has not claimed", "not in the NFT payer / winner lists".  They
  are NOT needed in the model: a `claim` (the only endpoint that hands out SFTs / NFT-fee refunds)
  needs an allocation record unless the variant is a vesting one and the caller has settled — and
  then it only releases `userTotal`-based amounts, so `userTotal a = 0` suffices; the NFT refunds of
  `blacklist` go to listed users, who must have a record.  What IS needed and cannot be dropped:
  `a ≠ owner` (the owner receives the proceeds), `a ≠ lockAddr` in the locking variants (the lock
  contract receives the locked share of every claim), `userTotal a = 0` in the vesting variants.
-/
namespace LP.Props.C09nothing
open LP LP.Events LP.Props.C17

/-- the reachable states of the eight launchpads -/
abbrev Covered := be_Covered
/-- side conditions on a transaction of a history -/
abbrev HistOK := be_HistOK

/-! ## 1. who can receive anything from one transaction -/

/-- **recipients of one transaction** — any state, any variant, no reachability. -/
theorem xfers_recipients (hash : List Nat → List Nat) (s : State) (e : Env) (c : Call) (s' : State)
    (o : Out) (h : step hash s e c = .ok (s', o)) :
    (∀ p ∈ o.xfers,
      (p.1 = e.caller ∧ (c = .claim ∨ (c = .claimPayment ∧ e.caller = s.owner))) ∨
      (∃ l, (c = .blacklist l ∨ c = .refundUsers l) ∧ p.1 ∈ l ∧
        (s.range p.1).isSome = true ∧ s.blacklist p.1 = false) ∨
      (p.1 = s.lockAddr ∧ s.variant.hasLock = true ∧ c = .claim)) ∧
    (∀ p ∈ o.sfts, p.1 = e.caller ∧ c = .claim ∧ s.variant.hasNft = true) ∧
    (∀ p ∈ o.locks, p.2.1 = e.caller ∧ c = .claim ∧ s.variant.hasLock = true) := by
  obtain ⟨h1, h2, h3⟩ := step_recipients h
  refine ⟨?_, ?_, ?_⟩
  · intro p hp
    have hx := h1 p hp
    cases c <;> try exact hx.elim
    case claim =>
      rcases hx with hx | ⟨hx, hk⟩
      · exact Or.inl ⟨hx, Or.inl rfl⟩
      · exact Or.inr (Or.inr ⟨hx, hk, rfl⟩)
    case claimPayment => exact Or.inl ⟨hx, Or.inr ⟨rfl, step_claimPayment_owner h⟩⟩
    case blacklist l => exact Or.inr (Or.inl ⟨l, Or.inl rfl, hx⟩)
    case refundUsers l => exact Or.inr (Or.inl ⟨l, Or.inr rfl, hx⟩)
  · intro p hp
    have hx := h2 p hp
    cases c <;> try exact hx.elim
    case claim => exact ⟨hx.1, rfl, hx.2⟩
  · intro p hp
    have hx := h3 p hp
    cases c <;> try exact hx.elim
    case claim => exact ⟨hx.1, rfl, hx.2⟩

/-- **27 of the 31 endpoints send nothing**: only `claim`, `claimPayment`, `blacklist` and
    `refundUsers` can move anything out of the contract. -/
theorem only_four_endpoints_pay (hash : List Nat → List Nat) (s : State) (e : Env) (c : Call)
    (s' : State) (o : Out) (h : step hash s e c = .ok (s', o))
    (hc : c ≠ .claim ∧ c ≠ .claimPayment ∧ (∀ l, c ≠ .blacklist l) ∧ (∀ l, c ≠ .refundUsers l)) :
    o.xfers = [] ∧ o.sfts = [] ∧ o.locks = [] := by
  refine step_quiet h ?_
  obtain ⟨c1, c2, c3, c4⟩ := hc
  cases c <;>
    first
      | rfl
      | exact absurd rfl c1
      | exact absurd rfl c2
      | exact absurd rfl (c3 _)
      | exact absurd rfl (c4 _)

/-- SFTs are handed out only by a `claim` of an NFT variant (nft, nftGuar), to the caller. -/
theorem sfts_only_nft_claim (hash : List Nat → List Nat) (s : State) (e : Env) (c : Call)
    (s' : State) (o : Out) (h : step hash s e c = .ok (s', o))
    (hc : c ≠ .claim ∨ s.variant.hasNft = false) : o.sfts = [] := by
  apply rc_nil_of_false
  intro p hp
  obtain ⟨_, h1, h2⟩ := (xfers_recipients hash s e c s' o h).2.1 p hp
  rcases hc with hc | hc
  · exact hc h1
  · rw [hc] at h2; cases h2

/-- lock calls are made only by a `claim` of a locking variant (locked, lockedGuar), for the caller. -/
theorem locks_only_locked_claim (hash : List Nat → List Nat) (s : State) (e : Env) (c : Call)
    (s' : State) (o : Out) (h : step hash s e c = .ok (s', o))
    (hc : c ≠ .claim ∨ s.variant.hasLock = false) : o.locks = [] := by
  apply rc_nil_of_false
  intro p hp
  obtain ⟨_, h1, h2⟩ := (xfers_recipients hash s e c s' o h).2.2 p hp
  rcases hc with hc | hc
  · exact hc h1
  · rw [hc] at h2; cases h2

/-- `refundUsers` exists only in guarV2. -/
theorem refundUsers_only_v2 (hash : List Nat → List Nat) (s : State) (e : Env) (l : List Nat)
    (s' : State) (o : Out) (h : step hash s e (.refundUsers l) = .ok (s', o)) :
    s.variant = .guarV2 := by
  obtain ⟨m, t, hm, _⟩ := step_ok_inv h
  cases hv : s.variant <;> simp [endpointMeta, hv, Variant.isV2] at hm
  rfl

/-! ## 2. the proceeds go to the owner only -/

/-- **`claimPayment`**: accepted only from the owner; every transfer goes to the owner; no SFT, no
    lock call. -/
theorem owner_only_proceeds (hash : List Nat → List Nat) (s : State) (e : Env) (s' : State) (o : Out)
    (h : step hash s e .claimPayment = .ok (s', o)) :
    e.caller = s.owner ∧ (∀ p ∈ o.xfers, p.1 = s.owner) ∧ o.sfts = [] ∧ o.locks = [] := by
  have ho := step_claimPayment_owner h
  refine ⟨ho, ?_, sfts_only_nft_claim hash s e _ s' o h (Or.inl nofun),
    locks_only_locked_claim hash s e _ s' o h (Or.inl nofun)⟩
  intro p hp
  have hx : p.1 = e.caller := (step_recipients h).1 p hp
  exact hx.trans ho

/-! ## 3. an account without surviving tickets obtains nothing -/

/-- **one call, ANY state of ANY variant (no reachability).**  If `a` has no allocation record, is
    not the owner, is not the lock contract (locking variants) and has no vesting record (vesting
    variants), then nothing an accepted call — by anybody, of any endpoint — sends out is addressed
    to `a`. -/
theorem out_of_sale_obtains_nothing (hash : List Nat → List Nat) (s : State) (a : Nat)
    (hr : s.range a = none) (ho : a ≠ s.owner)
    (hl : s.variant.hasLock = true → a ≠ s.lockAddr)
    (hv : s.variant.vested = true → s.userTotal a = 0)
    (e : Env) (c : Call) (s' : State) (o : Out) (h : step hash s e c = .ok (s', o)) :
    (∀ p ∈ o.xfers, p.1 ≠ a) ∧ (∀ p ∈ o.sfts, p.1 ≠ a) ∧ (∀ p ∈ o.locks, p.2.1 ≠ a) :=
  (rc_Out.mk hr ho hl hv).nothing h

/-- **permanence, ANY state of ANY variant with a valid timeline.**  An accepted call at a round
    `≥ sel` keeps such an address out of the sale, provided the filter has completed or no batch
    record names `a` (in reachable states the latter follows from `range a = none`:
    `rc_bo_covered`). -/
theorem out_of_sale_is_permanent (hash : List Nat → List Nat) (s : State) (a : Nat)
    (hvp : validPeriods s.cfg = true)
    (hr : s.range a = none) (ho : a ≠ s.owner)
    (hl : s.variant.hasLock = true → a ≠ s.lockAddr)
    (hv : s.variant.vested = true → s.userTotal a = 0)
    (hb : s.flags.filtered = true ∨ ∀ id b, s.batch id = some b → b.addr ≠ a)
    (e : Env) (c : Call) (s' : State) (o : Out) (hsel : s.cfg.sel ≤ e.round)
    (h : step hash s e c = .ok (s', o)) :
    s'.range a = none ∧ a ≠ s'.owner ∧ (s'.variant.hasLock = true → a ≠ s'.lockAddr) ∧
    (s'.variant.vested = true → s'.userTotal a = 0) ∧
    (s'.flags.filtered = true ∨ ∀ id b, s'.batch id = some b → b.addr ≠ a) := by
  have := (rc_Gone.mk (rc_Out.mk hr ho hl hv) hb).step hvp hsel h
  exact ⟨this.out.range, this.out.owner, this.out.lock, this.out.vest, this.batch⟩

/-- **C09, history level, all eight contracts.**  `s` reachable (`Covered`), winner selection has
    started (`sel ≤ r`), `a` has no allocation record, is not the owner, not the lock contract, has
    no vesting record.  Then in EVERY later state `s1` of ANY history (`P` arbitrary — in particular
    `HistOK`) EVERY accepted call, by ANYBODY (any `e`, `c`; no side condition on them), sends
    nothing to `a`: no transfer, no SFT, no lock call; and `a` is still out of the sale in `s1`. -/
theorem nothing_ever (P : Env → Call → Prop) (hash : List Nat → List Nat) (s : State) (r : Nat)
    (h : Covered hash s r) (hsel : s.cfg.sel ≤ r) (a : Nat)
    (hr : s.range a = none) (ho : a ≠ s.owner)
    (hl : s.variant.hasLock = true → a ≠ s.lockAddr)
    (hv : s.variant.vested = true → s.userTotal a = 0)
    (s1 : State) (r1 : Nat) (hlat : be_Later P hash s r s1 r1) :
    s1.range a = none ∧
    ∀ (e : Env) (c : Call) (s2 : State) (o : Out), step hash s1 e c = .ok (s2, o) →
      (∀ p ∈ o.xfers, p.1 ≠ a) ∧ (∀ p ∈ o.sfts, p.1 ≠ a) ∧ (∀ p ∈ o.locks, p.2.1 ≠ a) := by
  have hvp := ((be_family_all hash).good h).valid
  have hg := (rc_gone_later hvp hsel ((rc_Out.mk hr ho hl hv).gone h) hlat).1
  exact ⟨hg.out.range, fun e c s2 o hst => hg.out.nothing hst⟩

/-- **the `run` form**: … along any history `p` with non-decreasing rounds (rejected transactions
    allowed, no side conditions on the transactions), every accepted call after `p` sends nothing to
    `a`.  (Applied to the prefixes of a history this covers every transaction of the history.) -/
theorem nothing_ever_run (hash : List Nat → List Nat) (s : State) (r : Nat)
    (h : Covered hash s r) (hsel : s.cfg.sel ≤ r) (a : Nat)
    (hr : s.range a = none) (ho : a ≠ s.owner)
    (hl : s.variant.hasLock = true → a ≠ s.lockAddr)
    (hv : s.variant.vested = true → s.userTotal a = 0)
    (p : Hist) (hp : RoundsFrom r p) :
    (run hash s p).range a = none ∧
    ∀ (e : Env) (c : Call) (s2 : State) (o : Out), step hash (run hash s p) e c = .ok (s2, o) →
      (∀ q ∈ o.xfers, q.1 ≠ a) ∧ (∀ q ∈ o.sfts, q.1 ≠ a) ∧ (∀ q ∈ o.locks, q.2.1 ≠ a) := by
  obtain ⟨r', hlat, _⟩ := be_later_run (P := fun _ _ => True) hash p s r hp (fun _ _ => trivial)
  exact nothing_ever _ hash s r h hsel a hr ho hl hv _ r' hlat

/-- **once the filter has completed — ANY state of ANY variant** (not necessarily reachable; valid
    timeline, selection start reached): the same conclusion. -/
theorem nothing_ever_after_filter (P : Env → Call → Prop) (hash : List Nat → List Nat) (s : State)
    (r : Nat) (hvp : validPeriods s.cfg = true) (hsel : s.cfg.sel ≤ r)
    (hf : s.flags.filtered = true) (a : Nat)
    (hr : s.range a = none) (ho : a ≠ s.owner)
    (hl : s.variant.hasLock = true → a ≠ s.lockAddr)
    (hv : s.variant.vested = true → s.userTotal a = 0)
    (s1 : State) (r1 : Nat) (hlat : be_Later P hash s r s1 r1) :
    s1.range a = none ∧
    ∀ (e : Env) (c : Call) (s2 : State) (o : Out), step hash s1 e c = .ok (s2, o) →
      (∀ p ∈ o.xfers, p.1 ≠ a) ∧ (∀ p ∈ o.sfts, p.1 ≠ a) ∧ (∀ p ∈ o.locks, p.2.1 ≠ a) := by
  have hg := (rc_gone_later hvp hsel (rc_Gone.mk (rc_Out.mk hr ho hl hv) (Or.inl hf)) hlat).1
  exact ⟨hg.out.range, fun e c s2 o hst => hg.out.nothing hst⟩

theorem nothing_ever_after_filter_run (hash : List Nat → List Nat) (s : State)
    (r : Nat) (hvp : validPeriods s.cfg = true) (hsel : s.cfg.sel ≤ r)
    (hf : s.flags.filtered = true) (a : Nat)
    (hr : s.range a = none) (ho : a ≠ s.owner)
    (hl : s.variant.hasLock = true → a ≠ s.lockAddr)
    (hv : s.variant.vested = true → s.userTotal a = 0)
    (p : Hist) (hp : RoundsFrom r p) :
    (run hash s p).range a = none ∧
    ∀ (e : Env) (c : Call) (s2 : State) (o : Out), step hash (run hash s p) e c = .ok (s2, o) →
      (∀ q ∈ o.xfers, q.1 ≠ a) ∧ (∀ q ∈ o.sfts, q.1 ≠ a) ∧ (∀ q ∈ o.locks, q.2.1 ≠ a) := by
  obtain ⟨r', hlat, _⟩ := be_later_run (P := fun _ _ => True) hash p s r hp (fun _ _ => trivial)
  exact nothing_ever_after_filter _ hash s r hvp hsel hf a hr ho hl hv _ r' hlat

/-- **the hypothesis "has not claimed" instead of "no vesting record"**: in a reachable state of a
    vesting variant an unsettled participant has no vesting record (`rc_covered_unclaimed`), so for
    all eight contracts: no allocation record + not yet claimed + not the owner + not the lock
    contract ⇒ nothing, ever. -/
theorem nothing_ever_unclaimed (P : Env → Call → Prop) (hash : List Nat → List Nat) (s : State)
    (r : Nat) (h : Covered hash s r) (hsel : s.cfg.sel ≤ r) (a : Nat)
    (hr : s.range a = none) (hc : s.claimed a = false) (ho : a ≠ s.owner)
    (hl : s.variant.hasLock = true → a ≠ s.lockAddr)
    (s1 : State) (r1 : Nat) (hlat : be_Later P hash s r s1 r1) :
    s1.range a = none ∧
    ∀ (e : Env) (c : Call) (s2 : State) (o : Out), step hash s1 e c = .ok (s2, o) →
      (∀ p ∈ o.xfers, p.1 ≠ a) ∧ (∀ p ∈ o.sfts, p.1 ≠ a) ∧ (∀ p ∈ o.locks, p.2.1 ≠ a) :=
  nothing_ever P hash s r h hsel a hr ho hl (fun hv => rc_covered_unclaimed h hv hc) s1 r1 hlat

/-- **from deployment, in terms of `init`, `run`, `step` only.**  Deploy any of the eight
    launchpads, run any history `h1` (rounds non-decreasing, transactions satisfying `HistOK`;
    rejected transactions leave no trace), then any history `h2` all of whose transactions happen at
    or after the selection start round (no side conditions on them).  If after `h1` the address `a`
    has no allocation record, has not claimed, is not the owner and not the lock contract, then after
    `h2` every accepted call by anybody sends nothing to `a`. -/
theorem nothing_ever_from_deployment (hash : List Nat → List Nat) (v : Variant) (args : InitArgs)
    (e0 : Env) (s0 : State) (hi : init v args e0 = .ok s0) (h1 h2 : Hist)
    (hr : RoundsFrom e0.round (h1 ++ h2)) (hp : ∀ x ∈ h1, HistOK x.1 x.2) (a : Nat)
    (hra : (run hash s0 h1).range a = none) (hc : (run hash s0 h1).claimed a = false)
    (ho : a ≠ (run hash s0 h1).owner)
    (hl : (run hash s0 h1).variant.hasLock = true → a ≠ (run hash s0 h1).lockAddr)
    (hsel : ∀ x ∈ h2, (run hash s0 h1).cfg.sel ≤ x.1.round) :
    (run hash s0 (h1 ++ h2)).range a = none ∧
    ∀ (e : Env) (c : Call) (s2 : State) (o : Out),
      step hash (run hash s0 (h1 ++ h2)) e c = .ok (s2, o) →
      (∀ p ∈ o.xfers, p.1 ≠ a) ∧ (∀ p ∈ o.sfts, p.1 ≠ a) ∧ (∀ p ∈ o.locks, p.2.1 ≠ a) := by
  obtain ⟨r', hcov, hq⟩ := be_covered_run (be_covered_init (hash := hash) hi) h1
    (RoundsFrom.append_left hr) hp
  have hr2 : RoundsFrom r' h2 := hq h2 hr
  have hcov' : Covered hash (run hash s0 h1) (max r' (run hash s0 h1).cfg.sel) :=
    (be_family_all hash).wait hcov (Nat.le_max_left _ _)
  have hr2' := rc_roundsFrom_max hr2 hsel
  obtain ⟨r'', hlat, _⟩ := be_later_run (P := fun _ _ => True) hash h2 (run hash s0 h1) _ hr2'
    (fun _ _ => trivial)
  rw [run_append]
  exact nothing_ever_unclaimed _ hash _ _ hcov' (Nat.le_max_right _ _) a hra hc ho hl _ r'' hlat

/-! ## 4. C10: a blacklisted participant receives nothing -/

/-- **every reachable state**: an accepted call by ANYBODY sends nothing to a blacklisted
    participant `a` (not the owner, not the lock contract) — whatever the stage, whether or not `a`
    still has an allocation record (before the filter it has one, with nothing confirmed:
    `C10reach.blacklisted_holds_no_ticket`). -/
theorem blacklisted_receives_nothing (hash : List Nat → List Nat) (s : State) (r : Nat)
    (h : Covered hash s r) (a : Nat) (hb : s.blacklist a = true) (ho : a ≠ s.owner)
    (hl : s.variant.hasLock = true → a ≠ s.lockAddr)
    (e : Env) (c : Call) (s' : State) (o : Out) (hst : step hash s e c = .ok (s', o)) :
    (∀ p ∈ o.xfers, p.1 ≠ a) ∧ (∀ p ∈ o.sfts, p.1 ≠ a) ∧ (∀ p ∈ o.locks, p.2.1 ≠ a) :=
  rc_blacklisted_nothing ((be_family_all hash).good h) hb ho hl hst

/-- **C10, history level.**  `a` blacklisted in a reachable state in which winner selection has
    started: in EVERY later state of ANY history every accepted call by ANYBODY sends nothing to `a`
    (and `a` is still blacklisted, holds no ticket — `C10reach.blacklisted_holds_no_ticket` — and
    every claim by `a` is rejected — `C10reach.blacklisted_claims_nothing`). -/
theorem blacklisted_receives_nothing_ever (hash : List Nat → List Nat) (s : State) (r : Nat)
    (h : Covered hash s r) (a : Nat) (hb : s.blacklist a = true) (hsel : s.cfg.sel ≤ r)
    (ho : a ≠ s.owner) (hl : s.variant.hasLock = true → a ≠ s.lockAddr)
    (s1 : State) (r1 : Nat) (hlat : be_Later HistOK hash s r s1 r1) :
    s1.blacklist a = true ∧ s1.confirmed a = 0 ∧ (s1.flags.filtered = true → s1.range a = none) ∧
    ∀ (e : Env) (c : Call) (s2 : State) (o : Out), step hash s1 e c = .ok (s2, o) →
      (∀ p ∈ o.xfers, p.1 ≠ a) ∧ (∀ p ∈ o.sfts, p.1 ≠ a) ∧ (∀ p ∈ o.locks, p.2.1 ≠ a) := by
  have hb1 : s1.blacklist a = true := by
    rw [(C10reach.blacklist_frozen_from_selection HistOK hash s r
      ((be_family_all hash).good h).valid hsel s1 r1 hlat).1]; exact hb
  have hc1 := (be_family_all hash).later h hlat
  obtain ⟨k1, _, _, k4⟩ := C10reach.blacklisted_holds_no_ticket hash s1 r1 hc1 a hb1
  exact ⟨hb1, k1, k4, fun e c s2 o hst => rc_blacklisted_nothing_later h hb hsel ho hl hlat hst⟩

/-- **C10, `run` form.** -/
theorem blacklisted_receives_nothing_run (hash : List Nat → List Nat) (s : State) (r : Nat)
    (h : Covered hash s r) (a : Nat) (hb : s.blacklist a = true) (hsel : s.cfg.sel ≤ r)
    (ho : a ≠ s.owner) (hl : s.variant.hasLock = true → a ≠ s.lockAddr)
    (p : Hist) (hr : RoundsFrom r p) (hp : ∀ x ∈ p, HistOK x.1 x.2) :
    (run hash s p).blacklist a = true ∧
    ∀ (e : Env) (c : Call) (s2 : State) (o : Out), step hash (run hash s p) e c = .ok (s2, o) →
      (∀ q ∈ o.xfers, q.1 ≠ a) ∧ (∀ q ∈ o.sfts, q.1 ≠ a) ∧ (∀ q ∈ o.locks, q.2.1 ≠ a) := by
  obtain ⟨r', hlat, _⟩ := be_later_run (P := HistOK) hash p s r hr hp
  have := blacklisted_receives_nothing_ever hash s r h a hb hsel ho hl _ r' hlat
  exact ⟨this.1, this.2.2.2⟩

/-! ## non-vacuity -/

open LP.Props.C10reach in
/-- base launchpad, state `be_x7` of C10reach (round 11: filtered and selected; 7 was blacklisted
    and filtered out, 8 owns the winning ticket, 9 was never allocated, 1 is the owner):
    the hypotheses of `nothing_ever` hold for `a = 7` and `a = 9` -/
example : be_x7.cfg.sel ≤ 11 ∧ be_x7.range 7 = none ∧ be_x7.range 9 = none ∧ be_x7.owner = 1 ∧
    be_x7.variant.hasLock = false ∧ be_x7.variant.vested = false ∧ be_x7.range 8 = some ⟨1, 1⟩ ∧
    be_x7.flags.filtered = true :=
  ⟨by decide, rfl, rfl, rfl, rfl, rfl, rfl, rfl⟩

open LP.Props.C10reach in
/-- … so whatever happens after `be_x7`, along ANY continuation `p`, nothing is ever sent to 7 -/
example (p : Hist) (hp : RoundsFrom 11 p) (e : Env) (c : Call) (s2 : State) (o : Out)
    (h : step id (run id be_x7 p) e c = .ok (s2, o)) : ∀ q ∈ o.xfers, q.1 ≠ 7 :=
  ((nothing_ever_run id be_x7 11 (.plain (Or.inl rfl) be_x7_reach) (by decide) 7 rfl (by decide)
    (by decide) (by decide) p hp).2 e c s2 o h).1

open LP.Props.C10reach in
/-- … nor to the never-allocated 9; while the winner 8 does receive (the conclusion is not
    trivially true of everybody): 8's claim at round 15 pays 8 -/
example : (∀ (p : Hist), RoundsFrom 11 p → ∀ e c s2 o, step id (run id be_x7 p) e c = .ok (s2, o) →
      (∀ q ∈ o.xfers, q.1 ≠ 9) ∧ (∀ q ∈ o.sfts, q.1 ≠ 9) ∧ (∀ q ∈ o.locks, q.2.1 ≠ 9)) ∧
    (be_outOf (step id be_x7 { caller := 8, round := 15 } .claim)).xfers = [(8, ⟨.esdt 1, 0, 5⟩)] :=
  ⟨fun p hp => (nothing_ever_run id be_x7 11 (.plain (Or.inl rfl) be_x7_reach) (by decide) 9 rfl
      (by decide) (by decide) (by decide) p hp).2, rfl⟩

open LP.Props.C10reach in
/-- the same state through the reachability-free theorem (`filtered = true`) -/
example (s1 : State) (r1 : Nat) (hl : be_Later HistOK id be_x7 11 s1 r1) : s1.range 7 = none :=
  (nothing_ever_after_filter HistOK id be_x7 11 rfl (by decide) rfl 7 rfl (by decide) (by decide)
    (by decide) s1 r1 hl).1

/-- locked launchpad, state `l5` of C02reach (round 11, lottery done; participant 8 confirmed
    nothing and was filtered out; lock contract 77): the claim of 7 pays 7 AND the lock contract —
    the hypothesis `a ≠ lockAddr` cannot be dropped — and nothing goes to 8 -/
example : LP.PL.l5.range 8 = none ∧ LP.PL.l5.lockAddr = 77 ∧ LP.PL.l5.variant.hasLock = true ∧
    (C10reach.be_outOf (step id LP.PL.l5 { caller := 7, round := 15, epoch := 3 } .claim)).xfers
      = [(77, ⟨.esdt 1, 0, 500⟩), (7, ⟨.esdt 1, 0, 1500⟩)] := by
  refine ⟨rfl, rfl, rfl, by decide +kernel⟩

example (p : Hist) (hp : RoundsFrom 11 p) (e : Env) (c : Call) (s2 : State) (o : Out)
    (h : step id (run id LP.PL.l5 p) e c = .ok (s2, o)) :
    (∀ q ∈ o.xfers, q.1 ≠ 8) ∧ (∀ q ∈ o.sfts, q.1 ≠ 8) ∧ (∀ q ∈ o.locks, q.2.1 ≠ 8) :=
  (nothing_ever_run id LP.PL.l5 11 (.plain (Or.inr rfl) (Reach_iff.mpr ⟨_, LP.PL.l5_reachA⟩))
    (by decide) 8 rfl (by decide) (by decide) (by decide) p hp).2 e c s2 o h

open LP.Props.C10reach in
/-- a vesting variant (guarV2), state `be_g10` of C10reach (round 12, distribution complete; 7 was
    blacklisted and filtered out and has no vesting record): hypotheses and theorem -/
example : be_g10.range 7 = none ∧ be_g10.userTotal 7 = 0 ∧ be_g10.variant.vested = true ∧
    be_g10.owner = 1 ∧ be_g10.cfg.sel ≤ 12 :=
  ⟨rfl, rfl, rfl, rfl, by decide⟩

open LP.Props.C10reach in
example (p : Hist) (hp : RoundsFrom 12 p) (e : Env) (c : Call) (s2 : State) (o : Out)
    (h : step id (run id be_g10 p) e c = .ok (s2, o)) :
    (∀ q ∈ o.xfers, q.1 ≠ 7) ∧ (∀ q ∈ o.sfts, q.1 ≠ 7) ∧ (∀ q ∈ o.locks, q.2.1 ≠ 7) :=
  (nothing_ever_run id be_g10 12 (.guarV2 be_g10_reach) (by decide) 7 rfl (by decide) (by decide)
    (fun _ => rfl) p hp).2 e c s2 o h

open LP.Props.C10reach in
/-- C10: in `be_x5` (round 7 → seen at the selection start, round 10) participant 7 is blacklisted
    and STILL has the record `[1, 2]` (the filter has not run): `nothing_ever` does not apply, the
    blacklist corollary does — in the later state `be_x7` and along any continuation -/
example : be_x5.blacklist 7 = true ∧ be_x5.range 7 = some ⟨1, 2⟩ ∧
    (∀ e c s2 o, step id be_x7 e c = .ok (s2, o) →
      (∀ q ∈ o.xfers, q.1 ≠ 7) ∧ (∀ q ∈ o.sfts, q.1 ≠ 7) ∧ (∀ q ∈ o.locks, q.2.1 ≠ 7)) :=
  ⟨rfl, rfl, (blacklisted_receives_nothing_ever id be_x5 10
    (.plain (Or.inl rfl) (.wait _ 7 10 be_x5_reach (by decide))) 7 rfl (by decide) (by decide)
    (by decide) be_x7 11 be_x5_later_x7).2.2.2⟩

open LP.Props.C10reach in
/-- the blacklisting itself (`be_x4 → be_x5`) DID pay 7 (the refund of 20 EGLD): recipients of a
    `blacklist` call are the listed users, as `xfers_recipients` says -/
example : (be_outOf (step id be_x4 { caller := 1, round := 7 } (.blacklist [7]))).xfers
    = [(7, ⟨.egld, 0, 20⟩)] := rfl

/-- `owner_only_proceeds` on the locked launchpad: `l6 → l7` pays the owner 1 only -/
example : ∃ o, step id LP.PL.l6 { caller := 1, round := 16, epoch := 3 } .claimPayment = .ok (LP.PL.l7, o) ∧
    (∀ p ∈ o.xfers, p.1 = 1) ∧ o.sfts = [] ∧ o.locks = [] := by
  obtain ⟨o, ho⟩ := LP.PL.stOf_step
    (x := step id LP.PL.l6 { caller := 1, round := 16, epoch := 3 } .claimPayment) rfl LP.PL.l6
  have ho' : step id LP.PL.l6 { caller := 1, round := 16, epoch := 3 } .claimPayment = .ok (LP.PL.l7, o) := ho
  exact ⟨o, ho', (owner_only_proceeds id _ _ _ o ho').2⟩

end LP.Props.C09nothing

#print axioms LP.Props.C09nothing.xfers_recipients
#print axioms LP.Props.C09nothing.only_four_endpoints_pay
#print axioms LP.Props.C09nothing.sfts_only_nft_claim
#print axioms LP.Props.C09nothing.locks_only_locked_claim
#print axioms LP.Props.C09nothing.refundUsers_only_v2
#print axioms LP.Props.C09nothing.owner_only_proceeds
#print axioms LP.Props.C09nothing.out_of_sale_obtains_nothing
#print axioms LP.Props.C09nothing.out_of_sale_is_permanent
#print axioms LP.Props.C09nothing.nothing_ever
#print axioms LP.Props.C09nothing.nothing_ever_run
#print axioms LP.Props.C09nothing.nothing_ever_after_filter
#print axioms LP.Props.C09nothing.nothing_ever_after_filter_run
#print axioms LP.Props.C09nothing.nothing_ever_unclaimed
#print axioms LP.Props.C09nothing.nothing_ever_from_deployment
#print axioms LP.Props.C09nothing.blacklisted_receives_nothing
#print axioms LP.Props.C09nothing.blacklisted_receives_nothing_ever
#print axioms LP.Props.C09nothing.blacklisted_receives_nothing_run
