import LP.Proofs.PauseFrame
import LP.Props.C19
/-
  C19 (completion) — the `paused` flag is transparent.

  The flag is WRITTEN only by `pause`/`unpause` (`paused_frame`) and READ only by the gates of
  confirm / filter / select (every variant) and of v2's distribute / claim (`GatedCall`):
  * `paused_irrelevant`      an accepted call behaves exactly like the same call on the un-paused
                             state (same outputs, same state up to the flag);
  * `paused_irrelevant_conv` conversely for every non-gated call;
  * `paused_independent`     for a non-gated call the whole result (errors included) does not depend
                             on the flag;
  * `pause_transparent`      over histories: deleting the `pause`/`unpause` calls and the calls rejected
                             because of the pause changes the final state at most in the flag.
  All statements are for every variant, every call, every state (reachable or not).
-/
namespace LP.Props.C19frame
open LP

/-- **A1 — frame**: only `pause` / `unpause` write the flag -/
theorem paused_frame (hash : List Nat → List Nat) (s s' : State) (e : Env) (c : Call) (o : Out)
    (h : step hash s e c = .ok (s', o)) (h1 : c ≠ .pause) (h2 : c ≠ .unpause) :
    s'.paused = s.paused :=
  step_paused_eq h (Call.isPauseCtl_eq_false h1 h2)

/-- **A2 — an accepted call does not see the flag**: whatever the flag, an accepted call other than
    `pause`/`unpause` is accepted on the un-paused state with the same outputs and the same
    resulting state (flag cleared) -/
theorem paused_irrelevant (hash : List Nat → List Nat) (s s' : State) (e : Env) (c : Call) (o : Out)
    (h1 : c ≠ .pause) (h2 : c ≠ .unpause) (h : step hash s e c = .ok (s', o)) :
    step hash { s with paused := false } e c = .ok ({ s' with paused := false }, o) :=
  step_unpaused_of_ok h (Call.isPauseCtl_eq_false h1 h2)

/-- **A2, converse**: a non-gated call accepted on the un-paused state is accepted whatever the
    flag, with the same outputs and the same resulting state (flag kept) -/
theorem paused_irrelevant_conv (hash : List Nat → List Nat) (s s₀' : State) (e : Env) (c : Call) (o : Out)
    (h1 : c ≠ .pause) (h2 : c ≠ .unpause) (hg : ¬GatedCall s.variant c)
    (h : step hash { s with paused := false } e c = .ok (s₀', o)) :
    step hash s e c = .ok ({ s₀' with paused := s.paused }, o) :=
  step_of_unpaused_ok h (Call.isPauseCtl_eq_false h1 h2) (gated_false_of hg)

/-- **A2, full strength for non-gated calls**: the whole result — acceptance, error, outputs, state
    up to the flag — is independent of the flag -/
theorem paused_independent (hash : List Nat → List Nat) (s : State) (b : Bool) (e : Env) (c : Call)
    (h1 : c ≠ .pause) (h2 : c ≠ .unpause) (hg : ¬GatedCall s.variant c) :
    step hash { s with paused := b } e c
      = match step hash s e c with
        | .ok (s', o) => .ok ({ s' with paused := b }, o)
        | .error err => .error err := by
  have := step_setP hash s b e c (Call.isPauseCtl_eq_false h1 h2)
    (by rw [gated_false_of hg]; intro h; cases h)
  refine this.trans ?_
  cases step hash s e c with
  | error err => rfl
  | ok r => rfl

/-- a gated call is accepted only on an un-paused contract (all five gates at once; cf.
    `C19.paused_rejects`, `C19.paused_rejects_v2`) -/
theorem gated_accepted_unpaused (hash : List Nat → List Nat) (s s' : State) (e : Env) (c : Call) (o : Out)
    (hg : GatedCall s.variant c) (h : step hash s e c = .ok (s', o)) : s.paused = false :=
  gated_ok_unpaused h ((gated_iff _ _).mpr hg)

/-! ### histories -/

/-- what the pause-free sub-history `erasePause hash s h` (defined in LP.Proofs.PauseFrame by
    recursion along the real run) deletes: a call is dropped iff it is `pause`/`unpause`, or it is a
    gated call made while the flag is set (such a call is rejected); every other call — accepted, or
    rejected for a reason other than the pause — is kept, in order -/
theorem erasePause_step (hash : List Nat → List Nat) (s : State) (e : Env) (c : Call)
    (rest : List (Env × Call)) :
    erasePause hash s ((e, c) :: rest)
      = (if c.isPauseCtl || (gated s.variant c && s.paused) then [] else [(e, c)])
        ++ erasePause hash (run hash s [(e, c)]) rest :=
  erasePause_spec hash s e c rest

/-- the pause-free history is a sub-history -/
theorem erasePause_sublist (hash : List Nat → List Nat) : ∀ (h : List (Env × Call)) (s : State),
    (erasePause hash s h).Sublist h
  | [], s => by simp [erasePause]
  | (e, c) :: rest, s => by
    rw [erasePause_spec]
    split
    · exact (erasePause_sublist hash rest _).cons _
    · exact (erasePause_sublist hash rest _).cons_cons _

/-- … without any `pause` / `unpause` -/
theorem erasePause_no_ctl (hash : List Nat → List Nat) : ∀ (h : List (Env × Call)) (s : State),
    ∀ ec ∈ erasePause hash s h, ec.2 ≠ .pause ∧ ec.2 ≠ .unpause
  | [], s => by simp [erasePause]
  | (e, c) :: rest, s => by
    intro ec hec
    rw [erasePause_spec] at hec
    rcases List.mem_append.mp hec with h1 | h1
    · split at h1
      · cases h1
      · rename_i hn
        simp only [List.mem_singleton] at h1
        subst h1
        constructor <;> (intro hc; have hc' : c = _ := hc; subst hc'; simp [Call.isPauseCtl] at hn)
    · exact erasePause_no_ctl hash rest _ ec h1

/-- **A3 — pause is transparent over histories**: for every history `h` from every state `s`, the
    final state equals, up to the flag, the final state of the pause-free sub-history
    `erasePause hash s h` (delete `pause`/`unpause` and the calls rejected because of the pause)
    run from the un-paused `s` -/
theorem pause_transparent (hash : List Nat → List Nat) (s : State) (h : List (Env × Call)) :
    { run hash s h with paused := false }
      = run hash { s with paused := false } (erasePause hash s h) :=
  run_erasePause hash h s

/-- **A3, outputs**: the pause-free sub-history, run from the un-paused state, produces exactly the
    outputs (return values, events, transfers, lock calls, SFT hand-outs, draws) of the accepted
    calls of `h` other than `pause`/`unpause`, for the same calls in the same order -/
theorem pause_transparent_outputs (hash : List Nat → List Nat) (s : State) (h : List (Env × Call)) :
    runOuts hash { s with paused := false } (erasePause hash s h)
      = (runOuts hash s h).filter (fun x => !x.2.1.isPauseCtl) :=
  runOuts_erasePause hash h s

/-- the pause-free run never sets the flag -/
theorem run_unpaused_of_no_ctl (hash : List Nat → List Nat) : ∀ (h : List (Env × Call)) (s : State),
    (∀ ec ∈ h, ec.2 ≠ .pause ∧ ec.2 ≠ .unpause) → (run hash s h).paused = s.paused
  | [], s, _ => rfl
  | (e, c) :: rest, s, hall => by
    have hc := hall (e, c) (by simp)
    have hrest : ∀ ec ∈ rest, ec.2 ≠ .pause ∧ ec.2 ≠ .unpause :=
      fun ec hec => hall ec (by simp [hec])
    cases hst : step hash s e c with
    | ok r =>
      obtain ⟨s', o⟩ := r
      rw [run_cons_ok rest hst, run_unpaused_of_no_ctl hash rest s' hrest]
      exact paused_frame hash s s' e c o hst hc.1 hc.2
    | error err =>
      rw [run_cons_error rest hst]
      exact run_unpaused_of_no_ctl hash rest s hrest

/-- **A3, exact form**: from an un-paused state, if the contract is un-paused at the end of `h`
    then the pauses left no trace at all — the final state IS the final state of the pause-free
    sub-history -/
theorem pause_transparent_exact (hash : List Nat → List Nat) (s : State) (h : List (Env × Call))
    (hs : s.paused = false) (hend : (run hash s h).paused = false) :
    run hash s h = run hash s (erasePause hash s h) := by
  have h1 := pause_transparent hash s h
  have e1 : ({ run hash s h with paused := false } : State) = run hash s h := by
    have := State.setP_self (run hash s h)
    rw [hend] at this
    exact this
  have e2 : ({ s with paused := false } : State) = s := by
    have := State.setP_self s
    rw [hs] at this
    exact this
  rw [e1, e2] at h1
  exact h1

/-! ### `pause_roundtrip` of `LP.Props.C19` as a special case -/

/-- **`C19.pause_roundtrip` follows from transparency**: a pause, any rejected calls, an unpause,
    from an un-paused state end in that very state — because the pause-free sub-history consists
    of calls that are rejected anyway -/
theorem pause_roundtrip (hash : List Nat → List Nat) (s : State) (e1 e2 : Env)
    (mid : List (Env × Call)) (s1 s2 : State) (o1 o2 : Out)
    (hnp : s.paused = false)
    (h1 : step hash s e1 .pause = .ok (s1, o1))
    (hmid : ∀ ec ∈ mid, ∃ err, step hash s1 ec.1 ec.2 = .error err)
    (h2 : step hash s1 e2 .unpause = .ok (s2, o2)) :
    run hash s ((e1, Call.pause) :: mid ++ [(e2, Call.unpause)]) = s := by
  have hs1 := (C19.pause_effect hash s e1 s1 o1 h1).1
  have hs2 := (C19.unpause_effect hash s1 e2 s2 o2 h2).1
  -- the contract is un-paused at the end
  have hrun : run hash s ((e1, Call.pause) :: mid ++ [(e2, Call.unpause)]) = s2 := by
    rw [List.cons_append, run_cons_ok _ h1]
    have : ∀ (l : List (Env × Call)), (∀ ec ∈ l, ∃ err, step hash s1 ec.1 ec.2 = .error err) →
        run hash s1 (l ++ [(e2, Call.unpause)]) = s2 := by
      intro l
      induction l with
      | nil => intro _; rw [List.nil_append, run_cons_ok [] h2]; rfl
      | cons x xs ih =>
        intro hall
        obtain ⟨err, herr⟩ := hall x (by simp)
        rw [List.cons_append, run_cons_error _ herr]
        exact ih (fun ec hec => hall ec (by simp [hec]))
    exact this mid hmid
  have hend : (run hash s ((e1, Call.pause) :: mid ++ [(e2, Call.unpause)])).paused = false := by
    rw [hrun, hs2]
  rw [pause_transparent_exact hash s _ hnp hend]
  -- the pause-free sub-history is rejected as a whole
  apply run_all_rejected
  intro ec hec
  rw [List.cons_append, erasePause_cons_ok _ h1] at hec
  simp only [Call.isPauseCtl, if_true] at hec
  have := erasePause_paused_stretch hash s1 e2 s2 o2 h2 mid hmid ec hec
  have e : ({ s1 with paused := false } : State) = s := by
    rw [hs1]
    have := State.setP_self s
    rw [hnp] at this
    exact this
  rwa [e] at this

/-! ### non-vacuity -/

/-- a deployed, deposited, paused base launchpad in the confirmation period -/
def demo : State :=
  { variant := .base, owner := 1, lpTok := 1, perTicket := 1, payTok := .egld, price := 10,
    nrWinning := 1, cfg := ⟨5, 10, 15⟩, flags := {}, support := 1, deposited := true, paused := true,
    range := fun a => if a = 7 then some ⟨1, 3⟩ else none }

/-- `paused_frame` / `paused_irrelevant` / `paused_irrelevant_conv` apply to an accepted non-gated
    call on a paused contract (the owner moves the claim start) -/
example : ∃ s' o, step id demo { caller := 1, round := 6 } (.setClaimStart 20) = .ok (s', o) ∧
    ¬GatedCall demo.variant (.setClaimStart 20) ∧ demo.paused = true :=
  ⟨_, _, rfl, by simp [GatedCall], rfl⟩

/-- a history with a pause, a confirmation rejected because of it, an unpause and an accepted
    confirmation: the pause-free sub-history is the accepted confirmation alone -/
example :
    let s := { demo with paused := false }
    let h : List (Env × Call) :=
      [({ caller := 1, round := 6 }, .pause), ({ caller := 7, round := 6, egld := 20 }, .confirm 2),
       ({ caller := 1, round := 7 }, .unpause), ({ caller := 7, round := 8, egld := 10 }, .confirm 1)]
    (erasePause id s h).length = 1 ∧ (run id s h).confirmed 7 = 1 ∧ (run id s h).paused = false := by
  refine ⟨by decide, by decide, by decide⟩

end LP.Props.C19frame

#print axioms LP.Props.C19frame.paused_frame
#print axioms LP.Props.C19frame.paused_irrelevant
#print axioms LP.Props.C19frame.paused_irrelevant_conv
#print axioms LP.Props.C19frame.paused_independent
#print axioms LP.Props.C19frame.gated_accepted_unpaused
#print axioms LP.Props.C19frame.erasePause_step
#print axioms LP.Props.C19frame.erasePause_sublist
#print axioms LP.Props.C19frame.erasePause_no_ctl
#print axioms LP.Props.C19frame.pause_transparent
#print axioms LP.Props.C19frame.pause_transparent_outputs
#print axioms LP.Props.C19frame.pause_transparent_exact
#print axioms LP.Props.C19frame.pause_roundtrip

#print axioms LP.Props.C19frame.run_unpaused_of_no_ctl
