import LP.Proofs.ReachPL3
import LP.Props.C01reach
/-
  C02 (reachable-state form) — launchpad-token solvency of the two plain launchpads
  (`Variant.base` = launchpad, `Variant.locked` = launchpad-locked-tokens; `Plain v`).

  Invariant `pl_Lp T0 s` (LP/Proofs/ReachPL2.lean; `T0` = winning tickets given at deployment):
  holds after deployment (`pl_init`), is kept by EVERY accepted call (`pl_step`: no `EnvOK`, no
  `CallOK`, no monotone rounds), hence along any `run` history (`pl_run`) and in every state of
  `Reach hash v s r` (`pl_reach`).

  1  THE LEDGER.  `lp_ledger_plain` / `lp_ledger_plain_run`:
        deposited = false → bal lpTok = 0 (and nobody has confirmed)
        deposited = true  → bal lpTok = perTicket × k + perTicket × nrWinning   (an EQUALITY)
     where `k` counts the tickets whose tokens are the owner's not-yet-withdrawn surplus:
       k = 0 until the filter completes          (`lp_exact_until_filter`: bal = perTicket × T0)
       k = T0 − nrWinning(at filter completion)   (`surplus_fixed_by_filter`), frozen by every call
                                                  except `claimPayment` (`surplus_frozen`,
                                                  `surplus_until_withdrawal`)
       k = 0 for ever after the owner's withdrawal (`owner_surplus_plain`, `exact_after_withdrawal`)
     Hence `lp_cover_plain(_run)`: `LpCover` from the deposit on.
  2  THE DEPOSIT.  `deposit_exact_plain`, `deposit_amount_plain_run`, `deposit_once_plain`,
     `perTicket_fixed_after_deposit_plain`.
  3  WINNERS.  `winner_receives_exact_plain` (both variants: lock part + direct part = entitlement),
     `winner_receives_exact_base` (one direct transfer), `winner_receives_exact_locked` (the split
     `L = lockSplit (winning × perTicket) lockPct` to `lockAddr`, the rest direct),
     `winner_covered_plain`.
  4  THE OWNER.  `owner_surplus_plain`, `surplus_fixed_by_filter`, `surplus_frozen`,
     `surplus_until_withdrawal`, `owner_gets_unsold_tickets_plain`, `exact_after_withdrawal`,
     `owner_never_takes_winner_share`.
  5  THE END.  `lp_zero_at_end_plain`, `lp_zero_when_settled_plain`, `lp_zero_later_plain`,
     `lp_positive_means_outstanding_plain`.
-/
namespace LP.PL
open LP LP.FY LP.Props.C09 LP.Props.C01reach
open LP.Props.C02 (LpCover)

/-! ### 1. the ledger -/

/-- the ledger read off the invariant -/
theorem ledger_of_Lp {T0 : Nat} {s : State} (hI : pl_Lp T0 s) :
    s.payTok ≠ .esdt s.lpTok ∧ 0 < s.perTicket ∧ s.nrWinning ≤ T0 ∧
    (s.flags.filtered = false → s.nrWinning = T0 ∧ s.flags.selected = false) ∧
    (s.deposited = false → s.bal (.esdt s.lpTok) 0 = 0 ∧ ∀ a, s.confirmed a = 0) ∧
    (s.deposited = true → ∃ k, s.bal (.esdt s.lpTok) 0 = s.perTicket * k + s.perTicket * s.nrWinning ∧
      s.nrWinning + k ≤ T0 ∧ (s.flags.filtered = false → k = 0)) := by
  refine ⟨hI.base.tokNe, hI.base.perPos, hI.num.nrwLe, hI.num.notFil,
    fun hd => ⟨hI.num.notDep hd, hI.noConf hd⟩, fun hd => ?_⟩
  obtain ⟨k, h1, h2, h3⟩ := hI.num.dep hd
  refine ⟨k, ?_, h2, h3⟩
  have h1' : s.bal (.esdt s.lpTok) 0 = s.perTicket * (s.nrWinning + k) := h1
  rw [h1', Nat.mul_add]; omega

/-- **C02, the launchpad-token ledger of a plain launchpad, every reachable state.**
    The payment token is not the launchpad token; before the deposit the contract holds no
    launchpad token and nobody has confirmed; from the deposit on
    `bal lpTok = perTicket × k + perTicket × nrWinning` — the owner's not-yet-withdrawn surplus plus
    exactly what the outstanding winners are owed — with `nrWinning + k ≤ T0`, and `k = 0`,
    `nrWinning = T0` until the filter completes. -/
theorem lp_ledger_plain (hash : List Nat → List Nat) (v : Variant) (hv : Plain v) (a0 : InitArgs)
    (s : State) (r : Nat) (h : ReachA hash v a0 s r) :
    s.payTok ≠ .esdt s.lpTok ∧ 0 < s.perTicket ∧ s.nrWinning ≤ a0.nrWinning ∧
    (s.flags.filtered = false → s.nrWinning = a0.nrWinning ∧ s.flags.selected = false) ∧
    (s.deposited = false → s.bal (.esdt s.lpTok) 0 = 0 ∧ ∀ a, s.confirmed a = 0) ∧
    (s.deposited = true → ∃ k, s.bal (.esdt s.lpTok) 0 = s.perTicket * k + s.perTicket * s.nrWinning ∧
      s.nrWinning + k ≤ a0.nrWinning ∧ (s.flags.filtered = false → k = 0)) :=
  ledger_of_Lp (pl_reachA hv h)

/-- the same along ANY history of a plain launchpad: no restriction on the calls, their arguments,
    call values or rounds (rejected transactions leave no trace) -/
theorem lp_ledger_plain_run (hash : List Nat → List Nat) (v : Variant) (hv : Plain v) (a : InitArgs)
    (e : Env) (s0 : State) (hi : init v a e = .ok s0) (h : List (Env × Call)) :
    let s := run hash s0 h
    s.payTok ≠ .esdt s.lpTok ∧ 0 < s.perTicket ∧ s.nrWinning ≤ a.nrWinning ∧
    (s.flags.filtered = false → s.nrWinning = a.nrWinning ∧ s.flags.selected = false) ∧
    (s.deposited = false → s.bal (.esdt s.lpTok) 0 = 0 ∧ ∀ a, s.confirmed a = 0) ∧
    (s.deposited = true → ∃ k, s.bal (.esdt s.lpTok) 0 = s.perTicket * k + s.perTicket * s.nrWinning ∧
      s.nrWinning + k ≤ a.nrWinning ∧ (s.flags.filtered = false → k = 0)) :=
  ledger_of_Lp (pl_run hash hv hi h)

theorem cover_of_Lp {T0 : Nat} {s : State} (hI : pl_Lp T0 s) (hd : s.deposited = true) : LpCover s := by
  obtain ⟨_, _, _, _, _, h6⟩ := ledger_of_Lp hI
  obtain ⟨k, hk, _⟩ := h6 hd
  unfold LpCover
  omega

/-- **`LpCover` from the deposit on, in every reachable state**: the launchpad tokens held cover
    everything still owed to winners -/
theorem lp_cover_plain (hash : List Nat → List Nat) (v : Variant) (hv : Plain v) (s : State) (r : Nat)
    (h : Reach hash v s r) (hd : s.deposited = true) : LpCover s := by
  obtain ⟨T0, hI⟩ := pl_reach hv h
  exact cover_of_Lp hI hd

/-- the same along ANY history -/
theorem lp_cover_plain_run (hash : List Nat → List Nat) (v : Variant) (hv : Plain v) (a : InitArgs)
    (e : Env) (s0 : State) (hi : init v a e = .ok s0) (h : List (Env × Call))
    (hd : (run hash s0 h).deposited = true) : LpCover (run hash s0 h) :=
  cover_of_Lp (pl_run hash hv hi h) hd

/-- until the filter completes the contract holds EXACTLY the deposit `perTicket × T0` -/
theorem lp_exact_until_filter (hash : List Nat → List Nat) (v : Variant) (hv : Plain v) (a0 : InitArgs)
    (s : State) (r : Nat) (h : ReachA hash v a0 s r) (hd : s.deposited = true)
    (hf : s.flags.filtered = false) :
    s.bal (.esdt s.lpTok) 0 = s.perTicket * a0.nrWinning ∧ s.nrWinning = a0.nrWinning := by
  obtain ⟨_, _, _, h4, _, h6⟩ := lp_ledger_plain hash v hv a0 s r h
  obtain ⟨k, hk, _, hk0⟩ := h6 hd
  have := hk0 hf
  subst this
  rw [hk, (h4 hf).1]
  exact ⟨by simp, rfl⟩

/-! ### 2. the deposit -/

/-- **the single deposit**: an accepted `deposit` made before the filter has completed (the only
    moment a launch with confirmations can make it: `confirm` requires the deposit) is made by the
    owner, is the first one, and transfers exactly `perTicket × nrWinning = perTicket × T0`
    launchpad tokens (one fungible transfer); afterwards the contract holds exactly that and
    nothing was sent out -/
theorem deposit_exact_plain (hash : List Nat → List Nat) (v : Variant) (hv : Plain v) (a0 : InitArgs)
    (s : State) (r : Nat) (h : ReachA hash v a0 s r) (e : Env) (s' : State) (o : Out)
    (hf : s.flags.filtered = false) (hs : step hash s e .deposit = .ok (s', o)) :
    e.caller = s.owner ∧ s.deposited = false ∧ s.nrWinning = a0.nrWinning ∧
    singleFungible e = .ok (.esdt s.lpTok, s.perTicket * a0.nrWinning) ∧
    s'.deposited = true ∧ s'.totalDeposited = s.perTicket * a0.nrWinning ∧
    s'.perTicket = s.perTicket ∧ s'.nrWinning = a0.nrWinning ∧
    s'.bal (.esdt s'.lpTok) 0 = s'.perTicket * a0.nrWinning ∧ o.xfers = [] := by
  have hI := pl_reachA hv h
  obtain ⟨h1, h2, h3, h4, h5, h6⟩ := pl_deposit_exact hI.base.var hs
  have hT : s.nrWinning = a0.nrWinning := (hI.num.notFil hf).1
  have h0 : s.bal (.esdt s.lpTok) 0 = 0 := hI.num.notDep h2
  rw [hT] at h3 h4 h5
  refine ⟨h1, h2, hT, h3, by rw [h4], by rw [h4], by rw [h4]; rfl, by rw [h4]; exact hT, ?_, h6⟩
  rw [h5, h0, h4]; simp

/-- at any point of any history: an accepted deposit is exactly `perTicket × nrWinning` launchpad
    tokens, `nrWinning` being the number of winners still to be paid (`= T0` until the filter
    completes); the balance grows by exactly that -/
theorem deposit_amount_plain_run (hash : List Nat → List Nat) (v : Variant) (hv : Plain v)
    (a : InitArgs) (e0 : Env) (s0 : State) (hi : init v a e0 = .ok s0) (h : List (Env × Call))
    (e : Env) (s' : State) (o : Out) (hs : step hash (run hash s0 h) e .deposit = .ok (s', o)) :
    let s := run hash s0 h
    singleFungible e = .ok (.esdt s.lpTok, s.perTicket * s.nrWinning) ∧
    (s.flags.filtered = false → s.nrWinning = a.nrWinning) ∧
    s'.bal (.esdt s'.lpTok) 0 = s.perTicket * s.nrWinning ∧ s'.deposited = true := by
  have hI := pl_run hash hv hi h
  obtain ⟨_, h2, h3, h4, h5, _⟩ := pl_deposit_exact hI.base.var hs
  have h0 : (run hash s0 h).bal (.esdt (run hash s0 h).lpTok) 0 = 0 := hI.num.notDep h2
  refine ⟨h3, fun hf => (hI.num.notFil hf).1, ?_, by rw [h4]⟩
  rw [h5, h0]; simp

/-- **a second deposit is rejected**, whatever happens in between -/
theorem deposit_once_plain (hash : List Nat → List Nat) (s : State) (e : Env) (s' : State) (o : Out)
    (hs : step hash s e .deposit = .ok (s', o)) (h : List (Env × Call)) (e' : Env) :
    ∃ err, step hash (run hash s' h) e' .deposit = .error err := by
  have hd : s'.deposited = true := by
    rw [(LP.Props.C02.deposit_effect hash s s' e o hs).1]
  exact LP.Props.C02.second_deposit_rejected hash _ e' (pl_run_deposited hash h s' hd)

/-- **the tokens per ticket cannot change after the deposit** -/
theorem perTicket_fixed_after_deposit_plain (hash : List Nat → List Nat) (s : State)
    (hd : s.deposited = true) (h : List (Env × Call)) :
    (run hash s h).perTicket = s.perTicket ∧ (run hash s h).deposited = true :=
  ⟨pl_run_perTicket hash h s hd, pl_run_deposited hash h s hd⟩

/-! ### 3. winners -/

theorem reach_variant {hash : List Nat → List Nat} {v : Variant} (hv : Plain v) {s : State} {r : Nat}
    (h : Reach hash v s r) : s.variant = v := by
  induction h with
  | init a e s hh => exact (rb_init_inv hv hh).1
  | call s r e c s' o _ _ _ _ h4 ih => rw [pl_step_variant h4]; exact ih
  | wait s r r' _ _ ih => exact ih

/-- **every winner receives exactly `perTicket × winning tickets`**: an accepted `claim` in a
    reachable state of a plain launchpad happens after all selection steps (`AllDone`); besides the
    refund the caller's entitlement `perTicket × winCountOf s caller` leaves the contract as at most
    one lock call (carried by a transfer of the same amount to the lock contract `lockAddr`) plus at
    most one direct transfer to the caller, the two parts adding up to the entitlement; the base
    launchpad makes no lock call.  The launchpad-token balance drops by exactly the entitlement and
    `nrWinning` by the caller's winning tickets; the caller's range is gone. -/
theorem winner_receives_exact_plain (hash : List Nat → List Nat) (v : Variant) (hv : Plain v)
    (s : State) (r : Nat) (h : Reach hash v s r) (e : Env) (s' : State) (o : Out)
    (hs : step hash s e .claim = .ok (s', o)) :
    AllDone s ∧
    ∃ (rg : Range) (newLocks : List (Nat × Nat × Nat)) (newDirect : List Nat),
      s.range e.caller = some rg ∧ o.locks = newLocks ∧
      o.xfers = refundXfers s e.caller
        ++ newLocks.map (fun l => (s.lockAddr, (⟨.esdt s.lpTok, 0, l.2.2⟩ : Pay)))
        ++ newDirect.map (fun d => (e.caller, (⟨.esdt s.lpTok, 0, d⟩ : Pay))) ∧
      (∀ l ∈ newLocks, l.1 = s.unlockEpoch ∧ l.2.1 = e.caller ∧ 0 < l.2.2) ∧
      (∀ d ∈ newDirect, 0 < d) ∧ newLocks.length ≤ 1 ∧ newDirect.length ≤ 1 ∧
      (newLocks.map (·.2.2)).sum + newDirect.sum = s.perTicket * winCountOf s e.caller ∧
      (v = .base → newLocks = []) ∧
      winCountOf s e.caller ≤ s.nrWinning ∧
      s.perTicket * winCountOf s e.caller ≤ s.bal (.esdt s.lpTok) 0 ∧
      s'.nrWinning = s.nrWinning - winCountOf s e.caller ∧
      s'.bal (.esdt s'.lpTok) 0 = s.bal (.esdt s.lpTok) 0 - s.perTicket * winCountOf s e.caller ∧
      s'.perTicket = s.perTicket ∧ s'.range e.caller = none ∧ s'.claimed e.caller = true := by
  obtain ⟨T0, hI⟩ := pl_reach hv h
  obtain ⟨rg, nl, nd, h1, h2, h3, h4, h5, h6, h7, h8, h9, h10, h11, h12, h13, h14, h15⟩ :=
    pl_claim_out hI.base hs
  obtain ⟨hsel, _, _⟩ := rb_stage_claim h1
  obtain ⟨a0, h0⟩ := Reach_iff.mp h
  have hadd := (reach_WF hv h0).add
  have hvar : s.variant = v := reach_variant hv h
  refine ⟨⟨hsel, hadd⟩, rg, nl, nd, h2, h3, h4, h5, h6, h7, h8, h9, fun hb => h10 (hvar.trans hb), h11,
    h12, h14, h15, ?_, ?_, ?_⟩
  · rw [h13]; rfl
  · rw [h13]; show upd s.range e.caller none e.caller = none; simp
  · rw [h13]; show upd s.claimed e.caller true e.caller = true; simp

/-- **base launchpad**: the entitlement is one direct transfer of `winning × perTicket` launchpad
    tokens to the caller (none if he has no winning ticket), after the refund; no lock call -/
theorem winner_receives_exact_base (hash : List Nat → List Nat) (s : State) (r : Nat)
    (h : Reach hash .base s r) (e : Env) (s' : State) (o : Out)
    (hs : step hash s e .claim = .ok (s', o)) :
    o.xfers = refundXfers s e.caller ++
      (if winCountOf s e.caller = 0 then []
       else [(e.caller, (⟨.esdt s.lpTok, 0, winCountOf s e.caller * s.perTicket⟩ : Pay))]) ∧
    o.locks = [] := by
  have hv := reach_variant (Or.inl rfl) h
  obtain ⟨_, _, _, h3, h4, _⟩ := (claim_base_iff hash s e s' o (by rw [hv]; rfl) (by rw [hv]; rfl)
    (by rw [hv]; rfl)).mp hs
  exact ⟨h3, h4⟩

/-- the lock percentage of a locked launchpad is positive (checked at deployment, never changed) -/
theorem reach_lockPct_pos {hash : List Nat → List Nat} {s : State} {r : Nat}
    (h : Reach hash .locked s r) : 0 < s.lockPct := by
  induction h with
  | init a e0 s hh =>
    unfold init at hh
    simp only [Variant.hasNft, Variant.v1Alloc, Variant.hasLock, Variant.noAdditionalStep, bind_ok_iff,
      req_ok_iff, pure_ok_iff, pure_bind,
      exists_const, if_true, if_false, Bool.false_eq_true, reduceCtorEq, decide_eq_true_eq,
      bne_iff_ne, ne_eq, not_false_eq_true, beq_iff_eq, Bool.and_eq_true] at hh
    obtain ⟨_, _, _, _, _, _, ⟨h7, _⟩, _, _, hh⟩ := hh
    subst hh
    exact h7
  | call s r e c s' o _ _ _ _ h4 ih => rw [pl_step_lockPct h4]; exact ih
  | wait s r r' _ _ ih => exact ih

/-- **locked launchpad, the split exactly**: with `amount = winning × perTicket` and
    `L = pl_lockedAmt s e amount` (`= lockSplit amount lockPct = amount × lockPct / 10000` before the
    unlock epoch, `0` from the unlock epoch on), after the refund the caller's entitlement leaves as
    one transfer of `L` to the lock contract `lockAddr` with the lock call `(unlockEpoch, caller, L)`
    (if `L > 0`) and one direct transfer of `amount − L` to the caller (if positive);
    `L + (amount − L) = amount` -/
theorem winner_receives_exact_locked (hash : List Nat → List Nat) (s : State) (r : Nat)
    (h : Reach hash .locked s r) (e : Env) (s' : State) (o : Out)
    (hs : step hash s e .claim = .ok (s', o)) :
    o.locks = (if pl_lockedAmt s e (winCountOf s e.caller * s.perTicket) > 0
      then [(s.unlockEpoch, e.caller, pl_lockedAmt s e (winCountOf s e.caller * s.perTicket))] else []) ∧
    o.xfers = refundXfers s e.caller
      ++ (if pl_lockedAmt s e (winCountOf s e.caller * s.perTicket) > 0
          then [(s.lockAddr, (⟨.esdt s.lpTok, 0,
            pl_lockedAmt s e (winCountOf s e.caller * s.perTicket)⟩ : Pay))] else [])
      ++ (if winCountOf s e.caller * s.perTicket
            - pl_lockedAmt s e (winCountOf s e.caller * s.perTicket) > 0
          then [(e.caller, (⟨.esdt s.lpTok, 0, winCountOf s e.caller * s.perTicket
            - pl_lockedAmt s e (winCountOf s e.caller * s.perTicket)⟩ : Pay))] else []) ∧
    pl_lockedAmt s e (winCountOf s e.caller * s.perTicket)
      + (winCountOf s e.caller * s.perTicket - pl_lockedAmt s e (winCountOf s e.caller * s.perTicket))
      = winCountOf s e.caller * s.perTicket ∧
    (e.epoch < s.unlockEpoch → pl_lockedAmt s e (winCountOf s e.caller * s.perTicket)
      = lockSplit (winCountOf s e.caller * s.perTicket) s.lockPct) ∧
    (s.unlockEpoch ≤ e.epoch → pl_lockedAmt s e (winCountOf s e.caller * s.perTicket) = 0) ∧
    0 < s.lockPct ∧ s.lockPct ≤ 10000 := by
  obtain ⟨T0, hI⟩ := pl_reach (Or.inr rfl) h
  obtain ⟨k1, k2, k3⟩ := pl_claim_locked_out hI.base (reach_variant (Or.inr rfl) h) hs
  refine ⟨k1, k2, k3, fun he => by simp [pl_lockedAmt, he], fun he => ?_, ?_, hI.base.pct⟩
  · have : ¬ e.epoch < s.unlockEpoch := by omega
    simp [pl_lockedAmt, this]
  · exact reach_lockPct_pos h

/-- any participant who still holds a range is covered: in EVERY reachable state after completion
    — whatever claims and owner withdrawals happened before, in any order — the launchpad tokens
    held cover `perTicket × (winning tickets)` of every participant who has not settled yet -/
theorem winner_covered_plain (hash : List Nat → List Nat) (v : Variant) (hv : Plain v) (s : State)
    (r : Nat) (h : Reach hash v s r) (hd : AllDone s) (a : Nat) :
    s.perTicket * winCountOf s a ≤ s.bal (.esdt s.lpTok) 0 ∧ winCountOf s a ≤ s.nrWinning := by
  obtain ⟨T0, hI⟩ := pl_reach hv h
  obtain ⟨L, _, _, hwin, hle, hrg⟩ := three_counts hash v hv s r h hd
  have hwn : winCountOf s a ≤ s.nrWinning := by
    cases hr : s.range a with
    | none => simp [winCountOf, hr]
    | some rg =>
      rw [← hwin]
      exact rb_le_sumOver (winCountOf s) L a (hrg a rg hr).1
  refine ⟨?_, hwn⟩
  cases hdep : s.deposited with
  | false =>
    have h0 : winCountOf s a = 0 := by
      have := hle a
      rw [hI.noConf hdep a] at this
      omega
    rw [h0]; simp
  | true =>
    have hc : s.perTicket * s.nrWinning ≤ s.bal (.esdt s.lpTok) 0 := cover_of_Lp hI hdep
    exact Nat.le_trans (Nat.mul_le_mul_left _ hwn) hc

/-! ### 4. the owner -/

/-- the owner's withdrawal, from the invariant alone -/
theorem owner_surplus_of_Lp {T0 : Nat} {hash : List Nat → List Nat} {s s' : State} {e : Env} {o : Out}
    (hI : pl_Lp T0 s) (hs : step hash s e .claimPayment = .ok (s', o)) :
    e.caller = s.owner ∧ s.flags.selected = true ∧ LpCover s ∧
    s'.bal (.esdt s'.lpTok) 0 = s'.perTicket * s'.nrWinning ∧
    s'.nrWinning = s.nrWinning ∧ s'.perTicket = s.perTicket ∧ s'.lpTok = s.lpTok ∧
    s'.claimablePayment = 0 ∧
    o.xfers = (if s.claimablePayment > 0 then [(e.caller, (⟨s.payTok, 0, s.claimablePayment⟩ : Pay))] else [])
      ++ (if s.bal (.esdt s.lpTok) 0 - s.perTicket * s.nrWinning > 0
          then [(e.caller, (⟨.esdt s.lpTok, 0, s.bal (.esdt s.lpTok) 0 - s.perTicket * s.nrWinning⟩ : Pay))]
          else []) ∧
    o.locks = [] ∧ pl_Exact (pl_view s') := by
  obtain ⟨k1, k2, _, k4, k5, k6, k7⟩ := pl_claimPayment_exact hI.base hs
  have hsel : s.flags.selected = true := (rb_stage_claim k2).1
  have hne' : ¬ (Token.esdt s.lpTok = s.payTok) := fun hh => hI.base.tokNe hh.symm
  have hb : s'.bal (.esdt s'.lpTok) 0 = s'.perTicket * s'.nrWinning := by
    rw [k5]
    show ((s.bal.sub s.payTok 0 s.claimablePayment).sub (.esdt s.lpTok) 0
      (s.bal (.esdt s.lpTok) 0 - s.perTicket * s.nrWinning)) (.esdt s.lpTok) 0 = s.perTicket * s.nrWinning
    simp only [Bal.sub, and_self, if_true, hne', false_and, if_false]
    omega
  refine ⟨k1, hsel, k4, hb, by rw [k5], by rw [k5], by rw [k5], by rw [k5], k6, k7, ?_, fun _ => hb⟩
  have hfil : s.flags.filtered = true := pl_fil_of_sel hI.num hsel
  show s'.flags.filtered = true
  rw [k5]; exact hfil

/-- **the owner can withdraw only the surplus**: an accepted `claimPayment` in a reachable state is
    made by the owner after all selection steps, needs the coverage, sends the owner — besides the
    recorded ticket proceeds — exactly `bal lpTok − perTicket × nrWinning` launchpad tokens (one
    transfer, none if zero) and leaves exactly `perTicket × nrWinning`: what the outstanding winners
    are owed, never a winner's share.  Afterwards the surplus is gone for ever
    (`exact_after_withdrawal`). -/
theorem owner_surplus_plain (hash : List Nat → List Nat) (v : Variant) (hv : Plain v) (s : State)
    (r : Nat) (h : Reach hash v s r) (e : Env) (s' : State) (o : Out)
    (hs : step hash s e .claimPayment = .ok (s', o)) :
    e.caller = s.owner ∧ AllDone s ∧ LpCover s ∧
    s'.bal (.esdt s'.lpTok) 0 = s'.perTicket * s'.nrWinning ∧
    s'.nrWinning = s.nrWinning ∧ s'.perTicket = s.perTicket ∧ s'.lpTok = s.lpTok ∧
    s'.claimablePayment = 0 ∧
    o.xfers = (if s.claimablePayment > 0 then [(e.caller, (⟨s.payTok, 0, s.claimablePayment⟩ : Pay))] else [])
      ++ (if s.bal (.esdt s.lpTok) 0 - s.perTicket * s.nrWinning > 0
          then [(e.caller, (⟨.esdt s.lpTok, 0, s.bal (.esdt s.lpTok) 0 - s.perTicket * s.nrWinning⟩ : Pay))]
          else []) ∧
    o.locks = [] ∧ pl_Exact (pl_view s') := by
  obtain ⟨T0, hI⟩ := pl_reach hv h
  obtain ⟨a0, h0⟩ := Reach_iff.mp h
  obtain ⟨k1, k2, k3⟩ := owner_surplus_of_Lp hI hs
  exact ⟨k1, ⟨k2, (reach_WF hv h0).add⟩, k3⟩

/-- **the filter fixes the owner's surplus**: when the filter completes on a deposited launch,
    `nrWinning` drops from `T0` to `s'.nrWinning`, and the balance — still the whole deposit
    `perTicket × T0` — is the surplus `perTicket × (T0 − nrWinning)` for the tickets that can no
    longer win plus `perTicket × nrWinning` for the winners to come -/
theorem surplus_fixed_by_filter (hash : List Nat → List Nat) (v : Variant) (hv : Plain v)
    (a0 : InitArgs) (s : State) (r : Nat) (h : ReachA hash v a0 s r) (hd : s.deposited = true)
    (e : Env) (s' : State) (o : Out) (hs : step hash s e .filter = .ok (s', o))
    (hf' : s'.flags.filtered = true) :
    s.flags.filtered = false ∧ s.nrWinning = a0.nrWinning ∧ s'.nrWinning ≤ a0.nrWinning ∧
    s'.flags.selected = false ∧ s'.perTicket = s.perTicket ∧ s'.deposited = true ∧
    s'.bal (.esdt s'.lpTok) 0 = s'.perTicket * a0.nrWinning ∧
    s'.bal (.esdt s'.lpTok) 0 =
      s'.perTicket * (a0.nrWinning - s'.nrWinning) + s'.perTicket * s'.nrWinning := by
  have hI := pl_reachA hv h
  have htr : pl_Tr .filt (pl_view s) (pl_view s') := pl_step_Tr hI.base hs
  have hgate := (LP.Props.C06.filter_gate hash s e _ hs).2
  rcases pl_Tr_filter_surplus hI.num htr hd with heq | ⟨h1, h2, h3, h4, h5, h6, h7, h8⟩
  · have : s'.flags.filtered = s.flags.filtered := congrArg pl_V.fil heq
    rw [hf', hgate] at this; cases this
  · have h6' : s'.perTicket = s.perTicket := h6
    have h7' : s'.bal (.esdt s'.lpTok) 0 = s.perTicket * a0.nrWinning := h7
    have h8' : s'.bal (.esdt s'.lpTok) 0 =
        s'.perTicket * s'.nrWinning + s'.perTicket * (a0.nrWinning - s'.nrWinning) := h8
    refine ⟨h1, h2, h5, h4, h6', deposited_mono hs hd, by rw [h7', h6'], by rw [h8']; omega⟩

/-- after the filter `nrWinning` is `min T0 (confirmed tickets)` -/
theorem winners_after_filter_plain (hash : List Nat → List Nat) (v : Variant) (hv : Plain v)
    (a0 : InitArgs) (s : State) (r : Nat) (h : ReachA hash v a0 s r)
    (hf : s.flags.filtered = true) (hsel : s.flags.selected = false) :
    s.nrWinning = min a0.nrWinning s.lastTicketId :=
  (rb_phase_C (reach_WF hv h).phase hf hsel).nrw

/-- **the surplus is frozen**: from a deposited reachable state whose filter is complete, every
    accepted call other than the owner's `claimPayment` leaves `bal lpTok − perTicket × nrWinning`
    (and `perTicket`) unchanged — claims take out exactly what they reduce `nrWinning` by -/
theorem surplus_frozen (hash : List Nat → List Nat) (v : Variant) (hv : Plain v) (s : State) (r : Nat)
    (h : Reach hash v s r) (hd : s.deposited = true) (hf : s.flags.filtered = true)
    (e : Env) (c : Call) (s' : State) (o : Out) (hc : c ≠ .claimPayment)
    (hs : step hash s e c = .ok (s', o)) :
    s'.bal (.esdt s'.lpTok) 0 - s'.perTicket * s'.nrWinning
      = s.bal (.esdt s.lpTok) 0 - s.perTicket * s.nrWinning ∧
    s'.perTicket = s.perTicket ∧ s'.deposited = true ∧ s'.flags.filtered = true := by
  obtain ⟨T0, hI⟩ := pl_reach hv h
  exact pl_step_surplus hI hs hc hd hf

/-- as long as the owner has not withdrawn (`Later`: accepted calls other than `claimPayment`, and
    the passing of time) the surplus stays what the filter made it -/
theorem surplus_until_withdrawal (hash : List Nat → List Nat) (v : Variant) (hv : Plain v) (s : State)
    (r : Nat) (h : Reach hash v s r) (hd : s.deposited = true) (hf : s.flags.filtered = true)
    (s2 : State) (r2 : Nat) (hl : Later hash s r s2 r2) :
    Reach hash v s2 r2 ∧
    s2.bal (.esdt s2.lpTok) 0 - s2.perTicket * s2.nrWinning
      = s.bal (.esdt s.lpTok) 0 - s.perTicket * s.nrWinning ∧
    s2.perTicket = s.perTicket ∧ s2.deposited = true ∧ s2.flags.filtered = true := by
  induction hl with
  | refl => exact ⟨h, rfl, rfl, hd, hf⟩
  | call s1 r1 e c s2 o _ h1 h2 h3 h4 h5 ih =>
    obtain ⟨i1, i2, i3, i4, i5⟩ := ih
    obtain ⟨k1, k2, k3, k4⟩ := surplus_frozen hash v hv s1 r1 i1 i4 i5 e c s2 o h4 h5
    exact ⟨.call s1 r1 e c s2 o i1 h1 h2 h3 h5, k1.trans i2, k2.trans i3, k3, k4⟩
  | wait s1 r1 r2 _ h1 ih =>
    obtain ⟨i1, i2⟩ := ih
    exact ⟨.wait s1 r1 r2 i1 h1, i2⟩

/-- **the owner's surplus is the deposit for the tickets that did not win**: the filter completes in
    `s1` on a deposited launch; later (`Later`: no withdrawal in between, any claims) the owner's
    first `claimPayment` sends him exactly `perTicket × (T0 − nrWinning(s1))` launchpad tokens — one
    transfer, none if every configured ticket can win — and leaves exactly the outstanding winners'
    tokens -/
theorem owner_gets_unsold_tickets_plain (hash : List Nat → List Nat) (v : Variant) (hv : Plain v)
    (a0 : InitArgs) (s : State) (r : Nat) (h : ReachA hash v a0 s r) (hd : s.deposited = true)
    (e : Env) (s1 : State) (o1 : Out) (hr : r ≤ e.round) (hok : EnvOK e)
    (hs : step hash s e .filter = .ok (s1, o1)) (hf1 : s1.flags.filtered = true)
    (s2 : State) (r2 : Nat) (hl : Later hash s1 e.round s2 r2)
    (e2 : Env) (s3 : State) (o3 : Out) (hs3 : step hash s2 e2 .claimPayment = .ok (s3, o3)) :
    s1.nrWinning ≤ a0.nrWinning ∧
    o3.xfers = (if s2.claimablePayment > 0 then [(e2.caller, (⟨s2.payTok, 0, s2.claimablePayment⟩ : Pay))] else [])
      ++ (if s.perTicket * (a0.nrWinning - s1.nrWinning) > 0
          then [(e2.caller, (⟨.esdt s2.lpTok, 0, s.perTicket * (a0.nrWinning - s1.nrWinning)⟩ : Pay))]
          else []) ∧
    s3.bal (.esdt s3.lpTok) 0 = s3.perTicket * s3.nrWinning ∧ s3.nrWinning = s2.nrWinning := by
  obtain ⟨_, _, k3, _, k5, k6, _, k8⟩ := surplus_fixed_by_filter hash v hv a0 s r h hd e s1 o1 hs hf1
  have hreach1 : Reach hash v s1 e.round :=
    Reach_iff.mpr ⟨a0, .call s r e .filter s1 o1 h hr hok trivial hs⟩
  obtain ⟨hreach2, j2, j3, _, _⟩ :=
    surplus_until_withdrawal hash v hv s1 e.round hreach1 k6 hf1 s2 r2 hl
  obtain ⟨_, _, _, m4, m5, _, _, _, m9, _, _⟩ := owner_surplus_plain hash v hv s2 r2 hreach2 e2 s3 o3 hs3
  have hsur : s2.bal (.esdt s2.lpTok) 0 - s2.perTicket * s2.nrWinning
      = s.perTicket * (a0.nrWinning - s1.nrWinning) := by
    rw [j2, k8, k5]; omega
  refine ⟨k3, ?_, m4, m5⟩
  rw [m9, hsur]

/-- "the owner's surplus is gone" is kept by everything that can happen later: from a reachable
    state in which the filter is complete and (from the deposit on) the contract holds exactly
    `perTicket × nrWinning`, every later state (`pl_Since`: any accepted calls, more withdrawals
    included) holds exactly `perTicket × nrWinning` again -/
theorem exact_after_withdrawal (hash : List Nat → List Nat) (v : Variant) (hv : Plain v) (s : State)
    (r : Nat) (h : Reach hash v s r) (hE : pl_Exact (pl_view s)) (s2 : State) (r2 : Nat)
    (hl : pl_Since hash s r s2 r2) :
    Reach hash v s2 r2 ∧ pl_Exact (pl_view s2) ∧
    (s2.deposited = true → s2.bal (.esdt s2.lpTok) 0 = s2.perTicket * s2.nrWinning) := by
  obtain ⟨T0, hI⟩ := pl_reach hv h
  obtain ⟨_, k2⟩ := pl_Since_Exact hI hE hl
  exact ⟨pl_Since_reach h hl, k2, k2.2⟩

/-- **the owner never takes a winner's share**: after the owner's accepted `claimPayment`, in every
    later state — whatever happens, further withdrawals included — the contract holds (from the
    deposit on) exactly `perTicket × nrWinning`, and this covers `perTicket × (winning tickets)` of
    every participant who has not settled yet -/
theorem owner_never_takes_winner_share (hash : List Nat → List Nat) (v : Variant) (hv : Plain v)
    (s : State) (r : Nat) (h : Reach hash v s r) (e : Env) (s1 : State) (o : Out)
    (hr : r ≤ e.round) (hok : EnvOK e) (hs : step hash s e .claimPayment = .ok (s1, o))
    (s2 : State) (r2 : Nat) (hl : pl_Since hash s1 e.round s2 r2) (a : Nat) :
    AllDone s2 ∧ (s2.deposited = true → s2.bal (.esdt s2.lpTok) 0 = s2.perTicket * s2.nrWinning) ∧
    s2.perTicket * winCountOf s2 a ≤ s2.bal (.esdt s2.lpTok) 0 := by
  obtain ⟨_, hd, _, _, _, _, _, _, _, _, hE⟩ := owner_surplus_plain hash v hv s r h e s1 o hs
  have hreach1 : Reach hash v s1 e.round := .call s r e .claimPayment s1 o h hr hok trivial hs
  obtain ⟨hreach2, _, k3⟩ := exact_after_withdrawal hash v hv s1 e.round hreach1 hE s2 r2 hl
  have hd2 : AllDone s2 := by
    obtain ⟨a0, h0⟩ := Reach_iff.mp hreach2
    exact ⟨pl_Since_selected ((step_flags_gain hs).1 hd.1) hl, (reach_WF hv h0).add⟩
  exact ⟨hd2, k3, (winner_covered_plain hash v hv s2 r2 hreach2 hd2 a).1⟩

/-! ### 5. the end -/

/-- once everybody has settled no winner is outstanding -/
theorem all_settled_nrWinning_plain (hash : List Nat → List Nat) (v : Variant) (hv : Plain v)
    (s : State) (r : Nat) (h : Reach hash v s r) (hd : AllDone s) (hall : ∀ a, s.range a = none) :
    s.nrWinning = 0 := by
  obtain ⟨L, _, _, hwin, _⟩ := three_counts hash v hv s r h hd
  rw [← hwin]
  apply sumOver_zero
  intro a _
  simp [winCountOf, hall a]

/-- no outstanding winner and the owner's surplus gone ⇒ no launchpad token is left -/
theorem lp_zero_of_exact (hash : List Nat → List Nat) (v : Variant) (hv : Plain v) (s : State) (r : Nat)
    (h : Reach hash v s r) (hz : s.nrWinning = 0) (hE : pl_Exact (pl_view s)) :
    s.bal (.esdt s.lpTok) 0 = 0 := by
  obtain ⟨T0, hI⟩ := pl_reach hv h
  cases hdep : s.deposited with
  | false => exact hI.num.notDep hdep
  | true =>
    have : s.bal (.esdt s.lpTok) 0 = s.perTicket * s.nrWinning := hE.2 hdep
    rw [this, hz]; simp

/-- **nothing is left at the end** (one step): all selection steps complete and every participant
    settled, then the owner's accepted `claimPayment` leaves no launchpad token in the contract -/
theorem lp_zero_at_end_plain (hash : List Nat → List Nat) (v : Variant) (hv : Plain v) (s : State)
    (r : Nat) (h : Reach hash v s r) (hd : AllDone s) (hall : ∀ a, s.range a = none)
    (e : Env) (s' : State) (o : Out) (hs : step hash s e .claimPayment = .ok (s', o)) :
    s.nrWinning = 0 ∧ s'.bal (.esdt s'.lpTok) 0 = 0 := by
  have hz := all_settled_nrWinning_plain hash v hv s r h hd hall
  obtain ⟨_, _, _, k4, k5, _⟩ := owner_surplus_plain hash v hv s r h e s' o hs
  exact ⟨hz, by rw [k4, k5, hz]; simp⟩

/-- **nothing is left at the end** (state form): `AllDone`, all ranges none, and the owner's surplus
    is gone (`pl_Exact`: holds right after any accepted `claimPayment` and for ever after,
    `owner_surplus_plain` / `exact_after_withdrawal`) ⇒ the launchpad-token balance is zero -/
theorem lp_zero_when_settled_plain (hash : List Nat → List Nat) (v : Variant) (hv : Plain v) (s : State)
    (r : Nat) (h : Reach hash v s r) (hd : AllDone s) (hall : ∀ a, s.range a = none)
    (hE : pl_Exact (pl_view s)) : s.bal (.esdt s.lpTok) 0 = 0 :=
  lp_zero_of_exact hash v hv s r h (all_settled_nrWinning_plain hash v hv s r h hd hall) hE

/-- **nothing is left at the end** (history form): the owner withdraws at some point (`s → s1`), then
    anything happens (`pl_Since`: claims in any order, further withdrawals); as soon as all
    participants have settled the contract holds no launchpad token -/
theorem lp_zero_later_plain (hash : List Nat → List Nat) (v : Variant) (hv : Plain v) (s : State)
    (r : Nat) (h : Reach hash v s r) (e : Env) (s1 : State) (o : Out)
    (hr : r ≤ e.round) (hok : EnvOK e) (hs : step hash s e .claimPayment = .ok (s1, o))
    (s2 : State) (r2 : Nat) (hl : pl_Since hash s1 e.round s2 r2) (hall : ∀ a, s2.range a = none) :
    s2.nrWinning = 0 ∧ s2.bal (.esdt s2.lpTok) 0 = 0 := by
  obtain ⟨hd2, _, _⟩ := owner_never_takes_winner_share hash v hv s r h e s1 o hr hok hs s2 r2 hl 0
  obtain ⟨_, _, _, _, _, _, _, _, _, _, hE⟩ := owner_surplus_plain hash v hv s r h e s1 o hs
  have hreach1 : Reach hash v s1 e.round := .call s r e .claimPayment s1 o h hr hok trivial hs
  obtain ⟨hreach2, hE2, _⟩ := exact_after_withdrawal hash v hv s1 e.round hreach1 hE s2 r2 hl
  have hz := all_settled_nrWinning_plain hash v hv s2 r2 hreach2 hd2 hall
  exact ⟨hz, lp_zero_of_exact hash v hv s2 r2 hreach2 hz hE2⟩

/-- **conversely**: a positive launchpad-token balance after completion means an unsettled winner
    (a participant who still holds a range with a winning ticket) or an owner's surplus that has not
    been withdrawn (`perTicket × nrWinning < bal`, which never holds once the owner has withdrawn:
    `¬ pl_Exact`) -/
theorem lp_positive_means_outstanding_plain (hash : List Nat → List Nat) (v : Variant) (hv : Plain v)
    (s : State) (r : Nat) (h : Reach hash v s r) (hd : AllDone s)
    (hpos : 0 < s.bal (.esdt s.lpTok) 0) :
    s.deposited = true ∧
    ((∃ a rg, s.range a = some rg ∧ 0 < winCountOf s a) ∨
     (s.perTicket * s.nrWinning < s.bal (.esdt s.lpTok) 0 ∧ ¬ pl_Exact (pl_view s))) := by
  obtain ⟨T0, hI⟩ := pl_reach hv h
  have hdep : s.deposited = true := by
    cases hdd : s.deposited with
    | true => rfl
    | false => have := hI.num.notDep hdd; have : s.bal (.esdt s.lpTok) 0 = 0 := this; omega
  refine ⟨hdep, ?_⟩
  by_cases hz : s.nrWinning = 0
  · right
    have hlt : s.perTicket * s.nrWinning < s.bal (.esdt s.lpTok) 0 := by rw [hz]; simpa using hpos
    refine ⟨hlt, fun hE => ?_⟩
    have : s.bal (.esdt s.lpTok) 0 = s.perTicket * s.nrWinning := hE.2 hdep
    omega
  · left
    obtain ⟨L, _, _, hwin, _, _⟩ := three_counts hash v hv s r h hd
    obtain ⟨a, _, ha⟩ := pl_sumOver_pos (winCountOf s) L (by rw [hwin]; omega)
    cases hr : s.range a with
    | none => simp [winCountOf, hr] at ha
    | some rg => exact ⟨a, rg, hr, ha⟩

/-! ### non-vacuity -/

theorem stOf_step {x : Res (State × Out)} (h : isOk x = true) (d : State) :
    ∃ o, x = .ok (stOf x d, o) := by
  cases x with
  | error err => cases h
  | ok q => exact ⟨q.2, rfl⟩

/-! #### (a) the base launchpad: the concrete history `ex0 … ex10` of `C01reach`
   (`T0 = 1`, 5 tokens per ticket, participants 7 and 8 confirm 2 + 1 tickets, one winner) -/

theorem ex2_reach : Reach id .base ex2 2 :=
  Reach.callOk { caller := 1, round := 2, esdts := [⟨.esdt 1, 0, 5⟩] } .deposit
    (Reach.callOk { caller := 1, round := 1 } (.addTickets [(7, 2), (8, 1)])
      ex0_reach (by decide) (Or.inl rfl) (by show ∀ p ∈ [(7, 2), (8, 1)], 1 ≤ p.2; decide) rfl)
    (by decide) (Or.inl rfl) trivial rfl

/-- the deposit `ex1 → ex2`: exactly `5 × 1` launchpad tokens; the ledger in `ex2` and `ex7` -/
example : ex1.deposited = false ∧ ex1.flags.filtered = false ∧
    isOk (step id ex1 { caller := 1, round := 2, esdts := [⟨.esdt 1, 0, 5⟩] } .deposit) = true ∧
    ex2.deposited = true ∧ ex2.bal (.esdt 1) 0 = 5 ∧ ex2.totalDeposited = 5 ∧
    LpCover ex2 ∧ LpCover ex7 ∧ ex7.bal (.esdt 1) 0 = ex7.perTicket * ex7.nrWinning :=
  ⟨rfl, rfl, rfl, rfl, rfl, rfl, lp_cover_plain id .base (Or.inl rfl) ex2 2 ex2_reach rfl,
    lp_cover_plain id .base (Or.inl rfl) ex7 12 ex7_reach rfl, rfl⟩

/-- a deposit of the wrong amount, and a second deposit, are rejected -/
example :
    isOk (step id ex1 { caller := 1, round := 2, esdts := [⟨.esdt 1, 0, 6⟩] } .deposit) = false ∧
    isOk (step id ex2 { caller := 1, round := 3, esdts := [⟨.esdt 1, 0, 5⟩] } .deposit) = false :=
  ⟨rfl, rfl⟩

/-- `winner_receives_exact_plain` on `ex7 → ex8` (participant 7 holds the winning ticket): one direct
    transfer of `5 × 1` launchpad tokens, no lock call -/
example : ∃ o, step id ex7 { caller := 7, round := 15 } .claim = .ok (ex8, o) ∧ o.locks = [] ∧
    ex8.bal (.esdt ex8.lpTok) 0 = ex7.bal (.esdt ex7.lpTok) 0 - ex7.perTicket * winCountOf ex7 7 ∧
    ex8.nrWinning = ex7.nrWinning - winCountOf ex7 7 := by
  obtain ⟨o, ho⟩ := stOf_step (x := step id ex7 { caller := 7, round := 15 } .claim) rfl ex7
  have ho' : step id ex7 { caller := 7, round := 15 } .claim = .ok (ex8, o) := ho
  obtain ⟨_, rg, nl, nd, _, h2, _, _, _, _, _, _, h9, _, _, h12, h13, _⟩ :=
    winner_receives_exact_plain id .base (Or.inl rfl) ex7 12 ex7_reach _ ex8 o ho'
  exact ⟨o, ho', by rw [h2, h9 rfl], h13, h12⟩

example : winCountOf ex7 7 = 1 ∧ ex7.bal (.esdt 1) 0 = 5 ∧ ex8.bal (.esdt 1) 0 = 0 ∧
    ex10.bal (.esdt 1) 0 = 0 ∧ ex10.nrWinning = 0 ∧ ex10.range 7 = none ∧ ex10.range 8 = none :=
  ⟨rfl, rfl, rfl, rfl, rfl, rfl, rfl⟩

/-- `lp_zero_of_exact` on the final state `ex10` (both participants settled, the owner has
    withdrawn in `ex8 → ex9`): its premises hold -/
example : ex10.bal (.esdt ex10.lpTok) 0 = 0 :=
  lp_zero_of_exact id .base (Or.inl rfl) ex10 17 ex10_reach rfl ⟨rfl, fun _ => rfl⟩

/-! #### (b) the locked launchpad with a surplus and a non-trivial split
   `T0 = 3`, 1000 tokens per ticket, 25 % locked until epoch 9 in the lock contract 77;
   participant 7 confirms his 2 tickets, participant 8 none: the filter leaves 2 winners and a
   surplus of `1000 × (3 − 2)`. -/

def lkArgs : InitArgs :=
  { lpTok := 1, perTicket := 1000, payTok := .egld, price := 10, nrWinning := 3, conf := 5, sel := 10,
    claim := 15, lockPct := 2500, unlockEpoch := 9, lockAddr := 77 }

def lkDeploy : Env := { caller := 1, round := 0, isContract := fun a => a == 77 }

def l0 : State := match init .locked lkArgs lkDeploy with
  | .ok s => s
  | .error _ => default

def l1 : State := stOf (step id l0 { caller := 1, round := 1 } (.addTickets [(7, 2), (8, 1)])) l0
def l2 : State := stOf (step id l1 { caller := 1, round := 2, esdts := [⟨.esdt 1, 0, 3000⟩] } .deposit) l1
def l3 : State := stOf (step id l2 { caller := 7, round := 5, egld := 20 } (.confirm 2)) l2
def l4 : State := stOf (step id l3 { caller := 9, round := 10 } .filter) l3
def l5 : State := stOf (step id l4 { caller := 9, round := 11 } .select) l4
def l6 : State := stOf (step id l5 { caller := 7, round := 15, epoch := 3 } .claim) l5
def l7 : State := stOf (step id l6 { caller := 1, round := 16, epoch := 3 } .claimPayment) l6

theorem l0_reachA : ReachA id .locked lkArgs l0 0 := ReachA.init lkDeploy l0 rfl

theorem callOkA {hash : List Nat → List Nat} {v : Variant} {a0 : InitArgs} {s : State} {r : Nat}
    (e : Env) (c : Call) (h : ReachA hash v a0 s r) (hr : r ≤ e.round) (hok : EnvOK e) (hc : CallOK c)
    (hs : isOk (step hash s e c) = true) : ReachA hash v a0 (stOf (step hash s e c) s) e.round := by
  cases hx : step hash s e c with
  | error err => rw [hx] at hs; cases hs
  | ok q =>
    obtain ⟨s', o⟩ := q
    exact .call s r e c s' o h hr hok hc hx

theorem l3_reachA : ReachA id .locked lkArgs l3 5 :=
  callOkA { caller := 7, round := 5, egld := 20 } (.confirm 2)
    (callOkA { caller := 1, round := 2, esdts := [⟨.esdt 1, 0, 3000⟩] } .deposit
      (callOkA { caller := 1, round := 1 } (.addTickets [(7, 2), (8, 1)])
        l0_reachA (by decide) (Or.inl rfl) (by show ∀ p ∈ [(7, 2), (8, 1)], 1 ≤ p.2; decide) rfl)
      (by decide) (Or.inl rfl) trivial rfl)
    (by decide) (Or.inr rfl) trivial rfl

theorem l5_reachA : ReachA id .locked lkArgs l5 11 :=
  callOkA { caller := 9, round := 11 } .select
    (callOkA { caller := 9, round := 10 } .filter l3_reachA (by decide) (Or.inl rfl) trivial rfl)
    (by decide) (Or.inl rfl) trivial rfl

theorem l6_reachA : ReachA id .locked lkArgs l6 15 :=
  callOkA { caller := 7, round := 15, epoch := 3 } .claim l5_reachA (by decide) (Or.inl rfl) trivial rfl

theorem l7_reachA : ReachA id .locked lkArgs l7 16 :=
  callOkA { caller := 1, round := 16, epoch := 3 } .claimPayment l6_reachA (by decide) (Or.inl rfl)
    trivial rfl

/-- the ledger with a positive surplus: after the filter (`l4`) and after the selection (`l5`) the
    contract holds `1000 × 1` (surplus, `k = 1`) `+ 1000 × 2` (winners) -/
example : l3.bal (.esdt 1) 0 = 3000 ∧ l3.nrWinning = 3 ∧ l4.flags.filtered = true ∧ l4.nrWinning = 2 ∧
    l4.bal (.esdt 1) 0 = l4.perTicket * 1 + l4.perTicket * l4.nrWinning ∧ AllDone l5 ∧
    l5.bal (.esdt 1) 0 = 3000 ∧ winCountOf l5 7 = 2 :=
  ⟨rfl, rfl, rfl, rfl, rfl, ⟨rfl, rfl⟩, rfl, rfl⟩

/-- `surplus_fixed_by_filter` on `l3 → l4` -/
example : l4.bal (.esdt l4.lpTok) 0 =
    l4.perTicket * (lkArgs.nrWinning - l4.nrWinning) + l4.perTicket * l4.nrWinning := by
  obtain ⟨o, ho⟩ := stOf_step (x := step id l3 { caller := 9, round := 10 } .filter) rfl l3
  have ho' : step id l3 { caller := 9, round := 10 } .filter = .ok (l4, o) := ho
  exact (surplus_fixed_by_filter id .locked (Or.inr rfl) lkArgs l3 5 l3_reachA rfl _ l4 o ho' rfl).2.2.2.2.2.2.2

/-- **the split** (`winner_receives_exact_plain` on `l5 → l6`, epoch 3 < 9): participant 7 is owed
    `1000 × 2`; 25 % = 500 go to the lock contract 77 (one lock call `(9, 7, 500)`), 1500 directly to
    him; the balance drops from 3000 to 1000, `nrWinning` from 2 to 0 -/
example :
    (step id l5 { caller := 7, round := 15, epoch := 3 } .claim).toOption.map
        (fun x => (x.2.locks, x.2.xfers)) =
      some ([(9, 7, 500)], [(77, ⟨.esdt 1, 0, 500⟩), (7, ⟨.esdt 1, 0, 1500⟩)]) ∧
    l6.bal (.esdt 1) 0 = 1000 ∧ l6.nrWinning = 0 ∧ l6.range 7 = none := by
  refine ⟨by decide +kernel, rfl, rfl, rfl⟩

example : ∃ (o : Out) (nl : List (Nat × Nat × Nat)) (nd : List Nat), step id l5 { caller := 7, round := 15, epoch := 3 } .claim = .ok (l6, o) ∧
    o.locks = nl ∧ (nl.map (·.2.2)).sum + nd.sum = l5.perTicket * winCountOf l5 7 ∧
    l6.bal (.esdt l6.lpTok) 0 = l5.bal (.esdt l5.lpTok) 0 - l5.perTicket * winCountOf l5 7 := by
  obtain ⟨o, ho⟩ := stOf_step (x := step id l5 { caller := 7, round := 15, epoch := 3 } .claim) rfl l5
  have ho' : step id l5 { caller := 7, round := 15, epoch := 3 } .claim = .ok (l6, o) := ho
  obtain ⟨_, rg, nl, nd, _, h2, _, _, _, _, _, h8, _, _, _, _, h13, _⟩ :=
    winner_receives_exact_plain id .locked (Or.inr rfl) l5 11 (Reach_iff.mpr ⟨_, l5_reachA⟩) _ l6 o ho'
  exact ⟨o, nl, nd, ho', h2, h8, h13⟩

/-- `winner_receives_exact_locked` on the same step: `L = lockSplit 2000 2500 = 500` -/
example : ∃ o, step id l5 { caller := 7, round := 15, epoch := 3 } .claim = .ok (l6, o) ∧
    o.locks = [(9, 7, 500)] ∧ pl_lockedAmt l5 { caller := 7, round := 15, epoch := 3 } 2000 = 500 ∧
    winCountOf l5 7 * l5.perTicket = 2000 := by
  obtain ⟨o, ho⟩ := stOf_step (x := step id l5 { caller := 7, round := 15, epoch := 3 } .claim) rfl l5
  have ho' : step id l5 { caller := 7, round := 15, epoch := 3 } .claim = .ok (l6, o) := ho
  obtain ⟨h1, _⟩ :=
    winner_receives_exact_locked id l5 11 (Reach_iff.mpr ⟨_, l5_reachA⟩) _ l6 o ho'
  have hw : winCountOf l5 7 * l5.perTicket = 2000 := by decide +kernel
  have hL : pl_lockedAmt l5 { caller := 7, round := 15, epoch := 3 } 2000 = 500 := by decide +kernel
  refine ⟨o, ho', ?_, hL, hw⟩
  rw [h1]
  show (if pl_lockedAmt l5 { caller := 7, round := 15, epoch := 3 } (winCountOf l5 7 * l5.perTicket) > 0
    then [(l5.unlockEpoch, 7, pl_lockedAmt l5 { caller := 7, round := 15, epoch := 3 }
      (winCountOf l5 7 * l5.perTicket))] else []) = _
  rw [hw, hL]
  rfl

/-- **the owner's withdrawal** `l6 → l7`: the owner receives the ticket proceeds (20 EGLD) and exactly
    the surplus `1000 × (3 − 2)` launchpad tokens; nothing is left -/
example :
    (step id l6 { caller := 1, round := 16, epoch := 3 } .claimPayment).toOption.map (fun x => x.2.xfers) =
      some [(1, ⟨.egld, 0, 20⟩), (1, ⟨.esdt 1, 0, 1000⟩)] ∧
    l7.bal (.esdt 1) 0 = 0 ∧ l7.nrWinning = 0 := by
  refine ⟨by decide +kernel, rfl, rfl⟩

/-- `owner_surplus_plain` and `lp_zero_of_exact` on the same step -/
example : l7.bal (.esdt l7.lpTok) 0 = l7.perTicket * l7.nrWinning ∧ pl_Exact (pl_view l7) ∧
    l7.bal (.esdt l7.lpTok) 0 = 0 := by
  obtain ⟨o, ho⟩ := stOf_step
    (x := step id l6 { caller := 1, round := 16, epoch := 3 } .claimPayment) rfl l6
  have ho' : step id l6 { caller := 1, round := 16, epoch := 3 } .claimPayment = .ok (l7, o) := ho
  obtain ⟨_, _, _, k4, _, _, _, _, _, _, k11⟩ :=
    owner_surplus_plain id .locked (Or.inr rfl) l6 15 (Reach_iff.mpr ⟨_, l6_reachA⟩) _ l7 o ho'
  exact ⟨k4, k11, lp_zero_of_exact id .locked (Or.inr rfl) l7 16 (Reach_iff.mpr ⟨_, l7_reachA⟩) rfl k11⟩

/-! #### (c) nobody takes part: the whole deposit is surplus and goes back to the owner; the premise
   "all ranges none" of `lp_zero_at_end_plain` holds literally -/

def z1 : State := stOf (step id ex0 { caller := 1, round := 2, esdts := [⟨.esdt 1, 0, 5⟩] } .deposit) ex0
def z2 : State := stOf (step id z1 { caller := 9, round := 10 } .filter) z1
def z3 : State := stOf (step id z2 { caller := 9, round := 11 } .select) z2
def z4 : State := stOf (step id z3 { caller := 1, round := 15 } .claimPayment) z3

theorem z3_reach : Reach id .base z3 11 :=
  Reach.callOk { caller := 9, round := 11 } .select
    (Reach.callOk { caller := 9, round := 10 } .filter
      (Reach.callOk { caller := 1, round := 2, esdts := [⟨.esdt 1, 0, 5⟩] } .deposit ex0_reach
        (by decide) (Or.inl rfl) trivial rfl)
      (by decide) (Or.inl rfl) trivial rfl)
    (by decide) (Or.inl rfl) trivial rfl

example : AllDone z3 ∧ (∀ a, z3.range a = none) ∧ z3.bal (.esdt 1) 0 = 5 ∧ z3.nrWinning = 0 ∧
    z4.bal (.esdt z4.lpTok) 0 = 0 := by
  obtain ⟨o, ho⟩ := stOf_step (x := step id z3 { caller := 1, round := 15 } .claimPayment) rfl z3
  have ho' : step id z3 { caller := 1, round := 15 } .claimPayment = .ok (z4, o) := ho
  exact ⟨⟨rfl, rfl⟩, fun _ => rfl, rfl, rfl,
    (lp_zero_at_end_plain id .base (Or.inl rfl) z3 11 z3_reach ⟨rfl, rfl⟩ (fun _ => rfl) _ z4 o ho').2⟩

/-- `lp_positive_means_outstanding_plain` on `z3` (surplus not withdrawn) and on `l5` (unsettled
    winner 7) -/
example : z3.perTicket * z3.nrWinning < z3.bal (.esdt z3.lpTok) 0 ∧
    (∃ a rg, l5.range a = some rg ∧ 0 < winCountOf l5 a) :=
  ⟨by decide +kernel, 7, ⟨1, 2⟩, rfl, by decide +kernel⟩

end LP.PL

#print axioms LP.PL.lp_ledger_plain
#print axioms LP.PL.lp_ledger_plain_run
#print axioms LP.PL.lp_cover_plain
#print axioms LP.PL.lp_cover_plain_run
#print axioms LP.PL.lp_exact_until_filter
#print axioms LP.PL.deposit_exact_plain
#print axioms LP.PL.deposit_amount_plain_run
#print axioms LP.PL.deposit_once_plain
#print axioms LP.PL.perTicket_fixed_after_deposit_plain
#print axioms LP.PL.winner_receives_exact_plain
#print axioms LP.PL.winner_receives_exact_base
#print axioms LP.PL.winner_receives_exact_locked
#print axioms LP.PL.winner_covered_plain
#print axioms LP.PL.owner_surplus_plain
#print axioms LP.PL.surplus_fixed_by_filter
#print axioms LP.PL.winners_after_filter_plain
#print axioms LP.PL.surplus_frozen
#print axioms LP.PL.surplus_until_withdrawal
#print axioms LP.PL.owner_gets_unsold_tickets_plain
#print axioms LP.PL.exact_after_withdrawal
#print axioms LP.PL.owner_never_takes_winner_share
#print axioms LP.PL.all_settled_nrWinning_plain
#print axioms LP.PL.lp_zero_of_exact
#print axioms LP.PL.lp_zero_at_end_plain
#print axioms LP.PL.lp_zero_when_settled_plain
#print axioms LP.PL.lp_zero_later_plain
#print axioms LP.PL.lp_positive_means_outstanding_plain
#print axioms LP.pl_step
#print axioms LP.pl_init
#print axioms LP.pl_run
#print axioms LP.pl_reach
#print axioms LP.pl_step_Tr
#print axioms LP.pl_step_Exact
#print axioms LP.pl_step_surplus

#print axioms LP.PL.ledger_of_Lp
#print axioms LP.PL.cover_of_Lp
#print axioms LP.PL.reach_variant
#print axioms LP.PL.reach_lockPct_pos
#print axioms LP.PL.owner_surplus_of_Lp
#print axioms LP.PL.stOf_step
#print axioms LP.PL.ex2_reach
#print axioms LP.PL.l0_reachA
#print axioms LP.PL.callOkA
#print axioms LP.PL.l3_reachA
#print axioms LP.PL.l5_reachA
#print axioms LP.PL.l6_reachA
#print axioms LP.PL.l7_reachA
#print axioms LP.PL.z3_reach
