import LP.Proofs.ReachG1Ledger
import LP.Props.C01reach
/-
  C01 / C02 / C03 / C11 / C13 / C17 (reachable-state form) for `Variant.guarV1`
  (launchpad-guaranteed-tickets): the v1 guaranteed-ticket allocation / blacklist / distribution
  logic exactly as `Variant.migration`, but claims are VESTED with the v1 unlock schedule `Sched1`
  stored by `setSchedule1` (repeated claims release further parts) and the owner withdraws through
  `claimPaymentOwn`.

  `g1_Reach hash s r` (LP/Proofs/ReachG1Base.lean): `s` is reachable by the contract from some
  deployment by accepted transactions with non-decreasing rounds, `r` = round of the latest
  transaction (or a later round, constructor `wait`).  Every transaction carries EGLD or ESDT but
  not both (`EnvOK`), and

      *** THE ONE RESTRICTION ON HISTORIES (`v1_CallOK`) ***
      every entry of an `addTicketsV1` call allocates at least one ticket: `1 ≤ staking + energy`
      (a zero-size entry creates the empty range `[f, f-1]` and a batch slot that the next
      allocation overwrites; excluded exactly as in LP/Props/C01reachV1.lean).

  Nothing else is restricted: `filter`, `select`, `distribute` may be interrupted by ANY budget, any
  number of times; draws may be scripted; `setSchedule1`, claims and the owner's withdrawal may come
  in any order the contract accepts.

  1  `C01_solvent_guarV1`, `three_counts_guarV1`, `claim_refund_covered_guarV1`,
     `all_settled_nothing_left_guarV1`                                   (payment token)
  3  `final_winners_guarV1_partial`, `winners_bound_guarV1`, `guarantee_honoured_guarV1`,
     `whitelisted_iff_guarV1`, `proceeds_until_withdrawal_guarV1`, `reserve_guarV1`
  4  launchpad-token ledger with vesting: `lp_before_distribution_guarV1`,
     `unsettled_no_record_guarV1`, `lp_ledger_guarV1`, `lp_exact_guarV1`,
     `lp_exact_unsettled_guarV1`, `lp_cover_guarV1`, `owner_withdrawal_guarV1`,
     `vested_claim_covered_guarV1`, `unsettled_winner_covered_guarV1`, `released_exact_guarV1`,
     `claim_releases_exactly_guarV1`, `vesting_path_independent_guarV1`, `later_amount_guarV1`, `lp_nothing_left_guarV1`,
     `deposit_is_perTicket_times_T0_guarV1`
  5  `schedule_frozen_guarV1`
  Non-vacuity: `w12_reach` (schedule 25 % + 3 × 25 %, two claims of the same winner at different
  rounds, the owner's withdrawal in between).
-/
namespace LP.Props.C01reachG1
open LP LP.FY

/-! ### 1. ticket-payment solvency -/

/-- **C01 for launchpad-guaranteed-tickets**: in every reachable state — including the middle of
    interrupted `filter` / `select` / `distribute` calls and between vested claims — the contract
    holds, in the ticket-payment token, exactly the full payment of every confirmed ticket until
    ALL selection steps are complete, and afterwards exactly the owner's not-yet-withdrawn proceeds
    plus `price × (confirmed − winning)` for every participant who has not settled. -/
theorem C01_solvent_guarV1 (hash : List Nat → List Nat) (s : State) (r : Nat)
    (h : g1_Reach hash s r) :
    ∃ L : List Nat, Covers s L ∧ (¬ AllDone s → PayEqPre s L) ∧ (AllDone s → PayEqPost s L) := by
  obtain ⟨a0, h⟩ := g1_Reach_iff.mp h
  obtain ⟨L, h1, h2, h3⟩ := g1_WF_ledger (g1_reach_WF h)
  exact ⟨L, h1, h2, fun hd => (h3 hd).1⟩

/-- after completion: the winning tickets still held by the participants add up to `nrWinning`;
    nobody holds more winning than confirmed tickets; a range has exactly `confirmed` tickets -/
theorem three_counts_guarV1 (hash : List Nat → List Nat) (s : State) (r : Nat)
    (h : g1_Reach hash s r) (hd : AllDone s) :
    ∃ L : List Nat, Covers s L ∧ PayEqPost s L ∧ sumOver (winCountOf s) L = s.nrWinning ∧
      (∀ a, winCountOf s a ≤ s.confirmed a) ∧
      (∀ a rg, s.range a = some rg → a ∈ L ∧ rangeLen rg = s.confirmed a) := by
  obtain ⟨a0, h⟩ := g1_Reach_iff.mp h
  obtain ⟨L, h1, _, h3⟩ := g1_WF_ledger (g1_reach_WF h)
  obtain ⟨hpost, hwin, hle, hrg⟩ := h3 hd
  refine ⟨L, h1, hpost, hwin, hle, fun a rg hr => ?_⟩
  obtain ⟨k1, k2, k3⟩ := hrg a rg hr
  exact ⟨k1, by unfold rangeLen; omega⟩

/-- a participant's refund and the owner's proceeds are covered, whatever happened before -/
theorem claim_refund_covered_guarV1 (hash : List Nat → List Nat) (s : State) (r : Nat)
    (h : g1_Reach hash s r) (hd : AllDone s) (a : Nat) (rg : Range) (hr : s.range a = some rg) :
    s.claimablePayment + s.price * (s.confirmed a - winCountOf s a) ≤ s.bal s.payTok 0 := by
  obtain ⟨a0, h⟩ := g1_Reach_iff.mp h
  obtain ⟨L, _, _, h3⟩ := g1_WF_ledger (g1_reach_WF h)
  obtain ⟨hpost, _, _, hrg⟩ := h3 hd
  have haL := (hrg a rg hr).1
  have hle := rb_le_sumOver (refundDue s) L a haL
  have hdue : refundDue s a = s.price * (s.confirmed a - winCountOf s a) := by
    simp only [refundDue, hr]
  unfold PayEqPost at hpost
  omega

/-- once every participant has settled and the owner has withdrawn, no payment token is left -/
theorem all_settled_nothing_left_guarV1 (hash : List Nat → List Nat) (s : State) (r : Nat)
    (h : g1_Reach hash s r) (hd : AllDone s) (hall : ∀ a, s.range a = none)
    (hcp : s.claimablePayment = 0) : s.bal s.payTok 0 = 0 := by
  obtain ⟨L, _, _, h3⟩ := C01_solvent_guarV1 hash s r h
  exact all_settled_zero s L (h3 hd) (fun a _ => hall a) hcp

/-! ### 3. the final number of winners, the guarantees

  NOT A THEOREM: "every `distribute` call sequence completes" — the v1 leftover loop re-draws
  without consuming a position when it hits an already winning ticket
  (`C03_leftover_v1_may_spin`, LP/Props/C03final.lean); such a call is rejected and leaves no
  trace.  Hence the statements are conditional on the call having completed (`ret = [0]`). -/

/-- **final winner count (guarV1), PARTIAL in the sense above** (missing piece: termination of the
    v1 leftover loop, which does not hold for adversarial draw streams): the accepted `distribute`
    call that returns `[0]`, from any reachable state of a launchpad deployed with `a0.nrWinning`
    winners: both completion flags are set, the number of winning flags equals the stored
    `nrWinning = min (configured winners) (confirmed tickets)`, the owner's proceeds are
    `price × nrWinning`, every flag lies in `1..lastTicketId`, and no earlier winner lost its flag -/
theorem final_winners_guarV1_partial (hash : List Nat → List Nat)
    (a0 : InitArgs) (s : State) (r : Nat) (h : g1_ReachA hash a0 s r) (e : Env) (s' : State)
    (o : Out) (hs : step hash s e .distribute = .ok (s', o)) (hret : o.ret = [0]) :
    AllDone s' ∧
    countTrue s'.status s'.lastTicketId = s'.nrWinning ∧
    s'.nrWinning ≤ min a0.nrWinning s'.lastTicketId ∧
    s'.nrWinning = min a0.nrWinning s'.lastTicketId ∧
    s'.claimablePayment = s'.price * s'.nrWinning ∧
    (∀ t, s'.status t = true → 1 ≤ t ∧ t ≤ s'.lastTicketId) ∧
    (∀ t, s.status t = true → s'.status t = true) := by
  obtain ⟨h1, h2, _, _, h5, h6, h7, h8, h9, _⟩ :=
    g1_distribute_completion (g1_reach_WF h) hs hret
  exact ⟨⟨h1, h2⟩, h5, by omega, h6, h7, h8, h9⟩

/-- during the distribution (lottery complete, distribution not — whatever interruptions): the
    number of winning flags is between the lottery winners and `min T0 lastTicketId`, and every
    flag lies in `1..lastTicketId` -/
theorem winners_bound_guarV1 (hash : List Nat → List Nat) (a0 : InitArgs)
    (s : State) (r : Nat) (h : g1_ReachA hash a0 s r) (hsel : s.flags.selected = true)
    (hna : s.flags.additional = false) :
    s.nrWinning ≤ countTrue s.status s.lastTicketId ∧
    countTrue s.status s.lastTicketId ≤ min a0.nrWinning s.lastTicketId ∧
    (∀ t, s.status t = true → 1 ≤ t ∧ t ≤ s.lastTicketId) :=
  g1_winners_bound (g1_reach_WF h) hsel hna

/-- after completion the recorded proceeds and the price are frozen until the owner withdraws -/
theorem proceeds_until_withdrawal_guarV1 (hash : List Nat → List Nat)
    (s : State) (r : Nat) (h : g1_Reach hash s r) (hd : AllDone s) (e : Env) (c : Call)
    (s' : State) (o : Out) (hr : r ≤ e.round) (hs : step hash s e c = .ok (s', o)) :
    s'.price = s.price ∧ AllDone s' ∧
    (s'.claimablePayment = s.claimablePayment ∨ (c = .claimPayment ∧ s'.claimablePayment = 0)) := by
  obtain ⟨a0, h⟩ := g1_Reach_iff.mp h
  obtain ⟨h1, h2, h3⟩ := g1_proceeds_frame (g1_reach_WF h) hr hd hs
  exact ⟨h1, by unfold AllDone; rw [h2]; exact hd, h3⟩

/-- an accepted `distribute` call that does not complete is an interruption: the successor still
    satisfies the ledger equation of the selection phase -/
theorem interrupted_distribute_keeps_pre_guarV1 (hash : List Nat → List Nat)
    (s : State) (r : Nat) (h : g1_Reach hash s r) (e : Env) (s' : State) (o : Out)
    (hr : r ≤ e.round) (hok : EnvOK e)
    (hs : step hash s e .distribute = .ok (s', o)) (hnd : ¬ AllDone s') :
    ∃ L : List Nat, Covers s' L ∧ PayEqPre s' L := by
  have h' : g1_Reach hash s' e.round := .call s r e .distribute s' o h hr hok trivial hs
  obtain ⟨L, h1, h2, _⟩ := C01_solvent_guarV1 hash s' e.round h'
  exact ⟨L, h1, h2 hnd⟩

/-- until the first `distribute` call is accepted the whitelist is exactly the set of holders of a
    positive guarantee -/
theorem whitelisted_iff_guarV1 (hash : List Nat → List Nat) (s : State)
    (r : Nat) (h : g1_Reach hash s r) (hna : s.flags.additional = false)
    (hop : s.flags.selected = true → s.op = .none) (u : Nat) :
    u ∈ s.whitelist ↔ ∃ st, s.uts u = some st ∧ st.c + st.d > 0 := by
  obtain ⟨a0, h⟩ := g1_Reach_iff.mp h
  exact g1_whitelist_intact (g1_reach_WF h) hna hop u

/-- **guarantees honoured (guarV1)**: when the distribution completes, every holder `u` of a
    guarantee record `st` owns at least `min (qualified guarantee) (confirmed tickets)` winning
    tickets, where the qualified guarantee is `(calcV1 st confirmed minConfirmed).1`; and no flag
    lies outside `1..lastTicketId` -/
theorem guarantee_honoured_guarV1 (hash : List Nat → List Nat)
    (a0 : InitArgs) (s : State) (r : Nat) (h : g1_ReachA hash a0 s r) (e : Env) (s' : State)
    (o : Out) (hs : step hash s e .distribute = .ok (s', o)) (hret : o.ret = [0]) :
    (∀ u st, s'.uts u = some st →
      min (calcV1 st (s'.confirmed u) s'.minConfirmed).1 (s'.confirmed u) ≤ winCountOf s' u) ∧
    (∀ t, s'.status t = true → 1 ≤ t ∧ t ≤ s'.lastTicketId) := by
  obtain ⟨_, _, _, _, _, _, _, h8, _, h10⟩ :=
    g1_distribute_completion (g1_reach_WF h) hs hret
  exact ⟨h10, h8⟩

/-- the reserve until the filter completes, and the bound afterwards -/
theorem reserve_guarV1 (hash : List Nat → List Nat) (a0 : InitArgs)
    (s : State) (r : Nat) (h : g1_ReachA hash a0 s r) :
    (s.flags.filtered = false → s.nrWinning + s.totalGuaranteed = a0.nrWinning) ∧
    (s.flags.additional = false → s.nrWinning + s.totalGuaranteed ≤ a0.nrWinning) :=
  ⟨g1_reserve_before_filter (g1_reach_WF h), g1_owed_le (g1_reach_WF h)⟩

/-! ### 4. the launchpad-token ledger with vesting -/

/-- before the distribution completes nobody has settled or claimed, and a deposit made so far is
    intact and covers `perTicket × (base winners + reserve)` -/
theorem lp_before_distribution_guarV1 (hash : List Nat → List Nat) (s : State) (r : Nat)
    (h : g1_Reach hash s r) (hd : s.flags.additional = false) :
    (∀ a, s.userTotal a = 0 ∧ s.userClaimed a = 0 ∧ s.claimed a = false) ∧
    (s.deposited = true → s.bal (.esdt s.lpTok) 0 = s.totalDeposited ∧
      s.perTicket * (s.nrWinning + s.totalGuaranteed) ≤ s.totalDeposited) ∧
    (s.deposited = false → s.bal (.esdt s.lpTok) 0 = 0 ∧ ∀ a, s.confirmed a = 0) := by
  obtain ⟨a0, h⟩ := g1_Reach_iff.mp h
  have hl := (g1_reach_WF h).vs.lp
  have hp := hl.pre hd
  exact ⟨hp.fresh, hp.dep, fun hq => ⟨(hl.nodep hq).2.1, (hl.nodep hq).1⟩⟩

/-- **"not yet settled ⇒ no vesting record" is an invariant**: in every reachable state a
    participant whose `claimed` flag is not set has `userTotal = 0` and `userClaimed = 0`; and
    nobody is ever booked more than his entitlement -/
theorem unsettled_no_record_guarV1 (hash : List Nat → List Nat) (s : State) (r : Nat)
    (h : g1_Reach hash s r) :
    (∀ a, s.claimed a = false → s.userTotal a = 0 ∧ s.userClaimed a = 0) ∧
    (∀ a, s.userClaimed a ≤ s.userTotal a) := by
  obtain ⟨a0, h⟩ := g1_Reach_iff.mp h
  have hl := (g1_reach_WF h).vs.lp
  cases ha : s.flags.additional with
  | false =>
    have hp : ∀ a, s.userTotal a = 0 ∧ s.userClaimed a = 0 ∧ s.claimed a = false := (hl.pre ha).fresh
    exact ⟨fun a _ => ⟨(hp a).1, (hp a).2.1⟩, fun a => by rw [(hp a).1, (hp a).2.1]; exact Nat.le_refl _⟩
  | true =>
    have hp := hl.post ha
    refine ⟨fun a hc => ?_, hp.le⟩
    have h1 : s.userTotal a = 0 := hp.unclaimed a hc
    have h2 : s.userClaimed a ≤ s.userTotal a := hp.le a
    exact ⟨h1, by omega⟩

/-- **launchpad-token ledger** after the distribution, in every reachable state (cases A / B as
    for guarV2): there is a duplicate-free list `L` containing everybody with a vesting record such
    that either (A, the owner has not withdrawn) `balance + Σ paid out = totalDeposited`, the
    recorded proceeds are `price × W` with `W × perTicket = perTicket × nrWinning + Σ userTotal ≤
    totalDeposited`, or (B, the owner has withdrawn) `totalDeposited = 0`, the proceeds are `0`,
    and `balance + Σ paid out = perTicket × nrWinning + Σ userTotal`. -/
theorem lp_ledger_guarV1 (hash : List Nat → List Nat) (s : State) (r : Nat)
    (h : g1_Reach hash s r) (hd : AllDone s) :
    ∃ L : List Nat, L.Nodup ∧ (∀ a, a ∉ L → s.userTotal a = 0 ∧ s.userClaimed a = 0) ∧
      ((s.bal (.esdt s.lpTok) 0 + sumOver s.userClaimed L = s.totalDeposited ∧
        ∃ W, s.claimablePayment = s.price * W ∧
          W * s.perTicket = s.perTicket * s.nrWinning + sumOver s.userTotal L ∧
          W * s.perTicket ≤ s.totalDeposited) ∨
       (s.totalDeposited = 0 ∧ s.claimablePayment = 0 ∧
        s.bal (.esdt s.lpTok) 0 + sumOver s.userClaimed L
          = s.perTicket * s.nrWinning + sumOver s.userTotal L)) := by
  obtain ⟨a0, h⟩ := g1_Reach_iff.mp h
  exact ((g1_reach_WF h).vs.lp.post hd.2).led

/-- **the launchpad-token balance in closed form**: once every selection step is complete, in every
    reachable state (deposit made or not, owner withdrawn or not, any number of vested claims),

      balance = (owner's not yet withdrawn surplus `ownSurplus`)
              + perTicket × (winning tickets of the participants who have not settled: `nrWinning`,
                             which is `Σ winCountOf` by `three_counts_guarV1`)
              + Σ over the settled participants (userTotal − userClaimed).

    In particular the balance COVERS the last two summands (`vested_claim_covered_guarV1`). -/
theorem lp_exact_guarV1 (hash : List Nat → List Nat) (s : State) (r : Nat)
    (h : g1_Reach hash s r) (hd : AllDone s) :
    ∃ L : List Nat, L.Nodup ∧ (∀ a, a ∉ L → s.userTotal a = 0 ∧ s.userClaimed a = 0) ∧
      s.bal (.esdt s.lpTok) 0 = ownSurplus s + s.perTicket * s.nrWinning
        + sumOver (fun a => s.userTotal a - s.userClaimed a) L := by
  obtain ⟨a0, h⟩ := g1_Reach_iff.mp h
  exact g1_lp_exact (g1_reach_WF h) hd

/-- the closed form with the unsettled winners spelled out: `Lw` lists the participants who may
    still hold a range (their winning tickets add up to `nrWinning`), `L` those with a vesting record -/
theorem lp_exact_unsettled_guarV1 (hash : List Nat → List Nat) (s : State) (r : Nat)
    (h : g1_Reach hash s r) (hd : AllDone s) :
    ∃ Lw L : List Nat, Covers s Lw ∧ (∀ a rg, s.range a = some rg → a ∈ Lw) ∧
      L.Nodup ∧ (∀ a, a ∉ L → s.userTotal a = 0 ∧ s.userClaimed a = 0) ∧
      s.bal (.esdt s.lpTok) 0 = ownSurplus s + s.perTicket * sumOver (winCountOf s) Lw
        + sumOver (fun a => s.userTotal a - s.userClaimed a) L := by
  obtain ⟨Lw, h1, _, hwin, _, hrg⟩ := three_counts_guarV1 hash s r h hd
  obtain ⟨L, k1, k2, k3⟩ := lp_exact_guarV1 hash s r h hd
  exact ⟨Lw, L, h1, fun a rg hr => (hrg a rg hr).1, k1, k2, by rw [hwin]; exact k3⟩

/-- **`LpCover` in every reachable state** (no hypothesis on the deposit after the distribution;
    before it the deposit must have been made): the launchpad tokens held cover every outstanding
    winner; until the distribution is complete a deposit covers the whole reserve as well -/
theorem lp_cover_guarV1 (hash : List Nat → List Nat) (s : State) (r : Nat)
    (h : g1_Reach hash s r) :
    (s.flags.additional = true → LP.Props.C02.LpCover s) ∧
    (s.flags.additional = false → s.deposited = true →
      s.perTicket * (s.nrWinning + s.totalGuaranteed) ≤ s.bal (.esdt s.lpTok) 0) := by
  constructor
  · intro ha
    obtain ⟨a0, h0⟩ := g1_Reach_iff.mp h
    have hD := v1_phase_D (g1_reach_WF h0).phase ha
    obtain ⟨L, _, _, heq⟩ := lp_exact_guarV1 hash s r h ⟨hD.selected, ha⟩
    unfold LP.Props.C02.LpCover
    omega
  · intro ha hdp
    obtain ⟨_, h2, _⟩ := lp_before_distribution_guarV1 hash s r h ha
    obtain ⟨k1, k2⟩ := h2 hdp
    omega

/-- **the owner's withdrawal**: an accepted `claimPayment` from a reachable state pays the recorded
    proceeds and exactly `ownSurplus` launchpad tokens, clears both records, and leaves in the
    contract exactly the unsettled winners' tokens plus everything still owed to the settled -/
theorem owner_withdrawal_guarV1 (hash : List Nat → List Nat) (s : State) (r : Nat)
    (h : g1_Reach hash s r) (e : Env) (s' : State) (o : Out) (hr : r ≤ e.round) (hok : EnvOK e)
    (hs : step hash s e .claimPayment = .ok (s', o)) :
    AllDone s ∧ s'.claimablePayment = 0 ∧ s'.totalDeposited = 0 ∧ s'.nrWinning = s.nrWinning ∧
    s'.bal (.esdt s.lpTok) 0 + ownSurplus s = s.bal (.esdt s.lpTok) 0 ∧
    s'.bal s.payTok 0 + s.claimablePayment = s.bal s.payTok 0 ∧
    ∃ L : List Nat, L.Nodup ∧ (∀ a, a ∉ L → s'.userTotal a = 0 ∧ s'.userClaimed a = 0) ∧
      s'.bal (.esdt s'.lpTok) 0 = s'.perTicket * s'.nrWinning
        + sumOver (fun a => s'.userTotal a - s'.userClaimed a) L := by
  have h' : g1_Reach hash s' e.round := .call s r e .claimPayment s' o h hr hok trivial hs
  obtain ⟨a0, h0⟩ := g1_Reach_iff.mp h
  have hwf := g1_reach_WF h0
  obtain ⟨t, hx, rfl⟩ := rb_step_np (by intro m hm; simp [endpointMeta] at hm; rw [← hm]) hs
  obtain ⟨hvest, _⟩ := g1_flags hwf.var
  simp only [exec, rbTx_s, hvest, if_true] at hx
  obtain ⟨hst, hle1, hle2, hts⟩ := v2_claimPaymentOwn_state hwf.tokNe hx
  obtain ⟨hsel, hadd, _, _⟩ := v1_stage_claim hst
  have hne : Token.esdt s.lpTok ≠ s.payTok := fun hh => hwf.tokNe hh.symm
  have hd' : AllDone t.s := by rw [hts]; exact ⟨hsel, hadd⟩
  obtain ⟨L, k1, k2, k3⟩ := lp_exact_guarV1 hash t.s e.round h' hd'
  have hsur : ownSurplus t.s = 0 := by unfold ownSurplus; rw [hts]; rfl
  rw [hsur, Nat.zero_add] at k3
  refine ⟨⟨hsel, hadd⟩, by rw [hts], by rw [hts], by rw [hts], ?_, ?_, L, k1, k2, k3⟩
  · rw [hts]
    show ((s.bal.sub s.payTok 0 s.claimablePayment).sub (.esdt s.lpTok) 0 (ownSurplus s)) (.esdt s.lpTok) 0
      + ownSurplus s = _
    simp only [Bal.sub, hne, and_self, false_and, if_true, if_false]
    omega
  · rw [hts]
    show ((s.bal.sub s.payTok 0 s.claimablePayment).sub (.esdt s.lpTok) 0 (ownSurplus s)) s.payTok 0
      + s.claimablePayment = _
    simp only [Bal.sub, hwf.tokNe, and_self, false_and, if_true, if_false]
    omega

/-- **every vested claim is covered**: the balance covers the owner's surplus, the launchpad tokens
    of ALL winning tickets not yet settled, and everything still owed to any settled participant
    (`userTotal a − userClaimed a` bounds every instalment `claimable1` can compute) -/
theorem vested_claim_covered_guarV1 (hash : List Nat → List Nat) (s : State) (r : Nat)
    (h : g1_Reach hash s r) (hd : AllDone s) (a : Nat) :
    ownSurplus s + s.perTicket * s.nrWinning + (s.userTotal a - s.userClaimed a)
      ≤ s.bal (.esdt s.lpTok) 0 := by
  obtain ⟨a0, h⟩ := g1_Reach_iff.mp h
  obtain ⟨L, haL, _, _, heq⟩ := g1_lp_exact_with (g1_reach_WF h) hd a
  have := rb_le_sumOver (fun x => s.userTotal x - s.userClaimed x) L a haL
  have this' : s.userTotal a - s.userClaimed a ≤ sumOver (fun x => s.userTotal x - s.userClaimed x) L := this
  omega

/-- a participant who has not settled yet: the launchpad tokens of his winning tickets are there -/
theorem unsettled_winner_covered_guarV1 (hash : List Nat → List Nat) (s : State) (r : Nat)
    (h : g1_Reach hash s r) (hd : AllDone s) (a : Nat) (rg : Range) (hr : s.range a = some rg) :
    s.perTicket * winCountOf s a ≤ s.bal (.esdt s.lpTok) 0 := by
  have h1 := vested_claim_covered_guarV1 hash s r h hd a
  obtain ⟨L, _, _, hwin, _, hrg⟩ := three_counts_guarV1 hash s r h hd
  have := rb_le_sumOver (winCountOf s) L a (hrg a rg hr).1
  have h2 : s.perTicket * winCountOf s a ≤ s.perTicket * s.nrWinning :=
    Nat.mul_le_mul_left _ (by omega)
  omega

/-- **exactness of the booked amounts (C13 `claimedExactly1` as a reachable-state invariant)**: in
    every reachable state, for every participant, `userClaimed` is `0` or EXACTLY the schedule's
    released amount `userTotal × pct1 r' sched1 / 10000` at some round `r' ≤ r` (the round of his
    latest paying claim); a stored schedule is valid (`validSched1`), so the released percentage is
    monotone in the round and at most 100 % (`unlockedPct1_props`) -/
theorem released_exact_guarV1 (hash : List Nat → List Nat) (s : State) (r : Nat)
    (h : g1_Reach hash s r) :
    (∀ a, claimedExactly1 s a r) ∧ (∀ sc, s.sched1 = some sc → validSched1 sc) ∧
    (∀ now, pct1 now s.sched1 ≤ 10000) := by
  obtain ⟨a0, h⟩ := g1_Reach_iff.mp h
  have hvs := (g1_reach_WF h).vs
  exact ⟨hvs.exact, hvs.sch, g1_pct1_le hvs.sch⟩

/-- **one vested claim, first or repeat, from any reachable state**: afterwards the caller's
    cumulative received amount `userClaimed` is EXACTLY the schedule's released part of his
    entitlement at the round of the call — whatever he claimed before (path independence) —, it
    never exceeds the entitlement, it equals the entitlement once the schedule has fully released
    (`start + times × period ≤ round`, or `initial = 100 %` and `start ≤ round`), the contract pays
    exactly the increment, nobody else's record is touched, the schedule is untouched; the
    entitlement is unchanged on a repeat claim and is `winning tickets × perTicket` on the first. -/
theorem claim_releases_exactly_guarV1 (hash : List Nat → List Nat) (s : State) (r : Nat)
    (h : g1_Reach hash s r) (e : Env) (s' : State) (o : Out) (hr : r ≤ e.round)
    (hs : step hash s e .claim = .ok (s', o)) :
    s'.sched1 = s.sched1 ∧
    s'.userClaimed e.caller = entitled (s'.userTotal e.caller) (pct1 e.round s.sched1) ∧
    s.userClaimed e.caller ≤ s'.userClaimed e.caller ∧
    s'.userClaimed e.caller ≤ s'.userTotal e.caller ∧
    (∀ sc, s.sched1 = some sc →
      (sc.start + sc.times * sc.period ≤ e.round ∨ (sc.initial = 10000 ∧ sc.start ≤ e.round)) →
      s'.userClaimed e.caller = s'.userTotal e.caller) ∧
    s'.bal (.esdt s.lpTok) 0 + (s'.userClaimed e.caller - s.userClaimed e.caller)
      = s.bal (.esdt s.lpTok) 0 ∧
    (∀ a, a ≠ e.caller → s'.userClaimed a = s.userClaimed a ∧ s'.userTotal a = s.userTotal a) ∧
    (s.claimed e.caller = true → s'.userTotal e.caller = s.userTotal e.caller) ∧
    (s.claimed e.caller = false →
      s'.userTotal e.caller = winCountOf s e.caller * s.perTicket ∧ s.userClaimed e.caller = 0) := by
  obtain ⟨a0, h⟩ := g1_Reach_iff.mp h
  have hwf := g1_reach_WF h
  obtain ⟨j1, _, _, _, j5, j6, j7, j8, _, j10, j11⟩ := g1_claim_effect hwf hr hs
  refine ⟨j1, j5, j6, ?_, ?_, j7, fun a ha => ⟨(j8 a ha).1, (j8 a ha).2.1⟩, j10,
    fun hq => ⟨(j11 hq).1, (j11 hq).2.1⟩⟩
  · rw [j5]; exact entitled_le _ (g1_pct1_le hwf.vs.sch _)
  · intro sc hsc hfull
    rw [j5, hsc]
    show entitled _ (unlockedPct1 e.round sc) = _
    rw [unlockedPct1_full sc (hwf.vs.sch sc hsc) hfull]
    exact entitled_full _

/-- **path independence along histories**: let `a` have settled in a reachable state `s` in which
    the confirmation period has started and a schedule `sc` is stored.  Whatever happens afterwards
    (`g1_Later`: any accepted calls — claims of `a` at rounds `r1 ≤ r2 ≤ …`, claims of others, the
    owner's withdrawal, rejected attempts to change the schedule — and the passing of time), after
    an accepted claim of `a` at round `e.round` his cumulative received amount is EXACTLY
    `userTotal a × unlockedPct1 e.round sc / 10000` for the entitlement `userTotal a` fixed at his
    settlement; it is at most the entitlement and equals it once `sc` has fully released. -/
theorem vesting_path_independent_guarV1 (hash : List Nat → List Nat) (s : State) (r : Nat)
    (h : g1_Reach hash s r) (sc : Sched1) (hconf : s.cfg.conf ≤ r) (hsc : s.sched1 = some sc)
    (e : Env) (hcl : s.claimed e.caller = true)
    (s1 : State) (r1 : Nat) (hl : g1_Later hash s r s1 r1)
    (s2 : State) (o : Out) (hr : r1 ≤ e.round) (hs : step hash s1 e .claim = .ok (s2, o)) :
    s2.userTotal e.caller = s.userTotal e.caller ∧ s2.sched1 = some sc ∧
    s2.userClaimed e.caller = entitled (s.userTotal e.caller) (unlockedPct1 e.round sc) ∧
    s.userClaimed e.caller ≤ s2.userClaimed e.caller ∧
    s2.userClaimed e.caller ≤ s.userTotal e.caller ∧
    ((sc.start + sc.times * sc.period ≤ e.round ∨ (sc.initial = 10000 ∧ sc.start ≤ e.round)) →
      s2.userClaimed e.caller = s.userTotal e.caller) := by
  obtain ⟨a0, h⟩ := g1_Reach_iff.mp h
  obtain ⟨f1, _, _⟩ := g1_later_frozen hconf hsc hl
  obtain ⟨k1, k2, k3, _⟩ := g1_later_settled h hcl hl
  have h1reach : g1_Reach hash s1 r1 := g1_Reach_iff.mpr ⟨a0, (g1_Later.reach h hl).1⟩
  obtain ⟨j1, j2, j3, j4, j5, _, _, j8, _⟩ :=
    claim_releases_exactly_guarV1 hash s1 r1 h1reach e s2 o hr hs
  have hut : s2.userTotal e.caller = s.userTotal e.caller := by rw [j8 k1]; exact k2
  rw [f1] at j2 j1
  rw [hut] at j2 j4
  refine ⟨hut, j1, j2, by omega, j4, fun hfull => ?_⟩
  have := j5 sc f1 hfull
  rw [hut] at this
  exact this

/-- the same at EVERY later state (not only right after a claim of `a`): the entitlement and the
    schedule are those of `s`, the cumulative received amount never decreases, never exceeds the
    entitlement, and is `0` or the schedule's released amount at some round `r' ≤ r2` -/
theorem later_amount_guarV1 (hash : List Nat → List Nat) (s : State) (r : Nat)
    (h : g1_Reach hash s r) (sc : Sched1) (hconf : s.cfg.conf ≤ r) (hsc : s.sched1 = some sc)
    (a : Nat) (hcl : s.claimed a = true) (s2 : State) (r2 : Nat) (hl : g1_Later hash s r s2 r2) :
    s2.userTotal a = s.userTotal a ∧ s2.sched1 = some sc ∧
    s.userClaimed a ≤ s2.userClaimed a ∧ s2.userClaimed a ≤ s.userTotal a ∧
    (s2.userClaimed a = 0 ∨
      ∃ r', r' ≤ r2 ∧ s2.userClaimed a = entitled (s.userTotal a) (unlockedPct1 r' sc)) := by
  obtain ⟨a0, h⟩ := g1_Reach_iff.mp h
  obtain ⟨f1, _, _⟩ := g1_later_frozen hconf hsc hl
  obtain ⟨_, k2, k3, _⟩ := g1_later_settled h hcl hl
  have h2reach : g1_Reach hash s2 r2 := g1_Reach_iff.mpr ⟨a0, (g1_Later.reach h hl).1⟩
  obtain ⟨j1, _, _⟩ := released_exact_guarV1 hash s2 r2 h2reach
  have j2 := (unsettled_no_record_guarV1 hash s2 r2 h2reach).2 a
  refine ⟨k2, f1, k3, by rw [← k2]; exact j2, ?_⟩
  rcases j1 a with h0 | ⟨r', hr', h0⟩
  · exact Or.inl h0
  · refine Or.inr ⟨r', hr', ?_⟩
    rw [h0]
    show entitled (s2.userTotal a) (pct1 r' s2.sched1) = _
    rw [k2, f1]; rfl

/-- **nothing is left**: once every participant has settled and claimed everything and the owner
    has withdrawn (`totalDeposited` cleared), the contract holds no launchpad tokens -/
theorem lp_nothing_left_guarV1 (hash : List Nat → List Nat) (s : State) (r : Nat)
    (h : g1_Reach hash s r) (hd : AllDone s) (hall : ∀ a, s.range a = none)
    (hclaimed : ∀ a, s.userClaimed a = s.userTotal a) (hown : s.totalDeposited = 0) :
    s.bal (.esdt s.lpTok) 0 = 0 := by
  obtain ⟨L', _, _, hwin, _, _⟩ := three_counts_guarV1 hash s r h hd
  have hnw : s.nrWinning = 0 := by
    rw [← hwin]
    apply sumOver_zero
    intro a _
    simp [winCountOf, hall a]
  obtain ⟨L, _, _, heq⟩ := lp_exact_guarV1 hash s r h hd
  have hsum : sumOver (fun a => s.userTotal a - s.userClaimed a) L = 0 :=
    sumOver_zero _ _ (fun a _ => by show s.userTotal a - s.userClaimed a = 0; rw [hclaimed a]; omega)
  have hsur : ownSurplus s = 0 := by unfold ownSurplus; rw [if_pos hown]
  rw [heq, hsur, hnw, hsum]; simp

/-- **the deposit**: an accepted deposit made before the filter has completed is exactly
    `perTicket × (nrWinning + totalGuaranteed) = perTicket × T0` launchpad tokens -/
theorem deposit_is_perTicket_times_T0_guarV1 (hash : List Nat → List Nat)
    (a0 : InitArgs) (s : State) (r : Nat) (h : g1_ReachA hash a0 s r) (e : Env) (s' : State)
    (o : Out) (hf : s.flags.filtered = false) (hs : step hash s e .deposit = .ok (s', o)) :
    s'.totalDeposited = s.perTicket * a0.nrWinning ∧ s'.deposited = true ∧
    singleFungible e = .ok (.esdt s.lpTok, s.perTicket * a0.nrWinning) := by
  have hwf := g1_reach_WF h
  have hres := g1_reserve_before_filter hwf hf
  have hmax : LP.Props.C02.maxWinners s = a0.nrWinning := by
    unfold LP.Props.C02.maxWinners reservedForDeposit
    rw [(g1_flags hwf.var).2.2.2.2.1]
    exact hres
  obtain ⟨hs', _, _⟩ := LP.Props.C02.deposit_effect hash s s' e o hs
  have hacc := ((LP.Props.C02.deposit_accepted_iff hash s e).mp ⟨_, hs⟩).2.2
  rw [hmax] at hacc
  refine ⟨?_, ?_, hacc⟩
  · rw [hs', hmax]
  · rw [hs']

/-! ### 5. the unlock schedule is frozen once the confirmation period has started -/

/-- **C17 / C13 `schedule_frozen` along reachability**: from a (reachable or not) state in which
    the confirmation start round has been reached and a schedule is stored, no sequence of accepted
    calls changes the schedule or the confirmation start round -/
theorem schedule_frozen_guarV1 (hash : List Nat → List Nat) (s : State) (r : Nat) (sc : Sched1)
    (hconf : s.cfg.conf ≤ r) (hsc : s.sched1 = some sc) (s2 : State) (r2 : Nat)
    (hl : g1_Later hash s r s2 r2) : s2.sched1 = some sc ∧ s2.cfg.conf = s.cfg.conf :=
  ⟨(g1_later_frozen hconf hsc hl).1, (g1_later_frozen hconf hsc hl).2.1⟩

/-- while no participant has been paid, the schedule may still be (re)placed only before the
    confirmation period or when none is stored: an accepted `setSchedule1` from a reachable state
    finds `userClaimed = 0` for everybody -/
theorem setSchedule1_only_before_release_guarV1 (hash : List Nat → List Nat) (s : State) (r : Nat)
    (h : g1_Reach hash s r) (e : Env) (a b c d f : Nat) (s' : State) (o : Out) (hr : r ≤ e.round)
    (hs : step hash s e (.setSchedule1 a b c d f) = .ok (s', o)) :
    (∀ u, s.userClaimed u = 0) ∧ s'.sched1 = some ⟨a, b, c, d, f⟩ ∧
    validSched1 ⟨a, b, c, d, f⟩ := by
  obtain ⟨a0, h⟩ := g1_Reach_iff.mp h
  have hwf := g1_reach_WF h
  have hwf' := g1_setSchedule1 hwf hr hs
  have hsc : s'.sched1 = some ⟨a, b, c, d, f⟩ := by rw [setSchedule1_sched1 hs]
  refine ⟨fun u => ?_, hsc, hwf'.vs.sch _ hsc⟩
  rcases LP.Props.C06.schedule1_gate hash s e a b c d f (s', o) hs with hlt | hnone
  · have hns : s.flags.started = false := g1_notStarted_of_lt hwf hr (Or.inl hlt)
    obtain ⟨hna, _⟩ := v1_phase_notStarted hwf.phase hns
    exact (hwf.vs.fresh hna u).2.1
  · rcases hwf.vs.exact u with h0 | ⟨r', _, h0⟩
    · exact h0
    · have h0' : s.userClaimed u = entitled (s.userTotal u) (pct1 r' s.sched1) := h0
      rw [h0', hnone]
      simp [pct1, entitled]

/-! ### non-vacuity: a concrete guarV1 history through the whole lifecycle with a vesting schedule

  Two participants (7: staking guarantee, two tickets confirmed; 8: no guarantee, one of two tickets
  confirmed), `T0 = 2`, `perTicket = 20`, schedule "25 % at round 16, then 3 × 25 % every 10 rounds".
  7 wins both tickets (entitlement 40) and claims at rounds 16 (25 % → 10), 26 (50 % → 20 in total)
  and 50 (100 % → 40 in total); the owner withdraws in between; a late `setSchedule1` is rejected. -/

open LP.Props.C01reach (stOf isOk)

def wArgs : InitArgs :=
  { lpTok := 1, perTicket := 20, payTok := .egld, price := 10, nrWinning := 2, conf := 5, sel := 10, claim := 15 }

theorem g1_callOk {hash : List Nat → List Nat} {a0 : InitArgs} {s : State} {r : Nat}
    (e : Env) (c : Call)
    (h : g1_ReachA hash a0 s r) (hr : r ≤ e.round) (hok : EnvOK e) (hc : v1_CallOK c)
    (hs : isOk (step hash s e c) = true) :
    g1_ReachA hash a0 (stOf (step hash s e c) s) e.round := by
  cases hx : step hash s e c with
  | error err => rw [hx] at hs; cases hs
  | ok q =>
    obtain ⟨s', o⟩ := q
    exact .call s r e c s' o h hr hok hc hx

def w0 : State := match init .guarV1 wArgs { caller := 1, round := 0 } with
  | .ok s => s
  | .error _ => default

def wAlloc : List (Nat × Nat × Nat × Bool) := [(7, 2, 0, false), (8, 0, 2, false)]
def wSched : Sched1 := ⟨16, 2500, 3, 2500, 10⟩

def w1 : State := stOf (step id w0 { caller := 1, round := 1 } (.addTicketsV1 wAlloc)) w0
def w2 : State := stOf (step id w1 { caller := 1, round := 1 } (.setSchedule1 16 2500 3 2500 10)) w1
def w3 : State := stOf (step id w2 { caller := 1, round := 2, esdts := [⟨.esdt 1, 0, 40⟩] } .deposit) w2
def w4 : State := stOf (step id w3 { caller := 7, round := 5, egld := 20 } (.confirm 2)) w3
def w5 : State := stOf (step id w4 { caller := 8, round := 6, egld := 10 } (.confirm 1)) w4
def w6 : State := stOf (step id w5 { caller := 9, round := 10 } .filter) w5
def w7 : State := stOf (step id w6 { caller := 9, round := 11 } .select) w6
def w8 : State := stOf (step id w7 { caller := 9, round := 12 } .distribute) w7
def w9 : State := stOf (step id w8 { caller := 7, round := 16 } .claim) w8
def w10 : State := stOf (step id w9 { caller := 1, round := 17 } .claimPayment) w9
def w11 : State := stOf (step id w10 { caller := 7, round := 26 } .claim) w10
def w12 : State := stOf (step id w11 { caller := 7, round := 50 } .claim) w11

theorem w0_reach : g1_ReachA id wArgs w0 0 :=
  g1_ReachA.init { caller := 1, round := 0 } w0 rfl

theorem w5_reach : g1_ReachA id wArgs w5 6 :=
  g1_callOk { caller := 8, round := 6, egld := 10 } (.confirm 1)
    (g1_callOk { caller := 7, round := 5, egld := 20 } (.confirm 2)
      (g1_callOk { caller := 1, round := 2, esdts := [⟨.esdt 1, 0, 40⟩] } .deposit
        (g1_callOk { caller := 1, round := 1 } (.setSchedule1 16 2500 3 2500 10)
          (g1_callOk { caller := 1, round := 1 } (.addTicketsV1 wAlloc)
            w0_reach (by decide) (Or.inl rfl)
            (by show ∀ q ∈ wAlloc, 1 ≤ q.2.1 + q.2.2.1; decide) rfl)
          (by decide) (Or.inl rfl) trivial rfl)
        (by decide) (Or.inl rfl) trivial rfl)
      (by decide) (Or.inr rfl) trivial rfl)
    (by decide) (Or.inr rfl) trivial rfl

theorem w8_reach : g1_ReachA id wArgs w8 12 :=
  g1_callOk { caller := 9, round := 12 } .distribute
    (g1_callOk { caller := 9, round := 11 } .select
      (g1_callOk { caller := 9, round := 10 } .filter w5_reach
        (by decide) (Or.inl rfl) trivial rfl)
      (by decide) (Or.inl rfl) trivial rfl)
    (by decide) (Or.inl rfl) trivial rfl

theorem w9_reach : g1_ReachA id wArgs w9 16 :=
  g1_callOk { caller := 7, round := 16 } .claim w8_reach (by decide) (Or.inl rfl) trivial rfl

/-- the hypotheses of the theorems are satisfiable: a schedule, the distribution, a first claim at
    round 16, the owner's withdrawal, repeat claims at rounds 26 and 50 -/
theorem w12_reach : g1_ReachA id wArgs w12 50 :=
  g1_callOk { caller := 7, round := 50 } .claim
    (g1_callOk { caller := 7, round := 26 } .claim
      (g1_callOk { caller := 1, round := 17 } .claimPayment w9_reach
        (by decide) (Or.inl rfl) trivial rfl)
      (by decide) (Or.inl rfl) trivial rfl)
    (by decide) (Or.inl rfl) trivial rfl

/-- the concrete numbers: 7 wins both tickets (entitlement 2 × 20 = 40) and is paid 10, 20, 40 in
    total after the claims at rounds 16, 26, 50; the owner's surplus is 0 (deposit 40 = 2 winners ×
    20); at the end no launchpad token is left and the payment-token balance is 8's refund -/
example : w2.sched1 = some wSched ∧ w8.nrWinning = 2 ∧ AllDone w8 ∧ winCountOf w8 7 = 2 ∧
    w8.bal (.esdt 1) 0 = 40 ∧ w8.claimablePayment = 20 ∧
    w9.userTotal 7 = 40 ∧ w9.userClaimed 7 = 10 ∧ w9.bal (.esdt 1) 0 = 30 ∧ w9.nrWinning = 0 ∧
    ownSurplus w9 = 0 ∧ w10.totalDeposited = 0 ∧ w10.claimablePayment = 0 ∧ w10.bal (.esdt 1) 0 = 30 ∧
    w11.userClaimed 7 = 20 ∧ w11.bal (.esdt 1) 0 = 20 ∧
    w12.userClaimed 7 = 40 ∧ w12.bal (.esdt 1) 0 = 0 ∧ w12.bal .egld 0 = 10 := by
  refine ⟨rfl, rfl, ⟨rfl, rfl⟩, rfl, rfl, rfl, rfl, rfl, rfl, rfl, rfl, rfl, rfl, rfl, rfl, rfl, rfl, rfl, rfl⟩

/-- `claim_releases_exactly_guarV1` on the concrete history: the repeat claim at round 26 books
    exactly `40 × 50 % = 20` -/
example : w11.userClaimed 7 = entitled (w11.userTotal 7) (pct1 26 w10.sched1) ∧
    entitled 40 (unlockedPct1 26 wSched) = 20 := by
  have h := (claim_releases_exactly_guarV1 id w10 17
    (g1_Reach_iff.mpr ⟨_, g1_callOk { caller := 1, round := 17 } .claimPayment w9_reach
      (by decide) (Or.inl rfl) trivial rfl⟩)
    { caller := 7, round := 26 } w11 _ (by decide) rfl).2.1
  exact ⟨h, by decide⟩

/-- `vesting_path_independent_guarV1` on the concrete history: from `w9` (7 has settled, the
    confirmation period has started, the schedule is stored), after the owner's withdrawal and the
    claim at round 26, the claim at round 50 (`start + 3 × 10 = 46 ≤ 50`) releases everything -/
example : w12.userClaimed 7 = w9.userTotal 7 ∧ w12.sched1 = some wSched := by
  have hl : g1_Later id w9 16 w11 26 :=
    .call w10 17 { caller := 7, round := 26 } .claim w11 _
      (.call w9 16 { caller := 1, round := 17 } .claimPayment w10 _ .refl (by decide) (Or.inl rfl) trivial rfl)
      (by decide) (Or.inl rfl) trivial rfl
  have h := vesting_path_independent_guarV1 id w9 16 (g1_Reach_iff.mpr ⟨_, w9_reach⟩) wSched
    (by decide) rfl { caller := 7, round := 50 } rfl w11 26 hl w12 _ (by decide) rfl
  exact ⟨h.2.2.2.2.2 (Or.inl (by decide)), h.2.1⟩

/-- the schedule is frozen: an attempt to replace it after the confirmation period has started is
    rejected (`schedule_frozen_guarV1` says no accepted call can change it) -/
example : isOk (step id w10 { caller := 1, round := 27 } (.setSchedule1 30 10000 0 0 0)) = false := rfl

/-- the main theorems applied to the concrete history -/
example : (∃ L : List Nat, Covers w12 L ∧ PayEqPost w12 L) ∧
    (∃ L : List Nat, L.Nodup ∧ w9.bal (.esdt w9.lpTok) 0 = ownSurplus w9 + w9.perTicket * w9.nrWinning
        + sumOver (fun a => w9.userTotal a - w9.userClaimed a) L) := by
  obtain ⟨L, h1, _, h3⟩ := C01_solvent_guarV1 id w12 50 (g1_Reach_iff.mpr ⟨_, w12_reach⟩)
  obtain ⟨L', k1, _, k3⟩ := lp_exact_guarV1 id w9 16 (g1_Reach_iff.mpr ⟨_, w9_reach⟩) ⟨rfl, rfl⟩
  exact ⟨⟨L, h1, h3 ⟨rfl, rfl⟩⟩, ⟨L', k1, k3⟩⟩

end LP.Props.C01reachG1

#print axioms LP.Props.C01reachG1.C01_solvent_guarV1
#print axioms LP.Props.C01reachG1.three_counts_guarV1
#print axioms LP.Props.C01reachG1.claim_refund_covered_guarV1
#print axioms LP.Props.C01reachG1.all_settled_nothing_left_guarV1
#print axioms LP.Props.C01reachG1.final_winners_guarV1_partial
#print axioms LP.Props.C01reachG1.winners_bound_guarV1
#print axioms LP.Props.C01reachG1.proceeds_until_withdrawal_guarV1
#print axioms LP.Props.C01reachG1.interrupted_distribute_keeps_pre_guarV1
#print axioms LP.Props.C01reachG1.whitelisted_iff_guarV1
#print axioms LP.Props.C01reachG1.guarantee_honoured_guarV1
#print axioms LP.Props.C01reachG1.reserve_guarV1
#print axioms LP.Props.C01reachG1.lp_before_distribution_guarV1
#print axioms LP.Props.C01reachG1.unsettled_no_record_guarV1
#print axioms LP.Props.C01reachG1.lp_ledger_guarV1
#print axioms LP.Props.C01reachG1.lp_exact_guarV1
#print axioms LP.Props.C01reachG1.lp_exact_unsettled_guarV1
#print axioms LP.Props.C01reachG1.lp_cover_guarV1
#print axioms LP.Props.C01reachG1.owner_withdrawal_guarV1
#print axioms LP.Props.C01reachG1.vested_claim_covered_guarV1
#print axioms LP.Props.C01reachG1.unsettled_winner_covered_guarV1
#print axioms LP.Props.C01reachG1.released_exact_guarV1
#print axioms LP.Props.C01reachG1.claim_releases_exactly_guarV1
#print axioms LP.Props.C01reachG1.vesting_path_independent_guarV1
#print axioms LP.Props.C01reachG1.later_amount_guarV1
#print axioms LP.Props.C01reachG1.lp_nothing_left_guarV1
#print axioms LP.Props.C01reachG1.deposit_is_perTicket_times_T0_guarV1
#print axioms LP.Props.C01reachG1.schedule_frozen_guarV1
#print axioms LP.Props.C01reachG1.setSchedule1_only_before_release_guarV1
#print axioms LP.Props.C01reachG1.g1_callOk
#print axioms LP.Props.C01reachG1.w0_reach
#print axioms LP.Props.C01reachG1.w5_reach
#print axioms LP.Props.C01reachG1.w8_reach
#print axioms LP.Props.C01reachG1.w9_reach
#print axioms LP.Props.C01reachG1.w12_reach
