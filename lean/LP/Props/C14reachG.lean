import LP.Proofs.ReachNGFrame
import LP.Props.C14reach
/-
  C14 / C01 / C02 / C03 / C11 (reachable-state form) for `Variant.nftGuar` —
  launchpad-nft-and-guaranteed-tickets, the last of the eight variants.

  `ng_Reach hash s r` (LP/Proofs/ReachNGBase.lean): `s` is reachable from some deployment of the
  contract by accepted transactions with non-decreasing rounds (`r` = round of the latest one, or
  later).  Every transaction carries EGLD or ESDT but not both (`EnvOK`), and

      *** THE ONE RESTRICTION ON HISTORIES (`v1_CallOK`) ***
      every entry of an `addTicketsV1` call allocates at least one ticket: `1 ≤ staking + energy`
      (exactly as for the other v1 guaranteed-ticket launchpads, LP/Props/C01reachV1.lean).

  Nothing else is restricted: `filter`, `select` and `secondary` may be interrupted by ANY iteration
  budget, any number of times — `secondary` in its top-up loop, in its leftover loop, or in its
  NFT draw; draws may be scripted.  The SFT set-up is the environment action `sftSetup`.  There is
  no un-blacklist endpoint in this variant.

  WHAT IS ASSUMED ABOUT THE TOKENS: nothing about the history (`setNftCost` / `setTicketPrice` may
  change the fee / payment token in the AddTickets stage).  Theorems have hypotheses on the CURRENT
  state only: `FeeTokenSeparate s` (configuration a), `FeeInPayToken s` (configuration b); the
  launchpad-token theorems need `¬ FeeInLpToken s` (with the fee kept in the launchpad-token slot
  the owner's "surplus" withdrawal takes the fees with it — nothing is claimed there).

  1  invariant: `ng_WF`, `ng_init_WF`, `ng_call_WF`, `ng_wait_WF`, `ng_reach_WF` (LP/Proofs/ReachNG*.lean)
  2  `ng_solvent_general`, `ng_solvent_separate`, `ng_fee_ledger`, `ng_nothing_left_separate`,
     `ng_solvent_same`, `ng_nothing_left_same`, `ng_three_counts`, `ng_claim_refund_covered`
  3  `ng_final_winners_partial`, `ng_guarantee_honoured`, `ng_draw_completion`,
     `ng_draw_from_start`, `ng_participants_frozen`, `ng_draw_end_to_end`, `ng_secondary_ret`, `ng_winners_bound`, `ng_whitelisted_iff`, `ng_nft_lists`
  4  `ng_lp_cover`, `ng_reserve`, `ng_owner_surplus`, `ng_lp_zero_at_end`
  5  `ng_claim_category`, `ng_three_counts`
  Non-vacuity: `g15_reach` (interrupted filter; FOUR `secondary` calls: interrupted in the top-up
  loop, in the leftover loop, in the NFT draw, completed), `g18_reach`.
-/
namespace LP.Props.C14reachG
open LP LP.FY LP.Props.C09 LP.Props.C14 LP.Props.C01reach LP.Props.C14reach

/-- the NFT fee is kept in the launchpad-token slot -/
def FeeInLpToken (s : State) : Prop := s.nftCost.tok = .esdt s.lpTok ∧ s.nftCost.nonce = 0

instance (s : State) : Decidable (FeeInLpToken s) := by unfold FeeInLpToken; infer_instance

/-! ### 2. ticket-payment solvency and the fee ledger -/

/-- **general form**: in every reachable state — including the middle of interrupted `filter` /
    `select` / `secondary` calls — the payment-token holdings are exactly the ticket ledger plus
    the NFT fees held in the same slot -/
theorem ng_solvent_general (hash : List Nat → List Nat) (s : State) (r : Nat)
    (h : ng_Reach hash s r) :
    ∃ L : List Nat, Covers s L ∧
      (¬ AllDone s → s.bal s.payTok 0 = s.price * sumOver s.confirmed L + feeInPay s) ∧
      (AllDone s → s.bal s.payTok 0 = s.claimablePayment + sumOver (refundDue s) L + feeInPay s) := by
  obtain ⟨a0, h⟩ := ng_Reach_iff.mp h
  have hwf := ng_reach_WF h
  obtain ⟨L, h1, h2, h3⟩ := ng_WF_ledger hwf
  have hadd := nf_tix_add hwf.side
  have hadd' : (nf_side s).tix + feeInPay s = s.bal s.payTok 0 := hadd
  refine ⟨L, h1, fun hd => ?_, fun hd => ?_⟩
  · rw [← h2 hd]; omega
  · rw [← (h3 hd).1]; omega

/-- **(a) fee token separate**: the ticket-payment ledger is exactly that of the plain launchpad -/
theorem ng_solvent_separate (hash : List Nat → List Nat) (s : State) (r : Nat)
    (h : ng_Reach hash s r) (hsep : FeeTokenSeparate s) :
    ∃ L : List Nat, Covers s L ∧ (¬ AllDone s → PayEqPre s L) ∧ (AllDone s → PayEqPost s L) := by
  obtain ⟨L, h1, h2, h3⟩ := ng_solvent_general hash s r h
  have hz : feeInPay s = 0 := by
    have hn : ¬ FeeInPayToken s := hsep.1
    unfold feeInPay; rw [if_neg hn]
  rw [hz] at h2 h3
  exact ⟨L, h1, fun hd => h2 hd, fun hd => h3 hd⟩

/-- **(a) the fee ledger**: holdings of the fee token = fee × (payers + drawn) before the draw
    completes, = claimableNft + fee × remaining losing payers afterwards -/
theorem ng_fee_ledger (hash : List Nat → List Nat) (s : State) (r : Nat)
    (h : ng_Reach hash s r) (hsep : FeeTokenSeparate s) : feeBal s = feeHeld s := by
  obtain ⟨a0, h⟩ := ng_Reach_iff.mp h
  exact (ng_reach_WF h).side.feeEq hsep.1 hsep.2

/-- after completion, a range-less address has no confirmed tickets, hence is in neither NFT list -/
theorem ng_all_settled_lists_empty (hash : List Nat → List Nat) (s : State) (r : Nat)
    (h : ng_Reach hash s r) (hd : AllDone s) (hall : ∀ a, s.range a = none) :
    s.payers = [] ∧ s.nftWinners = [] := by
  obtain ⟨a0, h⟩ := ng_Reach_iff.mp h
  have hwf := ng_reach_WF h
  have hD : PhD (nf_core s) := ng_phase_D hwf.phase hd.2
  have hz : ∀ a, s.confirmed a = 0 := fun a => hD.rngNone a (hall a)
  constructor
  · cases hp : s.payers with
    | nil => rfl
    | cons a rest =>
      have := hwf.side.conf a (Or.inl (by show a ∈ s.payers; rw [hp]; simp))
      have : 0 < s.confirmed a := this
      rw [hz a] at this; cases this
  · cases hp : s.nftWinners with
    | nil => rfl
    | cons a rest =>
      have := hwf.side.conf a (Or.inr (by show a ∈ s.nftWinners; rw [hp]; simp))
      have : 0 < s.confirmed a := this
      rw [hz a] at this; cases this

/-- **(a) both tokens reconcile to zero** after all claims and the owner's withdrawal -/
theorem ng_nothing_left_separate (hash : List Nat → List Nat) (s : State) (r : Nat)
    (h : ng_Reach hash s r) (hsep : FeeTokenSeparate s) (hd : AllDone s)
    (hall : ∀ a, s.range a = none) (hcp : s.claimablePayment = 0) (hcn : s.claimableNft = 0) :
    s.bal s.payTok 0 = 0 ∧ feeBal s = 0 := by
  obtain ⟨L, _, _, h3⟩ := ng_solvent_separate hash s r h hsep
  refine ⟨all_settled_zero s L (h3 hd) (fun a _ => hall a) hcp, ?_⟩
  rw [ng_fee_ledger hash s r h hsep]
  obtain ⟨hp, _⟩ := ng_all_settled_lists_empty hash s r h hd hall
  unfold feeHeld
  rw [hd.2, hcn, hp]; simp

/-- **(b) fee token = ticket-payment token** (EGLD/EGLD): the combined ledger -/
theorem ng_solvent_same (hash : List Nat → List Nat) (s : State) (r : Nat)
    (h : ng_Reach hash s r) (hsame : FeeInPayToken s) :
    ∃ L : List Nat, Covers s L ∧ (¬ AllDone s → CombinedPre s L) ∧ (AllDone s → CombinedPost s L) := by
  obtain ⟨L, h1, h2, h3⟩ := ng_solvent_general hash s r h
  obtain ⟨a0, h⟩ := ng_Reach_iff.mp h
  have hwf := ng_reach_WF h
  have hz : feeInPay s = feeHeld s := by unfold feeInPay; rw [if_pos hsame]
  rw [hz] at h2 h3
  refine ⟨L, h1, fun hd => ?_, fun hd => ?_⟩
  · have hna : s.flags.additional = false := by
      cases hq : s.flags.additional with
      | false => rfl
      | true =>
        exfalso
        have hD : PhD (nf_core s) := ng_phase_D hwf.phase hq
        exact hd ⟨hD.selected, hq⟩
    have := h2 hd
    unfold feeHeld at this
    rw [hna] at this
    exact this
  · have := h3 hd
    unfold feeHeld at this
    rw [hd.2] at this
    unfold CombinedPost
    simp only [if_true] at this
    omega

/-- **(b) nothing is left** after all claims and the owner's withdrawal -/
theorem ng_nothing_left_same (hash : List Nat → List Nat) (s : State) (r : Nat)
    (h : ng_Reach hash s r) (hsame : FeeInPayToken s) (hd : AllDone s)
    (hall : ∀ a, s.range a = none) (hcp : s.claimablePayment = 0) (hcn : s.claimableNft = 0) :
    s.bal s.payTok 0 = 0 := by
  obtain ⟨L, _, _, h3⟩ := ng_solvent_same hash s r h hsame
  obtain ⟨hp, _⟩ := ng_all_settled_lists_empty hash s r h hd hall
  have := h3 hd
  unfold CombinedPost at this
  rw [this, hcp, hcn, hp, sumOver_zero]
  · simp
  · intro a _; simp [refundDue, hall a]

/-- after completion, in every reachable state: the winning tickets still held add up to
    `nrWinning`, nobody holds more winning than confirmed tickets, every range has exactly
    `confirmed` tickets; the ledger is the general post-completion one -/
theorem ng_three_counts (hash : List Nat → List Nat) (s : State) (r : Nat)
    (h : ng_Reach hash s r) (hd : AllDone s) :
    ∃ L : List Nat, Covers s L ∧
      s.bal s.payTok 0 = s.claimablePayment + sumOver (refundDue s) L + feeInPay s ∧
      sumOver (winCountOf s) L = s.nrWinning ∧
      (∀ a, winCountOf s a ≤ s.confirmed a) ∧
      (∀ a rg, s.range a = some rg → a ∈ L ∧ rangeLen rg = s.confirmed a) := by
  obtain ⟨a0, h⟩ := ng_Reach_iff.mp h
  have hwf := ng_reach_WF h
  obtain ⟨L, h1, _, h3⟩ := ng_WF_ledger hwf
  obtain ⟨hpost, hwin, hle, hrg⟩ := h3 hd
  have hadd := nf_tix_add hwf.side
  have hadd' : (nf_side s).tix + feeInPay s = s.bal s.payTok 0 := hadd
  refine ⟨L, h1, by omega, hwin, hle, fun a rg hr => ?_⟩
  obtain ⟨k1, k2, k3⟩ := hrg a rg hr
  exact ⟨k1, by unfold rangeLen; omega⟩

/-- with a separate fee token the ledger of `ng_three_counts` is `PayEqPost` -/
theorem ng_three_counts_separate (hash : List Nat → List Nat) (s : State) (r : Nat)
    (h : ng_Reach hash s r) (hd : AllDone s) (hsep : FeeTokenSeparate s) :
    ∃ L : List Nat, Covers s L ∧ PayEqPost s L ∧ sumOver (winCountOf s) L = s.nrWinning ∧
      (∀ a, winCountOf s a ≤ s.confirmed a) ∧
      (∀ a rg, s.range a = some rg → a ∈ L ∧ rangeLen rg = s.confirmed a) := by
  obtain ⟨L, h1, h2, h3, h4, h5⟩ := ng_three_counts hash s r h hd
  have hz : feeInPay s = 0 := by
    have hn : ¬ FeeInPayToken s := hsep.1
    unfold feeInPay; rw [if_neg hn]
  rw [hz] at h2
  exact ⟨L, h1, h2, h3, h4, h5⟩

/-- after completion, whatever claims and withdrawals happened before: the payment-token holdings
    cover the owner's recorded proceeds, the ticket refund of any participant who still has a
    range, and all NFT fees held in the same slot -/
theorem ng_claim_refund_covered (hash : List Nat → List Nat) (s : State) (r : Nat)
    (h : ng_Reach hash s r) (hd : AllDone s) (a : Nat) (rg : Range) (hr : s.range a = some rg) :
    s.claimablePayment + s.price * (s.confirmed a - winCountOf s a) + feeInPay s
      ≤ s.bal s.payTok 0 := by
  obtain ⟨L, _, hpost, _, _, hrg⟩ := ng_three_counts hash s r h hd
  have haL := (hrg a rg hr).1
  have hle := rb_le_sumOver (refundDue s) L a haL
  have hdue : refundDue s a = s.price * (s.confirmed a - winCountOf s a) := by
    simp only [refundDue, hr]
  omega

/-! ### 3. the completed additional step

  NOT A THEOREM: "every `secondary` call sequence completes".  The v1 leftover loop re-draws
  without consuming a position when it hits an already winning ticket, so for adversarial draw
  streams it spins until the fuel/gas runs out (`C03_leftover_v1_may_spin`, LP/Props/C03final.lean);
  such a call is rejected and leaves no trace.  Hence the statements are conditional on the call
  having completed — which is exactly what an accepted call with `ret = [0]` is. -/

/-- an accepted `secondary` call returns `[0]` exactly when it completes the additional step
    (`flags.additional` set), `[1]` otherwise -/
theorem ng_secondary_ret (hash : List Nat → List Nat) (a0 : InitArgs) (s : State) (r : Nat)
    (h : ng_ReachA hash a0 s r) (e : Env) (s' : State) (o : Out) (hr : r ≤ e.round)
    (hs : step hash s e .secondary = .ok (s', o)) :
    (o.ret = [0] ∧ s'.flags.additional = true) ∨ (o.ret = [1] ∧ s'.flags.additional = false) :=
  ng_secondary_interrupted (ng_reach_WF h) hr hs

/-- **final ticket winners, PARTIAL in the sense above**: the accepted `secondary` call that returns
    `[0]`, from any reachable state of a launchpad deployed with `a0.nrWinning` winners (whatever
    interruptions happened before, in whichever loop): both completion flags are set, the number of
    winning flags equals the stored `nrWinning`, which is `min (configured winners) (confirmed
    tickets)`, the owner's proceeds are `price × nrWinning`, every flag lies in `1..lastTicketId`,
    and no winner of the lottery / an earlier call lost its flag -/
theorem ng_final_winners_partial (hash : List Nat → List Nat) (a0 : InitArgs) (s : State) (r : Nat)
    (h : ng_ReachA hash a0 s r) (e : Env) (s' : State) (o : Out) (hr : r ≤ e.round)
    (hs : step hash s e .secondary = .ok (s', o)) (hret : o.ret = [0]) :
    AllDone s' ∧
    countTrue s'.status s'.lastTicketId = s'.nrWinning ∧
    s'.nrWinning = min a0.nrWinning s'.lastTicketId ∧
    s'.claimablePayment = s'.price * s'.nrWinning ∧
    (∀ t, s'.status t = true → 1 ≤ t ∧ t ≤ s'.lastTicketId) ∧
    (∀ t, s.status t = true → s'.status t = true) := by
  obtain ⟨h1, h2, _, _, h5, h6, h7, h8, h9, _⟩ :=
    ng_secondary_completion (ng_reach_WF h) hr hs hret
  exact ⟨⟨h1, h2⟩, h5, h6, h7, h8, h9⟩

/-- **guarantees honoured**: when the additional step completes, every holder `u` of a guarantee
    record `st` owns at least `min (qualified guarantee) (confirmed tickets)` winning tickets, where
    the qualified guarantee is `(calcV1 st confirmed minConfirmed).1`; no flag lies outside
    `1..lastTicketId` -/
theorem ng_guarantee_honoured (hash : List Nat → List Nat) (a0 : InitArgs) (s : State) (r : Nat)
    (h : ng_ReachA hash a0 s r) (e : Env) (s' : State) (o : Out) (hr : r ≤ e.round)
    (hs : step hash s e .secondary = .ok (s', o)) (hret : o.ret = [0]) :
    (∀ u st, s'.uts u = some st →
      min (calcV1 st (s'.confirmed u) s'.minConfirmed).1 (s'.confirmed u) ≤ winCountOf s' u) ∧
    (∀ t, s'.status t = true → 1 ≤ t ∧ t ≤ s'.lastTicketId) := by
  obtain ⟨_, _, _, _, _, _, _, h8, _, h10, _⟩ :=
    ng_secondary_completion (ng_reach_WF h) hr hs hret
  exact ⟨h10, h8⟩

/-- **the NFT draw at completion**: the `secondary` call that returns `[0]` leaves
    `min availNfts (participants)` NFT winners — all distinct, all fee payers, disjoint from the
    payers that remain —, earlier winners are kept, and the owner's NFT proceeds are fee × winners -/
theorem ng_draw_completion (hash : List Nat → List Nat) (a0 : InitArgs) (s : State) (r : Nat)
    (h : ng_ReachA hash a0 s r) (e : Env) (s' : State) (o : Out) (hr : r ≤ e.round)
    (hs : step hash s e .secondary = .ok (s', o)) (hret : o.ret = [0]) :
    s'.nftWinners.length = min s.availNfts (s.payers.length + s.nftWinners.length) ∧
    s'.claimableNft = s.nftCost.amount * s'.nftWinners.length ∧
    NftOk s' ∧ (∀ a, (a ∈ s'.payers ∨ a ∈ s'.nftWinners) ↔ (a ∈ s.payers ∨ a ∈ s.nftWinners)) ∧
    s.nftWinners <+: s'.nftWinners ∧ AllDone s' := by
  obtain ⟨h1, h2, _, _, _, _, _, _, _, _, h11, h12, h13, h14, h15⟩ :=
    ng_secondary_completion (ng_reach_WF h) hr hs hret
  exact ⟨h11, h12, h13, h14, h15, ⟨h1, h2⟩⟩

/-- two duplicate-free disjoint lists with the same members as two others have the same total size -/
theorem ng_len_of_union {P W P' W' : List Nat} (h1 : P.Nodup) (h2 : W.Nodup)
    (h3 : ∀ a, a ∈ P → a ∉ W) (k1 : P'.Nodup) (k2 : W'.Nodup) (k3 : ∀ a, a ∈ P' → a ∉ W')
    (hun : ∀ a, (a ∈ P' ∨ a ∈ W') ↔ (a ∈ P ∨ a ∈ W)) :
    P'.length + W'.length = P.length + W.length := by
  have hnd : (P ++ W).Nodup := by
    rw [List.nodup_append]
    exact ⟨h1, h2, fun a ha b hb hab => h3 a ha (hab ▸ hb)⟩
  have hnd' : (P' ++ W').Nodup := by
    rw [List.nodup_append]
    exact ⟨k1, k2, fun a ha b hb hab => k3 a ha (hab ▸ hb)⟩
  have hperm : (P' ++ W').Perm (P ++ W) := by
    rw [List.perm_ext_iff_of_nodup hnd' hnd]
    intro a
    rw [List.mem_append, List.mem_append]
    exact hun a
  have := hperm.length_eq
  rw [List.length_append, List.length_append] at this
  exact this

/-- until the guaranteed-ticket sub-step of `secondary` is complete (no `nft` cursor saved) nobody
    is drawn; hence a `secondary` call that starts the draw and completes it in the same call
    leaves exactly `min availNfts (number of fee payers)` winners, all of them fee payers -/
theorem ng_draw_from_start (hash : List Nat → List Nat) (a0 : InitArgs) (s : State) (r : Nat)
    (h : ng_ReachA hash a0 s r) (hop : ∀ rg, s.op ≠ .additional (.nft rg)) (e : Env) (s' : State)
    (o : Out) (hr : r ≤ e.round)
    (hs : step hash s e .secondary = .ok (s', o)) (hret : o.ret = [0]) :
    s.nftWinners = [] ∧
    s'.nftWinners.length = min s.availNfts s.payers.length ∧
    (∀ a, (a ∈ s'.payers ∨ a ∈ s'.nftWinners) ↔ a ∈ s.payers) ∧
    s'.payers.length + s'.nftWinners.length = s.payers.length := by
  have hwf := ng_reach_WF h
  obtain ⟨t, hx, _, _⟩ := ng_secondary_exec hwf.var hs
  obtain ⟨_, hna, _⟩ := ng_secondary_split hwf hr hx
  have hw0 : s.nftWinners = [] := hwf.noWinE hna hop
  obtain ⟨h1, _, h3, h4, _, _⟩ := ng_draw_completion hash a0 s r h e s' o hr hs hret
  have hlen := ng_len_of_union (P := s.payers) (W := s.nftWinners) hwf.side.nodupP hwf.side.nodupW hwf.side.disj h3.nodupP h3.nodupW
    h3.disj h4
  rw [hw0] at h1 h4 hlen
  simp only [List.length_nil, Nat.add_zero, List.not_mem_nil, or_false] at h1 h4 hlen
  exact ⟨hw0, h1, h4, hlen⟩

/-- from the start of the filter until the additional step completes the NFT participants cannot
    change: along ANY accepted calls, `payers ∪ nftWinners`, its size, the fee and `availNfts` are
    constant and already drawn participants stay drawn -/
theorem ng_participants_frozen (hash : List Nat → List Nat) (a0 : InitArgs) (s : State) (r : Nat)
    (h : ng_ReachA hash a0 s r) (hstd : s.flags.started = true) (s2 : State) (r2 : Nat)
    (hl : ng_Later hash s r s2 r2) (hna : s2.flags.additional = false) :
    nf_Frozen s s2 :=
  ((ng_later_frozen h hstd hl).2 hna).1

/-- **the NFT draw end to end**: `s` is any reachable state after the filter has started and before
    the base lottery is complete (the confirmation period is over; nobody is drawn yet), `s.payers`
    are the fee payers when the selection starts.  After ANY accepted calls (interrupted `filter` /
    `select` / `secondary` calls with any budgets, in any loop; anything else), the `secondary` call
    that returns `[0]` leaves exactly `min availNfts (number of fee payers)` NFT winners, all
    distinct, all fee payers; the others remain in `payers`; the owner's NFT proceeds are
    fee × winners -/
theorem ng_draw_end_to_end (hash : List Nat → List Nat) (a0 : InitArgs) (s : State) (r : Nat)
    (h : ng_ReachA hash a0 s r) (hstd : s.flags.started = true) (hns : s.flags.selected = false)
    (s1 : State) (r1 : Nat) (hl : ng_Later hash s r s1 r1)
    (e : Env) (s2 : State) (o : Out) (hr1 : r1 ≤ e.round)
    (hs : step hash s1 e .secondary = .ok (s2, o)) (hret : o.ret = [0]) :
    s2.nftWinners.length = min s.availNfts s.payers.length ∧
    s2.claimableNft = s.nftCost.amount * s2.nftWinners.length ∧
    s2.nftWinners.Nodup ∧ s2.payers.Nodup ∧ (∀ a, a ∈ s2.payers → a ∉ s2.nftWinners) ∧
    (∀ a, (a ∈ s2.payers ∨ a ∈ s2.nftWinners) ↔ a ∈ s.payers) ∧
    s2.payers.length + s2.nftWinners.length = s.payers.length := by
  obtain ⟨hr1', hfz⟩ := ng_later_frozen h hstd hl
  have hwf1 := ng_reach_WF hr1'
  have hw0 : s.nftWinners = [] := (ng_reach_WF h).side.noWin hns
  obtain ⟨t, hx, _, _⟩ := ng_secondary_exec hwf1.var hs
  obtain ⟨_, hna1, _⟩ := ng_secondary_split hwf1 hr1 hx
  obtain ⟨hF, _⟩ := hfz hna1
  obtain ⟨f1, f2, hok2, hun2, _, _⟩ := ng_draw_completion hash a0 s1 r1 hr1' e s2 o hr1 hs hret
  have hlen2 := ng_len_of_union (P := s1.payers) (W := s1.nftWinners) hwf1.side.nodupP hwf1.side.nodupW hwf1.side.disj hok2.nodupP
    hok2.nodupW hok2.disj hun2
  have hlen : s1.payers.length + s1.nftWinners.length = s.payers.length := by
    rw [hF.len, hw0]; simp
  refine ⟨by rw [f1, hF.avail, hlen], by rw [f2, hF.cost], hok2.nodupW, hok2.nodupP, hok2.disj, ?_,
    by rw [hlen2, hlen]⟩
  intro a
  rw [hun2 a, hF.mem a, hw0]
  simp

/-- during the additional step (lottery complete, step not — whatever interruptions): the number
    of winning flags is between the stored winners and `min T0 lastTicketId`, and every flag lies
    in `1..lastTicketId` -/
theorem ng_winners_bound_reach (hash : List Nat → List Nat) (a0 : InitArgs) (s : State) (r : Nat)
    (h : ng_ReachA hash a0 s r) (hsel : s.flags.selected = true) (hna : s.flags.additional = false) :
    s.nrWinning ≤ countTrue s.status s.lastTicketId ∧
    countTrue s.status s.lastTicketId ≤ min a0.nrWinning s.lastTicketId ∧
    (∀ t, s.status t = true → 1 ≤ t ∧ t ≤ s.lastTicketId) :=
  ng_winners_bound (ng_reach_WF h) hsel hna

/-- until the first `secondary` call is accepted the whitelist is exactly the set of holders of a
    positive guarantee -/
theorem ng_whitelisted_iff (hash : List Nat → List Nat) (s : State) (r : Nat)
    (h : ng_Reach hash s r) (hna : s.flags.additional = false)
    (hop : s.flags.selected = true → s.op = .none) (u : Nat) :
    u ∈ s.whitelist ↔ ∃ st, s.uts u = some st ∧ st.c + st.d > 0 := by
  obtain ⟨a0, h⟩ := ng_Reach_iff.mp h
  exact ng_whitelist_intact (ng_reach_WF h) hna hop u

/-- in every reachable state: the two NFT lists are duplicate-free and disjoint, at most
    `availNfts` are drawn, every payer / drawn participant has confirmed tickets, nobody is drawn
    before the base lottery is complete nor before the guaranteed-ticket sub-step is, settled
    participants are in neither list -/
theorem ng_nft_lists (hash : List Nat → List Nat) (s : State) (r : Nat)
    (h : ng_Reach hash s r) :
    NftOk s ∧ s.nftWinners.length ≤ s.availNfts ∧
    (∀ a, a ∈ s.payers ∨ a ∈ s.nftWinners → 0 < s.confirmed a) ∧
    (s.flags.selected = false → s.nftWinners = []) ∧
    (s.flags.additional = false → (∀ rg, s.op ≠ .additional (.nft rg)) → s.nftWinners = []) ∧
    (∀ a, s.claimed a = true → a ∉ s.payers ∧ a ∉ s.nftWinners) ∧
    (s.flags.additional = false → ∀ a, s.claimed a = false) := by
  obtain ⟨a0, h⟩ := ng_Reach_iff.mp h
  have hwf := ng_reach_WF h
  have hs := hwf.side
  exact ⟨⟨hs.nodupP, hs.nodupW, hs.disj⟩, hs.winLe, hs.conf, hs.noWin, hwf.noWinE, hs.claimedOut,
    hs.fresh⟩

/-! ### 4. the launchpad-token side -/

/-- **`LpCover` is an invariant from the deposit on** (fee not kept in the launchpad-token slot):
    the launchpad tokens held cover every outstanding winner; until the guaranteed-ticket sub-step
    is complete they even cover the whole reserve -/
theorem ng_lp_cover (hash : List Nat → List Nat) (s : State) (r : Nat)
    (h : ng_Reach hash s r) (hd : s.deposited = true) (hnl : ¬ FeeInLpToken s) :
    LP.Props.C02.LpCover s ∧
    (s.flags.additional = false → (∀ rg, s.op ≠ .additional (.nft rg)) →
      s.perTicket * (s.nrWinning + s.totalGuaranteed) ≤ s.bal (.esdt s.lpTok) 0) := by
  obtain ⟨a0, h⟩ := ng_Reach_iff.mp h
  have hlp := (ng_reach_WF h).lp (Or.inl hnl) hd
  constructor
  · unfold LP.Props.C02.LpCover
    refine Nat.le_trans (Nat.mul_le_mul_left _ ?_) hlp
    unfold ng_owed v1_owed
    split <;> omega
  · intro hna hop
    rw [ng_owed_of_not hop] at hlp
    unfold v1_owed at hlp
    rw [hna] at hlp
    simpa using hlp

/-- the reserve until the filter completes, and the bound afterwards -/
theorem ng_reserve (hash : List Nat → List Nat) (a0 : InitArgs) (s : State) (r : Nat)
    (h : ng_ReachA hash a0 s r) :
    (s.flags.filtered = false → s.nrWinning + s.totalGuaranteed = a0.nrWinning) ∧
    (s.flags.additional = false → (∀ rg, s.op ≠ .additional (.nft rg)) →
      s.nrWinning + s.totalGuaranteed ≤ a0.nrWinning) ∧
    (s.flags.additional = false → s.nrWinning ≤ a0.nrWinning) := by
  have hwf := ng_reach_WF h
  refine ⟨ng_reserve_before_filter hwf, fun hna hop => ?_, fun hna => ?_⟩
  · have := ng_owed_le_T0 hwf hna
    rw [ng_owed_of_not hop] at this
    unfold v1_owed at this
    rw [hna] at this
    simpa using this
  · have := ng_owed_le_T0 hwf hna
    refine Nat.le_trans ?_ this
    unfold ng_owed v1_owed
    split <;> omega

/-- **the owner can withdraw only the surplus** (fee not kept in the launchpad-token slot): after
    an accepted `claimPayment` the contract holds exactly the outstanding winners' launchpad tokens;
    both recorded proceeds are zero -/
theorem ng_owner_surplus_reach (hash : List Nat → List Nat) (s : State) (r : Nat)
    (h : ng_Reach hash s r) (hnl : ¬ FeeInLpToken s) (e : Env) (s' : State) (o : Out)
    (hs : step hash s e .claimPayment = .ok (s', o)) :
    s'.bal (.esdt s'.lpTok) 0 = s'.perTicket * s'.nrWinning ∧ s'.nrWinning = s.nrWinning ∧
    s'.claimablePayment = 0 ∧ s'.claimableNft = 0 := by
  obtain ⟨a0, h⟩ := ng_Reach_iff.mp h
  exact ng_owner_surplus (ng_reach_WF h) hnl hs

/-- **nothing is left at the end**: once every participant has settled, no winner is
    outstanding, and the owner's withdrawal leaves no launchpad token in the contract -/
theorem ng_lp_zero_at_end (hash : List Nat → List Nat) (s : State) (r : Nat)
    (h : ng_Reach hash s r) (hnl : ¬ FeeInLpToken s) (hd : AllDone s)
    (hall : ∀ a, s.range a = none)
    (e : Env) (s' : State) (o : Out) (hs : step hash s e .claimPayment = .ok (s', o)) :
    s.nrWinning = 0 ∧ s'.bal (.esdt s'.lpTok) 0 = 0 := by
  obtain ⟨a0, h0⟩ := ng_Reach_iff.mp h
  have hz := ng_all_settled_nrWinning (ng_reach_WF h0) hd hall
  obtain ⟨k1, k2, _⟩ := ng_owner_surplus_reach hash s r h hnl e s' o hs
  exact ⟨hz, by rw [k1, k2, hz]; simp⟩

/-! ### 5. claim categories -/

/-- **claim categories**: an accepted `claim` in a reachable state (which is then `AllDone`) hands
    out exactly one SFT whose category is determined by membership — 1 iff drawn, 2 iff paid the
    fee and not drawn (then, and only then, the full fee is refunded), 3 iff the caller never paid
    the fee — and removes the caller from the list it was in -/
theorem ng_claim_category (hash : List Nat → List Nat) (s : State) (r : Nat)
    (h : ng_Reach hash s r) (e : Env) (s' : State) (o : Out)
    (hs : step hash s e .claim = .ok (s', o)) :
    AllDone s ∧ s.claimed e.caller = false ∧
    ∃ k, o.sfts = [(e.caller, k)] ∧
      (k = 1 ↔ e.caller ∈ s.nftWinners) ∧ (k = 2 ↔ e.caller ∈ s.payers) ∧
      (k = 3 ↔ e.caller ∉ s.nftWinners ∧ e.caller ∉ s.payers) ∧ (k = 1 ∨ k = 2 ∨ k = 3) ∧
      o.xfers = refundXfers s e.caller ++ tokenXfers s e.caller ++
        (if k = 2 then [(e.caller, s.nftCost)] else []) ∧
      e.caller ∉ s'.payers ∧ e.caller ∉ s'.nftWinners ∧ s'.claimed e.caller = true ∧ NftOk s' := by
  obtain ⟨hok, _⟩ := ng_nft_lists hash s r h
  have hvar : s.variant = .nftGuar := by
    obtain ⟨a0, h⟩ := ng_Reach_iff.mp h
    exact (ng_reach_WF h).var
  obtain ⟨_, hn, _⟩ := ng_flags hvar
  obtain ⟨rg, hacc, _, hx, hsf, _, _, _, hcl, _, _, _, hafter, _, _⟩ :=
    claim_nft_effect hash s e s' o hn hs
  obtain ⟨c1, c2, c3, c4⟩ := nftCategory_exact s e.caller hok
  obtain ⟨hcat3, hok'⟩ := hafter hok
  obtain ⟨_, _, d3, _⟩ := nftCategory_exact s' e.caller hok'
  obtain ⟨hsel, hadd, _⟩ := claim_stage_selected hacc.2.2.1
  exact ⟨⟨hsel, hadd⟩, hacc.2.2.2.1, nftCategory s e.caller, hsf, c1, c2, c3, c4, hx,
    (d3.mp hcat3).2, (d3.mp hcat3).1, hcl, hok'⟩

/-! ### non-vacuity: a concrete history through the whole lifecycle (configuration b, EGLD/EGLD)

  Three participants (7: staking guarantee, 2 of 3 tickets confirmed, pays the NFT fee; 8: staking
  guarantee, 1 ticket; 9: no guarantee, 2 tickets, pays the NFT fee), `T0 = 3`, one NFT, an
  interrupted `filter`, and FOUR `secondary` calls: interrupted in the top-up loop, interrupted in
  the leftover loop, interrupted in the NFT draw, completed. -/

theorem callOk {hash : List Nat → List Nat} {a0 : InitArgs} {s : State} {r : Nat}
    (e : Env) (c : Call)
    (h : ng_ReachA hash a0 s r) (hr : r ≤ e.round) (hok : EnvOK e) (hc : v1_CallOK c)
    (hs : isOk (step hash s e c) = true) :
    ng_ReachA hash a0 (stOf (step hash s e c) s) e.round := by
  cases hx : step hash s e c with
  | error err => rw [hx] at hs; cases hs
  | ok q =>
    obtain ⟨s', o⟩ := q
    exact .call s r e c s' o h hr hok hc hx

def gArgs : InitArgs :=
  { lpTok := 1, perTicket := 5, payTok := .egld, price := 10, nrWinning := 3, conf := 5, sel := 10,
    claim := 15, minConfirmed := 1, nftCost := ⟨.egld, 0, 3⟩, availNfts := 1 }

def g0 : State := match init .nftGuar gArgs { caller := 1, round := 0 } with
  | .ok s => s
  | .error _ => default

def gAlloc : List (Nat × Nat × Nat × Bool) := [(7, 2, 1, false), (8, 1, 0, false), (9, 0, 2, false)]

def g1 : State := stOf (step id g0 { caller := 1, round := 1 } (.addTicketsV1 gAlloc)) g0
def g2 : State := stOf (step id g1 { caller := 1, round := 2, esdts := [⟨.esdt 1, 0, 15⟩] } .deposit) g1
def g3 : State := stOf (step id g2 { caller := 9, round := 3 } .sftSetup) g2
def g4 : State := stOf (step id g3 { caller := 7, round := 5, egld := 20 } (.confirm 2)) g3
def g5 : State := stOf (step id g4 { caller := 8, round := 6, egld := 10 } (.confirm 1)) g4
def g6 : State := stOf (step id g5 { caller := 9, round := 6, egld := 20 } (.confirm 2)) g5
def g7 : State := stOf (step id g6 { caller := 7, round := 7, egld := 3 } .confirmNft) g6
def g8 : State := stOf (step id g7 { caller := 9, round := 8, egld := 3 } .confirmNft) g7
def g9 : State := stOf (step id g8 { caller := 9, round := 10, budget := some 0 } .filter) g8
def g10 : State := stOf (step id g9 { caller := 9, round := 11 } .filter) g9
def g11 : State := stOf (step id g10 { caller := 9, round := 12 } .select) g10
def g12 : State := stOf (step id g11 { caller := 9, round := 13, budget := some 0 } .secondary) g11
def g13 : State := stOf (step id g12 { caller := 9, round := 13, budget := some 1 } .secondary) g12
def g14 : State := stOf (step id g13 { caller := 9, round := 14, budget := some 0 } .secondary) g13
def g15 : State := stOf (step id g14 { caller := 9, round := 14 } .secondary) g14
def g16 : State := stOf (step id g15 { caller := 7, round := 15 } .claim) g15
def g17 : State := stOf (step id g16 { caller := 1, round := 16 } .claimPayment) g16
def g18 : State := stOf (step id g17 { caller := 9, round := 17 } .claim) g17

theorem g0_reach : ng_ReachA id gArgs g0 0 := ng_ReachA.init { caller := 1, round := 0 } g0 rfl

theorem g3_reach : ng_ReachA id gArgs g3 3 :=
  callOk { caller := 9, round := 3 } .sftSetup
    (callOk { caller := 1, round := 2, esdts := [⟨.esdt 1, 0, 15⟩] } .deposit
      (callOk { caller := 1, round := 1 } (.addTicketsV1 gAlloc)
        g0_reach (by decide) (Or.inl rfl)
        (by show ∀ q ∈ gAlloc, 1 ≤ q.2.1 + q.2.2.1; decide) rfl)
      (by decide) (Or.inl rfl) trivial rfl)
    (by decide) (Or.inl rfl) trivial rfl

theorem g8_reach : ng_ReachA id gArgs g8 8 :=
  callOk { caller := 9, round := 8, egld := 3 } .confirmNft
    (callOk { caller := 7, round := 7, egld := 3 } .confirmNft
      (callOk { caller := 9, round := 6, egld := 20 } (.confirm 2)
        (callOk { caller := 8, round := 6, egld := 10 } (.confirm 1)
          (callOk { caller := 7, round := 5, egld := 20 } (.confirm 2) g3_reach
            (by decide) (Or.inr rfl) trivial rfl)
          (by decide) (Or.inr rfl) trivial rfl)
        (by decide) (Or.inr rfl) trivial rfl)
      (by decide) (Or.inr rfl) trivial rfl)
    (by decide) (Or.inr rfl) trivial rfl

theorem g10_reach : ng_ReachA id gArgs g10 11 :=
  callOk { caller := 9, round := 11 } .filter
    (callOk { caller := 9, round := 10, budget := some 0 } .filter g8_reach
      (by decide) (Or.inl rfl) trivial rfl)
    (by decide) (Or.inl rfl) trivial rfl

theorem g11_reach : ng_ReachA id gArgs g11 12 :=
  callOk { caller := 9, round := 12 } .select g10_reach (by decide) (Or.inl rfl) trivial rfl

theorem g14_reach : ng_ReachA id gArgs g14 14 :=
  callOk { caller := 9, round := 14, budget := some 0 } .secondary
    (callOk { caller := 9, round := 13, budget := some 1 } .secondary
      (callOk { caller := 9, round := 13, budget := some 0 } .secondary g11_reach
        (by decide) (Or.inl rfl) trivial rfl)
      (by decide) (Or.inl rfl) trivial rfl)
    (by decide) (Or.inl rfl) trivial rfl

/-- the hypotheses of the theorems are satisfiable: four `secondary` calls — interrupted in the
    top-up loop, in the leftover loop, in the NFT draw, completed -/
theorem g15_reach : ng_ReachA id gArgs g15 14 :=
  callOk { caller := 9, round := 14 } .secondary g14_reach (by decide) (Or.inl rfl) trivial rfl

/-- where each call stopped -/
example : g1.nrWinning = 1 ∧ g1.totalGuaranteed = 2 ∧ g1.whitelist = [7, 8] ∧
    g8.payers = [7, 9] ∧ g8.bal .egld 0 = 56 ∧
    g11.flags.selected = true ∧ g11.nrWinning = 1 ∧ g11.op = .none ∧
    g12.whitelist = [8] ∧ g13.whitelist = [] ∧ g13.flags.additional = false ∧
    g14.flags.additional = false ∧ g14.nrWinning = 3 ∧ g14.nftWinners = [7] ∧ g14.payers = [9] ∧
    AllDone g15 ∧ g15.nrWinning = 3 ∧ g15.lastTicketId = 5 ∧ g15.claimablePayment = 30 ∧
    g15.nftWinners = [7] ∧ g15.claimableNft = 3 ∧ g15.bal .egld 0 = 56 ∧ g15.bal (.esdt 1) 0 = 15 := by
  refine ⟨rfl, rfl, rfl, rfl, rfl, rfl, rfl, rfl, rfl, rfl, rfl, rfl, rfl, rfl, rfl, ⟨rfl, rfl⟩, rfl, rfl,
    rfl, rfl, rfl, rfl, rfl⟩

example : (∃ g, g12.op = .additional (.guar g)) ∧ (∃ g, g13.op = .additional (.guar g)) ∧
    (∃ rg, g14.op = .additional (.nft rg)) ∧ g15.op = .none :=
  ⟨⟨_, rfl⟩, ⟨_, rfl⟩, ⟨_, rfl⟩, rfl⟩

/-- `ng_final_winners_partial`, `ng_guarantee_honoured` and `ng_draw_completion` on the concrete
    history: the fourth `secondary` call is accepted with `ret = [0]`; 3 = min 3 5 tickets win;
    holders 7 and 8 win with their guaranteed ticket; 1 = min 1 2 NFT winners -/
example : ∃ s' o, step id g14 { caller := 9, round := 14 } .secondary = .ok (s', o) ∧
    o.ret = [0] ∧ s'.nrWinning = min gArgs.nrWinning s'.lastTicketId ∧ s'.nrWinning = 3 ∧
    1 ≤ winCountOf s' 7 ∧ 1 ≤ winCountOf s' 8 ∧
    s'.nftWinners.length = min g14.availNfts (g14.payers.length + g14.nftWinners.length) := by
  refine ⟨_, _, rfl, rfl, ?_, rfl, by decide, by decide, ?_⟩
  · exact (ng_final_winners_partial id gArgs g14 14 g14_reach
      { caller := 9, round := 14 } _ _ (by decide) rfl rfl).2.2.1
  · exact (ng_draw_completion id gArgs g14 14 g14_reach
      { caller := 9, round := 14 } _ _ (by decide) rfl rfl).1

/-- `ng_draw_end_to_end` applied to the concrete history: from `g10` (filter complete, base lottery
    not yet run) through `select`, three interrupted `secondary` calls and the completing one -/
example : g15.nftWinners.length = min g10.availNfts g10.payers.length ∧
    g15.claimableNft = g10.nftCost.amount * g15.nftWinners.length := by
  obtain ⟨o1, h1⟩ := step_stOf (x := step id g10 { caller := 9, round := 12 } .select) rfl g10
  obtain ⟨o2, h2⟩ := step_stOf
    (x := step id g11 { caller := 9, round := 13, budget := some 0 } .secondary) rfl g11
  obtain ⟨o3, h3⟩ := step_stOf
    (x := step id g12 { caller := 9, round := 13, budget := some 1 } .secondary) rfl g12
  obtain ⟨o4, h4⟩ := step_stOf
    (x := step id g13 { caller := 9, round := 14, budget := some 0 } .secondary) rfl g13
  have hl : ng_Later id g10 11 g14 14 :=
    ng_Later.call g13 13 { caller := 9, round := 14, budget := some 0 } .secondary g14 o4
      (ng_Later.call g12 13 { caller := 9, round := 13, budget := some 1 } .secondary g13 o3
        (ng_Later.call g11 12 { caller := 9, round := 13, budget := some 0 } .secondary g12 o2
          (ng_Later.call g10 11 { caller := 9, round := 12 } .select g11 o1 ng_Later.refl
            (by decide) (Or.inl rfl) trivial h1)
          (by decide) (Or.inl rfl) trivial h2)
        (by decide) (Or.inl rfl) trivial h3)
      (by decide) (Or.inl rfl) trivial h4
  obtain ⟨e1, e2, _⟩ := ng_draw_end_to_end id gArgs g10 11 g10_reach rfl rfl g14 14 hl
    { caller := 9, round := 14 } g15 _ (by decide) rfl rfl
  exact ⟨e1, e2⟩

/-- the main theorem (b) applied to the concrete history, in the middle of the NFT draw and after
    the completion -/
example : FeeInPayToken g14 ∧ (∃ L : List Nat, Covers g14 L ∧ CombinedPre g14 L) ∧
    (∃ L : List Nat, Covers g15 L ∧ CombinedPost g15 L) := by
  obtain ⟨L, h1, h2, _⟩ := ng_solvent_same id g14 14 (ng_Reach_iff.mpr ⟨_, g14_reach⟩) ⟨rfl, rfl⟩
  obtain ⟨L', k1, _, k3⟩ := ng_solvent_same id g15 14 (ng_Reach_iff.mpr ⟨_, g15_reach⟩) ⟨rfl, rfl⟩
  exact ⟨⟨rfl, rfl⟩, ⟨L, h1, h2 (fun h => by cases h.2)⟩, ⟨L', k1, k3 ⟨rfl, rfl⟩⟩⟩

/-- ... continued: participant 7 (NFT winner) settles, the owner withdraws (ticket proceeds, NFT
    proceeds and launchpad-token surplus), participant 9 (fee payer, not drawn) settles and gets
    the fee back -/
theorem g17_reach : ng_ReachA id gArgs g17 16 :=
  callOk { caller := 1, round := 16 } .claimPayment
    (callOk { caller := 7, round := 15 } .claim g15_reach
      (by decide) (Or.inl rfl) trivial (by decide +kernel))
    (by decide) (Or.inl rfl) trivial (by decide +kernel)

theorem g18_reach : ng_ReachA id gArgs g18 17 :=
  callOk { caller := 9, round := 17 } .claim g17_reach (by decide) (Or.inl rfl) trivial
    (by decide +kernel)

example : g16.bal .egld 0 = 56 ∧ g16.bal (.esdt 1) 0 = 5 ∧ g16.nrWinning = 1 ∧
    g17.bal .egld 0 = 23 ∧ g17.bal (.esdt 1) 0 = 5 ∧ g17.claimablePayment = 0 ∧
    g17.claimableNft = 0 ∧ g17.payers = [9] := by decide +kernel

/-- a separate fee token (configuration a) is accepted by deployment as well -/
example : ∃ s, ng_Reach id s 0 ∧ FeeTokenSeparate s ∧ ¬ FeeInLpToken s :=
  ⟨_, ng_Reach.init { gArgs with nftCost := ⟨.esdt 9, 0, 500⟩ } { caller := 1, round := 0 } _ rfl,
    by constructor <;> decide, by decide⟩

end LP.Props.C14reachG

#print axioms LP.Props.C14reachG.ng_solvent_general
#print axioms LP.Props.C14reachG.ng_solvent_separate
#print axioms LP.Props.C14reachG.ng_fee_ledger
#print axioms LP.Props.C14reachG.ng_all_settled_lists_empty
#print axioms LP.Props.C14reachG.ng_nothing_left_separate
#print axioms LP.Props.C14reachG.ng_solvent_same
#print axioms LP.Props.C14reachG.ng_nothing_left_same
#print axioms LP.Props.C14reachG.ng_three_counts
#print axioms LP.Props.C14reachG.ng_three_counts_separate
#print axioms LP.Props.C14reachG.ng_claim_refund_covered
#print axioms LP.Props.C14reachG.ng_secondary_ret
#print axioms LP.Props.C14reachG.ng_final_winners_partial
#print axioms LP.Props.C14reachG.ng_guarantee_honoured
#print axioms LP.Props.C14reachG.ng_draw_completion
#print axioms LP.Props.C14reachG.ng_len_of_union
#print axioms LP.Props.C14reachG.ng_draw_from_start
#print axioms LP.Props.C14reachG.ng_participants_frozen
#print axioms LP.Props.C14reachG.ng_draw_end_to_end
#print axioms LP.Props.C14reachG.ng_winners_bound_reach
#print axioms LP.Props.C14reachG.ng_whitelisted_iff
#print axioms LP.Props.C14reachG.ng_nft_lists
#print axioms LP.Props.C14reachG.ng_lp_cover
#print axioms LP.Props.C14reachG.ng_reserve
#print axioms LP.Props.C14reachG.ng_owner_surplus_reach
#print axioms LP.Props.C14reachG.ng_lp_zero_at_end
#print axioms LP.Props.C14reachG.ng_claim_category
#print axioms LP.Props.C14reachG.callOk
#print axioms LP.Props.C14reachG.g0_reach
#print axioms LP.Props.C14reachG.g3_reach
#print axioms LP.Props.C14reachG.g8_reach
#print axioms LP.Props.C14reachG.g10_reach
#print axioms LP.Props.C14reachG.g11_reach
#print axioms LP.Props.C14reachG.g14_reach
#print axioms LP.Props.C14reachG.g15_reach
#print axioms LP.Props.C14reachG.g17_reach
#print axioms LP.Props.C14reachG.g18_reach
#print axioms LP.ng_init_WF
#print axioms LP.ng_call_WF
#print axioms LP.ng_wait_WF
#print axioms LP.ng_reach_WF
#print axioms LP.ng_secondary_completion
#print axioms LP.ng_secondary_split
#print axioms LP.ng_tail_WF
#print axioms LP.ng_secondary_cases
#print axioms LP.ng_later_frozen
