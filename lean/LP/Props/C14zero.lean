import LP.Proofs.ZeroAllocNft4
import LP.Props.C14feeLp
import LP.Props.C01zero
/-
  C14 / C01 / C02 / C09 headline theorems for the launchpad with NFT draw (`Variant.nft`) WITHOUT
  the restriction `CallOK`.

  `ReachZ hash .nft s r` (LP/Proofs/ZeroAlloc3.lean) is `Reach hash .nft s r` without the premise
  `CallOK c` (`EnvOK` is kept): `addTickets l` may contain entries `(a, 0)`.  The contract accepts
  them: `a` gets the EMPTY range `[last+1, last]` and a zero-size batch at `last+1` which the next
  allocation overwrites (or which dangles above `lastTicketId`).

  What the model does with such an address in this variant (proved below):
    * its allocation view and every `confirm` (even `confirm 0`) PANIC: it never confirms anything
      (`LP.Props.C01zero.empty_range_cannot_confirm`, variant independent);
    * hence it can never `confirmNft` ("Must confirm launchpad tickets before entering NFT draw",
      `empty_range_cannot_confirmNft`): it is never a fee payer, never drawn;
    * `blacklist [a]` is ACCEPTED and sets its flag (no ticket refund, no fee refund);
    * the filter never visits it; it keeps the stale empty range for ever;
    * in the claim phase it may `claim` exactly once (if the SFT token id is set): nothing is paid,
      no balance moves, the two NFT lists are untouched, but ONE SFT OF CATEGORY 3 ("did not take
      part in the draw") is handed out and the batch slot at the stale first id — by then possibly
      another participant's batch — is wiped (`empty_range_claim`); batches are dead storage then.

  Method: SIMULATION (`simulation`, from `zn_sim`, LP/Proofs/ZeroAllocNft1-3.lean): every `ReachZ`
  state `s` is `ZnSim`-related to a `Reach` state `z` of the original development: `z` is `s` with
  the empty ranges removed, the zero-size batches removed (until the filter has completed),
  `blacklist`/`claimed` below those of `s`, every other field — balances, NFT lists, fee, flags —
  equal; an address that has claimed in `s` but not in `z` has nothing confirmed.
  `addTickets l` is matched by `addTickets (l without zero entries)`, `blacklist l` by
  `blacklist (l without empty-range addresses)`, a claim by an empty-range address by NO step
  (stutter; the SFT of category 3 is the only observable effect), every other call by itself.

  Headline theorems for EVERY `ReachZ` state of the launchpad with NFT draw:
    (1) solvency: `C14_solvent_general_Z`, `C14a_solvent_separate_Z`, `C14a_fee_ledger_Z`,
        `C14b_solvent_same_Z`, `C14_fee_dichotomy_nft_Z`, `nothing_left_Z`,
        `C14_contract_empty_nft_Z`
    (2) NFT lists / draw / categories: `nft_lists_Z`, `draw_completion_Z`, `claim_category_Z`,
        `participants_frozen_Z`, `draw_end_to_end_Z` (along `zn_Later`: ANY accepted calls)
    (3) counts: `three_counts_nft_Z`, `three_counts_at_completion_nft_Z`,
        `winners_before_filter_nft_Z`
    (4) launchpad tokens: `lp_cover_nft_Z`, `owner_surplus_nft_Z`, `lp_zero_at_end_nft_Z`
    (5) claims never starve: `claim_refund_covered_nft_Z`, `claim_refund_covered_same_Z`,
        `fee_refund_covered_separate_Z`, `winner_covered_nft_Z`, `claim_never_starves_nft_Z`
        (NEW also for the original `Reach`: `claim_never_starves_nft`)
-/
namespace LP.Props.C14zero
open LP LP.FY LP.Props.C09 LP.Props.C14 LP.Props.C01reach LP.Props.C14reach LP.FL
open LP.Props.C02 (LpCover)

/-- **SIMULATION**: a state of the launchpad with NFT draw reachable with zero-size allocation
    entries is, up to the erasure of empty ranges / zero-size batches, a reachable state of the
    original development -/
theorem simulation (hash : List Nat → List Nat) (s : State) (r : Nat)
    (h : ReachZ hash .nft s r) : ∃ z, Reach hash .nft z r ∧ ZnSim s z :=
  zn_sim_reach h

/-- the original reachable states are among the new ones -/
theorem reach_is_reachZ (hash : List Nat → List Nat) (s : State) (r : Nat)
    (h : Reach hash .nft s r) : ReachZ hash .nft s r := h.toZ

/-! ### (1) solvency -/

/-- **general form, zero-size entries allowed**: in every `ReachZ` state the payment-token holdings
    are exactly the ticket ledger plus the NFT fees held in the same slot (same statement as
    `C14_solvent_general`) -/
theorem C14_solvent_general_Z (hash : List Nat → List Nat) (s : State) (r : Nat)
    (h : ReachZ hash .nft s r) :
    ∃ L : List Nat, Covers s L ∧
      (¬ AllDone s → s.bal s.payTok 0 = s.price * sumOver s.confirmed L + feeInPay s) ∧
      (AllDone s → s.bal s.payTok 0 = s.claimablePayment + sumOver (refundDue s) L + feeInPay s) := by
  obtain ⟨a0, h⟩ := ReachZ_iff.mp h
  obtain ⟨z, hz, hsim, _⟩ := zn_sim h
  obtain ⟨L, h1, h2, h3⟩ := C14_solvent_general hash z r (Reach_iff.mpr ⟨a0, hz⟩)
  have hrd : AllDone z → ∀ a, refundDue s a = refundDue z a := fun hd a =>
    hsim.sim.refundDue_eq (zn_done_rngNone hz hd.2) a
  obtain ⟨R, B, K, C, rfl⟩ := hsim.sim.shape'
  refine ⟨L, ⟨h1.nodup, h1.supp⟩, h2, fun hd => ?_⟩
  have := h3 hd
  rw [sumOver_congr (fun a _ => hrd hd a)]
  exact this

/-- **(a) fee token separate**: the ticket-payment ledger is exactly that of the plain launchpad -/
theorem C14a_solvent_separate_Z (hash : List Nat → List Nat) (s : State) (r : Nat)
    (h : ReachZ hash .nft s r) (hsep : FeeTokenSeparate s) :
    ∃ L : List Nat, Covers s L ∧ (¬ AllDone s → PayEqPre s L) ∧ (AllDone s → PayEqPost s L) := by
  obtain ⟨L, h1, h2, h3⟩ := C14_solvent_general_Z hash s r h
  have hz : feeInPay s = 0 := by
    have hn : ¬ FeeInPayToken s := hsep.1
    unfold feeInPay; rw [if_neg hn]
  rw [hz] at h2 h3
  exact ⟨L, h1, fun hd => h2 hd, fun hd => h3 hd⟩

/-- **(a) the fee ledger**: holdings of the fee token = fee × (payers + drawn) before the draw
    completes, = claimableNft + fee × remaining losing payers afterwards -/
theorem C14a_fee_ledger_Z (hash : List Nat → List Nat) (s : State) (r : Nat)
    (h : ReachZ hash .nft s r) (hsep : FeeTokenSeparate s) : feeBal s = feeHeld s := by
  obtain ⟨z, hz, hsim⟩ := zn_sim_reach h
  obtain ⟨R, B, K, C, rfl⟩ := hsim.sim.shape'
  have := C14a_fee_ledger hash (z_w s R B K C) r hz hsep
  exact this

/-- **(b) fee token = ticket-payment token** (EGLD/EGLD): the combined ledger -/
theorem C14b_solvent_same_Z (hash : List Nat → List Nat) (s : State) (r : Nat)
    (h : ReachZ hash .nft s r) (hsame : FeeInPayToken s) :
    ∃ L : List Nat, Covers s L ∧ (¬ AllDone s → CombinedPre s L) ∧ (AllDone s → CombinedPost s L) := by
  obtain ⟨a0, h⟩ := ReachZ_iff.mp h
  obtain ⟨z, hz, hsim, _⟩ := zn_sim h
  have hrd : AllDone z → ∀ a, refundDue s a = refundDue z a := fun hd a =>
    hsim.sim.refundDue_eq (zn_done_rngNone hz hd.2) a
  obtain ⟨R, B, K, C, rfl⟩ := hsim.sim.shape'
  obtain ⟨L, h1, h2, h3⟩ := C14b_solvent_same hash _ r (Reach_iff.mpr ⟨a0, hz⟩) hsame
  refine ⟨L, ⟨h1.nodup, h1.supp⟩, h2, fun hd => ?_⟩
  have := h3 hd
  unfold CombinedPost at this ⊢
  rw [sumOver_congr (fun a _ => hrd hd a)]
  exact this

/-- the fee token is never the launchpad token (repair 4830c00), zero-size entries or not -/
theorem fee_ne_lp_Z (hash : List Nat → List Nat) (s : State) (r : Nat)
    (h : ReachZ hash .nft s r) : s.nftCost.tok ≠ .esdt s.lpTok :=
  (zn_reachZ_NftLp h).feeNe

/-- **every `ReachZ` state is in configuration (b) or (a), and the corresponding ledger theorem
    applies** (same statement as `C14_fee_dichotomy_nft`) -/
theorem C14_fee_dichotomy_nft_Z (hash : List Nat → List Nat) (s : State) (r : Nat)
    (h : ReachZ hash .nft s r) :
    (FeeInPayToken s ∧ ¬ FeeTokenSeparate s ∧
      ∃ L : List Nat, Covers s L ∧ (¬ AllDone s → CombinedPre s L) ∧ (AllDone s → CombinedPost s L)) ∨
    (FeeTokenSeparate s ∧ ¬ FeeInPayToken s ∧ feeBal s = feeHeld s ∧
      ∃ L : List Nat, Covers s L ∧ (¬ AllDone s → PayEqPre s L) ∧ (AllDone s → PayEqPost s L)) := by
  rcases fl_dichotomy s (fee_ne_lp_Z hash s r h) with ⟨h1, h2⟩ | ⟨h1, h2⟩
  · exact Or.inl ⟨h1, h2, C14b_solvent_same_Z hash s r h h1⟩
  · exact Or.inr ⟨h1, h2, C14a_fee_ledger_Z hash s r h h1, C14a_solvent_separate_Z hash s r h h1⟩

/-- the erased state has no range at all when only empty ranges remain -/
theorem erased_all_none {s z : State} (hsim : ZSim s z)
    (hall : ∀ a rg, s.range a = some rg → rg.last < rg.first) : ∀ a, z.range a = none := by
  intro a
  rw [hsim.range]
  cases hra : s.range a with
  | none => exact z_eraseR_of_none hra
  | some rg => exact z_eraseR_of_empty hra (by have := hall a rg hra; omega)

/-- **both tokens reconcile to zero**: everything complete, every participant with a NON-EMPTY
    range has settled (stale empty ranges may remain: they hold nothing), the owner has withdrawn
    both proceeds: the contract holds zero of the payment token and zero of the fee token -/
theorem nothing_left_Z (hash : List Nat → List Nat) (s : State) (r : Nat)
    (h : ReachZ hash .nft s r) (hd : AllDone s)
    (hall : ∀ a rg, s.range a = some rg → rg.last < rg.first)
    (hcp : s.claimablePayment = 0) (hcn : s.claimableNft = 0) :
    s.bal s.payTok 0 = 0 ∧ feeBal s = 0 := by
  obtain ⟨z, hz, hsim⟩ := zn_sim_reach h
  have hallz := erased_all_none hsim.sim hall
  obtain ⟨_, _, _, hend⟩ := C14_fee_reconciles_nft hash z r hz
  obtain ⟨R, B, K, C, rfl⟩ := hsim.sim.shape'
  exact hend hd hallz hcp hcn

/-! ### (2) the NFT lists, the draw, the claim categories -/

/-- in every `ReachZ` state: the two lists are duplicate-free and disjoint (`NftOk`), at most
    `availNfts` are drawn, every payer / drawn participant has confirmed tickets, nobody is drawn
    before the base lottery is complete, settled addresses are in neither list, nobody has settled
    before the draw is complete (same statement as `nft_lists_reach`) -/
theorem nft_lists_Z (hash : List Nat → List Nat) (s : State) (r : Nat)
    (h : ReachZ hash .nft s r) :
    NftOk s ∧ s.nftWinners.length ≤ s.availNfts ∧
    (∀ a, a ∈ s.payers ∨ a ∈ s.nftWinners → 0 < s.confirmed a) ∧
    (s.flags.selected = false → s.nftWinners = []) ∧
    (∀ a, s.claimed a = true → a ∉ s.payers ∧ a ∉ s.nftWinners) ∧
    (s.flags.additional = false → ∀ a, s.claimed a = false) := by
  obtain ⟨a0, h⟩ := ReachZ_iff.mp h
  obtain ⟨z, hz, hsim, _, hfr⟩ := zn_sim h
  obtain ⟨h1, h2, h3, h4, h5, _⟩ := nft_lists_reach hash z r (Reach_iff.mpr ⟨a0, hz⟩)
  have hclc := hsim.clc
  obtain ⟨R, B, K, C, rfl⟩ := hsim.sim.shape'
  refine ⟨⟨h1.nodupP, h1.nodupW, h1.disj⟩, h2, h3, h4, ?_, hfr⟩
  intro a ha
  rcases hclc a ha with hc | hc
  · exact h5 a hc
  · constructor <;> intro hin
    · have h0 : 0 < s.confirmed a := h3 a (Or.inl hin)
      omega
    · have h0 : 0 < s.confirmed a := h3 a (Or.inr hin)
      omega

/-- the call that completes the draw, from any `ReachZ` state (same statement as
    `draw_completion_reach`) -/
theorem draw_completion_Z (hash : List Nat → List Nat) (s : State) (r : Nat)
    (h : ReachZ hash .nft s r) (e : Env) (s' : State) (o : Out)
    (hs : step hash s e .selectNft = .ok (s', o)) (hdone : s'.flags.additional = true) :
    s'.nftWinners.length = min s.availNfts (s.payers.length + s.nftWinners.length) ∧
    s'.claimableNft = s.nftCost.amount * s'.nftWinners.length ∧
    NftOk s' ∧ (∀ a, (a ∈ s'.payers ∨ a ∈ s'.nftWinners) ↔ (a ∈ s.payers ∨ a ∈ s.nftWinners)) ∧
    s.nftWinners <+: s'.nftWinners ∧ AllDone s' ∧ o.ret = [0] := by
  obtain ⟨hok, hle, _⟩ := nft_lists_Z hash s r h
  obtain ⟨_, hsel, _, hok', _, _, _, _, hun, hpre, hret, hfin, _⟩ :=
    selectNft_call hash s e s' o hs hok hle
  obtain ⟨f1, f2⟩ := hfin hdone
  exact ⟨f1, f2, hok', hun, hpre, ⟨(step_flags_gain hs).1 hsel, hdone⟩, hret.mp hdone⟩

/-- **claim categories** in every `ReachZ` state (same statement as `claim_category_reach`; an
    empty-range address is in neither list: category 3) -/
theorem claim_category_Z (hash : List Nat → List Nat) (s : State) (r : Nat)
    (h : ReachZ hash .nft s r) (e : Env) (s' : State) (o : Out)
    (hs : step hash s e .claim = .ok (s', o)) :
    AllDone s ∧ s.claimed e.caller = false ∧
    ∃ k, o.sfts = [(e.caller, k)] ∧
      (k = 1 ↔ e.caller ∈ s.nftWinners) ∧ (k = 2 ↔ e.caller ∈ s.payers) ∧
      (k = 3 ↔ e.caller ∉ s.nftWinners ∧ e.caller ∉ s.payers) ∧ (k = 1 ∨ k = 2 ∨ k = 3) ∧
      o.xfers = refundXfers s e.caller ++ tokenXfers s e.caller ++
        (if k = 2 then [(e.caller, s.nftCost)] else []) ∧
      e.caller ∉ s'.payers ∧ e.caller ∉ s'.nftWinners ∧ s'.claimed e.caller = true ∧ NftOk s' := by
  obtain ⟨hok, _⟩ := nft_lists_Z hash s r h
  have hvar : s.variant = .nft := (zn_reachZ_NftLp h).var
  obtain ⟨_, hn, _⟩ := nf_flags hvar
  obtain ⟨rg, hacc, _, hx, hsf, _, _, _, hcl, _, _, _, hafter, _, _⟩ :=
    claim_nft_effect hash s e s' o hn hs
  obtain ⟨c1, c2, c3, c4⟩ := nftCategory_exact s e.caller hok
  obtain ⟨hcat3, hok'⟩ := hafter hok
  obtain ⟨_, _, d3, _⟩ := nftCategory_exact s' e.caller hok'
  obtain ⟨hsel, hadd, _⟩ := claim_stage_selected hacc.2.2.1
  exact ⟨⟨hsel, hadd⟩, hacc.2.2.2.1, nftCategory s e.caller, hsf, c1, c2, c3, c4, hx,
    (d3.mp hcat3).2, (d3.mp hcat3).1, hcl, hok'⟩

/-- from the start of the filter until the draw completes the NFT participants cannot change:
    along ANY accepted calls (zero-size allocation entries included), `payers ∪ nftWinners`, its
    size, the fee and `availNfts` are constant and already drawn participants stay drawn -/
theorem participants_frozen_Z (hash : List Nat → List Nat) (a0 : InitArgs) (s : State) (r : Nat)
    (h : ReachZA hash .nft a0 s r) (hstd : s.flags.started = true) (s2 : State) (r2 : Nat)
    (hl : zn_Later hash s r s2 r2) (hna : s2.flags.additional = false) :
    nf_Frozen s s2 :=
  ((zn_later_frozen h hstd hl).2 hna).1

/-- **the draw end to end**, zero-size entries allowed (same statement as `draw_end_to_end`, for
    `ReachZA` / `zn_Later`): `s` is any `ReachZA` state after the filter has started and before the
    base lottery is complete; after ANY accepted calls, the `selectNft` call that completes the
    draw leaves exactly `min availNfts (number of fee payers)` winners, all distinct, all fee
    payers, the others remain in `payers`; the owner's NFT proceeds are fee × winners. -/
theorem draw_end_to_end_Z (hash : List Nat → List Nat) (a0 : InitArgs) (s : State) (r : Nat)
    (h : ReachZA hash .nft a0 s r) (hstd : s.flags.started = true) (hns : s.flags.selected = false)
    (s1 : State) (r1 : Nat) (hl : zn_Later hash s r s1 r1)
    (e : Env) (s2 : State) (o : Out)
    (hs : step hash s1 e .selectNft = .ok (s2, o)) (hdone : s2.flags.additional = true) :
    s2.nftWinners.length = min s.availNfts s.payers.length ∧
    s2.claimableNft = s.nftCost.amount * s2.nftWinners.length ∧
    s2.nftWinners.Nodup ∧ s2.payers.Nodup ∧ (∀ a, a ∈ s2.payers → a ∉ s2.nftWinners) ∧
    (∀ a, (a ∈ s2.payers ∨ a ∈ s2.nftWinners) ↔ a ∈ s.payers) ∧
    s2.payers.length + s2.nftWinners.length = s.payers.length := by
  obtain ⟨hr1, hfz⟩ := zn_later_frozen h hstd hl
  have hreach1 : ReachZ hash .nft s1 r1 := ReachZ_iff.mpr ⟨a0, hr1⟩
  have hw0 : s.nftWinners = [] := (nft_lists_Z hash s r (ReachZ_iff.mpr ⟨a0, h⟩)).2.2.2.1 hns
  obtain ⟨hok1, hle1, _⟩ := nft_lists_Z hash s1 r1 hreach1
  obtain ⟨_, _, hna1, hok2, _, _, _, hlen2, hun2, _, _, hfin, _⟩ :=
    selectNft_call hash s1 e s2 o hs hok1 hle1
  obtain ⟨hF, _⟩ := hfz hna1
  obtain ⟨f1, f2⟩ := hfin hdone
  have hlen : s1.payers.length + s1.nftWinners.length = s.payers.length := by
    rw [hF.len, hw0]; simp
  refine ⟨by rw [f1, hF.avail, hlen], by rw [f2, hF.cost], hok2.nodupW, hok2.nodupP, hok2.disj, ?_,
    by rw [hlen2, hlen]⟩
  intro a
  rw [hun2 a, hF.mem a, hw0]
  simp

/-! ### (3) the counts -/

/-- after completion, in every `ReachZ` state: the winning tickets still held add up to
    `nrWinning`; nobody holds more winning than confirmed tickets; every range — empty or not — has
    exactly `confirmed` tickets, and the holders of NON-EMPTY ranges are in the covering list -/
theorem three_counts_nft_Z (hash : List Nat → List Nat) (s : State) (r : Nat)
    (h : ReachZ hash .nft s r) (hd : AllDone s) :
    ∃ L : List Nat, Covers s L ∧
      s.bal s.payTok 0 = s.claimablePayment + sumOver (refundDue s) L + feeInPay s ∧
      sumOver (winCountOf s) L = s.nrWinning ∧
      (∀ a, winCountOf s a ≤ s.confirmed a) ∧
      (∀ a rg, s.range a = some rg → rangeLen rg = s.confirmed a ∧ (rg.first ≤ rg.last → a ∈ L)) := by
  obtain ⟨a0, h⟩ := ReachZ_iff.mp h
  obtain ⟨z, hz, hsim, _⟩ := zn_sim h
  have hsim := hsim.sim
  have hfl : z.flags = s.flags := hsim.fields.2.1
  have hdz : AllDone z := by unfold AllDone; rw [hfl]; exact hd
  obtain ⟨L, h1, h2, h3, h4, h5⟩ := three_counts_nft hash z r (Reach_iff.mpr ⟨a0, hz⟩) hdz
  have hnone := zn_done_rngNone hz hdz.2
  have hrd : ∀ a, refundDue s a = refundDue z a := fun a => hsim.refundDue_eq hnone a
  have hwc : ∀ a, winCountOf s a = winCountOf z a := fun a => hsim.winCountOf_eq a
  have hrange := hsim.range
  obtain ⟨R, B, K, C, rfl⟩ := hsim.shape'
  refine ⟨L, ⟨h1.nodup, h1.supp⟩, ?_, ?_, ?_, ?_⟩
  · rw [sumOver_congr (fun a _ => hrd a)]
    exact h2
  · rw [sumOver_congr (fun a _ => hwc a)]; exact h3
  · intro a; rw [hwc a]; exact h4 a
  · intro a rg hr
    by_cases hne : rg.first ≤ rg.last
    · have hzr : (z_w s R B K C).range a = some rg := by rw [hrange]; exact z_eraseR_of_ne hr hne
      obtain ⟨k1, k2⟩ := h5 a rg hzr
      exact ⟨k2, fun _ => k1⟩
    · have hzr : (z_w s R B K C).range a = none := by rw [hrange]; exact z_eraseR_of_empty hr hne
      have hc : s.confirmed a = 0 := hnone a hzr
      refine ⟨?_, fun hh => absurd hh hne⟩
      rw [hc]; unfold rangeLen; omega

/-- at the completion of the base lottery `selectWinners`, from any `ReachZA` state (deployment
    arguments `a0`): winning flags = `nrWinning` = `min (configured winners) (confirmed tickets)`,
    proceeds = price × winners -/
theorem three_counts_at_completion_nft_Z (hash : List Nat → List Nat) (a0 : InitArgs) (s : State)
    (r : Nat) (h : ReachZA hash .nft a0 s r) (e : Env) (s' : State) (o : Out)
    (hr : r ≤ e.round) (hok : EnvOK e)
    (hs : step hash s e .select = .ok (s', o)) (hsel : s'.flags.selected = true) :
    countTrue s'.status s'.lastTicketId = s'.nrWinning ∧
    s'.nrWinning = min a0.nrWinning s'.lastTicketId ∧
    s'.claimablePayment = s'.price * s'.nrWinning ∧
    (∀ t, s'.status t = true → 1 ≤ t ∧ t ≤ s'.lastTicketId) := by
  obtain ⟨z, hz, hsim, hd, _⟩ := zn_sim h
  obtain ⟨z', _, hsim', _, _, hstep⟩ := zn_sim_indep (c := .select) rfl hz hsim.sim hd hr hok hs
  have hfl : z'.flags = s'.flags := hsim'.fields.2.1
  have := three_counts_at_completion_nft hash a0 z r hz e z' o hstep (by rw [hfl]; exact hsel)
  obtain ⟨R, B, K, C, rfl⟩ := hsim'.shape'
  exact this

/-- until the filter completes the winners count is the configured one -/
theorem winners_before_filter_nft_Z (hash : List Nat → List Nat) (a0 : InitArgs) (s : State) (r : Nat)
    (h : ReachZA hash .nft a0 s r) (hf : s.flags.filtered = false) : s.nrWinning = a0.nrWinning := by
  obtain ⟨z, hz, hsim, _⟩ := zn_sim h
  have hfl : z.flags = s.flags := hsim.sim.fields.2.1
  have := winners_before_filter_nft hash a0 z r hz (by rw [hfl]; exact hf)
  obtain ⟨R, B, K, C, rfl⟩ := hsim.sim.shape'
  exact this

/-! ### (4) launchpad tokens -/

/-- from the deposit on the launchpad tokens held cover everything still owed to winners -/
theorem lp_cover_nft_Z (hash : List Nat → List Nat) (s : State) (r : Nat)
    (h : ReachZ hash .nft s r) (hd : s.deposited = true) : LpCover s :=
  (zn_reachZ_NftLp h).cover hd

/-- **the owner can withdraw only the surplus** -/
theorem owner_surplus_nft_Z (hash : List Nat → List Nat) (s : State) (r : Nat)
    (h : ReachZ hash .nft s r) (e : Env) (s' : State) (o : Out)
    (hs : step hash s e .claimPayment = .ok (s', o)) :
    s'.bal (.esdt s'.lpTok) 0 = s'.perTicket * s'.nrWinning ∧ s'.nrWinning = s.nrWinning ∧
    s'.claimablePayment = 0 ∧ s'.claimableNft = 0 := by
  obtain ⟨_, h1, h2, _, _, _, h6, h7, _⟩ := fl_owner_surplus_step (zn_reachZ_NftLp h) hs
  exact ⟨h1, h2, h6, h7⟩

/-- once every holder of a non-empty range has settled no winner is outstanding -/
theorem all_settled_nrWinning_nft_Z (hash : List Nat → List Nat) (s : State) (r : Nat)
    (h : ReachZ hash .nft s r) (hd : AllDone s)
    (hall : ∀ a rg, s.range a = some rg → rg.last < rg.first) : s.nrWinning = 0 := by
  obtain ⟨z, hz, hsim⟩ := zn_sim_reach h
  have hfl : z.flags = s.flags := hsim.sim.fields.2.1
  have := all_settled_nrWinning_nft hash z r hz (by unfold AllDone; rw [hfl]; exact hd)
    (erased_all_none hsim.sim hall)
  obtain ⟨R, B, K, C, rfl⟩ := hsim.sim.shape'
  exact this

/-- **nothing is left at the end**: all steps complete, every participant with a NON-EMPTY range
    has settled (stale empty ranges may remain), then the owner's accepted `claimPayment` leaves no
    launchpad token -/
theorem lp_zero_at_end_nft_Z (hash : List Nat → List Nat) (s : State) (r : Nat)
    (h : ReachZ hash .nft s r) (hd : AllDone s)
    (hall : ∀ a rg, s.range a = some rg → rg.last < rg.first)
    (e : Env) (s' : State) (o : Out) (hs : step hash s e .claimPayment = .ok (s', o)) :
    s.nrWinning = 0 ∧ s'.bal (.esdt s'.lpTok) 0 = 0 := by
  have hz := all_settled_nrWinning_nft_Z hash s r h hd hall
  obtain ⟨k1, k2, _⟩ := owner_surplus_nft_Z hash s r h e s' o hs
  exact ⟨hz, by rw [k1, k2, hz]; simp⟩

/-- **the contract is empty at the end of the lifecycle**: everything complete, every holder of a
    non-empty range settled, then the owner's accepted `claimPayment` leaves NO token of any kind -/
theorem C14_contract_empty_nft_Z (hash : List Nat → List Nat) (s : State) (r : Nat)
    (h : ReachZ hash .nft s r) (hd : AllDone s)
    (hall : ∀ a rg, s.range a = some rg → rg.last < rg.first)
    (e : Env) (hr : r ≤ e.round) (hok : EnvOK e) (s' : State) (o : Out)
    (hs : step hash s e .claimPayment = .ok (s', o)) :
    ∀ t n, s'.bal t n = 0 := by
  obtain ⟨a0, h⟩ := ReachZ_iff.mp h
  obtain ⟨z, hz, hsim, hdd, _⟩ := zn_sim h
  obtain ⟨z', _, hsim', _, _, hstep⟩ := zn_sim_indep (c := .claimPayment) rfl hz hsim.sim hdd hr hok hs
  have hfl : z.flags = s.flags := hsim.sim.fields.2.1
  have := C14_contract_empty_nft hash z r (Reach_iff.mpr ⟨a0, hz⟩)
    (by unfold AllDone; rw [hfl]; exact hd) (erased_all_none hsim.sim hall) e hr hok z' o hstep
  obtain ⟨R', B', K', C', rfl⟩ := hsim'.shape'
  exact this

/-! ### (5) claims never starve -/

/-- after completion: the payment-token holdings cover the owner's recorded proceeds, the ticket
    refund of ANY address holding a range (empty or not) and all NFT fees held in the same slot -/
theorem claim_refund_covered_nft_Z (hash : List Nat → List Nat) (s : State) (r : Nat)
    (h : ReachZ hash .nft s r) (hd : AllDone s) (a : Nat) (rg : Range) (hr : s.range a = some rg) :
    s.claimablePayment + s.price * (s.confirmed a - winCountOf s a) + feeInPay s
      ≤ s.bal s.payTok 0 := by
  obtain ⟨L, _, hpost, _, _, hrg⟩ := three_counts_nft_Z hash s r h hd
  obtain ⟨hlen, hin⟩ := hrg a rg hr
  by_cases hne : rg.first ≤ rg.last
  · have hle := rb_le_sumOver (refundDue s) L a (hin hne)
    have hdue : refundDue s a = s.price * (s.confirmed a - winCountOf s a) := by
      simp only [refundDue, hr]
    omega
  · have hc : s.confirmed a = 0 := by rw [← hlen]; unfold rangeLen; omega
    rw [hc]
    simp only [Nat.zero_sub, Nat.mul_zero, Nat.add_zero]
    omega

/-- (b) with the fee in the payment token: ticket refund, the full fee refund of a losing payer
    and both of the owner's withdrawals are covered together -/
theorem claim_refund_covered_same_Z (hash : List Nat → List Nat) (s : State) (r : Nat)
    (h : ReachZ hash .nft s r) (hsame : FeeInPayToken s) (hd : AllDone s) (a : Nat) (rg : Range)
    (hr : s.range a = some rg) (ha : a ∈ s.payers) :
    s.claimablePayment + s.price * (s.confirmed a - winCountOf s a) + s.claimableNft +
      s.nftCost.amount ≤ s.bal s.payTok 0 := by
  have h1 := claim_refund_covered_nft_Z hash s r h hd a rg hr
  have hz : feeInPay s = s.claimableNft + s.nftCost.amount * s.payers.length := by
    unfold feeInPay feeHeld; rw [if_pos hsame, hd.2]; rfl
  have : 0 < s.payers.length := List.length_pos_of_mem ha
  have : s.nftCost.amount * 1 ≤ s.nftCost.amount * s.payers.length := Nat.mul_le_mul_left _ this
  omega

/-- (a) the fee refund of a losing payer and the owner's NFT proceeds are covered -/
theorem fee_refund_covered_separate_Z (hash : List Nat → List Nat) (s : State) (r : Nat)
    (h : ReachZ hash .nft s r) (hsep : FeeTokenSeparate s) (hd : AllDone s) (a : Nat)
    (ha : a ∈ s.payers) : s.claimableNft + s.nftCost.amount ≤ feeBal s := by
  rw [C14a_fee_ledger_Z hash s r h hsep]
  unfold feeHeld
  rw [hd.2]
  simp only [if_true]
  have : 0 < s.payers.length := List.length_pos_of_mem ha
  have : s.nftCost.amount * 1 ≤ s.nftCost.amount * s.payers.length := Nat.mul_le_mul_left _ this
  omega

/-- the launchpad tokens of ANY address are covered -/
theorem winner_covered_nft_Z (hash : List Nat → List Nat) (s : State) (r : Nat)
    (h : ReachZ hash .nft s r) (hd : AllDone s) (a : Nat) :
    s.perTicket * winCountOf s a ≤ s.bal (.esdt s.lpTok) 0 ∧ winCountOf s a ≤ s.nrWinning := by
  obtain ⟨L, _, _, hwin, hle, hrg⟩ := three_counts_nft_Z hash s r h hd
  have hwn : winCountOf s a ≤ s.nrWinning := by
    cases hr : s.range a with
    | none => simp [winCountOf, hr]
    | some rg =>
      by_cases hne : rg.first ≤ rg.last
      · rw [← hwin]
        exact rb_le_sumOver (winCountOf s) L a ((hrg a rg hr).2 hne)
      · have : rangeLen rg = 0 := by unfold rangeLen; omega
        simp [winCountOf, hr, this, countWinning]
  refine ⟨?_, hwn⟩
  cases hdep : s.deposited with
  | false =>
    have h0 : winCountOf s a = 0 := by
      have := hle a
      rw [zn_reachZ_noConf h hdep a] at this
      omega
    rw [h0]; simp
  | true =>
    have hc : s.perTicket * s.nrWinning ≤ s.bal (.esdt s.lpTok) 0 := lp_cover_nft_Z hash s r h hdep
    exact Nat.le_trans (Nat.mul_le_mul_left _ hwn) hc

/-- **claims never starve** (launchpad with NFT draw, zero-size entries allowed): in every `ReachZ`
    state, in the claim stage, once the SFT token id is set (the one-off set-up `sftSetup`; without
    it `claimNft` rejects every claim: "Token ID not set"), a claim without call value by any
    address that holds a range — empty or not — and has not claimed yet is ACCEPTED: the ticket
    refund, the launchpad tokens and — for a fee payer who was not drawn — the full fee refund are
    covered -/
theorem claim_never_starves_nft_Z (hash : List Nat → List Nat) (s : State)
    (r : Nat) (h : ReachZ hash .nft s r) (e : Env) (rg : Range)
    (he1 : e.egld = 0) (he2 : e.esdts = []) (hst : s.stage e = .claim)
    (hcl : s.claimed e.caller = false) (hrg : s.range e.caller = some rg)
    (hsft : s.sftToken = true) :
    ∃ x, step hash s e .claim = .ok x := by
  have hI := zn_reachZ_NftLp h
  obtain ⟨_, hn, _⟩ := nf_flags hI.var
  obtain ⟨hsel, hadd, _⟩ := claim_stage_selected hst
  have hd : AllDone s := ⟨hsel, hadd⟩
  obtain ⟨L, _, _, _, hle, _⟩ := three_counts_nft_Z hash s r h hd
  have hcov := claim_refund_covered_nft_Z hash s r h hd e.caller rg hrg
  obtain ⟨hw1, hw2⟩ := winner_covered_nft_Z hash s r h hd e.caller
  obtain ⟨hok, _⟩ := nft_lists_Z hash s r h
  have hwc : winCount s e.caller = winCountOf s e.caller := rfl
  have hne' : ¬ (Token.esdt s.lpTok = s.payTok) := fun hh => hI.tokNe hh.symm
  have hacc : ClaimAccepts s e rg := by
    refine ⟨he1, he2, hst, hcl, hrg, ?_, ?_, ?_, ?_⟩
    · rw [hwc]; exact hw2
    · rw [hwc]; exact hle e.caller
    · rw [hwc]; omega
    · rw [hwc]
      have : (s.bal.sub s.payTok 0 (s.price * (s.confirmed e.caller - winCountOf s e.caller)))
          (.esdt s.lpTok) 0 = s.bal (.esdt s.lpTok) 0 := by simp [Bal.sub, hne']
      rw [this, Nat.mul_comm]; exact hw1
  refine zn_claim_accepts hash s e rg hn hacc hsft ?_
  intro hcat
  have hpay : e.caller ∈ s.payers := (nftCategory_exact s e.caller hok).2.1.mp hcat
  rcases fl_dichotomy s hI.feeNe with ⟨hsame, _⟩ | ⟨hsep, _⟩
  · -- the fee sits in the payment slot
    have hc2 := claim_refund_covered_same_Z hash s r h hsame hd e.caller rg hrg hpay
    have hBA : (balAfterClaim s e.caller) s.payTok 0
        = s.bal s.payTok 0 - s.price * (s.confirmed e.caller - winCount s e.caller) := by
      unfold balAfterClaim
      simp [Bal.sub, hI.tokNe]
    rw [hsame.1, hsame.2, hBA, hwc]
    omega
  · -- a separate fee slot: the common claim does not touch it
    have hc2 := fee_refund_covered_separate_Z hash s r h hsep hd e.caller hpay
    have b1 : ¬ (s.nftCost.tok = s.payTok ∧ s.nftCost.nonce = 0) := hsep.1
    have b2 : ¬ (s.nftCost.tok = .esdt s.lpTok ∧ s.nftCost.nonce = 0) := hsep.2
    have hBA : (balAfterClaim s e.caller) s.nftCost.tok s.nftCost.nonce
        = s.bal s.nftCost.tok s.nftCost.nonce := by
      simp only [balAfterClaim, Bal.sub, b1, b2, if_false]
    rw [hBA]
    have : feeBal s = s.bal s.nftCost.tok s.nftCost.nonce := rfl
    omega

/-- the same for the ORIGINAL reachable states (`LP/Props/C14reach.lean` had no such statement) -/
theorem claim_never_starves_nft (hash : List Nat → List Nat) (s : State)
    (r : Nat) (h : Reach hash .nft s r) (e : Env) (rg : Range)
    (he1 : e.egld = 0) (he2 : e.esdts = []) (hst : s.stage e = .claim)
    (hcl : s.claimed e.caller = false) (hrg : s.range e.caller = some rg)
    (hsft : s.sftToken = true) :
    ∃ x, step hash s e .claim = .ok x :=
  claim_never_starves_nft_Z hash s r h.toZ e rg he1 he2 hst hcl hrg hsft

/-! ### what an address with an empty range can do -/

/-- in a `ReachZ` state it cannot enter the NFT draw: it has no confirmed tickets -/
theorem empty_range_cannot_confirmNft (hash : List Nat → List Nat) (s : State) (r : Nat)
    (h : ReachZ hash .nft s r) (e : Env) (rg : Range) (hr : r ≤ e.round)
    (hrg : s.range e.caller = some rg) (he : rg.last < rg.first) :
    ∀ x, step hash s e .confirmNft ≠ .ok x := by
  rintro ⟨s', o⟩ hs
  obtain ⟨_, hst, _, hpos, _⟩ := (confirmNft_accepted_iff hash s e).mp ⟨_, hs⟩
  obtain ⟨a0, h⟩ := ReachZ_iff.mp h
  obtain ⟨z, hz, hsim, _⟩ := zn_sim h
  have hsim := hsim.sim
  have hwf := nf_reach_WF hz
  obtain ⟨hcfg, _, _, _, hcf, _, _⟩ := hsim.fields
  have hns : z.flags.started = false :=
    nf_notStarted_of_lt hwf hr (Or.inr (by rw [hcfg]; exact (rb_stage_confirm hst).2))
  have hzn : z.range e.caller = none := by
    rw [hsim.range]; exact z_eraseR_of_empty hrg (by omega)
  have := zn_noRange_noConf hwf hns hzn
  rw [hcf] at this
  omega

/-- in a `ReachZ` state its claim pays nothing and moves no balance: only the caller's `claimed`
    flag, its stale range and the batch slot at the range's first id change; exactly one SFT, of
    category 3, is handed out -/
theorem empty_range_claim (hash : List Nat → List Nat) (s : State)
    (r : Nat) (h : ReachZ hash .nft s r) (e : Env) (s' : State) (o : Out) (rg : Range)
    (hrg : s.range e.caller = some rg) (he : rg.last < rg.first)
    (hs : step hash s e .claim = .ok (s', o)) :
    s' = z_w s (upd s.range e.caller none) (upd s.batch rg.first none) s.blacklist
          (upd s.claimed e.caller true) ∧
    o.sfts = [(e.caller, 3)] ∧ o.xfers = [] ∧ o.locks = [] ∧
    s'.bal = s.bal ∧ s'.nrWinning = s.nrWinning ∧ s'.confirmed = s.confirmed ∧
    s'.payers = s.payers ∧ s'.nftWinners = s.nftWinners := by
  have hI := zn_reachZ_NftLp h
  obtain ⟨_, hn, _⟩ := nf_flags hI.var
  obtain ⟨hd, _, _⟩ := claim_category_Z hash s r h e s' o hs
  obtain ⟨_, _, _, _, _, hrgs⟩ := three_counts_nft_Z hash s r h hd
  obtain ⟨_, _, hconf, _⟩ := nft_lists_Z hash s r h
  have hc0 : s.confirmed e.caller = 0 := by
    rw [← (hrgs e.caller rg hrg).1]; unfold rangeLen; omega
  have hnp : e.caller ∉ s.payers := fun hin => by
    have := hconf e.caller (Or.inl hin); omega
  have hnw : e.caller ∉ s.nftWinners := fun hin => by
    have := hconf e.caller (Or.inr hin); omega
  obtain ⟨key, k1, k2, k3⟩ := zn_claim_stutter hn hs hrg he hc0 hnp hnw
  exact ⟨key, k1, k2, k3, by rw [key]; rfl, by rw [key]; rfl, by rw [key]; rfl, by rw [key]; rfl,
    by rw [key]; rfl⟩

/-! ### non-vacuity -/

open LP.Props.C01zero (ReachZ.callOk)

/-- a launch with zero-size entries: 7 and 9 get empty ranges, 8 gets two tickets -/
def m1 : State :=
  stOf (step id n0 { caller := 1, round := 1 } (.addTickets [(7, 0), (8, 2), (9, 0)])) n0
def m2 : State := stOf (step id m1 { caller := 1, round := 2, esdts := [⟨.esdt 1, 0, 5⟩] } .deposit) m1
def m3 : State := stOf (step id m2 { caller := 9, round := 3 } .sftSetup) m2
def m4 : State := stOf (step id m3 { caller := 8, round := 5, egld := 20 } (.confirm 2)) m3
def m5 : State := stOf (step id m4 { caller := 8, round := 6, egld := 3 } .confirmNft) m4
def m6 : State := stOf (step id m5 { caller := 1, round := 6 } (.blacklist [7])) m5
def m7 : State := stOf (step id m6 { caller := 9, round := 10 } .filter) m6
def m8 : State := stOf (step id m7 { caller := 9, round := 11 } .select) m7
def m9 : State := stOf (step id m8 { caller := 9, round := 12 } .selectNft) m8
def m10 : State := stOf (step id m9 { caller := 9, round := 15 } .claim) m9

theorem m1_reachZ : ReachZ id .nft m1 1 :=
  ReachZ.callOk { caller := 1, round := 1 } (.addTickets [(7, 0), (8, 2), (9, 0)]) n0_reach.toZ
    (by decide) (Or.inl rfl) rfl

/-- the zero-size entries created empty ranges; the batch slot of 7 was overwritten, the one of 9
    dangles above `lastTicketId` -/
example : m1.range 7 = some ⟨1, 0⟩ ∧ m1.range 8 = some ⟨1, 2⟩ ∧ m1.batch 1 = some ⟨8, 2⟩ ∧
    m1.lastTicketId = 2 ∧ m1.range 9 = some ⟨3, 2⟩ ∧ m1.batch 3 = some ⟨9, 0⟩ := by
  refine ⟨rfl, rfl, rfl, rfl, rfl, rfl⟩

/-- **`m1` is a `ReachZ` state that is NOT a `Reach` state** (of any deployment, at any round):
    reachable states of the original development have no empty range -/
theorem m1_not_reach (hash : List Nat → List Nat) (r : Nat) : ¬ Reach hash .nft m1 r := by
  intro h
  have := LP.Props.C18reach.ranges_bounded hash m1 r (.nft h) 7 ⟨1, 0⟩ rfl
  exact absurd this.2.1 (by decide)

theorem m5_reachZ : ReachZ id .nft m5 6 :=
  ReachZ.callOk { caller := 8, round := 6, egld := 3 } .confirmNft
    (ReachZ.callOk { caller := 8, round := 5, egld := 20 } (.confirm 2)
      (ReachZ.callOk { caller := 9, round := 3 } .sftSetup
        (ReachZ.callOk { caller := 1, round := 2, esdts := [⟨.esdt 1, 0, 5⟩] } .deposit m1_reachZ
          (by decide) (Or.inl rfl) rfl)
        (by decide) (Or.inl rfl) rfl)
      (by decide) (Or.inr rfl) rfl)
    (by decide) (Or.inr rfl) rfl

theorem m7_reachZ : ReachZ id .nft m7 10 :=
  ReachZ.callOk { caller := 9, round := 10 } .filter
    (ReachZ.callOk { caller := 1, round := 6 } (.blacklist [7]) m5_reachZ
      (by decide) (Or.inl rfl) rfl)
    (by decide) (Or.inl rfl) rfl

theorem m9_reachZ : ReachZ id .nft m9 12 :=
  ReachZ.callOk { caller := 9, round := 12 } .selectNft
    (ReachZ.callOk { caller := 9, round := 11 } .select m7_reachZ
      (by decide) (Or.inl rfl) rfl)
    (by decide) (Or.inl rfl) rfl

/-- `draw_end_to_end_Z` applied to the concrete history: from `m7` (filter complete, base lottery
    not yet run; stale empty ranges of 7 and 9 present) through `select` and `selectNft` -/
example : m9.nftWinners.length = min m7.availNfts m7.payers.length ∧
    m9.claimableNft = m7.nftCost.amount * m9.nftWinners.length := by
  obtain ⟨a0, h⟩ := ReachZ_iff.mp m7_reachZ
  obtain ⟨o1, h1⟩ := step_stOf (x := step id m7 { caller := 9, round := 11 } .select) rfl m7
  obtain ⟨o2, h2⟩ := step_stOf (x := step id m8 { caller := 9, round := 12 } .selectNft) rfl m8
  have hl : zn_Later id m7 10 m8 11 :=
    zn_Later.call m7 10 { caller := 9, round := 11 } .select m8 o1 zn_Later.refl
      (by decide) (Or.inl rfl) h1
  obtain ⟨e1, e2, _⟩ := draw_end_to_end_Z id a0 m7 10 h (by decide +kernel) (by decide +kernel)
    m8 11 hl { caller := 9, round := 12 } m9 o2 h2 (by decide +kernel)
  exact ⟨e1, e2⟩

theorem m10_reachZ : ReachZ id .nft m10 15 :=
  ReachZ.callOk { caller := 9, round := 15 } .claim m9_reachZ (by decide) (Or.inl rfl)
    (by decide +kernel)

/-- an empty-range address can neither confirm nor enter the NFT draw (evaluated, and by the
    theorems) -/
example : isOk (step id m5 { caller := 7, round := 6 } (.confirm 0)) = false ∧
    isOk (step id m5 { caller := 7, round := 6, egld := 3 } .confirmNft) = false := by
  decide +kernel

example : ∀ x, step id m5 { caller := 7, round := 6, egld := 3 } .confirmNft ≠ .ok x :=
  empty_range_cannot_confirmNft id m5 6 m5_reachZ { caller := 7, round := 6, egld := 3 } ⟨1, 0⟩
    (by decide) rfl (by decide)

example : ∀ x, step id m5 { caller := 7, round := 6 } (.confirm 0) ≠ .ok x :=
  LP.Props.C01zero.empty_range_cannot_confirm id m5 { caller := 7, round := 6 } 0 ⟨1, 0⟩ rfl
    (by decide)

/-- the stale empty ranges survive the filter and both lotteries (also the blacklisted one) -/
example : AllDone m9 ∧ m9.blacklist 7 = true ∧ m9.range 7 = some ⟨1, 0⟩ ∧
    m9.range 9 = some ⟨3, 2⟩ ∧ m9.nftWinners = [8] ∧ m9.payers = [] :=
  ⟨⟨by decide +kernel, by decide +kernel⟩, by decide +kernel⟩

/-- the claim of 9 (empty range): one SFT of category 3, no transfer, no balance moves -/
example : m10.range 9 = none ∧ m10.claimed 9 = true ∧ m10.bal .egld 0 = m9.bal .egld 0 ∧
    m10.bal (.esdt 1) 0 = m9.bal (.esdt 1) 0 ∧ m10.nftWinners = [8] := by
  decide +kernel

/-- the theorems applied to the concrete history -/
example : ∃ L : List Nat, Covers m9 L ∧
    m9.bal m9.payTok 0 = m9.claimablePayment + sumOver (refundDue m9) L + feeInPay m9 :=
  let ⟨L, h1, _, h3⟩ := C14_solvent_general_Z id m9 12 m9_reachZ
  ⟨L, h1, h3 ⟨by decide +kernel, by decide +kernel⟩⟩

example : ∃ x, step id m9 { caller := 9, round := 15 } .claim = .ok x :=
  claim_never_starves_nft_Z id m9 12 m9_reachZ { caller := 9, round := 15 } ⟨3, 2⟩
    rfl rfl (by decide +kernel) (by decide +kernel) (by decide +kernel) (by decide +kernel)

example : ∃ x, step id m9 { caller := 8, round := 15 } .claim = .ok x :=
  claim_never_starves_nft_Z id m9 12 m9_reachZ { caller := 8, round := 15 } ⟨1, 2⟩
    rfl rfl (by decide +kernel) (by decide +kernel) (by decide +kernel) (by decide +kernel)

end LP.Props.C14zero

#print axioms LP.Props.C14zero.simulation
#print axioms LP.Props.C14zero.reach_is_reachZ
#print axioms LP.Props.C14zero.C14_solvent_general_Z
#print axioms LP.Props.C14zero.C14a_solvent_separate_Z
#print axioms LP.Props.C14zero.C14a_fee_ledger_Z
#print axioms LP.Props.C14zero.C14b_solvent_same_Z
#print axioms LP.Props.C14zero.fee_ne_lp_Z
#print axioms LP.Props.C14zero.C14_fee_dichotomy_nft_Z
#print axioms LP.Props.C14zero.erased_all_none
#print axioms LP.Props.C14zero.nothing_left_Z
#print axioms LP.Props.C14zero.nft_lists_Z
#print axioms LP.Props.C14zero.draw_completion_Z
#print axioms LP.Props.C14zero.claim_category_Z
#print axioms LP.Props.C14zero.participants_frozen_Z
#print axioms LP.Props.C14zero.draw_end_to_end_Z
#print axioms LP.Props.C14zero.three_counts_nft_Z
#print axioms LP.Props.C14zero.three_counts_at_completion_nft_Z
#print axioms LP.Props.C14zero.winners_before_filter_nft_Z
#print axioms LP.Props.C14zero.lp_cover_nft_Z
#print axioms LP.Props.C14zero.owner_surplus_nft_Z
#print axioms LP.Props.C14zero.all_settled_nrWinning_nft_Z
#print axioms LP.Props.C14zero.lp_zero_at_end_nft_Z
#print axioms LP.Props.C14zero.C14_contract_empty_nft_Z
#print axioms LP.Props.C14zero.claim_refund_covered_nft_Z
#print axioms LP.Props.C14zero.claim_refund_covered_same_Z
#print axioms LP.Props.C14zero.fee_refund_covered_separate_Z
#print axioms LP.Props.C14zero.winner_covered_nft_Z
#print axioms LP.Props.C14zero.claim_never_starves_nft_Z
#print axioms LP.Props.C14zero.claim_never_starves_nft
#print axioms LP.Props.C14zero.empty_range_cannot_confirmNft
#print axioms LP.Props.C14zero.empty_range_claim
#print axioms LP.Props.C14zero.m1_reachZ
#print axioms LP.Props.C14zero.m1_not_reach
#print axioms LP.Props.C14zero.m5_reachZ
#print axioms LP.Props.C14zero.m7_reachZ
#print axioms LP.Props.C14zero.m9_reachZ
#print axioms LP.Props.C14zero.m10_reachZ
