import LP.Proofs.ReachV2Base
import LP.Props.C01reach
/-
  C01 / C03 / C11 (reachable-state form) for `Variant.guarV2` — launchpad-guaranteed-tickets-v2.

  `Reach hash .guarV2 s r` (LP/Proofs/ReachBase.lean): `s` is reachable from some deployment of
  the v2 contract by accepted transactions with non-decreasing rounds.  Every transaction carries
  EGLD or ESDT but not both (`EnvOK`).  `CallOK` puts NO condition on `addTicketsV2` (v2 skips
  zero-size entries itself); `distribute` calls may carry ANY budget: interrupted `filter`,
  `select` and `distribute` calls (in the top-up loop or in the leftover loop) are all covered.

  Main theorems
    1. `C01_solvent_guarV2`          payment-token solvency in every reachable state
    2. `final_winners_guarV2`        at the completion of `distribute`:
                                     winning flags = nrWinning = min T0 lastTicketId
    3. `guarantee_honoured_guarV2`   C11 end to end
    4. launchpad-token side (C02, vested variant): `lp_ledger_guarV2`,
       `vested_claim_covered_guarV2`, `unsettled_winner_covered_guarV2`,
       `owner_surplus_safe_guarV2`, `lp_nothing_left_guarV2`, `lp_before_distribution_guarV2`
  Corollaries: `claim_refund_covered_guarV2`, `owner_withdrawal_covered_guarV2`,
    `all_settled_nothing_left_guarV2`, `three_counts_guarV2`, `reserve_conserved_guarV2`.
-/
namespace LP.Props.C01reachV2
open LP LP.FY

/-! ### the ledger read off the invariant -/

theorem v2_WF_ledger {T0 : Nat} {s : State} {r : Nat} (h : WF2 T0 s r) :
    ∃ L : List Nat, Covers s L ∧ (¬ AllDone s → PayEqPre s L) ∧
      (AllDone s → PayEqPost s L ∧ sumOver (winCountOf s) L = s.nrWinning ∧
        (∀ a, winCountOf s a ≤ s.confirmed a) ∧
        (∀ a rg, s.range a = some rg → a ∈ L ∧ rg.first ≤ rg.last ∧
          rg.last + 1 = rg.first + s.confirmed a)) := by
  rcases h.phase with ⟨hna, hns, _, hph⟩ | hE | hF
  · have hnd : ¬ AllDone s := fun hd => by
      have h1 : s.flags.selected = true := hd.1
      have h2 : s.flags.selected = false := hns
      rw [h2] at h1; cases h1
    rcases hph with ⟨L0, hp, _⟩ | hC | hD
    · refine ⟨L0.map Prod.fst, ⟨hp.ok.nodup, ?_⟩, fun _ => hp.pay, fun hd => absurd hd hnd⟩
      intro a ha
      apply Classical.byContradiction
      intro hin
      exact ha (hp.outC a hin)
    · obtain ⟨Ls, hnd', _, _, _, hout, hpay⟩ := hC.alloc
      refine ⟨Ls.map Prod.fst, ⟨hnd', ?_⟩, fun _ => hpay, fun hd => absurd hd hnd⟩
      intro a ha
      apply Classical.byContradiction
      intro hin
      exact ha (hout a hin).2
    · have h1 : s.flags.selected = true := hD.selected
      have h2 : s.flags.selected = false := hns
      rw [h2] at h1; cases h1
  · obtain ⟨Ls, hnd', _, _, _, hout, hpay⟩ := hE.alloc
    refine ⟨Ls.map Prod.fst, ⟨hnd', ?_⟩, fun _ => hpay, fun hd => ?_⟩
    · intro a ha
      apply Classical.byContradiction
      intro hin
      exact ha (hout a hin).2
    · have h1 : s.flags.additional = true := hd.2
      have h2 : s.flags.additional = false := hE.notAdd
      rw [h2] at h1; cases h1
  · have hD := hF.d
    obtain ⟨L, hnd, hsupp, hpost, hwin⟩ := hD.led
    refine ⟨L, ⟨hnd, hsupp⟩, ?_, fun _ => ⟨(rb_PayPost_iff s L).mpr hpost, hwin, ?_, ?_⟩⟩
    · intro hnd'
      exact absurd ⟨hD.selected, hF.add⟩ hnd'
    · intro a
      show winOf s.range s.status a ≤ s.confirmed a
      cases hr : s.range a with
      | none => simp [winOf, hr]
      | some rg => exact rb_winOf_le hr (hD.rngOk a rg hr).2
    · intro a rg hr
      obtain ⟨h1, h2⟩ := hD.rngOk a rg hr
      have h2' : rg.last + 1 = rg.first + s.confirmed a := h2
      exact ⟨hsupp a (by show s.confirmed a ≠ 0; omega), h1, h2'⟩

/-! ### 1. solvency -/

/-- **C01 for the v2 launchpad with guaranteed tickets**: in every reachable state — including the
    states in the middle of an interrupted `filter`, `select` or `distribute` — the contract holds,
    in the ticket-payment token, exactly the full payment of every confirmed ticket until the
    distribution step is complete (`PayEqPre`: nothing moves the payment token during
    `distribute`), and afterwards exactly the owner's not-yet-withdrawn proceeds plus
    `price × (confirmed − winning)` for every participant who has not settled (`PayEqPost`). -/
theorem C01_solvent_guarV2 (hash : List Nat → List Nat) (s : State) (r : Nat)
    (h : Reach hash .guarV2 s r) :
    ∃ L : List Nat, Covers s L ∧ (¬ AllDone s → PayEqPre s L) ∧ (AllDone s → PayEqPost s L) := by
  obtain ⟨a0, h⟩ := Reach_iff.mp h
  obtain ⟨L, h1, h2, h3⟩ := v2_WF_ledger (reach_WF2 h)
  exact ⟨L, h1, h2, fun hd => (h3 hd).1⟩

/-- after completion: the holdings cover the owner's recorded proceeds plus the refund of any
    participant who still has a range -/
theorem claim_refund_covered_guarV2 (hash : List Nat → List Nat) (s : State)
    (r : Nat) (h : Reach hash .guarV2 s r) (hd : AllDone s) (a : Nat) (rg : Range)
    (hr : s.range a = some rg) :
    s.claimablePayment + s.price * (s.confirmed a - winCountOf s a) ≤ s.bal s.payTok 0 := by
  obtain ⟨a0, h⟩ := Reach_iff.mp h
  obtain ⟨L, _, _, h3⟩ := v2_WF_ledger (reach_WF2 h)
  obtain ⟨hpost, _, _, hrg⟩ := h3 hd
  have haL := (hrg a rg hr).1
  have hle := rb_le_sumOver (refundDue s) L a haL
  have hdue : refundDue s a = s.price * (s.confirmed a - winCountOf s a) := by
    simp only [refundDue, hr]
  unfold PayEqPost at hpost
  omega

/-- the owner's withdrawal never fails for lack of payment tokens -/
theorem owner_withdrawal_covered_guarV2 (hash : List Nat → List Nat) (s : State)
    (r : Nat) (h : Reach hash .guarV2 s r) (hd : AllDone s) :
    s.claimablePayment ≤ s.bal s.payTok 0 := by
  obtain ⟨a0, h⟩ := Reach_iff.mp h
  obtain ⟨L, _, _, h3⟩ := v2_WF_ledger (reach_WF2 h)
  obtain ⟨hpost, _⟩ := h3 hd
  unfold PayEqPost at hpost
  omega

/-- once every participant has settled and the owner has withdrawn, no payment tokens are left -/
theorem all_settled_nothing_left_guarV2 (hash : List Nat → List Nat) (s : State)
    (r : Nat) (h : Reach hash .guarV2 s r) (hd : AllDone s) (hall : ∀ a, s.range a = none)
    (hcp : s.claimablePayment = 0) : s.bal s.payTok 0 = 0 := by
  obtain ⟨L, _, _, h3⟩ := C01_solvent_guarV2 hash s r h
  exact all_settled_zero s L (h3 hd) (fun a _ => hall a) hcp

/-- after completion: the winning tickets still held add up to `nrWinning`; nobody holds more
    winning than confirmed tickets; a range has exactly `confirmed` tickets -/
theorem three_counts_guarV2 (hash : List Nat → List Nat) (s : State) (r : Nat)
    (h : Reach hash .guarV2 s r) (hd : AllDone s) :
    ∃ L : List Nat, Covers s L ∧ PayEqPost s L ∧ sumOver (winCountOf s) L = s.nrWinning ∧
      (∀ a, winCountOf s a ≤ s.confirmed a) ∧
      (∀ a rg, s.range a = some rg → a ∈ L ∧ rangeLen rg = s.confirmed a) := by
  obtain ⟨a0, h⟩ := Reach_iff.mp h
  obtain ⟨L, h1, _, h3⟩ := v2_WF_ledger (reach_WF2 h)
  obtain ⟨hpost, hwin, hle, hrg⟩ := h3 hd
  refine ⟨L, h1, hpost, hwin, hle, fun a rg hr => ?_⟩
  obtain ⟨k1, k2, k3⟩ := hrg a rg hr
  exact ⟨k1, by unfold rangeLen; omega⟩

/-- reserve conservation along every history: until the filter completes,
    `nrWinning + totalGuaranteed` is the winners count configured at deployment; the reserve
    itself never exceeds it, in any reachable state -/
theorem reserve_conserved_guarV2 (hash : List Nat → List Nat) (a0 : InitArgs) (s : State) (r : Nat)
    (h : ReachA hash .guarV2 a0 s r) :
    s.totalGuaranteed ≤ a0.nrWinning ∧
    (s.flags.filtered = false → s.nrWinning + s.totalGuaranteed = a0.nrWinning) := by
  have hwf := reach_WF2 h
  refine ⟨hwf.tgLe, fun hf => ?_⟩
  have htg := hwf.tgLe
  rcases hwf.phase with ⟨_, _, _, hph⟩ | hE | hF
  · obtain ⟨L0, hp, _⟩ := rb_phase_notFiltered hph hf
    have : s.nrWinning = a0.nrWinning - s.totalGuaranteed := hp.nrw
    omega
  · have : s.flags.filtered = true := hE.filtered
    rw [hf] at this; cases this
  · have : s.flags.filtered = true := hF.d.filtered
    rw [hf] at this; cases this

/-! ### 2. the final number of winners -/

/-- **final count**: at the call that completes `distribute` (from any reachable state, fresh or
    resumed, whatever the budgets of the earlier calls): the number of winning flags equals the
    stored `nrWinning`, which is
    `min (nrWinning_f + totalGuaranteed) last` with `nrWinning_f = min (T0 − totalGuaranteed) last`
    the base winners after the filter — and this is `min T0 last`, `T0` the winners count
    configured at deployment; every flag lies in `1..last`; the proceeds are
    `price × nrWinning`. -/
theorem final_winners_guarV2 (hash : List Nat → List Nat) (a0 : InitArgs) (s : State) (r : Nat)
    (h : ReachA hash .guarV2 a0 s r) (e : Env) (s' : State) (o : Out)
    (hs : step hash s e .distribute = .ok (s', o)) (hdone : s'.flags.additional = true) :
    countTrue s'.status s'.lastTicketId = s'.nrWinning ∧
    s'.nrWinning = min (min (a0.nrWinning - s'.totalGuaranteed) s'.lastTicketId + s'.totalGuaranteed)
      s'.lastTicketId ∧
    s'.nrWinning = min a0.nrWinning s'.lastTicketId ∧
    s'.claimablePayment = s'.price * s'.nrWinning ∧
    (∀ t, s'.status t = true → 1 ≤ t ∧ t ≤ s'.lastTicketId) ∧ AllDone s' := by
  have hwf := reach_WF2 h
  obtain ⟨hwf', _, hsel, hnrw, hl, htg, hfin⟩ := v2_distribute_full hwf hs
  obtain ⟨h1, h2, h3⟩ := hfin hdone
  have hle := hwf.tgLe
  have hF : PhF s'.gcore := v2_phase_F hwf'.phase hdone
  have hfl : ∀ t, s'.status t = true → 1 ≤ t ∧ t ≤ s'.lastTicketId := hF.flagsIn
  rw [hl, htg] at *
  exact ⟨h2, by omega, by omega, h3, hfl, hF.d.selected, hdone⟩

/-! ### 3. guarantees are honoured -/

/-- **C11 end to end**: in every reachable state in which all selection steps are complete, every
    participant `u` with a guarantee record (`uts u = some st`; the records are written only by
    allocation / blacklist / un-blacklist, all rejected from the winner-selection stage on, so this
    is the record at the start of the distribution) who has not settled yet (still has a range)
    holds at least `calcV2 …` = `min confirmed (guarantees whose threshold is met)` winning
    tickets; and no winning flag lies outside `1..lastTicketId`. -/
theorem guarantee_honoured_guarV2 (hash : List Nat → List Nat) (s : State) (r : Nat)
    (h : Reach hash .guarV2 s r) (hd : AllDone s) :
    (∀ u st rg, s.uts u = some st → s.range u = some rg →
      (calcV2 st.infos (s.confirmed u)).1 ≤ winCountOf s u ∧
      min (s.confirmed u) (metG st.infos (s.confirmed u)) ≤ winCountOf s u) ∧
    (∀ t, s.status t = true → 1 ≤ t ∧ t ≤ s.lastTicketId) := by
  obtain ⟨a0, h⟩ := Reach_iff.mp h
  have hF : PhF s.gcore := v2_phase_F (reach_WF2 h).phase hd.2
  refine ⟨fun u st rg hu hr => ?_, hF.flagsIn⟩
  have h1 := hF.hon u st rg hu hr
  have h2 : winCountOf s u = countWinning s.status rg.first (rangeLen rg) := by
    simp only [winCountOf, hr]
  rw [← calcV2_fst]
  exact ⟨by rw [h2]; exact h1, by rw [h2]; exact h1⟩

/-- the same during the distribution: a participant whose guarantee has already been processed
    (no longer on the work list) already holds his guaranteed tickets, in every reachable state of
    an interrupted `distribute` -/
theorem guarantee_honoured_during_guarV2 (hash : List Nat → List Nat) (s : State) (r : Nat)
    (h : Reach hash .guarV2 s r) (hsel : s.flags.selected = true) (hadd : s.flags.additional = false)
    (u : Nat) (st : UTS) (rg : Range) (hu : s.uts u = some st) (hw : u ∉ s.whitelist)
    (hr : s.range u = some rg) :
    (calcV2 st.infos (s.confirmed u)).1 ≤ winCountOf s u := by
  obtain ⟨a0, h⟩ := Reach_iff.mp h
  have hE := v2_phase_E (reach_WF2 h).phase hsel hadd
  obtain ⟨lo, off, add, hD, _⟩ := hE.dist
  have h1 := hD.hon u st rg hu hw hr
  have h2 : winCountOf s u = countWinning s.status rg.first (rangeLen rg) := by
    simp only [winCountOf, hr]
  rw [h2]; exact h1

/-! ### 4. the launchpad-token side (C02, vested variant) -/

theorem sumOver_gap {f g : Nat → Nat} {L : List Nat} (hnd : L.Nodup) (hfg : ∀ x, f x ≤ g x) {a : Nat}
    (ha : a ∈ L) : (g a - f a) + sumOver f L ≤ sumOver g L := by
  have h1 := sumOver_upd_mem f L a 0 hnd ha
  have h2 := sumOver_upd_mem g L a 0 hnd ha
  have h3 : sumOver (upd f a 0) L ≤ sumOver (upd g a 0) L := by
    apply sumOver_le
    intro x _
    by_cases hx : x = a
    · subst hx; simp
    · rw [upd_other _ _ _ _ hx, upd_other _ _ _ _ hx]; exact hfg x
  have := hfg a
  omega

/-- **launchpad-token ledger** after the distribution, in every reachable state: there is a
    duplicate-free list `L` containing everybody with a vesting record such that either
    (A, the owner has not withdrawn) `balance + Σ paid out = totalDeposited`, the recorded
    proceeds are `price × W` with `W × perTicket = perTicket × nrWinning + Σ userTotal ≤
    totalDeposited`, or (B, the owner has withdrawn) `totalDeposited = 0`, the proceeds are `0`,
    and `balance + Σ paid out = perTicket × nrWinning + Σ userTotal`;
    nobody has been paid more than his entitlement. -/
theorem lp_ledger_guarV2 (hash : List Nat → List Nat) (s : State) (r : Nat)
    (h : Reach hash .guarV2 s r) (hd : AllDone s) :
    (∃ L : List Nat, L.Nodup ∧ (∀ a, a ∉ L → s.userTotal a = 0 ∧ s.userClaimed a = 0) ∧
      ((s.bal (.esdt s.lpTok) 0 + sumOver s.userClaimed L = s.totalDeposited ∧
        ∃ W, s.claimablePayment = s.price * W ∧
          W * s.perTicket = s.perTicket * s.nrWinning + sumOver s.userTotal L ∧
          W * s.perTicket ≤ s.totalDeposited) ∨
       (s.totalDeposited = 0 ∧ s.claimablePayment = 0 ∧
        s.bal (.esdt s.lpTok) 0 + sumOver s.userClaimed L
          = s.perTicket * s.nrWinning + sumOver s.userTotal L))) ∧
    (∀ a, s.userClaimed a ≤ s.userTotal a) ∧
    (∀ a, s.claimed a = false → s.userTotal a = 0) := by
  obtain ⟨a0, h⟩ := Reach_iff.mp h
  have hp := (reach_WF2 h).lp.post hd.2
  exact ⟨hp.led, hp.le, hp.unclaimed⟩

/-- **every vested claim is covered**: after the distribution, in every reachable state, the
    contract's launchpad-token balance covers the launchpad tokens of ALL winning tickets not yet
    settled (`perTicket × nrWinning`) plus everything still owed to any settled participant `a`
    (`userTotal a − userClaimed a` bounds every instalment `claimable2` can compute) -/
theorem vested_claim_covered_guarV2 (hash : List Nat → List Nat) (s : State) (r : Nat)
    (h : Reach hash .guarV2 s r) (hd : AllDone s) (a : Nat) :
    s.perTicket * s.nrWinning + (s.userTotal a - s.userClaimed a) ≤ s.bal (.esdt s.lpTok) 0 := by
  obtain ⟨a0, h⟩ := Reach_iff.mp h
  have hp := (reach_WF2 h).lp.post hd.2
  obtain ⟨L, haL, hnd, _, hAB⟩ := v2_LPost_with hp a
  have hgap := sumOver_gap (f := s.userClaimed) (g := s.userTotal) hnd hp.le haL
  rcases hAB with ⟨a1, W, _, w2, w3⟩ | ⟨_, _, b3⟩
  · have a1' : s.bal (.esdt s.lpTok) 0 + sumOver s.userClaimed L = s.totalDeposited := a1
    have w2' : W * s.perTicket = s.perTicket * s.nrWinning + sumOver s.userTotal L := w2
    have w3' : W * s.perTicket ≤ s.totalDeposited := w3
    omega
  · have b3' : s.bal (.esdt s.lpTok) 0 + sumOver s.userClaimed L
        = s.perTicket * s.nrWinning + sumOver s.userTotal L := b3
    omega

/-- a participant who has not settled yet: the launchpad tokens of his winning tickets are there -/
theorem unsettled_winner_covered_guarV2 (hash : List Nat → List Nat) (s : State) (r : Nat)
    (h : Reach hash .guarV2 s r) (hd : AllDone s) (a : Nat) (rg : Range) (hr : s.range a = some rg) :
    s.perTicket * winCountOf s a ≤ s.bal (.esdt s.lpTok) 0 := by
  have h1 := vested_claim_covered_guarV2 hash s r h hd a
  obtain ⟨L, _, _, hwin, _, hrg⟩ := three_counts_guarV2 hash s r h hd
  have := rb_le_sumOver (winCountOf s) L a (hrg a rg hr).1
  have h2 : s.perTicket * winCountOf s a ≤ s.perTicket * s.nrWinning :=
    Nat.mul_le_mul_left _ (by omega)
  omega

/-- **the owner's surplus never includes a winner's share**: what `claimPaymentOwn` would send
    to the owner (`ownSurplus` = deposit − (proceeds / price) × perTicket, or nothing once
    `totalDeposited` is cleared) leaves the unsettled winners' tokens and everything still owed to
    any settled participant in the contract -/
theorem owner_surplus_safe_guarV2 (hash : List Nat → List Nat) (s : State) (r : Nat)
    (h : Reach hash .guarV2 s r) (hd : AllDone s) (a : Nat) :
    ownSurplus s + s.perTicket * s.nrWinning + (s.userTotal a - s.userClaimed a)
      ≤ s.bal (.esdt s.lpTok) 0 := by
  obtain ⟨a0, h⟩ := Reach_iff.mp h
  have hwf := reach_WF2 h
  have hp := hwf.lp.post hd.2
  obtain ⟨L, haL, hnd, _, hAB⟩ := v2_LPost_with hp a
  have hgap := sumOver_gap (f := s.userClaimed) (g := s.userTotal) hnd hp.le haL
  unfold ownSurplus
  rcases hAB with ⟨a1, W, w1, w2, w3⟩ | ⟨b1, _, b3⟩
  · have a1' : s.bal (.esdt s.lpTok) 0 + sumOver s.userClaimed L = s.totalDeposited := a1
    have w1' : s.claimablePayment = s.price * W := w1
    have w2' : W * s.perTicket = s.perTicket * s.nrWinning + sumOver s.userTotal L := w2
    have w3' : W * s.perTicket ≤ s.totalDeposited := w3
    have hdiv : s.claimablePayment / s.price = W := by
      rw [w1']; exact Nat.mul_div_cancel_left W hwf.pricePos
    rw [hdiv]
    split <;> omega
  · have b1' : s.totalDeposited = 0 := b1
    have b3' : s.bal (.esdt s.lpTok) 0 + sumOver s.userClaimed L
        = s.perTicket * s.nrWinning + sumOver s.userTotal L := b3
    rw [if_pos b1']
    omega

/-- **nothing is left**: once every participant has settled and claimed everything and the owner
    has withdrawn (`totalDeposited` cleared), the contract holds no launchpad tokens -/
theorem lp_nothing_left_guarV2 (hash : List Nat → List Nat) (s : State) (r : Nat)
    (h : Reach hash .guarV2 s r) (hd : AllDone s) (hall : ∀ a, s.range a = none)
    (hclaimed : ∀ a, s.userClaimed a = s.userTotal a) (hown : s.totalDeposited = 0) :
    s.bal (.esdt s.lpTok) 0 = 0 := by
  obtain ⟨L', _, _, hwin, _, _⟩ := three_counts_guarV2 hash s r h hd
  have hnw : s.nrWinning = 0 := by
    rw [← hwin]
    apply sumOver_zero
    intro a _
    simp [winCountOf, hall a]
  obtain ⟨⟨L, _, _, hAB⟩, _, _⟩ := lp_ledger_guarV2 hash s r h hd
  have hsum : sumOver s.userClaimed L = sumOver s.userTotal L :=
    sumOver_congr (fun a _ => hclaimed a)
  rcases hAB with ⟨a1, _⟩ | ⟨_, _, b3⟩
  · omega
  · rw [hnw, hsum] at b3
    simp at b3
    omega

/-- before the distribution completes nobody has claimed and a deposit made so far is intact -/
theorem lp_before_distribution_guarV2 (hash : List Nat → List Nat) (s : State) (r : Nat)
    (h : Reach hash .guarV2 s r) (hd : s.flags.additional = false) :
    (∀ a, s.userTotal a = 0 ∧ s.userClaimed a = 0 ∧ s.claimed a = false) ∧
    (s.deposited = true → s.bal (.esdt s.lpTok) 0 = s.totalDeposited ∧
      s.perTicket * (s.nrWinning + s.totalGuaranteed) ≤ s.totalDeposited) ∧
    (s.deposited = false → s.bal (.esdt s.lpTok) 0 = 0 ∧ ∀ a, s.confirmed a = 0) := by
  obtain ⟨a0, h⟩ := Reach_iff.mp h
  have hl := (reach_WF2 h).lp
  have hp := hl.pre hd
  exact ⟨hp.fresh, hp.dep, fun hq => ⟨(hl.nodep hq).2.1, (hl.nodep hq).1⟩⟩

/-! ### non-vacuity: a concrete v2 history through the whole lifecycle, with a zero-size
    allocation entry, a guarantee, and an INTERRUPTED `distribute` call -/

open LP.Props.C01reach (stOf isOk)

def vArgs : InitArgs :=
  { lpTok := 1, perTicket := 5, payTok := .egld, price := 10, nrWinning := 2, conf := 5, sel := 10, claim := 15 }

def v0 : State := match init .guarV2 vArgs { caller := 1, round := 0 } with
  | .ok s => s
  | .error _ => default

def v1 : State := stOf (step id v0 { caller := 1, round := 1 }
  (.addTicketsV2 [(7, 3, [(1, 1)]), (8, 1, []), (9, 0, [])])) v0
def v2 : State := stOf (step id v1 { caller := 1, round := 2, esdts := [⟨.esdt 1, 0, 10⟩] } .deposit) v1
def v3 : State := stOf (step id v2 { caller := 7, round := 5, egld := 20 } (.confirm 2)) v2
def v4 : State := stOf (step id v3 { caller := 8, round := 6, egld := 10 } (.confirm 1)) v3
def v5 : State := stOf (step id v4 { caller := 9, round := 10 } .filter) v4
def v6 : State := stOf (step id v5 { caller := 9, round := 11 } .select) v5
def v7 : State := stOf (step id v6 { caller := 9, round := 12, budget := some 0 } .distribute) v6
def v8 : State := stOf (step id v7 { caller := 9, round := 13 } .distribute) v7
def v9 : State := stOf (step id v8 { caller := 7, round := 15 } .claim) v8
def v10 : State := stOf (step id v9 { caller := 1, round := 16 } .claimPayment) v9
def v11 : State := stOf (step id v10 { caller := 8, round := 17 } .claim) v10

theorem v0_reach : Reach id .guarV2 v0 0 := Reach.init vArgs { caller := 1, round := 0 } v0 rfl

theorem v8_reach : Reach id .guarV2 v8 13 :=
  LP.Props.C01reach.Reach.callOk { caller := 9, round := 13 } .distribute
    (LP.Props.C01reach.Reach.callOk { caller := 9, round := 12, budget := some 0 } .distribute
      (LP.Props.C01reach.Reach.callOk { caller := 9, round := 11 } .select
        (LP.Props.C01reach.Reach.callOk { caller := 9, round := 10 } .filter
          (LP.Props.C01reach.Reach.callOk { caller := 8, round := 6, egld := 10 } (.confirm 1)
            (LP.Props.C01reach.Reach.callOk { caller := 7, round := 5, egld := 20 } (.confirm 2)
              (LP.Props.C01reach.Reach.callOk { caller := 1, round := 2, esdts := [⟨.esdt 1, 0, 10⟩] } .deposit
                (LP.Props.C01reach.Reach.callOk { caller := 1, round := 1 }
                  (.addTicketsV2 [(7, 3, [(1, 1)]), (8, 1, []), (9, 0, [])])
                  v0_reach (by decide) (Or.inl rfl) trivial rfl)
                (by decide) (Or.inl rfl) trivial rfl)
              (by decide) (Or.inr rfl) trivial rfl)
            (by decide) (Or.inr rfl) trivial rfl)
          (by decide) (Or.inl rfl) trivial rfl)
        (by decide) (Or.inl rfl) trivial rfl)
      (by decide) (Or.inl rfl) trivial rfl)
    (by decide) (Or.inl rfl) trivial rfl

/-- the interrupted call saved the operation; the second call completed the step: 2 of the 3
    tickets win (`min T0 last = min 2 3`), the owner's proceeds are 20 -/
example : v7.flags.additional = false ∧ v7.flags.selected = true ∧ v7.whitelist = [] ∧
    AllDone v8 ∧ v8.nrWinning = 2 ∧ v8.lastTicketId = 3 ∧ v8.claimablePayment = 20 ∧
    v8.bal .egld 0 = 30 ∧ v1.totalGuaranteed = 1 ∧ v1.nrWinning = 1 ∧ v1.range 9 = none := by
  refine ⟨rfl, rfl, rfl, ⟨rfl, rfl⟩, rfl, rfl, rfl, rfl, rfl, rfl, rfl⟩

/-- the main theorem applied to the concrete history -/
example : ∃ L : List Nat, Covers v8 L ∧ PayEqPost v8 L := by
  obtain ⟨L, h1, _, h3⟩ := C01_solvent_guarV2 id v8 13 v8_reach
  exact ⟨L, h1, h3 ⟨rfl, rfl⟩⟩

theorem v11_reach : Reach id .guarV2 v11 17 :=
  LP.Props.C01reach.Reach.callOk { caller := 8, round := 17 } .claim
    (LP.Props.C01reach.Reach.callOk { caller := 1, round := 16 } .claimPayment
      (LP.Props.C01reach.Reach.callOk { caller := 7, round := 15 } .claim v8_reach
        (by decide) (Or.inl rfl) trivial rfl)
      (by decide) (Or.inl rfl) trivial rfl)
    (by decide) (Or.inl rfl) trivial rfl

/-- ... continued to the end: both settle, the owner withdraws; nothing is left in either token -/
example : v11.bal .egld 0 = 0 ∧ v11.bal (.esdt 1) 0 = 0 ∧ v11.range 7 = none ∧ v11.range 8 = none ∧
    v10.claimablePayment = 0 := by
  refine ⟨rfl, rfl, rfl, rfl, rfl⟩

/-- the launchpad-token theorems applied to the concrete history: after the distribution the 10
    deposited tokens cover the 2 winning tickets (5 each) -/
example : v8.perTicket * v8.nrWinning + (v8.userTotal 7 - v8.userClaimed 7) ≤ v8.bal (.esdt 1) 0 :=
  vested_claim_covered_guarV2 id v8 13 v8_reach ⟨rfl, rfl⟩ 7

example : v8.bal (.esdt 1) 0 = 10 ∧ v8.totalDeposited = 10 ∧ ownSurplus v8 = 0 ∧ v9.userTotal 7 = 10 ∧
    v9.userClaimed 7 = 10 ∧ v10.totalDeposited = 0 := ⟨rfl, rfl, rfl, rfl, rfl, rfl⟩

end LP.Props.C01reachV2

#print axioms LP.Props.C01reachV2.C01_solvent_guarV2
#print axioms LP.Props.C01reachV2.final_winners_guarV2
#print axioms LP.Props.C01reachV2.guarantee_honoured_guarV2
#print axioms LP.Props.C01reachV2.guarantee_honoured_during_guarV2
#print axioms LP.Props.C01reachV2.claim_refund_covered_guarV2
#print axioms LP.Props.C01reachV2.owner_withdrawal_covered_guarV2
#print axioms LP.Props.C01reachV2.all_settled_nothing_left_guarV2
#print axioms LP.Props.C01reachV2.three_counts_guarV2
#print axioms LP.Props.C01reachV2.reserve_conserved_guarV2
#print axioms LP.Props.C01reachV2.lp_ledger_guarV2
#print axioms LP.Props.C01reachV2.vested_claim_covered_guarV2
#print axioms LP.Props.C01reachV2.unsettled_winner_covered_guarV2
#print axioms LP.Props.C01reachV2.owner_surplus_safe_guarV2
#print axioms LP.Props.C01reachV2.lp_nothing_left_guarV2
#print axioms LP.Props.C01reachV2.lp_before_distribution_guarV2
#print axioms LP.Props.C01reachV2.v8_reach
#print axioms LP.Props.C01reachV2.v11_reach

#print axioms LP.Props.C01reachV2.v2_WF_ledger
#print axioms LP.Props.C01reachV2.sumOver_gap
#print axioms LP.Props.C01reachV2.v0_reach
