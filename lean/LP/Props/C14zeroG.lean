import LP.Proofs.ZeroAllocNG
import LP.Props.C01zero
import LP.Props.C18reach
/-
  C14 / C01 / C02 / C03 / C11 / C12 for `Variant.nftGuar` (launchpad-nft-and-guaranteed-tickets)
  WITHOUT the allocation-size restriction `v1_CallOK` — as far as it goes.

  WHAT A ZERO-SIZE ENTRY `(a, 0, 0, migrated)` OF `addTicketsV1` DOES (model = contract; see the
  evaluated examples at the end of this file):
    * `a` gets the EMPTY range `[last+1, last]` and a zero-size batch at `last+1` which the next
      allocation overwrites (or which dangles above `lastTicketId`) — as in the plain launchpad;
    * `staking = 0 < minConfirmed` (deployment enforces `minConfirmed > 0`), so the staking test
      fails: no staking guarantee;
    * `migrated = false`: the record `{a := 0, b := 0, c := 0, d := 0}` is written, the whitelist
      and the reserve (`nrWinning`, `totalGuaranteed`) are NOT touched;
    * `migrated = true`: the address ENTERS THE WHITELIST and RESERVES ONE TICKET (`nrWinning - 1`,
      `totalGuaranteed + 1`, record `{0,0,0,1}`), although it can never confirm anything;
    * such an address cannot `confirm` (the allocation view panics), hence cannot `confirmNft`;
      `blacklist [a]` is accepted (nothing to refund; a reserved ticket goes back to `nrWinning`);
      the filter never visits it; the guaranteed-ticket loop of `secondary` visits a whitelisted
      one and turns its reserved ticket into a LEFTOVER ticket (`calcV1 {0,0,0,1} 0 _ = (1, 0)`,
      the top-up over the empty range marks nothing); in the claim stage it may `claim` once:
      nothing is paid, the "not confirmed" SFT (category 3) is handed out, the batch slot at its
      stale first id is wiped.

  WHAT IS PROVED.  Two relations (LP/Proofs/ZeroAllocNG.lean):
    `ng_ReachZ`  — `ng_Reach` without any premise on the calls (the full target);
    `ng_ReachG`  — zero-size entries allowed when `migrated = false` (`zc_CallOK`).
  `ng_Reach ⊆ ng_ReachG ⊆ ng_ReachZ`.

  For `ng_ReachG`: the SIMULATION theorem (`simulation`): every such state `s` is `ZSimG`-related
  to an `ng_Reach` state `z` of the original development — `z` is `s` with the empty ranges, the
  zero-size batches (until the filter has completed) and the empty guarantee records removed,
  `blacklist`/`claimed` below those of `s`, every other field equal.  `addTicketsV1 l` is matched by
  `addTicketsV1 (l without zero-size entries)`, `blacklist l` by `blacklist (l without empty-range
  addresses)`, a claim by an empty-range address by NO step, every other call (including
  `secondary`, interrupted anywhere) by itself.  All headline theorems of LP/Props/C14reachG.lean
  are transferred to every `ng_ReachG` state (sections 1–4):
    1  `ng_solvent_general_G`, `ng_solvent_separate_G`, `ng_fee_ledger_G`, `ng_solvent_same_G`,
       `ng_three_counts_G`, `ng_claim_refund_covered_G`
    2  `ng_final_winners_G`, `ng_guarantee_honoured_G`, `ng_draw_completion_G`, `ng_secondary_ret_G`,
       `ng_nft_lists_G`
    3  `ng_lp_cover_G`, `ng_reserve_G`, `ng_whitelisted_iff_G`, `ng_owner_surplus_G`,
       `ng_lp_zero_at_end_G`
    4  `empty_range_cannot_confirm`, `empty_range_claim_G`, and — NEW for this variant —
       `claim_never_starves_G` (every claim by a holder of a range, empty or not, is accepted)
  Non-vacuity: `h1_reachG` … `h16_reachG` (two zero-size entries, one blacklisted, interrupted
  filter, four `secondary` calls, the claim of an empty-range address), `h1_not_reach`.

  WHAT IS MISSING (`_partial`): the simulation for zero-size entries WITH `migrated = true`, i.e.
  the transfer from `ng_ReachG` to `ng_ReachZ`.  Such an entry cannot be erased (it moves the
  reserve and the whitelist), and the original invariant (`GI.has_range`, phase A) has no
  whitelisted address without a range, so the erased side would have to give it a REAL ticket
  (`(a, 0, 1, true)`: same leftover effect — `calcV1 {0,1,0,1} 0 _ = (0, 1)` — and the filter
  removes the ticket).  That shifts all later ticket ids until the filter completes, adds
  iterations to the filter loop (different budgets), and is not always possible: near the
  `usizeMax` bound the original contract REJECTS the extra ticket, so some `ng_ReachZ` states are
  related to NO `ng_Reach` state by any relation that keeps `nrWinning`, `totalGuaranteed` and the
  whitelist.  The statements wanted are those of sections 1–4 with `ng_ReachZ` in place of
  `ng_ReachG`.  What IS known for such entries: the reserve law during the allocation / blacklist
  transactions holds for ALL entries (C12, `run_guar_reserve`, LP/Proofs/ReserveSeq.lean, has no
  size restriction); `migrated_ghost_reserves`, `migrated_ghost_qualifies`, `migrated_ghost_leftover`
  (what the entry does, in general) and the evaluated history `m1 … m12` (`m12_reachZ`) at the end
  of this file.
-/
namespace LP.Props.C14zeroG
open LP LP.FY LP.Props.C09 LP.Props.C14 LP.Props.C01reach LP.Props.C14reach LP.Props.C14reachG

/-! ### 0. the simulation -/

/-- **SIMULATION** -/
theorem simulation (hash : List Nat → List Nat) (s : State) (r : Nat) (h : ng_ReachG hash s r) :
    ∃ z, ng_Reach hash z r ∧ ZSimG s z :=
  zc_sim_reach h

theorem reach_is_reachG (hash : List Nat → List Nat) (s : State) (r : Nat) (h : ng_Reach hash s r) :
    ng_ReachG hash s r := h.toG

theorem reachG_is_reachZ (hash : List Nat → List Nat) (s : State) (r : Nat) (h : ng_ReachG hash s r) :
    ng_ReachZ hash s r := h.toZ

/-! ### quantities that do not see the erasure -/

theorem winCountOf_eq {s z : State} (h : ZSimG s z) (a : Nat) : winCountOf s a = winCountOf z a := by
  have hst : z.status = s.status := by have := congrArg State.status h.rest; exact this
  unfold winCountOf
  rw [h.range, hst]
  cases hr : s.range a with
  | none => rw [z_eraseR_of_none hr]
  | some rg =>
    by_cases hne : rg.first ≤ rg.last
    · rw [z_eraseR_of_ne hr hne]
    · rw [z_eraseR_of_empty hr hne]
      have : rangeLen rg = 0 := by unfold rangeLen; omega
      simp only [this, countWinning]

theorem refundDue_eq {s z : State} (h : ZSimG s z)
    (hnone : ∀ a, z.range a = none → z.confirmed a = 0) (a : Nat) : refundDue s a = refundDue z a := by
  have hw := winCountOf_eq h a
  have hc : z.confirmed = s.confirmed := h.fields.2.2.2.2.1
  have hp : z.price = s.price := by have := congrArg State.price h.rest; exact this
  unfold refundDue
  rw [← hw, hc, hp, h.range]
  cases hr : s.range a with
  | none => rw [z_eraseR_of_none hr]
  | some rg =>
    by_cases hne : rg.first ≤ rg.last
    · rw [z_eraseR_of_ne hr hne]
    · have hz : z.range a = none := by rw [h.range]; exact z_eraseR_of_empty hr hne
      rw [z_eraseR_of_empty hr hne]
      have := hnone a hz
      rw [hc] at this
      simp [this]

/-- after completion an address without a (non-empty) range has nothing confirmed -/
theorem done_rngNone {hash : List Nat → List Nat} {a0 : InitArgs} {z : State} {r : Nat}
    (hz : ng_ReachA hash a0 z r) (hd : AllDone z) : ∀ a, z.range a = none → z.confirmed a = 0 :=
  (ng_phase_D (ng_reach_WF hz).phase hd.2).rngNone

theorem allDone_iff {s z : State} (h : ZSimG s z) : AllDone z ↔ AllDone s := by
  unfold AllDone; rw [h.fields.2.1]

/-! ### 1. ticket-payment solvency and the fee ledger -/

/-- **general form**, zero-size entries (without migration guarantee) allowed: same statement as
    `ng_solvent_general` -/
theorem ng_solvent_general_G (hash : List Nat → List Nat) (s : State) (r : Nat)
    (h : ng_ReachG hash s r) :
    ∃ L : List Nat, Covers s L ∧
      (¬ AllDone s → s.bal s.payTok 0 = s.price * sumOver s.confirmed L + feeInPay s) ∧
      (AllDone s → s.bal s.payTok 0 = s.claimablePayment + sumOver (refundDue s) L + feeInPay s) := by
  obtain ⟨a0, h⟩ := ng_ReachG_iff.mp h
  obtain ⟨z, hz, hsim, _⟩ := zc_sim h
  obtain ⟨L, h1, h2, h3⟩ := ng_solvent_general hash z r (ng_Reach_iff.mpr ⟨a0, hz⟩)
  have hrd : AllDone z → ∀ a, refundDue s a = refundDue z a := fun hd a =>
    refundDue_eq hsim (done_rngNone hz hd) a
  obtain ⟨R, B, K, C, U, rfl⟩ := hsim.shape'
  refine ⟨L, ⟨h1.nodup, h1.supp⟩, h2, fun hd => ?_⟩
  have := h3 hd
  rw [sumOver_congr (fun a _ => hrd hd a)]
  exact this

/-- **(a) fee token separate** -/
theorem ng_solvent_separate_G (hash : List Nat → List Nat) (s : State) (r : Nat)
    (h : ng_ReachG hash s r) (hsep : FeeTokenSeparate s) :
    ∃ L : List Nat, Covers s L ∧ (¬ AllDone s → PayEqPre s L) ∧ (AllDone s → PayEqPost s L) := by
  obtain ⟨L, h1, h2, h3⟩ := ng_solvent_general_G hash s r h
  have hz : feeInPay s = 0 := by
    have hn : ¬ FeeInPayToken s := hsep.1
    unfold feeInPay; rw [if_neg hn]
  rw [hz] at h2 h3
  exact ⟨L, h1, fun hd => h2 hd, fun hd => h3 hd⟩

/-- **(a) the fee ledger** -/
theorem ng_fee_ledger_G (hash : List Nat → List Nat) (s : State) (r : Nat)
    (h : ng_ReachG hash s r) (hsep : FeeTokenSeparate s) : feeBal s = feeHeld s := by
  obtain ⟨z, hz, hsim⟩ := zc_sim_reach h
  obtain ⟨R, B, K, C, U, rfl⟩ := hsim.shape'
  exact ng_fee_ledger hash (zc_w s R B K C U) r hz hsep

/-- **(b) fee token = ticket-payment token**: the combined ledger -/
theorem ng_solvent_same_G (hash : List Nat → List Nat) (s : State) (r : Nat)
    (h : ng_ReachG hash s r) (hsame : FeeInPayToken s) :
    ∃ L : List Nat, Covers s L ∧ (¬ AllDone s → CombinedPre s L) ∧ (AllDone s → CombinedPost s L) := by
  obtain ⟨a0, h⟩ := ng_ReachG_iff.mp h
  obtain ⟨z, hz, hsim, _⟩ := zc_sim h
  have hrd : AllDone z → ∀ a, refundDue s a = refundDue z a := fun hd a =>
    refundDue_eq hsim (done_rngNone hz hd) a
  obtain ⟨R, B, K, C, U, rfl⟩ := hsim.shape'
  obtain ⟨L, h1, h2, h3⟩ := ng_solvent_same hash _ r (ng_Reach_iff.mpr ⟨a0, hz⟩) hsame
  refine ⟨L, ⟨h1.nodup, h1.supp⟩, h2, fun hd => ?_⟩
  have := h3 hd
  unfold CombinedPost at this ⊢
  rw [sumOver_congr (fun a _ => hrd hd a)]
  exact this

/-- after completion: the winners still held add up to `nrWinning`; nobody holds more winning than
    confirmed tickets; every range — empty or not — has exactly `confirmed` tickets, and the
    holders of NON-EMPTY ranges are in the covering list -/
theorem ng_three_counts_G (hash : List Nat → List Nat) (s : State) (r : Nat)
    (h : ng_ReachG hash s r) (hd : AllDone s) :
    ∃ L : List Nat, Covers s L ∧
      s.bal s.payTok 0 = s.claimablePayment + sumOver (refundDue s) L + feeInPay s ∧
      sumOver (winCountOf s) L = s.nrWinning ∧
      (∀ a, winCountOf s a ≤ s.confirmed a) ∧
      (∀ a rg, s.range a = some rg → rangeLen rg = s.confirmed a ∧ (rg.first ≤ rg.last → a ∈ L)) := by
  obtain ⟨a0, h⟩ := ng_ReachG_iff.mp h
  obtain ⟨z, hz, hsim, _⟩ := zc_sim h
  have hdz : AllDone z := (allDone_iff hsim).mpr hd
  obtain ⟨L, h1, h2, h3, h4, h5⟩ := ng_three_counts hash z r (ng_Reach_iff.mpr ⟨a0, hz⟩) hdz
  have hnone := done_rngNone hz hdz
  have hrd : ∀ a, refundDue s a = refundDue z a := fun a => refundDue_eq hsim hnone a
  have hwc : ∀ a, winCountOf s a = winCountOf z a := fun a => winCountOf_eq hsim a
  have hrange := hsim.range
  obtain ⟨R, B, K, C, U, rfl⟩ := hsim.shape'
  refine ⟨L, ⟨h1.nodup, h1.supp⟩, ?_, ?_, ?_, ?_⟩
  · rw [sumOver_congr (fun a _ => hrd a)]
    exact h2
  · rw [sumOver_congr (fun a _ => hwc a)]; exact h3
  · intro a; rw [hwc a]; exact h4 a
  · intro a rg hr
    by_cases hne : rg.first ≤ rg.last
    · have hzr : (zc_w s R B K C U).range a = some rg := by rw [hrange]; exact z_eraseR_of_ne hr hne
      obtain ⟨k1, k2⟩ := h5 a rg hzr
      exact ⟨k2, fun _ => k1⟩
    · have hzr : (zc_w s R B K C U).range a = none := by rw [hrange]; exact z_eraseR_of_empty hr hne
      have hc : s.confirmed a = 0 := hnone a hzr
      refine ⟨?_, fun hh => absurd hh hne⟩
      rw [hc]; unfold rangeLen; omega

/-- after completion the payment-token holdings cover the owner's proceeds, the ticket refund of
    ANY holder of a range (empty or not), and all NFT fees held in the same slot -/
theorem ng_claim_refund_covered_G (hash : List Nat → List Nat) (s : State) (r : Nat)
    (h : ng_ReachG hash s r) (hd : AllDone s) (a : Nat) (rg : Range) (hr : s.range a = some rg) :
    s.claimablePayment + s.price * (s.confirmed a - winCountOf s a) + feeInPay s
      ≤ s.bal s.payTok 0 := by
  obtain ⟨L, _, hpost, _, _, hrg⟩ := ng_three_counts_G hash s r h hd
  obtain ⟨k1, k2⟩ := hrg a rg hr
  by_cases hne : rg.first ≤ rg.last
  · have hle := rb_le_sumOver (refundDue s) L a (k2 hne)
    have hdue : refundDue s a = s.price * (s.confirmed a - winCountOf s a) := by
      simp only [refundDue, hr]
    omega
  · have hc : s.confirmed a = 0 := by rw [← k1]; unfold rangeLen; omega
    rw [hc]
    simp only [Nat.zero_sub, Nat.mul_zero, Nat.add_zero]
    omega


/-! ### 2. the completed additional step (conditional on the call having completed, as in
  LP/Props/C14reachG.lean: the v1 leftover loop may spin) -/

/-- a record without guarantee qualifies for nothing -/
theorem calcV1_noGuar (st : UTS) (conf mc : Nat) (hc : st.c = 0) (hd : st.d = 0) :
    (calcV1 st conf mc).1 = 0 := by
  unfold calcV1
  rw [hc, hd]
  by_cases h1 : conf ≥ st.b <;> simp only [h1, if_true, if_false] <;> split <;> rfl

/-- **final ticket winners** (same statement as `ng_final_winners_partial`) from every `ng_ReachGA`
    state -/
theorem ng_final_winners_G (hash : List Nat → List Nat) (a0 : InitArgs) (s : State) (r : Nat)
    (h : ng_ReachGA hash a0 s r) (e : Env) (s' : State) (o : Out) (hr : r ≤ e.round) (hok : EnvOK e)
    (hs : step hash s e .secondary = .ok (s', o)) (hret : o.ret = [0]) :
    AllDone s' ∧
    countTrue s'.status s'.lastTicketId = s'.nrWinning ∧
    s'.nrWinning = min a0.nrWinning s'.lastTicketId ∧
    s'.claimablePayment = s'.price * s'.nrWinning ∧
    (∀ t, s'.status t = true → 1 ≤ t ∧ t ≤ s'.lastTicketId) ∧
    (∀ t, s.status t = true → s'.status t = true) := by
  obtain ⟨z, hz, hsim, hd⟩ := zc_sim h
  obtain ⟨z', _, hsim', _, hstep⟩ := zc_sim_secondary hz hsim hd hr hok hs
  have := ng_final_winners_partial hash a0 z r hz e z' o hr hstep hret
  obtain ⟨R, B, K, C, U, rfl⟩ := hsim.shape'
  obtain ⟨R', B', K', C', U', rfl⟩ := hsim'.shape'
  exact this

/-- **guarantees honoured** (same statement as `ng_guarantee_honoured`): the holder of an empty
    record (zero-size entry) is owed nothing -/
theorem ng_guarantee_honoured_G (hash : List Nat → List Nat) (a0 : InitArgs) (s : State) (r : Nat)
    (h : ng_ReachGA hash a0 s r) (e : Env) (s' : State) (o : Out) (hr : r ≤ e.round) (hok : EnvOK e)
    (hs : step hash s e .secondary = .ok (s', o)) (hret : o.ret = [0]) :
    (∀ u st, s'.uts u = some st →
      min (calcV1 st (s'.confirmed u) s'.minConfirmed).1 (s'.confirmed u) ≤ winCountOf s' u) ∧
    (∀ t, s'.status t = true → 1 ≤ t ∧ t ≤ s'.lastTicketId) := by
  obtain ⟨z, hz, hsim, hd⟩ := zc_sim h
  obtain ⟨z', _, hsim', _, hstep⟩ := zc_sim_secondary hz hsim hd hr hok hs
  obtain ⟨h1, h2⟩ := ng_guarantee_honoured hash a0 z r hz e z' o hr hstep hret
  have hwc : ∀ a, winCountOf s' a = winCountOf z' a := fun a => winCountOf_eq hsim' a
  have huts := hsim'.uts
  obtain ⟨R', B', K', C', U', rfl⟩ := hsim'.shape'
  refine ⟨fun u st hu => ?_, h2⟩
  rcases huts u with hl | ⟨_, _, st0, hs0, hc0, hd0⟩
  · rw [hwc u]
    exact h1 u st (hl.trans hu)
  · rw [hu] at hs0
    injection hs0 with hs0
    subst hs0
    rw [calcV1_noGuar st _ _ hc0 hd0]
    simp

/-- **the NFT draw at completion** (same statement as `ng_draw_completion`) -/
theorem ng_draw_completion_G (hash : List Nat → List Nat) (a0 : InitArgs) (s : State) (r : Nat)
    (h : ng_ReachGA hash a0 s r) (e : Env) (s' : State) (o : Out) (hr : r ≤ e.round) (hok : EnvOK e)
    (hs : step hash s e .secondary = .ok (s', o)) (hret : o.ret = [0]) :
    s'.nftWinners.length = min s.availNfts (s.payers.length + s.nftWinners.length) ∧
    s'.claimableNft = s.nftCost.amount * s'.nftWinners.length ∧
    NftOk s' ∧ (∀ a, (a ∈ s'.payers ∨ a ∈ s'.nftWinners) ↔ (a ∈ s.payers ∨ a ∈ s.nftWinners)) ∧
    s.nftWinners <+: s'.nftWinners ∧ AllDone s' := by
  obtain ⟨z, hz, hsim, hd⟩ := zc_sim h
  obtain ⟨z', _, hsim', _, hstep⟩ := zc_sim_secondary hz hsim hd hr hok hs
  obtain ⟨k1, k2, k3, k4, k5, k6⟩ := ng_draw_completion hash a0 z r hz e z' o hr hstep hret
  obtain ⟨R, B, K, C, U, rfl⟩ := hsim.shape'
  obtain ⟨R', B', K', C', U', rfl⟩ := hsim'.shape'
  exact ⟨k1, k2, ⟨k3.nodupP, k3.nodupW, k3.disj⟩, k4, k5, k6⟩

/-- an accepted `secondary` call returns `[0]` exactly when it completes the additional step -/
theorem ng_secondary_ret_G (hash : List Nat → List Nat) (a0 : InitArgs) (s : State) (r : Nat)
    (h : ng_ReachGA hash a0 s r) (e : Env) (s' : State) (o : Out) (hr : r ≤ e.round) (hok : EnvOK e)
    (hs : step hash s e .secondary = .ok (s', o)) :
    (o.ret = [0] ∧ s'.flags.additional = true) ∨ (o.ret = [1] ∧ s'.flags.additional = false) := by
  obtain ⟨z, hz, hsim, hd⟩ := zc_sim h
  obtain ⟨z', _, hsim', _, hstep⟩ := zc_sim_secondary hz hsim hd hr hok hs
  have := ng_secondary_ret hash a0 z r hz e z' o hr hstep
  obtain ⟨R', B', K', C', U', rfl⟩ := hsim'.shape'
  exact this

/-- the two NFT lists in every `ng_ReachG` state (the two clauses of `ng_nft_lists` on the
    `claimed` flags are not transferred: an empty-range address may have "claimed") -/
theorem ng_nft_lists_G (hash : List Nat → List Nat) (s : State) (r : Nat)
    (h : ng_ReachG hash s r) :
    NftOk s ∧ s.nftWinners.length ≤ s.availNfts ∧
    (∀ a, a ∈ s.payers ∨ a ∈ s.nftWinners → 0 < s.confirmed a) ∧
    (s.flags.selected = false → s.nftWinners = []) ∧
    (s.flags.additional = false → (∀ rg, s.op ≠ .additional (.nft rg)) → s.nftWinners = []) := by
  obtain ⟨z, hz, hsim⟩ := zc_sim_reach h
  obtain ⟨k1, k2, k3, k4, k5, _⟩ := ng_nft_lists hash z r hz
  obtain ⟨R, B, K, C, U, rfl⟩ := hsim.shape'
  exact ⟨⟨k1.nodupP, k1.nodupW, k1.disj⟩, k2, k3, k4, k5⟩

/-! ### 3. the launchpad-token side and the reserve -/

/-- **`LpCover` from the deposit on** (same statement as `ng_lp_cover`) -/
theorem ng_lp_cover_G (hash : List Nat → List Nat) (s : State) (r : Nat)
    (h : ng_ReachG hash s r) (hd : s.deposited = true) (hnl : ¬ FeeInLpToken s) :
    LP.Props.C02.LpCover s ∧
    (s.flags.additional = false → (∀ rg, s.op ≠ .additional (.nft rg)) →
      s.perTicket * (s.nrWinning + s.totalGuaranteed) ≤ s.bal (.esdt s.lpTok) 0) := by
  obtain ⟨z, hz, hsim⟩ := zc_sim_reach h
  obtain ⟨R, B, K, C, U, rfl⟩ := hsim.shape'
  exact ng_lp_cover hash (zc_w s R B K C U) r hz hd hnl

/-- **reserve conservation** (same statement as `ng_reserve`): a zero-size entry without migration
    guarantee does not touch the reserve -/
theorem ng_reserve_G (hash : List Nat → List Nat) (a0 : InitArgs) (s : State) (r : Nat)
    (h : ng_ReachGA hash a0 s r) :
    (s.flags.filtered = false → s.nrWinning + s.totalGuaranteed = a0.nrWinning) ∧
    (s.flags.additional = false → (∀ rg, s.op ≠ .additional (.nft rg)) →
      s.nrWinning + s.totalGuaranteed ≤ a0.nrWinning) ∧
    (s.flags.additional = false → s.nrWinning ≤ a0.nrWinning) := by
  obtain ⟨z, hz, hsim, _⟩ := zc_sim h
  obtain ⟨R, B, K, C, U, rfl⟩ := hsim.shape'
  exact ng_reserve hash a0 (zc_w s R B K C U) r hz

/-- until the first `secondary` call is accepted the whitelist is exactly the set of holders of a
    positive guarantee -/
theorem ng_whitelisted_iff_G (hash : List Nat → List Nat) (s : State) (r : Nat)
    (h : ng_ReachG hash s r) (hna : s.flags.additional = false)
    (hop : s.flags.selected = true → s.op = .none) (u : Nat) :
    u ∈ s.whitelist ↔ ∃ st, s.uts u = some st ∧ st.c + st.d > 0 := by
  obtain ⟨z, hz, hsim⟩ := zc_sim_reach h
  have huts := hsim.uts u
  obtain ⟨R, B, K, C, U, rfl⟩ := hsim.shape'
  have := ng_whitelisted_iff hash (zc_w s R B K C U) r hz hna hop u
  rw [show (zc_w s R B K C U).whitelist = s.whitelist from rfl] at this
  rw [this]
  rcases huts with hl | ⟨u1, _, st0, hs0, hc0, hd0⟩
  · rw [hl]
  · constructor
    · rintro ⟨st, h1, _⟩
      rw [u1] at h1; cases h1
    · rintro ⟨st, h1, h2⟩
      rw [hs0] at h1
      injection h1 with h1
      subst h1
      omega

/-- **the owner can withdraw only the surplus** (same statement as `ng_owner_surplus_reach`) -/
theorem ng_owner_surplus_G (hash : List Nat → List Nat) (s : State) (r : Nat)
    (h : ng_ReachG hash s r) (hnl : ¬ FeeInLpToken s) (e : Env) (s' : State) (o : Out)
    (hr : r ≤ e.round) (hok : EnvOK e)
    (hs : step hash s e .claimPayment = .ok (s', o)) :
    s'.bal (.esdt s'.lpTok) 0 = s'.perTicket * s'.nrWinning ∧ s'.nrWinning = s.nrWinning ∧
    s'.claimablePayment = 0 ∧ s'.claimableNft = 0 := by
  obtain ⟨a0, h⟩ := ng_ReachG_iff.mp h
  obtain ⟨z, hz, hsim, hd⟩ := zc_sim h
  obtain ⟨z', _, hsim', _, hstep⟩ := zc_sim_indep (c := .claimPayment) rfl hz hsim hd hr hok hs
  obtain ⟨R, B, K, C, U, rfl⟩ := hsim.shape'
  obtain ⟨R', B', K', C', U', rfl⟩ := hsim'.shape'
  exact ng_owner_surplus_reach hash (zc_w s R B K C U) r (ng_Reach_iff.mpr ⟨a0, hz⟩) hnl e
    (zc_w s' R' B' K' C' U') o hstep

/-- **nothing is left at the end**: all steps complete, every holder of a NON-EMPTY range has
    settled (stale empty ranges may remain: they hold nothing), then the owner's accepted
    `claimPayment` leaves no launchpad token -/
theorem ng_lp_zero_at_end_G (hash : List Nat → List Nat) (s : State) (r : Nat)
    (h : ng_ReachG hash s r) (hnl : ¬ FeeInLpToken s) (hd : AllDone s)
    (hall : ∀ a rg, s.range a = some rg → rg.last < rg.first)
    (e : Env) (s' : State) (o : Out) (hr : r ≤ e.round) (hok : EnvOK e)
    (hs : step hash s e .claimPayment = .ok (s', o)) :
    s.nrWinning = 0 ∧ s'.bal (.esdt s'.lpTok) 0 = 0 := by
  obtain ⟨a0, h⟩ := ng_ReachG_iff.mp h
  obtain ⟨z, hz, hsim, hdd⟩ := zc_sim h
  obtain ⟨z', _, hsim', _, hstep⟩ := zc_sim_indep (c := .claimPayment) rfl hz hsim hdd hr hok hs
  have hallz : ∀ a, z.range a = none := by
    intro a
    rw [hsim.range]
    cases hra : s.range a with
    | none => exact z_eraseR_of_none hra
    | some rg => exact z_eraseR_of_empty hra (by have := hall a rg hra; omega)
  have hdz : AllDone z := (allDone_iff hsim).mpr hd
  obtain ⟨R, B, K, C, U, rfl⟩ := hsim.shape'
  obtain ⟨R', B', K', C', U', rfl⟩ := hsim'.shape'
  exact ng_lp_zero_at_end hash (zc_w s R B K C U) r (ng_Reach_iff.mpr ⟨a0, hz⟩) hnl hdz hallz e
    (zc_w s' R' B' K' C' U') o hstep

/-! ### 4. what an address with an empty range can do -/

/-- it cannot confirm (not even zero tickets): the allocation view panics
    (`LP.Props.C01zero.empty_range_cannot_confirm`, any variant); hence it never has confirmed
    tickets and `confirmNft` rejects it -/
theorem empty_range_cannot_confirm (hash : List Nat → List Nat) (s : State) (e : Env) (n : Nat)
    (rg : Range) (hr : s.range e.caller = some rg) (he : rg.last < rg.first) :
    ∀ x, step hash s e (.confirm n) ≠ .ok x :=
  LP.Props.C01zero.empty_range_cannot_confirm hash s e n rg hr he

/-- in an `ng_ReachG` state its accepted claim pays nothing and moves no balance: only the
    caller's `claimed` flag, its stale range and the batch slot at the range's first id change;
    the "not confirmed" SFT (category 3) is handed out -/
theorem empty_range_claim_G (hash : List Nat → List Nat) (s : State)
    (r : Nat) (h : ng_ReachG hash s r) (e : Env) (s' : State) (o : Out) (rg : Range)
    (hr : r ≤ e.round) (hok : EnvOK e)
    (hrg : s.range e.caller = some rg) (he : rg.last < rg.first)
    (hs : step hash s e .claim = .ok (s', o)) :
    s' = zc_w s (upd s.range e.caller none) (upd s.batch rg.first none) s.blacklist
          (upd s.claimed e.caller true) s.uts ∧ s'.bal = s.bal ∧ s'.nrWinning = s.nrWinning ∧
    o.xfers = [] ∧ o.sfts = [(e.caller, 3)] ∧ o.locks = [] := by
  obtain ⟨a0, h⟩ := ng_ReachG_iff.mp h
  obtain ⟨z, hz, hsim, _⟩ := zc_sim h
  obtain ⟨z', _, _, _, hcase⟩ := zc_sim_claim hz hsim hr hok hs
  rcases hcase with hstep | ⟨_, rg', hrg', _, hs', ho1, ho2, ho3⟩
  · -- the erased state has no range for the caller: its claim is rejected
    exfalso
    have hzn : z.range e.caller = none := by
      rw [hsim.range]; exact z_eraseR_of_empty hrg (by omega)
    have hn : z.variant.hasNft = true := (ng_flags (ng_reach_WF hz).var).2.1
    obtain ⟨rz, hacc, _⟩ := claim_nft_effect hash z e z' o hn hstep
    have := hacc.2.2.2.2.1
    rw [hzn] at this; cases this
  · rw [hrg] at hrg'
    injection hrg' with hrg'
    subst hrg'
    exact ⟨hs', by rw [hs']; rfl, by rw [hs']; rfl, ho1, ho2, ho3⟩


/-- **claims never starve** (no such theorem existed for `nftGuar`; proved here for every
    `ng_ReachG` state, hence also for every `ng_Reach` state): in the claim stage, a claim without
    call value by ANY address that holds a range — empty or not — and has not claimed is ACCEPTED,
    provided the SFT collection is set up, the launchpad tokens were deposited, the fee is not kept
    in the launchpad-token slot and — only for a fee payer that was not drawn (category 2) — the
    contract still holds his fee in the fee-token slot after his ticket settlement -/
theorem claim_never_starves_G (hash : List Nat → List Nat) (s : State) (r : Nat)
    (h : ng_ReachG hash s r) (e : Env) (rg : Range)
    (he1 : e.egld = 0) (he2 : e.esdts = []) (hst : s.stage e = .claim)
    (hcl : s.claimed e.caller = false) (hrg : s.range e.caller = some rg)
    (hsft : s.sftToken = true) (hdep : s.deposited = true) (hnl : ¬ FeeInLpToken s)
    (hfee : nftCategory s e.caller = 2 →
      s.nftCost.amount ≤ (balAfterClaim s e.caller) s.nftCost.tok s.nftCost.nonce) :
    ∃ x, step hash s e .claim = .ok x := by
  obtain ⟨hsel, hadd, _⟩ := v1_stage_claim hst
  have hd : AllDone s := ⟨hsel, hadd⟩
  obtain ⟨L, _, _, hsum, hle, hrgL⟩ := ng_three_counts_G hash s r h hd
  have hcov := ng_claim_refund_covered_G hash s r h hd e.caller rg hrg
  have hlp : LP.Props.C02.LpCover s := (ng_lp_cover_G hash s r h hdep hnl).1
  obtain ⟨z, hz, hsim⟩ := zc_sim_reach h
  obtain ⟨a0, hz0⟩ := ng_Reach_iff.mp hz
  have hwf := ng_reach_WF hz0
  have hvs : s.variant = .nftGuar := by rw [← hsim.fields.2.2.1]; exact hwf.var
  have htok : s.payTok ≠ .esdt s.lpTok := by
    have := hwf.tokNe
    obtain ⟨R, B, K, C, U, rfl⟩ := hsim.shape'
    exact this
  obtain ⟨f1, f2, _, _, f5, _⟩ := ng_flags hvs
  have hwc : winCountOf s e.caller = countWinning s.status rg.first (rangeLen rg) := by
    simp only [winCountOf, hrg]
  have hwn : winCountOf s e.caller ≤ s.nrWinning := by
    by_cases hne : rg.first ≤ rg.last
    · have := rb_le_sumOver (winCountOf s) L e.caller ((hrgL e.caller rg hrg).2 hne)
      omega
    · have hlen : rangeLen rg = 0 := by unfold rangeLen; omega
      rw [hwc, hlen]; exact Nat.zero_le _
  have hle' := hle e.caller
  rw [hwc] at hwn hle' hcov
  have hne' : ¬ (Token.esdt s.lpTok = s.payTok) := fun hh => htok hh.symm
  refine ⟨((claimNftResult (sendTokensResult (claimMid (txc s e) e rg) e.caller
    (countWinning s.status rg.first (rangeLen rg))) e).s,
    (claimNftResult (sendTokensResult (claimMid (txc s e) e rg) e.caller
    (countWinning s.status rg.first (rangeLen rg))) e).o), ?_⟩
  rw [step_claim_ok_iff]
  refine ⟨he1, he2, claimNftResult (sendTokensResult (claimMid (txc s e) e rg) e.caller
    (countWinning s.status rg.first (rangeLen rg))) e, ?_, rfl, rfl⟩
  rw [exec_claim_nonvested hash _ e (by exact f1), claimBase_ok_iff]
  have hl2 : (claimMid (txc s e) e rg).s.variant.hasLock = false := by rw [claimMid_state]; exact f5
  have hcov' : s.price * (s.confirmed e.caller - countWinning s.status rg.first (rangeLen rg))
      ≤ s.bal s.payTok 0 := by omega
  refine ⟨rg, ⟨hst, hcl, hrg, hwn, hle', hcov'⟩, sendTokensResult (claimMid (txc s e) e rg) e.caller
    (countWinning s.status rg.first (rangeLen rg)), ?_, ?_⟩
  · rw [sendLaunchpadTokens_nolock_ok_iff _ e _ _ _ hl2]
    refine ⟨?_, rfl⟩
    rw [claimMid_state]
    show countWinning s.status rg.first (rangeLen rg) * s.perTicket ≤ (s.bal.sub s.payTok 0
      (s.price * (s.confirmed e.caller - countWinning s.status rg.first (rangeLen rg)))) (.esdt s.lpTok) 0
    have : (s.bal.sub s.payTok 0 (s.price * (s.confirmed e.caller -
        countWinning s.status rg.first (rangeLen rg)))) (.esdt s.lpTok) 0 = s.bal (.esdt s.lpTok) 0 := by
      simp [Bal.sub, hne']
    rw [this]
    have h1 : s.perTicket * s.nrWinning ≤ s.bal (.esdt s.lpTok) 0 := hlp
    calc countWinning s.status rg.first (rangeLen rg) * s.perTicket
        ≤ s.nrWinning * s.perTicket := Nat.mul_le_mul_right _ hwn
      _ = s.perTicket * s.nrWinning := Nat.mul_comm _ _
      _ ≤ _ := h1
  · have hs2 : (sendTokensResult (claimMid (txc s e) e rg) e.caller
        (countWinning s.status rg.first (rangeLen rg))).s
        = { settledState s e.caller rg with bal := balAfterClaim s e.caller } := by
      rw [sendTokensResult_state, claimMid_state]
      have hw : winCount s e.caller = countWinning s.status rg.first (rangeLen rg) :=
        winCount_of_range hrg
      simp only [balAfterClaim, hw, txc]
      rfl
    have hn2 : (sendTokensResult (claimMid (txc s e) e rg) e.caller
        (countWinning s.status rg.first (rangeLen rg))).s.variant.hasNft = true := by
      rw [hs2]; exact f2
    rw [if_pos hn2, claimNft_ok_iff]
    refine ⟨by rw [hs2]; exact hsft, ?_, rfl⟩
    intro hc2
    have hcat : nftCategory (sendTokensResult (claimMid (txc s e) e rg) e.caller
        (countWinning s.status rg.first (rangeLen rg))).s e.caller = nftCategory s e.caller :=
      nftCategory_congr e.caller (by rw [hs2]; rfl) (by rw [hs2]; rfl)
    rw [hcat] at hc2
    have := hfee hc2
    rw [hs2]
    exact this
/-! ### non-vacuity: a launch with zero-size entries, to the very end

  The history of LP/Props/C14reachG.lean (`g0` … `g18`) with two more allocation entries
  `(5, 0, 0, false)` and `(6, 0, 0, false)`: 5 and 6 get the empty ranges `[1,0]` and `[5,4]` and the
  empty record; 5 is blacklisted during the confirmation period; the filter (interrupted once), the
  base lottery and FOUR `secondary` calls (interrupted in the top-up loop, in the leftover loop, in
  the NFT draw, completed) run as before; 6 then "claims". -/

theorem callOkG {hash : List Nat → List Nat} {a0 : InitArgs} {s : State} {r : Nat}
    (e : Env) (c : Call)
    (h : ng_ReachGA hash a0 s r) (hr : r ≤ e.round) (hok : EnvOK e) (hc : zc_CallOK c)
    (hs : isOk (step hash s e c) = true) :
    ng_ReachGA hash a0 (stOf (step hash s e c) s) e.round := by
  cases hx : step hash s e c with
  | error err => rw [hx] at hs; cases hs
  | ok q =>
    obtain ⟨s', o⟩ := q
    exact .call s r e c s' o h hr hok hc hx

theorem callOkZ {hash : List Nat → List Nat} {a0 : InitArgs} {s : State} {r : Nat}
    (e : Env) (c : Call)
    (h : ng_ReachZA hash a0 s r) (hr : r ≤ e.round) (hok : EnvOK e)
    (hs : isOk (step hash s e c) = true) :
    ng_ReachZA hash a0 (stOf (step hash s e c) s) e.round := by
  cases hx : step hash s e c with
  | error err => rw [hx] at hs; cases hs
  | ok q =>
    obtain ⟨s', o⟩ := q
    exact .call s r e c s' o h hr hok hx

def hAlloc : List (Nat × Nat × Nat × Bool) :=
  [(5, 0, 0, false), (7, 2, 1, false), (8, 1, 0, false), (6, 0, 0, false), (9, 0, 2, false)]

def h1 : State := stOf (step id g0 { caller := 1, round := 1 } (.addTicketsV1 hAlloc)) g0
def h2 : State := stOf (step id h1 { caller := 1, round := 2, esdts := [⟨.esdt 1, 0, 15⟩] } .deposit) h1
def h3 : State := stOf (step id h2 { caller := 9, round := 3 } .sftSetup) h2
def h4 : State := stOf (step id h3 { caller := 7, round := 5, egld := 20 } (.confirm 2)) h3
def h5 : State := stOf (step id h4 { caller := 8, round := 6, egld := 10 } (.confirm 1)) h4
def h6 : State := stOf (step id h5 { caller := 9, round := 6, egld := 20 } (.confirm 2)) h5
def h7 : State := stOf (step id h6 { caller := 7, round := 7, egld := 3 } .confirmNft) h6
def h8 : State := stOf (step id h7 { caller := 9, round := 8, egld := 3 } .confirmNft) h7
def h8b : State := stOf (step id h8 { caller := 1, round := 8 } (.blacklist [5])) h8
def h9 : State := stOf (step id h8b { caller := 9, round := 10, budget := some 0 } .filter) h8b
def h10 : State := stOf (step id h9 { caller := 9, round := 11 } .filter) h9
def h11 : State := stOf (step id h10 { caller := 9, round := 12 } .select) h10
def h12 : State := stOf (step id h11 { caller := 9, round := 13, budget := some 0 } .secondary) h11
def h13 : State := stOf (step id h12 { caller := 9, round := 13, budget := some 1 } .secondary) h12
def h14 : State := stOf (step id h13 { caller := 9, round := 14, budget := some 0 } .secondary) h13
def h15 : State := stOf (step id h14 { caller := 9, round := 14 } .secondary) h14
def h16 : State := stOf (step id h15 { caller := 6, round := 15 } .claim) h15

theorem g0_reachG : ng_ReachGA id gArgs g0 0 := g0_reach.toG

theorem h1_reachG : ng_ReachGA id gArgs h1 1 :=
  callOkG { caller := 1, round := 1 } (.addTicketsV1 hAlloc) g0_reachG (by decide) (Or.inl rfl)
    (by show ∀ q ∈ hAlloc, 1 ≤ q.2.1 + q.2.2.1 ∨ q.2.2.2 = false; decide) rfl

/-- the zero-size entries created empty ranges, empty records, and took no ticket id; the reserve
    is that of the history without them -/
example : h1.range 5 = some ⟨1, 0⟩ ∧ h1.range 7 = some ⟨1, 3⟩ ∧ h1.range 6 = some ⟨5, 4⟩ ∧
    h1.range 9 = some ⟨5, 6⟩ ∧ h1.batch 1 = some ⟨7, 3⟩ ∧ h1.batch 5 = some ⟨9, 2⟩ ∧
    h1.lastTicketId = 6 ∧ h1.uts 5 = some { a := 0, b := 0, c := 0, d := 0 } ∧
    h1.whitelist = [7, 8] ∧ h1.nrWinning = 1 ∧ h1.totalGuaranteed = 2 ∧
    g1.lastTicketId = 6 ∧ g1.nrWinning = 1 ∧ g1.totalGuaranteed = 2 := by
  refine ⟨rfl, rfl, rfl, rfl, rfl, rfl, rfl, rfl, rfl, rfl, rfl, rfl, rfl, rfl⟩

/-- **`h1` is an `ng_ReachG` state that is NOT an `ng_Reach` state** (of any deployment, at any
    round): reachable states of the original development have no empty range -/
theorem h1_not_reach (hash : List Nat → List Nat) (r : Nat) : ¬ ng_Reach hash h1 r := by
  intro h
  have := LP.Props.C18reach.ranges_bounded hash h1 r (.nftGuar h) 5 ⟨1, 0⟩ rfl
  exact absurd this.2.1 (by decide)

theorem h8_reachG : ng_ReachGA id gArgs h8 8 :=
  callOkG { caller := 9, round := 8, egld := 3 } .confirmNft
    (callOkG { caller := 7, round := 7, egld := 3 } .confirmNft
      (callOkG { caller := 9, round := 6, egld := 20 } (.confirm 2)
        (callOkG { caller := 8, round := 6, egld := 10 } (.confirm 1)
          (callOkG { caller := 7, round := 5, egld := 20 } (.confirm 2)
            (callOkG { caller := 9, round := 3 } .sftSetup
              (callOkG { caller := 1, round := 2, esdts := [⟨.esdt 1, 0, 15⟩] } .deposit h1_reachG
                (by decide) (Or.inl rfl) trivial rfl)
              (by decide) (Or.inl rfl) trivial rfl)
            (by decide) (Or.inr rfl) trivial rfl)
          (by decide) (Or.inr rfl) trivial rfl)
        (by decide) (Or.inr rfl) trivial rfl)
      (by decide) (Or.inr rfl) trivial rfl)
    (by decide) (Or.inr rfl) trivial rfl

theorem h11_reachG : ng_ReachGA id gArgs h11 12 :=
  callOkG { caller := 9, round := 12 } .select
    (callOkG { caller := 9, round := 11 } .filter
      (callOkG { caller := 9, round := 10, budget := some 0 } .filter
        (callOkG { caller := 1, round := 8 } (.blacklist [5]) h8_reachG
          (by decide) (Or.inl rfl) trivial rfl)
        (by decide) (Or.inl rfl) trivial rfl)
      (by decide) (Or.inl rfl) trivial rfl)
    (by decide) (Or.inl rfl) trivial rfl

theorem h14_reachG : ng_ReachGA id gArgs h14 14 :=
  callOkG { caller := 9, round := 14, budget := some 0 } .secondary
    (callOkG { caller := 9, round := 13, budget := some 1 } .secondary
      (callOkG { caller := 9, round := 13, budget := some 0 } .secondary h11_reachG
        (by decide) (Or.inl rfl) trivial rfl)
      (by decide) (Or.inl rfl) trivial rfl)
    (by decide) (Or.inl rfl) trivial rfl

theorem h15_reachG : ng_ReachGA id gArgs h15 14 :=
  callOkG { caller := 9, round := 14 } .secondary h14_reachG (by decide) (Or.inl rfl) trivial rfl

theorem h16_reachG : ng_ReachGA id gArgs h16 15 :=
  callOkG { caller := 6, round := 15 } .claim h15_reachG (by decide) (Or.inl rfl) trivial
    (by decide +kernel)

/-- the stale empty ranges survive the blacklisting and the filter; the selection runs exactly as
    in the history without them -/
example : h8b.blacklist 5 = true ∧ h10.flags.filtered = true ∧ h10.range 5 = some ⟨1, 0⟩ ∧
    h10.range 6 = some ⟨5, 4⟩ ∧ h10.lastTicketId = 5 ∧ g10.lastTicketId = 5 ∧
    AllDone h15 ∧ h15.nrWinning = 3 ∧ h15.claimablePayment = 30 ∧ h15.nftWinners = [7] ∧
    h15.bal .egld 0 = 56 ∧ h15.bal (.esdt 1) 0 = 15 := by
  refine ⟨rfl, rfl, rfl, rfl, rfl, rfl, ⟨rfl, rfl⟩, rfl, rfl, rfl, rfl, rfl⟩

/-- the claim of 6 (empty range): nothing moves but its flag, its range and a batch slot -/
example : h16.claimed 6 = true ∧ h16.range 6 = none ∧ h16.bal .egld 0 = h15.bal .egld 0 ∧
    h16.bal (.esdt 1) 0 = h15.bal (.esdt 1) 0 ∧ h16.nrWinning = h15.nrWinning := by
  decide +kernel

/-- the theorems applied to the concrete history -/
example : ∃ L : List Nat, Covers h15 L ∧ CombinedPost h15 L :=
  let ⟨L, k1, _, k3⟩ := ng_solvent_same_G id h15 14 (ng_ReachG_iff.mpr ⟨_, h15_reachG⟩) ⟨rfl, rfl⟩
  ⟨L, k1, k3 ⟨rfl, rfl⟩⟩

example : ∃ s' o, step id h14 { caller := 9, round := 14 } .secondary = .ok (s', o) ∧
    o.ret = [0] ∧ s'.nrWinning = min gArgs.nrWinning s'.lastTicketId ∧ s'.nrWinning = 3 ∧
    (∀ u st, s'.uts u = some st →
      min (calcV1 st (s'.confirmed u) s'.minConfirmed).1 (s'.confirmed u) ≤ winCountOf s' u) := by
  refine ⟨_, _, rfl, rfl, ?_, rfl, ?_⟩
  · exact (ng_final_winners_G id gArgs h14 14 h14_reachG
      { caller := 9, round := 14 } _ _ (by decide) (Or.inl rfl) rfl rfl).2.2.1
  · exact (ng_guarantee_honoured_G id gArgs h14 14 h14_reachG
      { caller := 9, round := 14 } _ _ (by decide) (Or.inl rfl) rfl rfl).1

example : h16 = zc_w h15 (upd h15.range 6 none) (upd h15.batch 5 none) h15.blacklist
    (upd h15.claimed 6 true) h15.uts :=
  (empty_range_claim_G id h15 14 (ng_ReachG_iff.mpr ⟨_, h15_reachG⟩) { caller := 6, round := 15 }
    h16 _ ⟨5, 4⟩ (by decide) (Or.inl rfl) rfl (by decide)
    (step_stOf (by decide +kernel) h15).choose_spec).1

/-- `claim_never_starves_G` on the concrete history: the empty-range address 6, the blacklisted
    empty-range address 5 and the winner 7 are all accepted -/
example : (∃ x, step id h15 { caller := 6, round := 15 } .claim = .ok x) ∧
    (∃ x, step id h15 { caller := 5, round := 15 } .claim = .ok x) ∧
    (∃ x, step id h15 { caller := 7, round := 15 } .claim = .ok x) := by
  have hG := ng_ReachG_iff.mpr ⟨_, h15_reachG⟩
  refine ⟨claim_never_starves_G id h15 14 hG { caller := 6, round := 15 } ⟨5, 4⟩ rfl rfl (by decide +kernel) (by decide +kernel) (by decide +kernel)
      (by decide +kernel) (by decide +kernel) (by decide +kernel) (by decide +kernel),
    claim_never_starves_G id h15 14 hG { caller := 5, round := 15 } ⟨1, 0⟩ rfl rfl (by decide +kernel) (by decide +kernel) (by decide +kernel)
      (by decide +kernel) (by decide +kernel) (by decide +kernel) (by decide +kernel),
    claim_never_starves_G id h15 14 hG { caller := 7, round := 15 } ⟨1, 2⟩ rfl rfl (by decide +kernel) (by decide +kernel) (by decide +kernel)
      (by decide +kernel) (by decide +kernel) (by decide +kernel) (by decide +kernel)⟩

/-! ### the zero-size entry WITH migration guarantee (outside `ng_ReachG`; evaluated, not covered
  by the simulation): `(5, 0, 0, true)` enters the whitelist and reserves a ticket; the
  guaranteed-ticket loop turns it into a leftover ticket which the leftover loop re-draws -/

def mAlloc : List (Nat × Nat × Nat × Bool) :=
  [(5, 0, 0, true), (7, 2, 1, false), (8, 1, 0, false), (9, 0, 2, false)]

def m1 : State := stOf (step id g0 { caller := 1, round := 1 } (.addTicketsV1 mAlloc)) g0
def m2 : State := stOf (step id m1 { caller := 1, round := 2, esdts := [⟨.esdt 1, 0, 15⟩] } .deposit) m1
def m3 : State := stOf (step id m2 { caller := 9, round := 3 } .sftSetup) m2
def m4 : State := stOf (step id m3 { caller := 7, round := 5, egld := 20 } (.confirm 2)) m3
def m5 : State := stOf (step id m4 { caller := 8, round := 6, egld := 10 } (.confirm 1)) m4
def m6 : State := stOf (step id m5 { caller := 9, round := 6, egld := 20 } (.confirm 2)) m5
def m10 : State := stOf (step id m6 { caller := 9, round := 11 } .filter) m6
def m11 : State := stOf (step id m10 { caller := 9, round := 12 } .select) m10
def m12 : State := stOf (step id m11 { caller := 9, round := 13 } .secondary) m11

theorem m6_reachZ : ng_ReachZA id gArgs m6 6 :=
  callOkZ { caller := 9, round := 6, egld := 20 } (.confirm 2)
    (callOkZ { caller := 8, round := 6, egld := 10 } (.confirm 1)
      (callOkZ { caller := 7, round := 5, egld := 20 } (.confirm 2)
        (callOkZ { caller := 9, round := 3 } .sftSetup
          (callOkZ { caller := 1, round := 2, esdts := [⟨.esdt 1, 0, 15⟩] } .deposit
            (callOkZ { caller := 1, round := 1 } (.addTicketsV1 mAlloc) g0_reachG.toZ
              (by decide) (Or.inl rfl) rfl)
            (by decide) (Or.inl rfl) rfl)
          (by decide) (Or.inl rfl) rfl)
        (by decide) (Or.inr rfl) rfl)
      (by decide) (Or.inr rfl) rfl)
    (by decide) (Or.inr rfl) rfl

theorem m12_reachZ : ng_ReachZA id gArgs m12 13 :=
  callOkZ { caller := 9, round := 13 } .secondary
    (callOkZ { caller := 9, round := 12 } .select
      (callOkZ { caller := 9, round := 11 } .filter m6_reachZ (by decide) (Or.inl rfl) rfl)
      (by decide) (Or.inl rfl) rfl)
    (by decide) (Or.inl rfl) rfl

/-- the migrated zero-size entry reserves a ticket and enters the whitelist; the reserve law
    `nrWinning + totalGuaranteed = T0` and the deposit are those of the configured winners -/
example : m1.whitelist = [5, 7, 8] ∧ m1.nrWinning = 0 ∧ m1.totalGuaranteed = 3 ∧
    m1.uts 5 = some { a := 0, b := 0, c := 0, d := 1 } ∧ m1.range 5 = some ⟨1, 0⟩ ∧
    m2.bal (.esdt 1) 0 = 15 := by
  refine ⟨rfl, rfl, rfl, rfl, rfl, rfl⟩

/-- ... no base winner is drawn; the combined step tops up 7 and 8 and re-draws the ticket reserved
    for 5: three winners = min 3 5, proceeds 30, the holdings (50 EGLD ticket payments) unchanged -/
example : m10.nrWinning = 0 ∧ m10.lastTicketId = 5 ∧ m11.claimablePayment = 0 ∧
    AllDone m12 ∧ m12.nrWinning = 3 ∧ m12.claimablePayment = 30 ∧ m12.whitelist = [] ∧
    m12.bal .egld 0 = 50 ∧ m12.range 5 = some ⟨1, 0⟩ := by
  refine ⟨rfl, rfl, rfl, ⟨rfl, rfl⟩, rfl, rfl, rfl, rfl, rfl⟩

/-- the reserve part of a zero-size entry WITH migration guarantee, in general: (when a ticket is
    left) the address enters the whitelist, one ticket moves from `nrWinning` to
    `totalGuaranteed`, the record is `{0, 0, 0, 1}` -/
theorem migrated_ghost_reserves {mc : Nat} (hmc : 0 < mc) (wl0 : List Nat) (a tw tg : Nat) :
    zc_one mc wl0 a 0 0 true tw tg =
      if tw = 0 then .error (.user "Too many users with guaranteed ticket")
      else .ok ((setInsert wl0 a).1, { a := 0, b := 0, c := 0, d := 1 }, tw - 1, tg + 1) := by
  have : ¬ (0 ≥ mc) := by omega
  by_cases h : tw = 0 <;> simp [zc_one, this, h]

/-- ... with no confirmed ticket it QUALIFIES for its migration guarantee -/
theorem migrated_ghost_qualifies (mc : Nat) :
    calcV1 { a := 0, b := 0, c := 0, d := 1 } 0 mc = (1, 0) := by
  simp [calcV1]

/-- ... and the top-up over its empty range marks nothing: the guaranteed ticket becomes a
    leftover ticket (exactly as for a holder without range) -/
theorem migrated_ghost_leftover (status : Nat → Bool) (r : Range) (g : Nat) (he : r.last < r.first) :
    processGuaranteed status (some r) g = (status, g, 0) := by
  have h := zc_processGuaranteed status (fun _ => some r) 0 g
  rw [z_eraseR_of_empty (f := fun _ => some r) (a := 0) rfl (by omega)] at h
  exact h.symm

/-- `m1` is not a state of the original development either -/
theorem m1_not_reach (hash : List Nat → List Nat) (r : Nat) : ¬ ng_Reach hash m1 r := by
  intro h
  have := LP.Props.C18reach.ranges_bounded hash m1 r (.nftGuar h) 5 ⟨1, 0⟩ rfl
  exact absurd this.2.1 (by decide)

end LP.Props.C14zeroG


#print axioms LP.Props.C14zeroG.simulation
#print axioms LP.Props.C14zeroG.reach_is_reachG
#print axioms LP.Props.C14zeroG.reachG_is_reachZ
#print axioms LP.Props.C14zeroG.winCountOf_eq
#print axioms LP.Props.C14zeroG.refundDue_eq
#print axioms LP.Props.C14zeroG.done_rngNone
#print axioms LP.Props.C14zeroG.allDone_iff
#print axioms LP.Props.C14zeroG.ng_solvent_general_G
#print axioms LP.Props.C14zeroG.ng_solvent_separate_G
#print axioms LP.Props.C14zeroG.ng_fee_ledger_G
#print axioms LP.Props.C14zeroG.ng_solvent_same_G
#print axioms LP.Props.C14zeroG.ng_three_counts_G
#print axioms LP.Props.C14zeroG.ng_claim_refund_covered_G
#print axioms LP.Props.C14zeroG.calcV1_noGuar
#print axioms LP.Props.C14zeroG.ng_final_winners_G
#print axioms LP.Props.C14zeroG.ng_guarantee_honoured_G
#print axioms LP.Props.C14zeroG.ng_draw_completion_G
#print axioms LP.Props.C14zeroG.ng_secondary_ret_G
#print axioms LP.Props.C14zeroG.ng_nft_lists_G
#print axioms LP.Props.C14zeroG.ng_lp_cover_G
#print axioms LP.Props.C14zeroG.ng_reserve_G
#print axioms LP.Props.C14zeroG.ng_whitelisted_iff_G
#print axioms LP.Props.C14zeroG.ng_owner_surplus_G
#print axioms LP.Props.C14zeroG.ng_lp_zero_at_end_G
#print axioms LP.Props.C14zeroG.empty_range_cannot_confirm
#print axioms LP.Props.C14zeroG.empty_range_claim_G
#print axioms LP.Props.C14zeroG.claim_never_starves_G
#print axioms LP.Props.C14zeroG.callOkG
#print axioms LP.Props.C14zeroG.callOkZ
#print axioms LP.Props.C14zeroG.g0_reachG
#print axioms LP.Props.C14zeroG.h1_reachG
#print axioms LP.Props.C14zeroG.h1_not_reach
#print axioms LP.Props.C14zeroG.h8_reachG
#print axioms LP.Props.C14zeroG.h11_reachG
#print axioms LP.Props.C14zeroG.h14_reachG
#print axioms LP.Props.C14zeroG.h15_reachG
#print axioms LP.Props.C14zeroG.h16_reachG
#print axioms LP.Props.C14zeroG.m6_reachZ
#print axioms LP.Props.C14zeroG.m12_reachZ
#print axioms LP.Props.C14zeroG.m1_not_reach
#print axioms LP.Props.C14zeroG.migrated_ghost_reserves
#print axioms LP.Props.C14zeroG.migrated_ghost_qualifies
#print axioms LP.Props.C14zeroG.migrated_ghost_leftover
#print axioms LP.zc_sim
#print axioms LP.zc_sim_reach
#print axioms LP.zc_sim_step
#print axioms LP.zc_secondary
