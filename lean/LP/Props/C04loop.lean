import LP.Proofs.Loop
/-
  C04 (generic part) — interrupted operations resume to the same result.

  `runWhile body fuel budget s` is the model of `run_while_it_has_gas`.  All statements hold for
  EVERY loop body `body : σ → Res (σ × Bool)`, every state type, every fuel and every budget.
  `runCalls body fuel ks s` performs successive endpoint calls with budgets `ks`, each resuming
  from the state the previous call left (`LP.runCalls`, in `LP/Proofs/Loop.lean`).
-/
namespace LP.Props.C04loop
open LP

variable {σ : Type}

/-- A1. fuel is only a totality device: once a run ends with a status other than `outOfFuel`,
    any larger fuel gives the same result. -/
theorem fuel_mono (body : σ → Res (σ × Bool)) (f f' : Nat) (b b' : Option Nat) (s s' : σ)
    (st : LoopStatus) (h : runWhile body f b s = .ok (s', b', st)) (hst : st ≠ .outOfFuel)
    (hf : f ≤ f') : runWhile body f' b s = .ok (s', b', st) :=
  runWhile_fuel_mono body f b s s' b' st h hst f' hf

/-- A2. a call that completes under a budget ends in the state of the unbudgeted call. -/
theorem completed_budget_irrelevant (body : σ → Res (σ × Bool)) (f k : Nat) (s s' : σ)
    (b' : Option Nat) (h : runWhile body f (some k) s = .ok (s', b', .completed)) :
    runWhile body f none s = .ok (s', none, .completed) :=
  runWhile_completed_budget body f k s s' b' h

/-- A3. resumption: interrupted call, then a completing unbudgeted call from the saved state
    = one unbudgeted call (fuel `f + f2`). -/
theorem resume (body : σ → Res (σ × Bool)) (f f2 k : Nat) (s s1 sf : σ) (b1 : Option Nat)
    (h1 : runWhile body f (some k) s = .ok (s1, b1, .interrupted))
    (h2 : runWhile body f2 none s1 = .ok (sf, none, .completed)) :
    ∃ f3, runWhile body f3 none s = .ok (sf, none, .completed) :=
  ⟨f + f2, runWhile_resume body f f2 k s s1 sf b1 h1 h2⟩

/-- A4. any completing schedule of chunked calls computes the state of the single call. -/
theorem runCalls_eq_single (body : σ → Res (σ × Bool)) (fuel : Nat) (ks : List Nat) (s sf : σ)
    (h : runCalls body fuel ks s = .ok (sf, true)) :
    ∃ f, runWhile body f none s = .ok (sf, none, .completed) :=
  LP.runCalls_eq_single body fuel ks s sf h

/-- A4 (explicit fuel). -/
theorem runCalls_eq_single_fuel (body : σ → Res (σ × Bool)) (fuel : Nat) (ks : List Nat)
    (s sf : σ) (h : runCalls body fuel ks s = .ok (sf, true)) :
    runWhile body (fuel * ks.length) none s = .ok (sf, none, .completed) :=
  LP.runCalls_eq_single_fuel body fuel ks s sf h

/-- A4. determinism: two completing budget schedules (even with different call-local fuel
    bounds) end in the same state. -/
theorem runCalls_deterministic (body : σ → Res (σ × Bool)) (fuel fuel' : Nat)
    (ks ks' : List Nat) (s sf sf' : σ)
    (h : runCalls body fuel ks s = .ok (sf, true))
    (h' : runCalls body fuel' ks' s = .ok (sf', true)) : sf = sf' :=
  LP.runCalls_deterministic body fuel fuel' ks ks' s sf sf' h h'

/-- A4. every interrupted call made progress: budget `k` means exactly `k+1 ≥ 1` iterations were
    performed, and the budget is returned exhausted. -/
theorem interrupted_progress (body : σ → Res (σ × Bool)) (f k : Nat) (s s1 : σ)
    (b1 : Option Nat) (h : runWhile body f (some k) s = .ok (s1, b1, .interrupted)) :
    loopIter body (k+1) s = some s1 ∧ b1 = some 0 ∧ k + 1 ≤ f :=
  runWhile_interrupted_loopIter body f k s s1 b1 h

/-- A4. the step cannot be left stuck: if the single run completes within `N` iterations, any
    `N` (or more) calls complete, with the same state, whatever their budgets. -/
theorem completes_within (body : σ → Res (σ × Bool)) (fuel : Nat) (ks : List Nat) (N : Nat)
    (s sf : σ) (h : runWhile body N none s = .ok (sf, none, .completed)) (hf : N ≤ fuel)
    (hN : N ≤ ks.length) : runCalls body fuel ks s = .ok (sf, true) :=
  runCalls_completes_of_length body fuel ks N s sf h hf hN

/-- A4. sharper: it is enough that the budgets allow `N` iterations in total
    (`budgetIters ks = Σ (kᵢ + 1)`). -/
theorem completes_within_iters (body : σ → Res (σ × Bool)) (fuel : Nat) (ks : List Nat)
    (N : Nat) (s sf : σ) (h : runWhile body N none s = .ok (sf, none, .completed))
    (hf : N ≤ fuel) (hN : N ≤ budgetIters ks) : runCalls body fuel ks s = .ok (sf, true) :=
  runCalls_completes_of_budgetIters body fuel ks N s sf h hf hN

/-- "completes within `N` iterations", spelled out with `loopIter`. -/
theorem completed_iff_loopIter (body : σ → Res (σ × Bool)) (f : Nat) (s sf : σ) :
    runWhile body f none s = .ok (sf, none, .completed) ↔
    ∃ n, n < f ∧ ∃ s', loopIter body n s = some s' ∧ body s' = .ok (sf, false) :=
  runWhile_completed_iff_loopIter body f s sf

/-- A5. a body failure in the second chunk is the failure of the single run. -/
theorem resume_error (body : σ → Res (σ × Bool)) (f f2 k : Nat) (s s1 : σ) (b1 : Option Nat)
    (e : Err) (h1 : runWhile body f (some k) s = .ok (s1, b1, .interrupted))
    (h2 : runWhile body f2 none s1 = .error e) :
    runWhile body (f + f2) none s = .error e :=
  runWhile_resume_error body f f2 k s s1 b1 e h1 h2

/-- A5. a failing budgeted call fails without budget too (same error). -/
theorem error_budget_irrelevant (body : σ → Res (σ × Bool)) (f : Nat) (b : Option Nat) (s : σ)
    (e : Err) (h : runWhile body f b s = .error e) : runWhile body f none s = .error e :=
  runWhile_error_any_budget body f b s e h

/-- A5. a failing chunked schedule: same failure as the single run, unless a call-local fuel
    bound was hit. -/
theorem runCalls_error (body : σ → Res (σ × Bool)) (fuel : Nat) (ks : List Nat) (s : σ)
    (e : Err) (h : runCalls body fuel ks s = .error e) :
    runWhile body (fuel * ks.length) none s = .error e ∨ e = outOfGas :=
  LP.runCalls_error body fuel ks s e h

/-- A5 (converse direction for successes): a run that completes unbudgeted never fails when
    chunked — every sequence of calls returns normally, either completed with the same state or
    still in progress. -/
theorem chunked_no_error (body : σ → Res (σ × Bool)) (fuel : Nat) (ks : List Nat) (N : Nat)
    (s sf : σ) (h : runWhile body N none s = .ok (sf, none, .completed)) (hf : N ≤ fuel) :
    runCalls body fuel ks s = .ok (sf, true) ∨ ∃ s', runCalls body fuel ks s = .ok (s', false) :=
  runCalls_no_error body fuel ks N s sf h hf

/-! ### concrete instances (hypotheses are satisfiable) -/

/-- count up to 5, fail on 7 -/
def demo (n : Nat) : Res (Nat × Bool) :=
  if n = 7 then .error (.user "seven") else if n = 5 then .ok (n, false) else .ok (n + 1, true)

example : runWhile demo 7 none 0 = .ok (5, none, .completed) := rfl
example : runWhile demo 7 (some 1) 0 = .ok (2, some 0, .interrupted) := rfl
example : runWhile demo 7 none 2 = .ok (5, none, .completed) := rfl
example : runWhile demo 7 (some 9) 0 = .ok (5, some 4, .completed) := rfl
example : runCalls demo 7 [1, 0, 3] 0 = .ok (5, true) := rfl
example : runCalls demo 7 [0, 0, 0, 0, 0, 0] 0 = .ok (5, true) := rfl
example : runCalls demo 7 [0, 0] 0 = .ok (2, false) := rfl
example : loopIter demo 2 0 = some 2 := by decide
example : runWhile demo 3 (some 0) 6 = .ok (7, some 0, .interrupted) := rfl
example : runWhile demo 3 none 7 = .error (.user "seven") := rfl
example : runWhile demo 6 none 6 = .error (.user "seven") := rfl

end LP.Props.C04loop

#print axioms LP.Props.C04loop.fuel_mono
#print axioms LP.Props.C04loop.completed_budget_irrelevant
#print axioms LP.Props.C04loop.resume
#print axioms LP.Props.C04loop.runCalls_eq_single
#print axioms LP.Props.C04loop.runCalls_eq_single_fuel
#print axioms LP.Props.C04loop.runCalls_deterministic
#print axioms LP.Props.C04loop.interrupted_progress
#print axioms LP.Props.C04loop.completes_within
#print axioms LP.Props.C04loop.completes_within_iters
#print axioms LP.Props.C04loop.completed_iff_loopIter
#print axioms LP.Props.C04loop.resume_error
#print axioms LP.Props.C04loop.error_budget_irrelevant
#print axioms LP.Props.C04loop.runCalls_error
#print axioms LP.Props.C04loop.chunked_no_error
