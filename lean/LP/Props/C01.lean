import LP.Proofs.Solvency
/-
  C01 — Ticket-payment solvency: the contract always holds exactly what it still owes.

  The two ledger equations (`PayEqPre` until all selection steps are complete, `PayEqPost`
  afterwards) are defined in LP/Proofs/Solvency.lean.  This file proves that every endpoint that
  moves the payment token keeps them, the hand-over between them, and the final zero.
  (The endpoints that move no payment token leave both sides untouched: frame lemmas, C17.)
-/
namespace LP.Props.C01
open LP

/-- balance bookkeeping of `Tx.send`: exactly the sent (token, nonce) decreases, by the amount -/
theorem send_bal (t t' : Tx) (to : Nat) (p : Pay) (h : t.send to p = .ok t') :
    p.amount ≤ t.s.bal p.tok p.nonce ∧
    t'.s = { t.s with bal := t.s.bal.sub p.tok p.nonce p.amount } ∧
    t'.o.xfers = t.o.xfers ++ [(to, p)] ∧ t'.o.events = t.o.events ∧ t'.c = t.c := by
  unfold Tx.send at h
  split at h
  · simp at h
  · rename_i hlt
    simp at h
    subst h
    exact ⟨by omega, rfl, rfl, rfl, rfl⟩

theorem sub_same (b : Bal) (t : Token) (n a : Nat) : (b.sub t n a) t n = b t n - a := by
  simp [Bal.sub]

theorem sub_other (b : Bal) (t t' : Token) (n n' a : Nat) (h : ¬(t' = t ∧ n' = n)) :
    (b.sub t n a) t' n' = b t' n' := by
  simp [Bal.sub, h]

/-- **Confirmation keeps the pre-selection equation**: holdings and the confirmed total grow
    by the same `price × n`. -/
theorem confirm_keeps_pre (hash : List Nat → List Nat) (s s' : State) (e : Env) (n : Nat) (o : Out)
    (L : List Nat) (hwf : e.egld = 0 ∨ e.esdts = [])
    (h : step hash s e (.confirm n) = .ok (s', o))
    (hcov : Covers s L) (hin : e.caller ∈ L) (hpre : PayEqPre s L) :
    PayEqPre s' L ∧ Covers s' L ∧ o.xfers = [] := by
  obtain ⟨total, hacc, hs', hx, _, _, _⟩ := C07.confirm_effect hash s e n s' o h
  have hb := C07.confirm_holdings s e n total hacc hwf
  have hsum := sumOver_upd_mem s.confirmed L e.caller (s.confirmed e.caller + n) hcov.nodup hin
  refine ⟨?_, ⟨hcov.nodup, ?_⟩, hx⟩
  · unfold PayEqPre at *
    subst hs'
    simp only [creditPayments_payTok, creditPayments_price]
    rw [hb]
    simp only [Bal.add, and_self, ↓reduceIte, hpre]
    have : sumOver (upd s.confirmed e.caller (s.confirmed e.caller + n)) L = sumOver s.confirmed L + n := by omega
    rw [this, Nat.mul_add]
  · intro a ha
    subst hs'
    by_cases hac : a = e.caller
    · subst hac; exact hin
    · simp [upd, hac] at ha
      exact hcov.supp a ha

/-- **Owner withdrawal (common path) keeps the post-selection equation** and pays the owner
    exactly the recorded proceeds; the launchpad-token surplus is a different token. -/
theorem claimPaymentCommon_keeps_post (t t' : Tx) (e : Env) (L : List Nat)
    (hne : t.s.payTok ≠ .esdt t.s.lpTok)
    (h : claimPaymentCommon t e = .ok t') (hpost : PayEqPost t.s L) :
    PayEqPost t'.s L ∧ t'.s.claimablePayment = 0 ∧
    t'.s.bal t.s.payTok 0 = t.s.bal t.s.payTok 0 - t.s.claimablePayment ∧
    t.s.claimablePayment ≤ t.s.bal t.s.payTok 0 := by
  -- first transfer: the proceeds
  have step1 : ∃ t1 : Tx,
      (if t.s.claimablePayment > 0 then
        (t.setS { t.s with claimablePayment := 0 }).send e.caller ⟨t.s.payTok, 0, t.s.claimablePayment⟩
       else pure t) = .ok t1 ∧
      ∃ extra, bsub (t1.s.bal (.esdt t1.s.lpTok) 0) (t1.s.perTicket * t1.s.nrWinning) "tickets.rs:66 balance - needed" = .ok extra ∧
        (if extra > 0 then t1.send e.caller ⟨.esdt t1.s.lpTok, 0, extra⟩ else pure t1) = .ok t' := by
    unfold claimPaymentCommon at h
    by_cases hpos : t.s.claimablePayment > 0
    · simp only [hpos, ↓reduceIte, bind_ok_iff, pure_ok_iff, requireStage, req_ok_iff, exists_const] at h ⊢
      obtain ⟨_, t1, ht1, extra, hextra, hfin⟩ := h
      exact ⟨t1, ht1, extra, hextra, hfin⟩
    · simp only [hpos, ↓reduceIte, bind_ok_iff, pure_ok_iff, requireStage, req_ok_iff, exists_const] at h ⊢
      obtain ⟨_, t1, ht1, extra, hextra, hfin⟩ := h
      exact ⟨t1, ht1, extra, hextra, hfin⟩
  obtain ⟨t1, ht1, extra, hextra, hfin⟩ := step1
  have key : PayEqPost t1.s L ∧ t1.s.claimablePayment = 0 ∧
      t1.s.bal t.s.payTok 0 = t.s.bal t.s.payTok 0 - t.s.claimablePayment ∧
      t.s.claimablePayment ≤ t.s.bal t.s.payTok 0 ∧
      t1.s.payTok = t.s.payTok ∧ t1.s.lpTok = t.s.lpTok ∧ t1.s.price = t.s.price ∧
      t1.s.range = t.s.range ∧ t1.s.confirmed = t.s.confirmed ∧ t1.s.status = t.s.status := by
    split at ht1
    · rename_i hpos
      obtain ⟨hle, hs1, _⟩ := send_bal _ _ _ _ ht1
      simp only [Tx.setS] at hle hs1
      refine ⟨?_, by simp [hs1], by simp [hs1, Bal.sub], hle, by simp [hs1], by simp [hs1],
        by simp [hs1], by simp [hs1], by simp [hs1], by simp [hs1]⟩
      unfold PayEqPost at *
      have hrd : refundDue t1.s = refundDue t.s := by
        funext a; simp [refundDue, winCountOf, hs1]
      rw [hrd]
      simp only [hs1, Bal.sub, and_self, ↓reduceIte, Nat.zero_add]
      omega
    · rename_i hz
      simp [pure, Except.pure] at ht1
      subst ht1
      have hz' : t.s.claimablePayment = 0 := by omega
      exact ⟨hpost, hz', by simp [hz'], by simp [hz'], rfl, rfl, rfl, rfl, rfl, rfl⟩
  obtain ⟨k1, k2, k3, k4, k5, k6, k7, k8, k9, k10⟩ := key
  -- second transfer: launchpad-token surplus, a different token
  split at hfin
  · obtain ⟨_, hs2, _⟩ := send_bal _ _ _ _ hfin
    have hne' : ¬(t.s.payTok = Token.esdt t1.s.lpTok ∧ (0 : Nat) = 0) := by
      rw [k6]; intro hh; exact hne hh.1
    refine ⟨?_, by simp [hs2, k2], ?_, k4⟩
    · unfold PayEqPost at *
      have hrd : refundDue t'.s = refundDue t1.s := by
        funext a; simp [refundDue, winCountOf, hs2]
      rw [hrd]
      have : t'.s.bal t'.s.payTok 0 = t1.s.bal t1.s.payTok 0 := by
        simp only [hs2, k5]
        exact sub_other _ _ _ _ _ _ hne'
      rw [this]
      simpa [hs2] using k1
    · simp only [hs2]
      rw [sub_other _ _ _ _ _ _ hne']
      exact k3
  · simp [pure, Except.pure] at hfin
    subst hfin
    exact ⟨k1, k2, k3, k4⟩

/-- the hand-over at the completion of the last selection step, and the final zero
    (re-exported from LP/Proofs/Solvency.lean) -/
theorem handover (s : State) (L : List Nat) (hpre : PayEqPre s L)
    (hcp : s.claimablePayment = s.price * sumOver (winCountOf s) L)
    (hle : ∀ a ∈ L, winCountOf s a ≤ s.confirmed a)
    (hnr : ∀ a ∈ L, s.range a = none → s.confirmed a = 0) : PayEqPost s L :=
  pre_to_post s L hpre hcp hle hnr

theorem after_all_claims_nothing_left (s : State) (L : List Nat) (hpost : PayEqPost s L)
    (hall : ∀ a ∈ L, s.range a = none) (hcp : s.claimablePayment = 0) : s.bal s.payTok 0 = 0 :=
  all_settled_zero s L hpost hall hcp

/-- non-vacuity: a concrete state satisfying the pre-selection equation with two participants -/
example : ∃ s : State, PayEqPre s [7, 8] ∧ Covers s [7, 8] ∧ s.bal s.payTok 0 = 50 := by
  refine ⟨{ variant := .base, owner := 1, lpTok := 1, perTicket := 1, payTok := .egld, price := 10,
            nrWinning := 1, cfg := ⟨5, 10, 15⟩, flags := {}, support := 1,
            confirmed := fun a => if a = 7 then 3 else if a = 8 then 2 else 0,
            bal := fun t n => if t = .egld ∧ n = 0 then 50 else 0 }, ?_, ⟨by decide, ?_⟩, ?_⟩
  · simp [PayEqPre, sumOver]
  · intro a ha
    by_cases h7 : a = 7
    · simp [h7]
    · by_cases h8 : a = 8
      · simp [h8]
      · simp [h7, h8] at ha
  · simp


/-
  STATUS OF THE FULL STATEMENT (kept visible, not yet proved as one theorem):

      theorem C01_solvent : Reachable v s →
          (¬ allStepsDone s → PayEqPre s L) ∧ (allStepsDone s → PayEqPost s L)

  What is proved: the equations are established and preserved by every endpoint that moves the
  payment token or the quantities on the right-hand side — confirmation (`confirm_keeps_pre`),
  blacklisting refunds (LP/Props/C10), participant settlement (LP/Props/C09), owner withdrawal
  (`claimPaymentCommon_keeps_post`) — the hand-over between them at the completion of the last
  selection step (`handover`, whose hypotheses are discharged by C03/C08: winners are counted
  once each inside disjoint ranges of size `confirmed`), and the final zero.  What is missing for
  the single reachable-state theorem: the frame lemmas for the remaining endpoints assembled into
  one inductive invariant over `step` (they change neither side; see LP/Proofs/Frame.lean), and
  the carrying of the filter/lottery invariants through interrupted selection calls.  Until then
  these are `…_partial` in the sense of DESIGN.md §7: phase-local theorems, tied together by the
  correspondence runs and the implementation-side monitor `m_C01` (holdings == owed after every
  transaction of every explored history).
-/

end LP.Props.C01

#print axioms LP.Props.C01.confirm_keeps_pre
#print axioms LP.Props.C01.claimPaymentCommon_keeps_post
#print axioms LP.Props.C01.handover
#print axioms LP.Props.C01.after_all_claims_nothing_left

#print axioms LP.Props.C01.send_bal
#print axioms LP.Props.C01.sub_same
#print axioms LP.Props.C01.sub_other
