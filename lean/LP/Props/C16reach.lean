import LP.Proofs.LockedGuarClaim
import LP.Props.C02reach
import LP.Props.AllVariants
/-
  C16 (reachable-state form) — the locked-token variants split a winner's tokens exactly between
  the lock contract and the wallet.

  The two contracts with a lock are `Variant.locked` (launchpad-locked-tokens, reachable states
  `Reach hash .locked`) and `Variant.lockedGuar` (launchpad-locked-tokens-and-guaranteed-tickets,
  reachable states `v1_Reach hash .lockedGuar`).

  1  `winner_receives_exact_lockedGuar`   the split, exactly, at every reachable state of `lockedGuar`
     (the `locked` case is `LP.PL.winner_receives_exact_locked`, LP/Props/C02reach.lean)
  2  `C16_every_locked_variant`           one statement for both, through `ReachOf`;
     `winner_covered_v1`, `winner_covered_every_locked_variant`   every unsettled participant is covered
  3  `lock_terms_frozen` (`run` form, every variant), `lock_terms_frozen_step`,
     `lock_terms_are_deployment_args`; `no_lock_call_without_lock(_run)`: the six variants without a
     lock never make a lock call; `lock_calls_only_from_claims`: in every variant only `claim` can
  4  a winner's cumulative receipts.  `lk_runLog hash s hist` (LP/Proofs/LockedGuarClaim.lean) is the list
     of accepted transactions `(state it ran in, env, call, outputs)` of a history (mirrors `run`);
     `lockedFor a locks` sums the lock calls with destination `a`, `directTo lp a xfers` the direct
     transfers of the fungible token `lp` to `a`; `received`, `totalReceived` add them up over one
     transaction / a log.  `receipts_per_transaction`, `winner_total_receipts`,
     `winner_total_receipts_of_claim`, `winner_total_receipts_no_claim`.
     Side conditions `a ≠ owner` (the owner also receives the launchpad-token surplus through
     `claimPayment`) and `a ≠ lockAddr` (the lock contract receives every locked part); both are
     necessary, see the examples at the end.  The histories are arbitrary (`run` form: no `EnvOK`,
     no `CallOK`, no monotone rounds): only static facts of the reachable starting state are used.
-/
namespace LP.Props.C16reach
open LP LP.FY LP.Props.C09 LP.Props.AllVariants
open LP.Props.C02 (LpCover)

/-! ### 1. the second locked variant -/

/-- **locked guaranteed-ticket launchpad, the split exactly**: an accepted `claim` in a reachable
    state happens after ALL selection steps (lottery and distribution); with
    `amount = winning × perTicket` and `L = pl_lockedAmt s e amount`
    (`= lockSplit amount lockPct = amount × lockPct / 10000` before the unlock epoch, `0` from the
    unlock epoch on), after the refund the caller's entitlement leaves as one transfer of `L` to the
    lock contract `lockAddr` with the lock call `(unlockEpoch, caller, L)` (if `L > 0`) and one direct
    transfer of `amount − L` to the caller (if positive); `L + (amount − L) = amount`;
    `0 < lockPct ≤ 10000`.  The caller's winning tickets are among the outstanding winners, the
    launchpad tokens held cover them (and, from the deposit on, ALL outstanding winners: `LpCover`);
    the launchpad-token balance drops by exactly the entitlement, `nrWinning` by the caller's winning
    tickets; the caller's range is gone and he is marked as claimed. -/
theorem winner_receives_exact_lockedGuar (hash : List Nat → List Nat) (s : State) (r : Nat)
    (h : v1_Reach hash .lockedGuar s r) (e : Env) (s' : State) (o : Out)
    (hs : step hash s e .claim = .ok (s', o)) :
    o.locks = (if pl_lockedAmt s e (winCountOf s e.caller * s.perTicket) > 0
      then [(s.unlockEpoch, e.caller, pl_lockedAmt s e (winCountOf s e.caller * s.perTicket))] else []) ∧
    o.xfers = refundXfers s e.caller
      ++ (if pl_lockedAmt s e (winCountOf s e.caller * s.perTicket) > 0
          then [(s.lockAddr, (⟨.esdt s.lpTok, 0,
            pl_lockedAmt s e (winCountOf s e.caller * s.perTicket)⟩ : Pay))] else [])
      ++ (if winCountOf s e.caller * s.perTicket
            - pl_lockedAmt s e (winCountOf s e.caller * s.perTicket) > 0
          then [(e.caller, (⟨.esdt s.lpTok, 0, winCountOf s e.caller * s.perTicket
            - pl_lockedAmt s e (winCountOf s e.caller * s.perTicket)⟩ : Pay))] else []) ∧
    pl_lockedAmt s e (winCountOf s e.caller * s.perTicket)
      + (winCountOf s e.caller * s.perTicket - pl_lockedAmt s e (winCountOf s e.caller * s.perTicket))
      = winCountOf s e.caller * s.perTicket ∧
    (e.epoch < s.unlockEpoch → pl_lockedAmt s e (winCountOf s e.caller * s.perTicket)
      = lockSplit (winCountOf s e.caller * s.perTicket) s.lockPct) ∧
    (s.unlockEpoch ≤ e.epoch → pl_lockedAmt s e (winCountOf s e.caller * s.perTicket) = 0) ∧
    0 < s.lockPct ∧ s.lockPct ≤ 10000 ∧
    AllDone s ∧ winCountOf s e.caller ≤ s.nrWinning ∧
    s.perTicket * winCountOf s e.caller ≤ s.bal (.esdt s.lpTok) 0 ∧
    (s.deposited = true → LpCover s) ∧
    s'.nrWinning = s.nrWinning - winCountOf s e.caller ∧
    s'.bal (.esdt s'.lpTok) 0 = s.bal (.esdt s.lpTok) 0 - s.perTicket * winCountOf s e.caller ∧
    s'.perTicket = s.perTicket ∧ s'.range e.caller = none ∧ s'.claimed e.caller = true := by
  have hvar : s.variant = .lockedGuar := lk_v1_reach_variant (Or.inr rfl) h
  obtain ⟨a0, h0⟩ := v1_Reach_iff.mp h
  have hwf := v1_reach_WF (Or.inr rfl) h0
  have hl : s.variant.hasLock = true := by rw [hvar]; rfl
  obtain ⟨k1, k2, k3⟩ := lk_claim_locked_out hl hwf.static.2 hs
  obtain ⟨m1, _, _, m4, m5, m6, m7, m8, m9, m10⟩ := lk_claim_state hl hwf.static.2 hwf.tokNe hs
  obtain ⟨hsel, hadd, _, _⟩ := v1_stage_claim m1
  refine ⟨k1, k2, k3, fun he => by simp [pl_lockedAmt, he], fun he => ?_, lk_v1_reach_lockPct_pos h,
    hwf.static.2, ⟨hsel, hadd⟩, m4, m5,
    fun hd => (LP.Props.C01reachV1.lp_cover_v1 hash .lockedGuar (Or.inr rfl) s r h hd).1,
    m6, m7, m8, m9, m10⟩
  have : ¬ e.epoch < s.unlockEpoch := by omega
  simp [pl_lockedAmt, this]

/-! ### 2. both locked variants in one statement -/

/-- the variants with a lock contract -/
def LockedVariant (v : Variant) : Prop := v = .locked ∨ v = .lockedGuar

theorem lockedVariant_iff (v : Variant) : LockedVariant v ↔ v.hasLock = true := by
  cases v <;> simp [LockedVariant, Variant.hasLock]

/-- **C16 for every locked-token variant, at every reachable state**: in both contracts with a lock
    (`locked`, `lockedGuar`) an accepted `claim` at a reachable state delivers the caller's
    entitlement `amount = winning × perTicket` as exactly one lock call `(unlockEpoch, caller, L)`
    carried by one transfer of `L` to the lock contract (none if `L = 0`) followed by exactly one
    direct transfer of `amount − L` to the caller (none if zero), after the refund, where
    `L = amount × lockPct / 10000` before the unlock epoch and `0` from the unlock epoch on; the two
    parts add up to the entitlement; `0 < lockPct ≤ 10000`; the claim happens after all selection
    steps, the entitlement is covered by the launchpad tokens held, and leaves the balance exactly. -/
theorem C16_every_locked_variant (hash : List Nat → List Nat) (v : Variant) (hv : LockedVariant v)
    (s : State) (r : Nat) (h : ReachOf hash v s r) (e : Env) (s' : State) (o : Out)
    (hs : step hash s e .claim = .ok (s', o)) :
    s.variant = v ∧
    o.locks = (if pl_lockedAmt s e (winCountOf s e.caller * s.perTicket) > 0
      then [(s.unlockEpoch, e.caller, pl_lockedAmt s e (winCountOf s e.caller * s.perTicket))] else []) ∧
    o.xfers = refundXfers s e.caller
      ++ (if pl_lockedAmt s e (winCountOf s e.caller * s.perTicket) > 0
          then [(s.lockAddr, (⟨.esdt s.lpTok, 0,
            pl_lockedAmt s e (winCountOf s e.caller * s.perTicket)⟩ : Pay))] else [])
      ++ (if winCountOf s e.caller * s.perTicket
            - pl_lockedAmt s e (winCountOf s e.caller * s.perTicket) > 0
          then [(e.caller, (⟨.esdt s.lpTok, 0, winCountOf s e.caller * s.perTicket
            - pl_lockedAmt s e (winCountOf s e.caller * s.perTicket)⟩ : Pay))] else []) ∧
    pl_lockedAmt s e (winCountOf s e.caller * s.perTicket)
      + (winCountOf s e.caller * s.perTicket - pl_lockedAmt s e (winCountOf s e.caller * s.perTicket))
      = winCountOf s e.caller * s.perTicket ∧
    (e.epoch < s.unlockEpoch → pl_lockedAmt s e (winCountOf s e.caller * s.perTicket)
      = lockSplit (winCountOf s e.caller * s.perTicket) s.lockPct) ∧
    (s.unlockEpoch ≤ e.epoch → pl_lockedAmt s e (winCountOf s e.caller * s.perTicket) = 0) ∧
    0 < s.lockPct ∧ s.lockPct ≤ 10000 ∧
    AllDone s ∧ winCountOf s e.caller ≤ s.nrWinning ∧
    s.perTicket * winCountOf s e.caller ≤ s.bal (.esdt s.lpTok) 0 ∧
    (s.deposited = true → LpCover s) ∧
    s'.nrWinning = s.nrWinning - winCountOf s e.caller ∧
    s'.bal (.esdt s'.lpTok) 0 = s.bal (.esdt s.lpTok) 0 - s.perTicket * winCountOf s e.caller ∧
    s'.perTicket = s.perTicket ∧ s'.range e.caller = none ∧ s'.claimed e.caller = true := by
  rcases hv with rfl | rfl
  · have h' : Reach hash .locked s r := h
    obtain ⟨k1, k2, k3, k4, k5, k6, k7⟩ := LP.PL.winner_receives_exact_locked hash s r h' e s' o hs
    obtain ⟨hd, rg, nl, nd, _, _, _, _, _, _, _, _, _, m11, m12, m13, m14, m15, m16, m17⟩ :=
      LP.PL.winner_receives_exact_plain hash .locked (Or.inr rfl) s r h' e s' o hs
    exact ⟨LP.PL.reach_variant (Or.inr rfl) h', k1, k2, k3, k4, k5, k6, k7, hd, m11, m12,
      fun hdep => LP.PL.lp_cover_plain hash .locked (Or.inr rfl) s r h' hdep, m13, m14, m15, m16, m17⟩
  · have h' : v1_Reach hash .lockedGuar s r := h
    exact ⟨lk_v1_reach_variant (Or.inr rfl) h',
      winner_receives_exact_lockedGuar hash s r h' e s' o hs⟩

/-- **any unsettled participant is covered** (locked guaranteed-ticket launchpad and its sibling
    `migration`): in EVERY reachable state after completion — whatever claims and owner withdrawals
    happened before — the launchpad tokens held cover `perTicket × (winning tickets)` of every
    participant, and his winning tickets are among the outstanding winners -/
theorem winner_covered_v1 (hash : List Nat → List Nat) (v : Variant) (hv : v1_Fam v) (s : State)
    (r : Nat) (h : v1_Reach hash v s r) (hd : AllDone s) (a : Nat) :
    s.perTicket * winCountOf s a ≤ s.bal (.esdt s.lpTok) 0 ∧ winCountOf s a ≤ s.nrWinning := by
  obtain ⟨L, _, _, hwin, hle, hrg⟩ := LP.Props.C01reachV1.three_counts_v1 hash v hv s r h hd
  have hwn : winCountOf s a ≤ s.nrWinning := by
    cases hr : s.range a with
    | none => simp [winCountOf, hr]
    | some rg =>
      rw [← hwin]
      exact rb_le_sumOver (winCountOf s) L a (hrg a rg hr).1
  refine ⟨?_, hwn⟩
  cases hdep : s.deposited with
  | false =>
    have h0 : winCountOf s a = 0 := by
      have := hle a
      rw [lk_v1_reach_noConf h hdep a] at this
      omega
    rw [h0]; simp
  | true =>
    exact Nat.le_trans (Nat.mul_le_mul_left _ hwn)
      (LP.Props.C01reachV1.lp_cover_v1 hash v hv s r h hdep).1

/-- ... in both locked variants -/
theorem winner_covered_every_locked_variant (hash : List Nat → List Nat) (v : Variant)
    (hv : LockedVariant v) (s : State) (r : Nat) (h : ReachOf hash v s r) (hd : AllDone s) (a : Nat) :
    s.perTicket * winCountOf s a ≤ s.bal (.esdt s.lpTok) 0 ∧ winCountOf s a ≤ s.nrWinning := by
  rcases hv with rfl | rfl
  · exact LP.PL.winner_covered_plain hash .locked (Or.inr rfl) s r h hd a
  · exact winner_covered_v1 hash .lockedGuar (Or.inr rfl) s r h hd a

/-! ### 3. the lock terms are frozen; only claims of locked variants make lock calls -/

/-- **`lockPct`, `unlockEpoch`, `lockAddr` never change**: along ANY history of ANY variant (any
    calls, any arguments, call values and rounds; rejected transactions leave no trace) the three
    lock terms — and the variant — are those of the starting state -/
theorem lock_terms_frozen (hash : List Nat → List Nat) (s : State) (hist : List (Env × Call)) :
    (run hash s hist).lockPct = s.lockPct ∧ (run hash s hist).unlockEpoch = s.unlockEpoch ∧
    (run hash s hist).lockAddr = s.lockAddr ∧ (run hash s hist).variant = s.variant := by
  obtain ⟨h1, h2, h3, h4, _⟩ := lk_run_terms hash s hist
  exact ⟨h1, h2, h3, h4⟩

/-- one accepted call (frame over all 31 endpoints of all 8 variants) -/
theorem lock_terms_frozen_step (hash : List Nat → List Nat) (s : State) (e : Env) (c : Call)
    (s' : State) (o : Out) (hs : step hash s e c = .ok (s', o)) :
    s'.lockPct = s.lockPct ∧ s'.unlockEpoch = s.unlockEpoch ∧ s'.lockAddr = s.lockAddr := by
  obtain ⟨k1, k2⟩ := pl_step_lockAddr hs
  exact ⟨pl_step_lockPct hs, k2, k1⟩

/-- the lock terms of a locked variant are, for ever, the deployment arguments, which satisfy
    `0 < lockPct ≤ 10000`, `unlockEpoch` after the deployment epoch, `lockAddr` a contract -/
theorem lock_terms_are_deployment_args (hash : List Nat → List Nat) (v : Variant)
    (hv : LockedVariant v) (a : InitArgs) (e0 : Env) (s0 : State) (hi : init v a e0 = .ok s0)
    (hist : List (Env × Call)) :
    (run hash s0 hist).lockPct = a.lockPct ∧ (run hash s0 hist).unlockEpoch = a.unlockEpoch ∧
    (run hash s0 hist).lockAddr = a.lockAddr ∧
    0 < a.lockPct ∧ a.lockPct ≤ 10000 ∧ e0.epoch < a.unlockEpoch ∧
    a.lockAddr ≠ 0 ∧ e0.isContract a.lockAddr = true := by
  obtain ⟨h1, h2, h3, _⟩ := lock_terms_frozen hash s0 hist
  rw [h1, h2, h3]
  unfold init at hi
  rcases hv with rfl | rfl <;>
    simp only [Variant.hasNft, Variant.v1Alloc, Variant.hasLock, Variant.noAdditionalStep, bind_ok_iff,
      req_ok_iff, pure_ok_iff, pure_bind,
      exists_const, if_true, if_false, Bool.false_eq_true, reduceCtorEq, decide_eq_true_eq,
      bne_iff_ne, ne_eq, not_false_eq_true, beq_iff_eq, Bool.and_eq_true] at hi
  · obtain ⟨_, _, _, _, _, _, ⟨h7, h8⟩, h9, ⟨h10, h11⟩, hi⟩ := hi
    subst hi
    exact ⟨rfl, rfl, rfl, h7, h8, h9, h10, h11⟩
  · obtain ⟨_, _, _, _, _, _, _, ⟨h7, h8⟩, h9, ⟨h10, h11⟩, hi⟩ := hi
    subst hi
    exact ⟨rfl, rfl, rfl, h7, h8, h9, h10, h11⟩

/-- **a variant without a lock never makes a lock call**: every accepted call of the six contracts
    with `hasLock = false` has `o.locks = []` -/
theorem no_lock_call_without_lock (hash : List Nat → List Nat) (s : State) (e : Env) (c : Call)
    (s' : State) (o : Out) (hv : s.variant.hasLock = false) (hs : step hash s e c = .ok (s', o)) :
    o.locks = [] :=
  lk_step_locks (fun _ => hv) hs

/-- ... along any history: no entry of the log of accepted transactions carries a lock call -/
theorem no_lock_call_without_lock_run (hash : List Nat → List Nat) (s : State)
    (hv : s.variant.hasLock = false) (hist : List (Env × Call)) :
    ∀ x ∈ lk_runLog hash s hist, x.2.2.2.locks = [] := by
  intro x hx
  obtain ⟨h1, h2, s', _, k2, k3⟩ := lk_runLog_mem hash hist s x hx
  refine no_lock_call_without_lock hash x.1 x.2.1 x.2.2.1 s' x.2.2.2 ?_ k3
  rw [k2, (lock_terms_frozen hash s h1).2.2.2]
  exact hv

/-- in EVERY variant only the `claim` endpoint can make a lock call -/
theorem lock_calls_only_from_claims (hash : List Nat → List Nat) (s : State) (e : Env) (c : Call)
    (s' : State) (o : Out) (hc : c ≠ .claim) (hs : step hash s e c = .ok (s', o)) : o.locks = [] :=
  lk_step_locks (fun h => absurd h hc) hs

/-! ### 4. a winner's cumulative receipts -/

/-- the static facts the history-level statements need hold in every reachable state of both
    locked variants -/
theorem static_of_reach (hash : List Nat → List Nat) (v : Variant) (hv : LockedVariant v)
    (s : State) (r : Nat) (h : ReachOf hash v s r) : LkStatic s := by
  rcases hv with rfl | rfl
  · have h' : Reach hash .locked s r := h
    obtain ⟨T0, hI⟩ := pl_reach (Or.inr rfl) h'
    exact ⟨by rw [LP.PL.reach_variant (Or.inr rfl) h']; rfl, hI.base.pct, hI.base.tokNe⟩
  · have h' : v1_Reach hash .lockedGuar s r := h
    obtain ⟨a0, h0⟩ := v1_Reach_iff.mp h'
    have hwf := v1_reach_WF (Or.inr rfl) h0
    exact ⟨by rw [lk_v1_reach_variant (Or.inr rfl) h']; rfl, hwf.static.2, hwf.tokNe⟩

/-- **one accepted transaction**: from a reachable state of a locked variant, after ANY history,
    an accepted transaction gives `a` (neither the owner, who also receives the launchpad-token
    surplus through `claimPayment`, nor the lock contract, which receives every locked part) exactly
    his entitlement `perTicket × winning tickets` — lock calls with destination `a` plus direct
    launchpad-token transfers to `a` — if it is his `claim`, and nothing otherwise -/
theorem receipts_per_transaction (hash : List Nat → List Nat) (v : Variant) (hv : LockedVariant v)
    (s : State) (r : Nat) (h : ReachOf hash v s r) (hist : List (Env × Call)) (a : Nat)
    (ha1 : a ≠ s.owner) (ha2 : a ≠ s.lockAddr) (e : Env) (c : Call) (s' : State) (o : Out)
    (hs : step hash (run hash s hist) e c = .ok (s', o)) :
    received s.lpTok a o =
      if isClaimBy a (run hash s hist, e, c, o) = true
      then (run hash s hist).perTicket * winCountOf (run hash s hist) a else 0 := by
  obtain ⟨_, _, t3, _, t5, t6⟩ := lk_run_terms hash s hist
  have hS1 : LkStatic (run hash s hist) :=
    lk_run_keeps hash LkStatic (fun _ _ _ _ _ hx hp => lk_step_static hp hx) hist s
      (static_of_reach hash v hv s r h)
  have := lk_step_received hS1 (a := a) (by rw [t6]; exact ha1) (by rw [t3]; exact ha2) hs
  rw [t5] at this
  exact this

/-- **C16 total, a winner's cumulative receipts**: from a reachable state of a locked variant,
    along ANY history (any calls by anybody, any arguments; rejected transactions leave no trace),
    the lock calls with destination `a` and the direct launchpad-token transfers to `a` over all
    accepted transactions add up to exactly `perTicket × winning tickets of a`, read in the state
    in which his first accepted `claim` ran — and to nothing if he makes no accepted claim; there is
    at most one accepted claim per address.  (`a` is neither the owner nor the lock contract.) -/
theorem winner_total_receipts (hash : List Nat → List Nat) (v : Variant) (hv : LockedVariant v)
    (s : State) (r : Nat) (h : ReachOf hash v s r) (hist : List (Env × Call)) (a : Nat)
    (ha1 : a ≠ s.owner) (ha2 : a ≠ s.lockAddr) :
    totalReceived s.lpTok a (lk_runLog hash s hist) =
      (match (lk_runLog hash s hist).find? (isClaimBy a) with
       | some x => x.1.perTicket * winCountOf x.1 a
       | none => 0) ∧
    ((lk_runLog hash s hist).filter (isClaimBy a)).length ≤ 1 :=
  lk_total_received hash a hist s (static_of_reach hash v hv s r h) ha1 ha2

/-- ... with the claim exhibited: if the history is `h1`, then `a`'s accepted `claim`, then `h2`,
    he receives over the whole history exactly `perTicket × (his winning tickets)` as they stand
    when he claims (`perTicket` is the deposit-time value once the deposit is made); no other
    accepted claim by `a` occurs before or after, and every later claim by `a` is rejected -/
theorem winner_total_receipts_of_claim (hash : List Nat → List Nat) (v : Variant)
    (hv : LockedVariant v) (s : State) (r : Nat) (h : ReachOf hash v s r) (a : Nat)
    (ha1 : a ≠ s.owner) (ha2 : a ≠ s.lockAddr) (h1 h2 : List (Env × Call)) (e : Env) (s2 : State)
    (o : Out) (hca : e.caller = a) (hs : step hash (run hash s h1) e .claim = .ok (s2, o)) :
    totalReceived s.lpTok a (lk_runLog hash s (h1 ++ (e, .claim) :: h2))
      = (run hash s h1).perTicket * winCountOf (run hash s h1) a ∧
    (s.deposited = true → (run hash s h1).perTicket = s.perTicket) ∧
    (∀ x ∈ lk_runLog hash s h1, isClaimBy a x = false) ∧
    (∀ x ∈ lk_runLog hash s2 h2, isClaimBy a x = false) ∧
    (∀ e2 : Env, e2.caller = a → ∃ err, step hash (run hash s2 h2) e2 .claim = .error err) := by
  have hS := static_of_reach hash v hv s r h
  obtain ⟨k1, k2, k3⟩ := lk_total_of_claim hash a s hS ha1 ha2 h1 h2 e s2 o hca hs
  refine ⟨k1, fun hd => pl_run_perTicket hash h1 s hd, k2, k3, fun e2 he2 => ?_⟩
  refine claim_once hash (run hash s h1) e s2 o hs h2 e2 (he2.trans hca.symm) ?_
  rw [(lock_terms_frozen hash s2 h2).2.2.2, pl_step_variant hs, (lock_terms_frozen hash s h1).2.2.2]
  exact (lk_hasLock_flags hS.lock).1

/-- ... and without an accepted claim by `a` nothing reaches him -/
theorem winner_total_receipts_no_claim (hash : List Nat → List Nat) (v : Variant)
    (hv : LockedVariant v) (s : State) (r : Nat) (h : ReachOf hash v s r) (hist : List (Env × Call))
    (a : Nat) (ha1 : a ≠ s.owner) (ha2 : a ≠ s.lockAddr)
    (hno : ∀ x ∈ lk_runLog hash s hist, isClaimBy a x = false) :
    totalReceived s.lpTok a (lk_runLog hash s hist) = 0 :=
  lk_total_no_claim hash a hist s (static_of_reach hash v hv s r h) ha1 ha2 hno

/-! ### non-vacuity

  (a) the locked guaranteed-ticket launchpad through its whole lifecycle: `T0 = 2`, 1000 tokens per
  ticket, 25 % locked until epoch 9 in the lock contract 77.  Participant 7 (2 staking tickets, one
  guaranteed) confirms both, participant 8 (1 energy ticket) confirms his; after filter, lottery and
  distribution participant 7 holds both winning tickets. -/

def gArgs : InitArgs :=
  { lpTok := 1, perTicket := 1000, payTok := .egld, price := 10, nrWinning := 2, conf := 5, sel := 10,
    claim := 15, lockPct := 2500, unlockEpoch := 9, lockAddr := 77 }

def gDeploy : Env := { caller := 1, round := 0, isContract := fun a => a == 77 }

def g0 : State := match init .lockedGuar gArgs gDeploy with
  | .ok s => s
  | .error _ => default

def gAlloc : List (Nat × Nat × Nat × Bool) := [(7, 2, 0, false), (8, 0, 1, false)]

open LP.Props.C01reachV1 (stOf isOk callOk) in
def g1 : State := stOf (step id g0 { caller := 1, round := 1 } (.addTicketsV1 gAlloc)) g0
open LP.Props.C01reachV1 (stOf isOk callOk) in
def g2 : State := stOf (step id g1 { caller := 1, round := 2, esdts := [⟨.esdt 1, 0, 2000⟩] } .deposit) g1
open LP.Props.C01reachV1 (stOf isOk callOk) in
def g3 : State := stOf (step id g2 { caller := 7, round := 5, egld := 20 } (.confirm 2)) g2
open LP.Props.C01reachV1 (stOf isOk callOk) in
def g4 : State := stOf (step id g3 { caller := 8, round := 6, egld := 10 } (.confirm 1)) g3
open LP.Props.C01reachV1 (stOf isOk callOk) in
def g5 : State := stOf (step id g4 { caller := 9, round := 10 } .filter) g4
open LP.Props.C01reachV1 (stOf isOk callOk) in
def g6 : State := stOf (step id g5 { caller := 9, round := 11 } .select) g5
open LP.Props.C01reachV1 (stOf isOk callOk) in
def g7 : State := stOf (step id g6 { caller := 9, round := 12 } .distribute) g6
open LP.Props.C01reachV1 (stOf isOk callOk) in
def g8 : State := stOf (step id g7 { caller := 7, round := 15, epoch := 3 } .claim) g7

theorem g0_reach : v1_ReachA id .lockedGuar gArgs g0 0 := v1_ReachA.init gDeploy g0 rfl

open LP.Props.C01reachV1 (stOf isOk callOk) in
theorem g4_reach : v1_ReachA id .lockedGuar gArgs g4 6 :=
  callOk { caller := 8, round := 6, egld := 10 } (.confirm 1)
    (callOk { caller := 7, round := 5, egld := 20 } (.confirm 2)
      (callOk { caller := 1, round := 2, esdts := [⟨.esdt 1, 0, 2000⟩] } .deposit
        (callOk { caller := 1, round := 1 } (.addTicketsV1 gAlloc)
          g0_reach (by decide) (Or.inl rfl)
          (by show ∀ q ∈ gAlloc, 1 ≤ q.2.1 + q.2.2.1; decide) rfl)
        (by decide) (Or.inl rfl) trivial rfl)
      (by decide) (Or.inr rfl) trivial rfl)
    (by decide) (Or.inr rfl) trivial rfl

open LP.Props.C01reachV1 (stOf isOk callOk) in
theorem g7_reach : v1_ReachA id .lockedGuar gArgs g7 12 :=
  callOk { caller := 9, round := 12 } .distribute
    (callOk { caller := 9, round := 11 } .select
      (callOk { caller := 9, round := 10 } .filter g4_reach (by decide) (Or.inl rfl) trivial rfl)
      (by decide) (Or.inl rfl) trivial rfl)
    (by decide) (Or.inl rfl) trivial rfl

theorem g7_reachOf : ReachOf id .lockedGuar g7 12 := v1_Reach_iff.mpr ⟨_, g7_reach⟩

theorem stOf_step_v1 {x : Res (State × Out)} (h : LP.Props.C01reachV1.isOk x = true) (d : State) :
    ∃ o, x = .ok (LP.Props.C01reachV1.stOf x d, o) := by
  cases x with
  | error err => cases h
  | ok q => exact ⟨q.2, rfl⟩

example : g1.nrWinning = 1 ∧ g1.totalGuaranteed = 1 ∧ g2.bal (.esdt 1) 0 = 2000 ∧ AllDone g7 ∧
    g7.nrWinning = 2 ∧ winCountOf g7 7 = 2 ∧ winCountOf g7 8 = 0 ∧ g7.bal (.esdt 1) 0 = 2000 ∧
    g7.owner = 1 ∧ g7.lockAddr = 77 ∧ g7.lockPct = 2500 ∧ g7.unlockEpoch = 9 :=
  ⟨rfl, rfl, rfl, ⟨rfl, rfl⟩, rfl, rfl, rfl, rfl, rfl, rfl, rfl, rfl⟩

/-- **the split on a concrete reachable state** (`g7 → g8`, epoch 3 < 9): participant 7 is owed
    `1000 × 2`; 25 % = 500 go to the lock contract 77 with the lock call `(9, 7, 500)`, 1500 directly
    to him; from epoch 9 on the whole 2000 go directly to him and no lock call is made -/
example :
    (step id g7 { caller := 7, round := 15, epoch := 3 } .claim).toOption.map
        (fun x => (x.2.locks, x.2.xfers)) =
      some ([(9, 7, 500)], [(77, ⟨.esdt 1, 0, 500⟩), (7, ⟨.esdt 1, 0, 1500⟩)]) ∧
    (step id g7 { caller := 7, round := 15, epoch := 10 } .claim).toOption.map
        (fun x => (x.2.locks, x.2.xfers)) =
      some ([], [(7, ⟨.esdt 1, 0, 2000⟩)]) ∧
    g8.bal (.esdt 1) 0 = 0 ∧ g8.nrWinning = 0 ∧ g8.range 7 = none ∧ g8.claimed 7 = true := by
  refine ⟨by decide +kernel, by decide +kernel, rfl, rfl, rfl, rfl⟩

/-- `winner_receives_exact_lockedGuar` and `C16_every_locked_variant` applied to that step: their
    hypotheses hold, `L = lockSplit 2000 2500 = 500` -/
example : ∃ o, step id g7 { caller := 7, round := 15, epoch := 3 } .claim = .ok (g8, o) ∧
    o.locks = [(9, 7, 500)] ∧ pl_lockedAmt g7 { caller := 7, round := 15, epoch := 3 } 2000 = 500 ∧
    winCountOf g7 7 * g7.perTicket = 2000 ∧ 0 < g7.lockPct ∧ g7.lockPct ≤ 10000 ∧ AllDone g7 ∧
    g8.bal (.esdt g8.lpTok) 0 = g7.bal (.esdt g7.lpTok) 0 - g7.perTicket * winCountOf g7 7 := by
  obtain ⟨o, ho⟩ := stOf_step_v1 (x := step id g7 { caller := 7, round := 15, epoch := 3 } .claim) rfl g7
  have ho' : step id g7 { caller := 7, round := 15, epoch := 3 } .claim = .ok (g8, o) := ho
  obtain ⟨_, h1, _, _, _, _, h6, h7, h8, _, _, _, _, h13, _⟩ :=
    C16_every_locked_variant id .lockedGuar (Or.inr rfl) g7 12 g7_reachOf _ g8 o ho'
  have hw : winCountOf g7 7 * g7.perTicket = 2000 := by decide +kernel
  have hL : pl_lockedAmt g7 { caller := 7, round := 15, epoch := 3 } 2000 = 500 := by decide +kernel
  refine ⟨o, ho', ?_, hL, hw, h6, h7, h8, h13⟩
  rw [h1]
  show (if pl_lockedAmt g7 { caller := 7, round := 15, epoch := 3 } (winCountOf g7 7 * g7.perTicket) > 0
    then [(g7.unlockEpoch, 7, pl_lockedAmt g7 { caller := 7, round := 15, epoch := 3 }
      (winCountOf g7 7 * g7.perTicket))] else []) = _
  rw [hw, hL]
  rfl

/-- the same statement on the first locked variant (`l5 → l6` of LP/Props/C02reach.lean) -/
example : ∃ o, step id LP.PL.l5 { caller := 7, round := 15, epoch := 3 } .claim = .ok (LP.PL.l6, o) ∧
    LP.PL.l5.variant = .locked ∧ 0 < LP.PL.l5.lockPct ∧ AllDone LP.PL.l5 := by
  obtain ⟨o, ho⟩ := LP.PL.stOf_step
    (x := step id LP.PL.l5 { caller := 7, round := 15, epoch := 3 } .claim) rfl LP.PL.l5
  have ho' : step id LP.PL.l5 { caller := 7, round := 15, epoch := 3 } .claim = .ok (LP.PL.l6, o) := ho
  obtain ⟨h0, _, _, _, _, _, h6, _, h8, _⟩ :=
    C16_every_locked_variant id .locked (Or.inl rfl) LP.PL.l5 11
      (Reach_iff.mpr ⟨_, LP.PL.l5_reachA⟩) _ LP.PL.l6 o ho'
  exact ⟨o, ho', h0, h6, h8⟩

/-- `winner_covered_every_locked_variant` on `g7`: both participants are covered -/
example : g7.perTicket * winCountOf g7 7 ≤ g7.bal (.esdt g7.lpTok) 0 ∧ winCountOf g7 7 ≤ g7.nrWinning :=
  winner_covered_every_locked_variant id .lockedGuar (Or.inr rfl) g7 12 g7_reachOf ⟨rfl, rfl⟩ 7

/-! (b) a history from `g7`: participant 7 claims (500 locked + 1500 direct), participant 8 claims
  (refund only), the owner withdraws, participant 7 claims again (rejected: three log entries). -/

def gHist : List (Env × Call) :=
  [({ caller := 7, round := 15, epoch := 3 }, .claim), ({ caller := 8, round := 16, epoch := 3 }, .claim),
   ({ caller := 1, round := 17, epoch := 3 }, .claimPayment),
   ({ caller := 7, round := 18, epoch := 3 }, .claim)]

/-- the totals, evaluated: 7 receives `1000 × 2`, 8 nothing; the lock contract 77 itself receives
    the locked 500 — the reason for the side condition `a ≠ lockAddr` -/
example : (lk_runLog id g7 gHist).length = 3 ∧
    totalReceived 1 7 (lk_runLog id g7 gHist) = 2000 ∧ totalReceived 1 8 (lk_runLog id g7 gHist) = 0 ∧
    totalReceived 1 77 (lk_runLog id g7 gHist) = 500 := by
  refine ⟨by decide +kernel, by decide +kernel, by decide +kernel, by decide +kernel⟩

/-- `winner_total_receipts_of_claim` on this history (`h1 = []`, the claim of 7, `h2` = the rest) -/
example : totalReceived g7.lpTok 7 (lk_runLog id g7 gHist) = g7.perTicket * winCountOf g7 7 ∧
    g7.perTicket * winCountOf g7 7 = 2000 := by
  obtain ⟨o, ho⟩ := stOf_step_v1 (x := step id g7 { caller := 7, round := 15, epoch := 3 } .claim) rfl g7
  have ho' : step id (run id g7 []) { caller := 7, round := 15, epoch := 3 } .claim = .ok (g8, o) := ho
  have := (winner_total_receipts_of_claim id .lockedGuar (Or.inr rfl) g7 12 g7_reachOf 7
    (by decide +kernel) (by decide +kernel) [] gHist.tail _ g8 o rfl ho').1
  exact ⟨this, by decide +kernel⟩

/-- `winner_total_receipts` on the first locked variant, from `l5`: participant 7 claims, the owner
    withdraws, 7 claims again (rejected).  7 receives `1000 × 2`; the owner 1 receives the surplus
    `1000` — the reason for the side condition `a ≠ owner` -/
example :
    totalReceived LP.PL.l5.lpTok 7 (lk_runLog id LP.PL.l5
      [({ caller := 7, round := 15, epoch := 3 }, .claim), ({ caller := 1, round := 16, epoch := 3 }, .claimPayment),
       ({ caller := 7, round := 17, epoch := 3 }, .claim)]) = 2000 ∧
    ((lk_runLog id LP.PL.l5
      [({ caller := 7, round := 15, epoch := 3 }, .claim), ({ caller := 1, round := 16, epoch := 3 }, .claimPayment),
       ({ caller := 7, round := 17, epoch := 3 }, .claim)]).filter (isClaimBy 7)).length ≤ 1 ∧
    totalReceived 1 1 (lk_runLog id LP.PL.l5
      [({ caller := 7, round := 15, epoch := 3 }, .claim), ({ caller := 1, round := 16, epoch := 3 }, .claimPayment),
       ({ caller := 7, round := 17, epoch := 3 }, .claim)]) = 1000 := by
  have h := winner_total_receipts id .locked (Or.inl rfl) LP.PL.l5 11
    (Reach_iff.mpr ⟨_, LP.PL.l5_reachA⟩)
    [({ caller := 7, round := 15, epoch := 3 }, .claim), ({ caller := 1, round := 16, epoch := 3 }, .claimPayment),
     ({ caller := 7, round := 17, epoch := 3 }, .claim)] 7 (by decide +kernel) (by decide +kernel)
  exact ⟨by decide +kernel, h.2, by decide +kernel⟩

/-! (c) the lock terms and the variants without a lock -/

/-- `lock_terms_are_deployment_args` on the two concrete deployments -/
example : init .lockedGuar gArgs gDeploy = .ok g0 ∧ init .locked LP.PL.lkArgs LP.PL.lkDeploy = .ok LP.PL.l0 ∧
    (run id g0 []).lockPct = 2500 ∧ g7.lockPct = g0.lockPct ∧ g7.unlockEpoch = g0.unlockEpoch ∧
    g7.lockAddr = g0.lockAddr :=
  ⟨rfl, rfl, rfl, rfl, rfl, rfl⟩

/-- `no_lock_call_without_lock` on the base launchpad (`ex7 → ex8` of LP/Props/C01reach.lean, the
    winner's claim): its hypothesis holds and the claim is accepted -/
example : LP.Props.C01reach.ex7.variant.hasLock = false ∧
    ∃ o, step id LP.Props.C01reach.ex7 { caller := 7, round := 15 } .claim = .ok (LP.Props.C01reach.ex8, o) ∧
      o.locks = [] := by
  obtain ⟨o, ho⟩ := LP.PL.stOf_step
    (x := step id LP.Props.C01reach.ex7 { caller := 7, round := 15 } .claim) rfl LP.Props.C01reach.ex7
  have ho' : step id LP.Props.C01reach.ex7 { caller := 7, round := 15 } .claim
      = .ok (LP.Props.C01reach.ex8, o) := ho
  exact ⟨rfl, o, ho', no_lock_call_without_lock id _ _ _ _ o rfl ho'⟩

end LP.Props.C16reach

#print axioms LP.Props.C16reach.winner_receives_exact_lockedGuar
#print axioms LP.Props.C16reach.C16_every_locked_variant
#print axioms LP.Props.C16reach.lock_terms_frozen
#print axioms LP.Props.C16reach.lock_terms_frozen_step
#print axioms LP.Props.C16reach.lock_terms_are_deployment_args
#print axioms LP.Props.C16reach.no_lock_call_without_lock
#print axioms LP.Props.C16reach.no_lock_call_without_lock_run
#print axioms LP.Props.C16reach.lock_calls_only_from_claims
#print axioms LP.Props.C16reach.static_of_reach
#print axioms LP.Props.C16reach.receipts_per_transaction
#print axioms LP.Props.C16reach.winner_total_receipts
#print axioms LP.Props.C16reach.winner_total_receipts_of_claim
#print axioms LP.Props.C16reach.winner_total_receipts_no_claim
#print axioms LP.Props.C16reach.g7_reach
#print axioms LP.Props.C16reach.g7_reachOf
#print axioms LP.Props.C16reach.stOf_step_v1
#print axioms LP.Props.C16reach.lockedVariant_iff
#print axioms LP.Props.C16reach.g0_reach
#print axioms LP.Props.C16reach.g4_reach
#print axioms LP.Props.C16reach.winner_covered_v1
#print axioms LP.Props.C16reach.winner_covered_every_locked_variant
