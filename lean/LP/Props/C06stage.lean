import LP.Proofs.Stage
/-
  LP.Props.C06stage — the lifecycle stage function: AddTickets < Confirm < WinnerSelection < Claim.

  C1  monotone in time and flags
  C2  the three timeline setters cannot move the *current* stage (holds for all three setters,
      with equality; `validPeriods` is not even needed)
  C3  `reached_start_frozen`
  C4  along any admissible sequence the stage number never decreases
-/
namespace LP

/-- C1.  Monotone in time and flags.  (`validPeriods cfg` is part of the requested statement;
    the proof does not use it: see `stageOf_mono_raw`.) -/
theorem stage_monotone {round round' : Nat} (cfg : Cfg) {flags flags' : Flags}
    (_hv : validPeriods cfg = true)
    (hr : round ≤ round')
    (hs : flags.selected = true → flags'.selected = true)
    (ha : flags.additional = true → flags'.additional = true) :
    (stageOf round cfg flags).toNat ≤ (stageOf round' cfg flags').toNat :=
  stageOf_mono_raw cfg hr ⟨hs, ha⟩

/-- C1, stronger form without the `validPeriods` hypothesis. -/
theorem stage_monotone_any_cfg {round round' : Nat} (cfg : Cfg) {flags flags' : Flags}
    (hr : round ≤ round') (hf : Flags.gain flags flags') :
    (stageOf round cfg flags).toNat ≤ (stageOf round' cfg flags').toNat :=
  stageOf_mono_raw cfg hr hf

example : validPeriods ⟨10, 20, 30⟩ = true ∧
    (stageOf 15 ⟨10, 20, 30⟩ { selected := false, additional := true }).toNat = 1 ∧
    (stageOf 35 ⟨10, 20, 30⟩ { selected := true, additional := true }).toNat = 3 := by decide

/-- C2.  An accepted timeline change leaves the stage *at the current round* unchanged —
    for each of the three setters, with equality (checked case by case: the changed start
    round is `> round` before and after, so the comparison `round < start` keeps its value). -/
theorem setter_keeps_current_stage (round r : Nat) (cfg : Cfg) (flags : Flags) :
    (validTimelineChange round cfg.conf r = .ok () →
      stageOf round { cfg with conf := r } flags = stageOf round cfg flags) ∧
    (validTimelineChange round cfg.sel r = .ok () →
      stageOf round { cfg with sel := r } flags = stageOf round cfg flags) ∧
    (validTimelineChange round cfg.claim r = .ok () →
      stageOf round { cfg with claim := r } flags = stageOf round cfg flags) :=
  ⟨stageOf_setConf cfg flags, stageOf_setSel cfg flags, stageOf_setClaim cfg flags⟩

example : validTimelineChange 5 (Cfg.mk 10 20 30).conf 7 = .ok () ∧
    validPeriods { (Cfg.mk 10 20 30) with conf := 7 } = true := ⟨rfl, rfl⟩

/-- C2 on the endpoints of the model: an accepted `setConfStart` / `setSelStart` /
    `setClaimStart` transaction changes only `cfg` and leaves the stage seen by that very
    transaction's environment unchanged. -/
theorem exec_setter_keeps_stage {hash : List Nat → List Nat} {t t' : Tx} {e : Env} {r : Nat}
    (h : exec hash t e (.setConfStart r) = .ok t' ∨ exec hash t e (.setSelStart r) = .ok t' ∨
         exec hash t e (.setClaimStart r) = .ok t') :
    t'.s.stage e = t.s.stage e ∧ t'.s.flags = t.s.flags ∧ t'.o = t.o := by
  rcases h with h | h | h
  · obtain ⟨hv, _, rfl⟩ := exec_setConfStart_ok h
    exact ⟨stageOf_setConf _ _ hv, rfl, rfl⟩
  · obtain ⟨hv, _, rfl⟩ := exec_setSelStart_ok h
    exact ⟨stageOf_setSel _ _ hv, rfl, rfl⟩
  · obtain ⟨hv, _, rfl⟩ := exec_setClaimStart_ok h
    exact ⟨stageOf_setClaim _ _ hv, rfl, rfl⟩

/-- C3a.  `reached_start_frozen`: a start round that has been reached (`≤ round`) cannot be
    changed by its setter: the call is rejected. -/
theorem reached_start_frozen (hash : List Nat → List Nat) (t : Tx) (e : Env) (r : Nat) :
    (t.s.cfg.conf ≤ e.round → ∃ err, exec hash t e (.setConfStart r) = .error err) ∧
    (t.s.cfg.sel ≤ e.round → ∃ err, exec hash t e (.setSelStart r) = .error err) ∧
    (t.s.cfg.claim ≤ e.round → ∃ err, exec hash t e (.setClaimStart r) = .error err) := by
  refine ⟨fun h => ?_, fun h => ?_, fun h => ?_⟩ <;>
    exact ⟨.user "Cannot change start round, it's either in progress or passed already",
      by simp [exec, validTimelineChange_err h, bind, Except.bind]⟩

/-- C3b.  An accepted change keeps `conf < sel ≤ claim`, and the new value is in the future. -/
theorem accepted_setter_valid {hash : List Nat → List Nat} {t t' : Tx} {e : Env} {r : Nat}
    (h : exec hash t e (.setConfStart r) = .ok t' ∨ exec hash t e (.setSelStart r) = .ok t' ∨
         exec hash t e (.setClaimStart r) = .ok t') :
    t'.s.cfg.conf < t'.s.cfg.sel ∧ t'.s.cfg.sel ≤ t'.s.cfg.claim ∧ e.round < r := by
  rcases h with h | h | h
  · obtain ⟨hv, hp, rfl⟩ := exec_setConfStart_ok h
    have := (validPeriods_iff _).1 hp
    exact ⟨this.1, this.2, (validTimelineChange_ok.1 hv).2⟩
  · obtain ⟨hv, hp, rfl⟩ := exec_setSelStart_ok h
    have := (validPeriods_iff _).1 hp
    exact ⟨this.1, this.2, (validTimelineChange_ok.1 hv).2⟩
  · obtain ⟨hv, hp, rfl⟩ := exec_setClaimStart_ok h
    have := (validPeriods_iff _).1 hp
    exact ⟨this.1, this.2, (validTimelineChange_ok.1 hv).2⟩

/-- C3c.  A setter changes nothing but its own start round (the other two are frozen by it). -/
theorem accepted_setter_frame {hash : List Nat → List Nat} {t t' : Tx} {e : Env} {r : Nat} :
    (exec hash t e (.setConfStart r) = .ok t' →
      t'.s.cfg = { t.s.cfg with conf := r } ∧ e.round < t.s.cfg.conf) ∧
    (exec hash t e (.setSelStart r) = .ok t' →
      t'.s.cfg = { t.s.cfg with sel := r } ∧ e.round < t.s.cfg.sel) ∧
    (exec hash t e (.setClaimStart r) = .ok t' →
      t'.s.cfg = { t.s.cfg with claim := r } ∧ e.round < t.s.cfg.claim) := by
  refine ⟨fun h => ?_, fun h => ?_, fun h => ?_⟩
  · obtain ⟨hv, _, rfl⟩ := exec_setConfStart_ok h
    exact ⟨rfl, (validTimelineChange_ok.1 hv).1⟩
  · obtain ⟨hv, _, rfl⟩ := exec_setSelStart_ok h
    exact ⟨rfl, (validTimelineChange_ok.1 hv).1⟩
  · obtain ⟨hv, _, rfl⟩ := exec_setClaimStart_ok h
    exact ⟨rfl, (validTimelineChange_ok.1 hv).1⟩

/-- C4.  Along any sequence of (round advance, flag gain, accepted setter) steps the stage
    number never decreases; the round never decreases and `validPeriods` is preserved. -/
theorem stage_never_decreases {x y : TL} (h : TLSteps x y) :
    x.stage.toNat ≤ y.stage.toNat ∧ x.round ≤ y.round ∧
    (validPeriods x.cfg = true → validPeriods y.cfg = true) := by
  induction h with
  | refl x => exact ⟨Nat.le_refl _, Nat.le_refl _, id⟩
  | cons h _ ih =>
    exact ⟨Nat.le_trans h.stage_le ih.1, Nat.le_trans h.round_le ih.2.1,
      fun hv => ih.2.2 (h.validPeriods hv)⟩

/-- the abstract setter moves of `TLStep` are exactly what the model's endpoints do -/
theorem exec_setter_is_TLStep {hash : List Nat → List Nat} {t t' : Tx} {e : Env} {r : Nat}
    (h : exec hash t e (.setConfStart r) = .ok t' ∨ exec hash t e (.setSelStart r) = .ok t' ∨
         exec hash t e (.setClaimStart r) = .ok t') :
    TLStep ⟨e.round, t.s.cfg, t.s.flags⟩ ⟨e.round, t'.s.cfg, t'.s.flags⟩ := by
  rcases h with h | h | h
  · obtain ⟨hv, hp, rfl⟩ := exec_setConfStart_ok h
    exact TLStep.setConf ⟨e.round, t.s.cfg, t.s.flags⟩ r hv hp
  · obtain ⟨hv, hp, rfl⟩ := exec_setSelStart_ok h
    exact TLStep.setSel ⟨e.round, t.s.cfg, t.s.flags⟩ r hv hp
  · obtain ⟨hv, hp, rfl⟩ := exec_setClaimStart_ok h
    exact TLStep.setClaim ⟨e.round, t.s.cfg, t.s.flags⟩ r hv hp

example : TLSteps ⟨5, ⟨10, 20, 30⟩, {}⟩ ⟨25, ⟨7, 20, 22⟩, { selected := true, additional := true }⟩ :=
  .cons (.setConf _ 7 rfl rfl) <|
  .cons (.advance _ 12 (by decide)) <|
  .cons (.setClaim _ 22 rfl rfl) <|
  .cons (.gain _ { selected := true, additional := true } (by simp [Flags.gain])) <|
  .cons (.advance _ 25 (by decide)) <| .refl _

end LP

#print axioms LP.stage_monotone
#print axioms LP.stage_monotone_any_cfg
#print axioms LP.setter_keeps_current_stage
#print axioms LP.exec_setter_keeps_stage
#print axioms LP.reached_start_frozen
#print axioms LP.accepted_setter_valid
#print axioms LP.accepted_setter_frame
#print axioms LP.stage_never_decreases
#print axioms LP.exec_setter_is_TLStep
