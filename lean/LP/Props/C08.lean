import LP.Proofs.Filter
/-
  C08 — filtering keeps exactly the confirmed tickets; the ticket space stays consistent.

  Vocabulary (defined in `LP/Proofs/Filter.lean`):
  * an allocation history is `L : List (Nat × Nat)` (address, number of tickets);
  * `ticketTotal L = Σ nᵢ`, `confSum conf L = Σ conf aᵢ`, `droppedSum conf L = Σ (nᵢ − conf aᵢ)`
    (`ticketTotal_eq_sum`, `confSum_eq_sum`, `droppedSum_eq_sum` give the `List.sum` forms);
  * `survivors conf L = L.filterMap (fun (a, _) => if conf a = 0 then none else some (a, conf a))`;
  * `Chain L first range batch`: the batches of `L` are stored at the consecutive firsts
    `first, first + n₁, first + n₁ + n₂, …` and `range aᵢ = [firstᵢ, firstᵢ + nᵢ − 1]`;
  * `filterCalls cs t`: successive accepted `filterTickets` transactions, the i-th in
    environment `eᵢ` with iteration budget `kᵢ`.
-/
namespace LP.Props.C08
open LP

/-! ### B1 allocation -/

/-- `add_tickets` on a contract without tickets: when it succeeds the addresses are pairwise
    distinct, the ticketTotal fits the `usize` bound, the batches form the chain of `L` from ticket 1,
    `lastTicketId = Σ nᵢ`, and only `range`, `batch`, `lastTicketId` changed.
    (`n ≥ 1` is needed for the chain: a zero-size entry would share its first id with the next
    batch, which overwrites it.) -/
theorem alloc_spec (L : List (Nat × Nat)) (s s' : State)
    (h0 : s.lastTicketId = 0) (hpos : ∀ p ∈ L, 1 ≤ p.2) (h : createMany L s = .ok s') :
    (L.map Prod.fst).Nodup ∧ (∀ a ∈ L.map Prod.fst, s.range a = none) ∧
    (L ≠ [] → ticketTotal L + 1 < usizeMax) ∧
    s'.lastTicketId = ticketTotal L ∧ Chain L 1 s'.range s'.batch ∧
    (∀ a, a ∉ L.map Prod.fst → s'.range a = s.range a) ∧
    (∃ r b l, s' = { s with range := r, batch := b, lastTicketId := l }) := by
  obtain ⟨h1, h2, h3, h4, h5, h6, _, h8⟩ := createMany_ok L s s' h
  rw [h0] at h3 h4 h5
  refine ⟨h1, h2, ?_, by omega, by simpa using h5 hpos, h6, h8⟩
  intro hne; have := h3 hne; omega

/-- `add_tickets` succeeds exactly when the addresses are new and pairwise distinct and the
    ticketTotal stays below the `usize` bound (no assumption on the sizes). -/
theorem alloc_succeeds_iff (L : List (Nat × Nat)) (s : State) :
    (∃ s', createMany L s = .ok s') ↔
      (L.map Prod.fst).Nodup ∧ (∀ a ∈ L.map Prod.fst, s.range a = none) ∧
      (L ≠ [] → s.lastTicketId + ticketTotal L + 1 < usizeMax) :=
  createMany_ok_iff L s

/-- the allocated ranges are disjoint, contiguous (each has exactly `nᵢ` ids) and cover
    `1 .. Σ nᵢ` -/
theorem alloc_partition (L : List (Nat × Nat)) (s s' : State)
    (h0 : s.lastTicketId = 0) (hpos : ∀ p ∈ L, 1 ≤ p.2) (h : createMany L s = .ok s') :
    (∀ p ∈ L, ∃ r, s'.range p.1 = some r ∧ 1 ≤ r.first ∧ r.first ≤ r.last ∧
        r.last < 1 + s'.lastTicketId ∧ r.last + 1 = r.first + p.2) ∧
    (∀ t, 1 ≤ t → t < 1 + s'.lastTicketId →
        ∃ p ∈ L, ∃ r, s'.range p.1 = some r ∧ r.first ≤ t ∧ t ≤ r.last) ∧
    (∀ p ∈ L, ∀ q ∈ L, p.1 ≠ q.1 → ∀ rp rq, s'.range p.1 = some rp → s'.range q.1 = some rq →
        rp.last < rq.first ∨ rq.last < rp.first) := by
  obtain ⟨_, _, _, h4, h5, _⟩ := alloc_spec L s s' h0 hpos h
  rw [h4]
  exact Chain_partition h5 hpos

/-! ### B2 the filter loop -/

/-- `filter_spec`: from the chain of `L`, with confirmations within the allocations, the
    unbudgeted filter loop (any fuel ≥ |L| + 1; the endpoint passes `last + 2`) never fails and
    completes in a state where the survivors own exactly `conf a` tickets at the prefix sums of
    `survivors conf L`, unconfirmed addresses own nothing, other addresses are untouched. -/
theorem filter_spec (conf : Nat → Nat) (L : List (Nat × Nat)) (range : Nat → Option Range)
    (batch : Nat → Option Batch) (last fuel : Nat)
    (hnd : (L.map Prod.fst).Nodup) (hpos : ∀ p ∈ L, 1 ≤ p.2)
    (hconf : ∀ p ∈ L, conf p.1 ≤ p.2) (hch : Chain L 1 range batch)
    (hlast : last = ticketTotal L) (hfuel : L.length + 1 ≤ fuel) :
    ∃ f, runWhile (filterBody conf last) fuel none ⟨range, batch, 1, 0⟩
          = .ok (f, none, .completed) ∧
      f.first = last + 1 ∧ f.removed = droppedSum conf L ∧
      Chain (survivors conf L) 1 f.range f.batch ∧
      (∀ p ∈ L, conf p.1 = 0 → f.range p.1 = none) ∧
      (∀ a, a ∉ L.map Prod.fst → f.range a = range a) := by
  obtain ⟨f, h1, h2, h3, h4, h5, h6, _⟩ :=
    LP.filter_spec conf L range batch last fuel hnd hpos hconf hch hlast hfuel
  exact ⟨f, h1, h2, h3, h4, h5, h6⟩

/-- the fuel passed by the endpoint is enough -/
theorem filter_spec_endpoint_fuel (L : List (Nat × Nat)) (hpos : ∀ p ∈ L, 1 ≤ p.2) :
    L.length + 1 ≤ ticketTotal L + 2 :=
  LP.filter_spec_endpoint_fuel L hpos

/-- after the filter the survivors' ranges are disjoint, contiguous and cover
    `1 .. Σ conf aᵢ`, each of size `conf a` -/
theorem filter_partition (conf : Nat → Nat) (L : List (Nat × Nat)) (range : Nat → Option Range)
    (batch : Nat → Option Batch) (h : Chain (survivors conf L) 1 range batch) :
    (∀ q ∈ survivors conf L, ∃ r, range q.1 = some r ∧ 1 ≤ r.first ∧ r.first ≤ r.last ∧
        r.last < 1 + confSum conf L ∧ r.last + 1 = r.first + conf q.1) ∧
    (∀ t, 1 ≤ t → t < 1 + confSum conf L →
        ∃ q ∈ survivors conf L, ∃ r, range q.1 = some r ∧ r.first ≤ t ∧ t ≤ r.last) ∧
    (∀ p ∈ survivors conf L, ∀ q ∈ survivors conf L, p.1 ≠ q.1 → ∀ rp rq,
        range p.1 = some rp → range q.1 = some rq →
        rp.last < rq.first ∨ rq.last < rp.first) := by
  obtain ⟨h1, h2, h3⟩ := Chain_partition h (survivors_pos conf L)
  rw [ticketTotal_survivors] at h1 h2
  refine ⟨?_, h2, h3⟩
  intro q hq
  obtain ⟨r, hr, a, b, c, d⟩ := h1 q hq
  exact ⟨r, hr, a, b, c, by rw [d, (mem_survivors hq).2.1]⟩

/-- every survivor is an allocated address that confirmed something, survivors stay distinct -/
theorem survivors_sound (conf : Nat → Nat) (L : List (Nat × Nat))
    (hnd : (L.map Prod.fst).Nodup) :
    ((survivors conf L).map Prod.fst).Nodup ∧
    ∀ q ∈ survivors conf L, q.1 ∈ L.map Prod.fst ∧ q.2 = conf q.1 ∧ conf q.1 ≠ 0 :=
  ⟨survivors_nodup conf L hnd, fun _ hq => mem_survivors hq⟩

theorem sums (conf : Nat → Nat) (L : List (Nat × Nat)) :
    ticketTotal L = (L.map (·.2)).sum ∧ confSum conf L = (L.map (fun p => conf p.1)).sum ∧
    droppedSum conf L = (L.map (fun p => p.2 - conf p.1)).sum ∧
    ticketTotal (survivors conf L) = confSum conf L :=
  ⟨ticketTotal_eq_sum L, confSum_eq_sum conf L, droppedSum_eq_sum conf L, ticketTotal_survivors conf L⟩

/-- the chunked filter loop never fails either (no body error, no fuel exhaustion), whatever
    the budgets: it is completed with the state of `filter_spec`, or still in progress -/
theorem filter_chunks_no_error (conf : Nat → Nat) (L : List (Nat × Nat))
    (range : Nat → Option Range) (batch : Nat → Option Batch) (last : Nat) (ks : List Nat)
    (hnd : (L.map Prod.fst).Nodup) (hpos : ∀ p ∈ L, 1 ≤ p.2)
    (hconf : ∀ p ∈ L, conf p.1 ≤ p.2) (hch : Chain L 1 range batch) (hlast : last = ticketTotal L) :
    ∃ f, runWhile (filterBody conf last) (last + 2) none ⟨range, batch, 1, 0⟩
          = .ok (f, none, .completed) ∧
      (runCalls (filterBody conf last) (last + 2) ks ⟨range, batch, 1, 0⟩ = .ok (f, true) ∨
       ∃ f', runCalls (filterBody conf last) (last + 2) ks ⟨range, batch, 1, 0⟩
          = .ok (f', false)) := by
  obtain ⟨f, h1, _⟩ := LP.filter_spec conf L range batch last (last + 2) hnd hpos hconf hch hlast
    (by rw [hlast]; exact LP.filter_spec_endpoint_fuel L hpos)
  exact ⟨f, h1, runCalls_no_error _ _ ks _ _ f h1 (Nat.le_refl _)⟩

/-- and it is completed as soon as the budgets allow `|L| + 1` iterations in total, in
    particular after `|L| + 1` calls -/
theorem filter_chunks_complete (conf : Nat → Nat) (L : List (Nat × Nat))
    (range : Nat → Option Range) (batch : Nat → Option Batch) (last : Nat) (ks : List Nat)
    (hnd : (L.map Prod.fst).Nodup) (hpos : ∀ p ∈ L, 1 ≤ p.2)
    (hconf : ∀ p ∈ L, conf p.1 ≤ p.2) (hch : Chain L 1 range batch) (hlast : last = ticketTotal L)
    (hks : L.length + 1 ≤ budgetIters ks) :
    ∃ f, runWhile (filterBody conf last) (last + 2) none ⟨range, batch, 1, 0⟩
          = .ok (f, none, .completed) ∧
      runCalls (filterBody conf last) (last + 2) ks ⟨range, batch, 1, 0⟩ = .ok (f, true) := by
  have hfuel := LP.filter_spec_endpoint_fuel L hpos
  obtain ⟨f, h1, _⟩ := LP.filter_spec conf L range batch last (L.length + 1) hnd hpos hconf hch
    hlast (Nat.le_refl _)
  have h2 := runWhile_fuel_mono _ _ _ _ _ _ _ h1 (by decide) (last + 2) (by omega)
  exact ⟨f, h2, runCalls_completes_of_budgetIters _ _ ks _ _ f h1 (by omega) hks⟩

/-! ### B3 the endpoint -/

/-- one unbudgeted `filterTickets` call on a `FilterReady` storage is accepted, reports
    completion, sets `lastTicketId' = Σ conf aᵢ`, `nrWinning' = min nrWinning lastTicketId'`,
    and leaves the chain of the survivors. -/
theorem filterTickets_single {L : List (Nat × Nat)} (t : Tx) (e : Env)
    (h : FilterReady L t.s) (hp : FilterPre t.s e) (hb : t.c.budget = none) :
    ∃ t' f, filterTickets t e = .ok t' ∧
      runWhile (filterBody t.s.confirmed t.s.lastTicketId) (t.s.lastTicketId + 2) none
        ⟨t.s.range, t.s.batch, 1, 0⟩ = .ok (f, none, .completed) ∧
      t'.s = filterFinal t.s f true ∧
      t'.s.lastTicketId = confSum t.s.confirmed L ∧
      t'.s.nrWinning = min t.s.nrWinning (confSum t.s.confirmed L) ∧
      Chain (survivors t.s.confirmed L) 1 t'.s.range t'.s.batch ∧
      (∀ p ∈ L, t.s.confirmed p.1 = 0 → t'.s.range p.1 = none) ∧
      (∀ a, a ∉ L.map Prod.fst → t'.s.range a = t.s.range a) ∧
      t'.s.flags.filtered = true ∧ t'.s.op = .none ∧ t'.o.ret = [0] :=
  LP.filterTickets_single t e h hp hb

/-- an interrupted call saves `(first, removed)` in `op := .filter first removed`, and the next
    call reloads exactly the loop state the previous one stopped in, with the same body and the
    same fuel: chunked endpoint calls compose like `runCalls`. -/
theorem filterTickets_save_reload (t : Tx) (e : Env) (x f : FilSt) (b : Option Nat)
    (hp : FilterPre t.s e) (hx : filStOf t.s = some x)
    (hrun : runWhile (filterBody t.s.confirmed t.s.lastTicketId) (t.s.lastTicketId + 2)
              t.c.budget x = .ok (f, b, .interrupted)) :
    ∃ t', filterTickets t e = .ok t' ∧ t'.o.ret = [1] ∧
      t'.s.op = .filter f.first f.removed ∧ filStOf t'.s = some f ∧
      t'.s.confirmed = t.s.confirmed ∧ t'.s.lastTicketId = t.s.lastTicketId ∧
      t'.s.nrWinning = t.s.nrWinning ∧ t'.s.flags.filtered = false :=
  ⟨_, filterTickets_interrupted t e x f b hp hx hrun, rfl, rfl, rfl, rfl, rfl, rfl, by
    show (filterFlags t.s x.first).filtered = false
    rw [filterFlags_filtered]; exact hp.notFiltered⟩

/-- an accepted call sequence that completes the step is a completing `runCalls` schedule of the
    filter loop (from whatever loop state the storage holds) -/
theorem filterCalls_runCalls (cs : List (Env × Nat)) (t t' : Tx) (x : FilSt)
    (hx : filStOf t.s = some x) (hnf : t.s.flags.filtered = false)
    (hc : filterCalls cs t = .ok t') (hf : t'.s.flags.filtered = true) :
    ∃ f st, runCalls (filterBody t.s.confirmed t.s.lastTicketId) (t.s.lastTicketId + 2)
              (cs.map Prod.snd) x = .ok (f, true) ∧
      f.removed ≤ t.s.lastTicketId ∧ t'.s = filterFinal t.s f st ∧
      ((x.first = 1 ∨ t.s.flags.started = true) → st = true) :=
  LP.filterCalls_runCalls cs t t' x hx hnf hc hf

/-- any accepted budget schedule (any callers, rounds, budgets) that completes the step yields
    the storage of the single call: same `range`, `batch`, `lastTicketId = Σ conf aᵢ`,
    `nrWinning = min nrWinning (Σ conf aᵢ)` — in fact the same storage altogether. -/
theorem filterCalls_spec {L : List (Nat × Nat)} (cs : List (Env × Nat)) (t t' : Tx)
    (h : FilterReady L t.s) (hc : filterCalls cs t = .ok t')
    (hf : t'.s.flags.filtered = true) :
    ∃ f, runWhile (filterBody t.s.confirmed t.s.lastTicketId) (t.s.lastTicketId + 2) none
            ⟨t.s.range, t.s.batch, 1, 0⟩ = .ok (f, none, .completed) ∧
      t'.s = filterFinal t.s f true ∧
      t'.s.lastTicketId = confSum t.s.confirmed L ∧
      t'.s.nrWinning = min t.s.nrWinning (confSum t.s.confirmed L) ∧
      Chain (survivors t.s.confirmed L) 1 t'.s.range t'.s.batch ∧
      (∀ p ∈ L, t.s.confirmed p.1 = 0 → t'.s.range p.1 = none) ∧
      (∀ a, a ∉ L.map Prod.fst → t'.s.range a = t.s.range a) :=
  LP.filterCalls_spec cs t t' h hc hf

/-- chunked = single call (whole storage) -/
theorem filterCalls_eq_single {L : List (Nat × Nat)} (cs : List (Env × Nat)) (t t' t1 : Tx)
    (e : Env) (h : FilterReady L t.s) (hc : filterCalls cs t = .ok t')
    (hf : t'.s.flags.filtered = true) (hb : t.c.budget = none)
    (h1 : filterTickets t e = .ok t1) : t'.s = t1.s := by
  obtain ⟨hp, _⟩ := filterTickets_inv t t1 e h1
  obtain ⟨t2, f2, hcall, hrun2, hs2, _⟩ := LP.filterTickets_single t e h hp hb
  obtain ⟨f, hrun, hs, _⟩ := LP.filterCalls_spec cs t t' h hc hf
  rw [h1] at hcall
  injection hcall with hcall
  subst hcall
  rw [hrun] at hrun2
  injection hrun2 with hrun2
  simp only [Prod.mk.injEq] at hrun2
  rw [hs, hs2, hrun2.1]

/-- schedule independence without any assumption on the allocation: two accepted call
    sequences that both complete a fresh filter step end in the same storage. -/
theorem filterCalls_deterministic (cs cs' : List (Env × Nat)) (t t1 t2 : Tx)
    (hop : t.s.op = .none) (hnf : t.s.flags.filtered = false)
    (h1 : filterCalls cs t = .ok t1) (h2 : filterCalls cs' t = .ok t2)
    (hf1 : t1.s.flags.filtered = true) (hf2 : t2.s.flags.filtered = true) :
    t1.s = t2.s :=
  LP.filterCalls_deterministic cs cs' t t1 t2 hop hnf h1 h2 hf1 hf2

/-- the step cannot be left stuck: whatever the budgets (even all `0`), callers and rounds
    (inside the winner-selection stage, contract not paused), the step is completed after at
    most `|L| + 1` calls (later calls are the rejected `cs2`). -/
theorem filterCalls_completes {L : List (Nat × Nat)} (cs : List (Env × Nat)) (t : Tx)
    (h : FilterReady L t.s) (hpa : t.s.paused = false)
    (hst : ∀ c ∈ cs, t.s.stage c.1 = .winnerSelection) (hlen : L.length + 1 ≤ cs.length) :
    ∃ cs1 cs2 t', cs = cs1 ++ cs2 ∧ filterCalls cs1 t = .ok t' ∧
      t'.s.flags.filtered = true :=
  LP.filterCalls_completes cs t h hpa hst hlen

/-- allocation followed by confirmations gives a `FilterReady` storage -/
theorem filterReady_of_alloc (L : List (Nat × Nat)) (s s' s2 : State)
    (h : createMany L s = .ok s') (h0 : s.lastTicketId = 0) (hpos : ∀ p ∈ L, 1 ≤ p.2)
    (hr : s2.range = s'.range) (hb : s2.batch = s'.batch)
    (hl : s2.lastTicketId = s'.lastTicketId) (hop : s2.op = .none)
    (hnf : s2.flags.filtered = false) (hc : ∀ p ∈ L, s2.confirmed p.1 ≤ p.2) :
    FilterReady L s2 :=
  filterReady_of_createMany L s s' s2 h h0 hpos hr hb hl hop hnf hc

/-- `step` dispatches `.filter` to `filterTickets` on the storage, for every variant and
    caller, with the call's budget -/
theorem step_filter (hash : List Nat → List Nat) (s : State) (e : Env)
    (h1 : e.egld = 0) (h2 : e.esdts = []) :
    step hash s e .filter =
      match filterTickets ⟨s, ⟨e.budget, e.seeds, e.script⟩, {}⟩ e with
      | .error err => .error err
      | .ok t => .ok (t.s, t.o) :=
  LP.step_filter hash s e h1 h2

/-! ### concrete instance: removed / partially kept / fully kept -/

def exL : List (Nat × Nat) := [(10, 2), (11, 3), (12, 1), (13, 2)]

def exConf (a : Nat) : Nat := if a = 10 then 1 else if a = 12 then 1 else if a = 13 then 2 else 0

def exRange (a : Nat) : Option Range :=
  if a = 10 then some ⟨1, 2⟩ else if a = 11 then some ⟨3, 5⟩
  else if a = 12 then some ⟨6, 6⟩ else if a = 13 then some ⟨7, 8⟩ else none

def exBatch (x : Nat) : Option Batch :=
  if x = 1 then some ⟨10, 2⟩ else if x = 3 then some ⟨11, 3⟩
  else if x = 6 then some ⟨12, 1⟩ else if x = 7 then some ⟨13, 2⟩ else none

example : (exL.map Prod.fst).Nodup := by decide
example : ∀ p ∈ exL, 1 ≤ p.2 := by decide
example : ∀ p ∈ exL, exConf p.1 ≤ p.2 := by decide
example : Chain exL 1 exRange exBatch := ⟨rfl, rfl, rfl, rfl, rfl, rfl, rfl, rfl, trivial⟩
example : ticketTotal exL = 8 ∧ confSum exConf exL = 4 ∧ droppedSum exConf exL = 4 := by decide
example : survivors exConf exL = [(10, 1), (12, 1), (13, 2)] := by decide

/-- the loop on the instance: survivors own [1,1], [2,2], [3,4]; 11 owns nothing -/
example :
    (match runWhile (filterBody exConf 8) 10 none ⟨exRange, exBatch, 1, 0⟩ with
     | .ok (f, _, st) => some (f.first, f.removed, f.range 10, f.range 11, f.range 12,
                               f.range 13, f.batch 1, f.batch 2, f.batch 3, f.batch 6, st)
     | .error _ => none)
    = some (9, 4, some ⟨1, 1⟩, none, some ⟨2, 2⟩, some ⟨3, 4⟩,
            some ⟨10, 1⟩, some ⟨12, 1⟩, some ⟨13, 2⟩, none, .completed) := by
  rfl

/-- the same in three chunks (budgets 0, 1, 5) -/
example :
    (match runCalls (filterBody exConf 8) 10 [0, 1, 5] ⟨exRange, exBatch, 1, 0⟩ with
     | .ok (f, done) => some (f.first, f.removed, f.range 10, f.range 11, f.range 12,
                              f.range 13, done)
     | .error _ => none)
    = some (9, 4, some ⟨1, 1⟩, none, some ⟨2, 2⟩, some ⟨3, 4⟩, true) := by
  rfl

/-- a concrete storage: fresh contract, then `exL` allocated, then the confirmations -/
def exS0 : State :=
  { variant := .base, owner := 1, lpTok := 7, perTicket := 100, payTok := .egld, price := 10,
    nrWinning := 5, cfg := ⟨10, 20, 30⟩, flags := { additional := true }, support := 1 }

def exS : State :=
  { exS0 with range := exRange, batch := exBatch, lastTicketId := 8, confirmed := exConf }

def exEnv (caller round : Nat) : Env := { caller := caller, round := round }

example : (match createMany exL exS0 with
           | .ok s => some (s.lastTicketId, s.range 10, s.range 11, s.range 12, s.range 13,
                            s.batch 1, s.batch 3, s.batch 6, s.batch 7, s.batch 2)
           | .error _ => none)
    = some (8, exRange 10, exRange 11, exRange 12, exRange 13,
            exBatch 1, exBatch 3, exBatch 6, exBatch 7, none) := by rfl

example : FilterReady exL exS :=
  ⟨by decide, by decide, by decide, ⟨rfl, rfl, rfl, rfl, rfl, rfl, rfl, rfl, trivial⟩, rfl, rfl,
   rfl⟩

example : FilterPre exS (exEnv 99 25) := ⟨rfl, rfl, rfl⟩

/-- three calls by different callers in different rounds with budgets 0, 1, 5 -/
example :
    (match filterCalls [(exEnv 5 20, 0), (exEnv 6 22, 1), (exEnv 7 29, 5)] ⟨exS, {}, {}⟩ with
     | .ok t => some (t.s.lastTicketId, t.s.nrWinning, t.s.flags.filtered, t.s.range 10,
                      t.s.range 11, t.s.range 12, t.s.range 13, t.o.ret)
     | .error _ => none)
    = some (4, 4, true, some ⟨1, 1⟩, none, some ⟨2, 2⟩, some ⟨3, 4⟩, [0]) := by
  rfl

/-- the single call -/
example :
    (match filterTickets ⟨exS, {}, {}⟩ (exEnv 5 20) with
     | .ok t => some (t.s.lastTicketId, t.s.nrWinning, t.s.flags.filtered, t.s.range 10,
                      t.s.range 11, t.s.range 12, t.s.range 13, t.o.ret)
     | .error _ => none)
    = some (4, 4, true, some ⟨1, 1⟩, none, some ⟨2, 2⟩, some ⟨3, 4⟩, [0]) := by
  rfl

end LP.Props.C08

#print axioms LP.Props.C08.alloc_spec
#print axioms LP.Props.C08.alloc_succeeds_iff
#print axioms LP.Props.C08.alloc_partition
#print axioms LP.Props.C08.filter_spec
#print axioms LP.Props.C08.filter_spec_endpoint_fuel
#print axioms LP.Props.C08.filter_partition
#print axioms LP.Props.C08.survivors_sound
#print axioms LP.Props.C08.sums
#print axioms LP.Props.C08.filter_chunks_no_error
#print axioms LP.Props.C08.filter_chunks_complete
#print axioms LP.Props.C08.filterTickets_single
#print axioms LP.Props.C08.filterTickets_save_reload
#print axioms LP.Props.C08.filterCalls_runCalls
#print axioms LP.Props.C08.filterCalls_spec
#print axioms LP.Props.C08.filterCalls_eq_single
#print axioms LP.Props.C08.filterCalls_deterministic
#print axioms LP.Props.C08.filterCalls_completes
#print axioms LP.Props.C08.filterReady_of_alloc
#print axioms LP.Props.C08.step_filter
