import LP.Generated
import LP.Step
/-
  The constants the properties pin, regenerated from /repo on every run (LP/Generated.lean),
  equal the ones the model uses.  A changed constant in the source breaks one of these.
-/
namespace LP.Props.Constants
open LP LP.Gen

/-- tickets are numbered from 1 (C03, C05, C08, C18) -/
theorem first_ticket_id : GEN_FIRST_TICKET_ID = 1 := by decide
/-- a raw draw is 4 bytes of a 32-byte seed (C05) -/
theorem usize_bytes : GEN_USIZE_BYTES = USIZE_BYTES := by decide
theorem hash_len : GEN_HASH_LEN = HASH_LEN := by decide
/-- v2 allocation limits (C18) -/
theorem max_tickets_allowance : GEN_MAX_TICKETS_ALLOWANCE = MAX_TICKETS_ALLOWANCE ∧ MAX_TICKETS_ALLOWANCE = 255 := by decide
theorem max_guaranteed_entries : GEN_MAX_GUARANTEED_TICKETS_ENTRIES = MAX_GUARANTEED_TICKETS_ENTRIES ∧ MAX_GUARANTEED_TICKETS_ENTRIES = 10 := by decide
/-- vesting constants (C13) -/
theorem v2_max_percentage : GEN_V2_MAX_PERCENTAGE = MAX_PERCENTAGE ∧ MAX_PERCENTAGE = 10000 := by decide
theorem v1_max_percentage : GEN_V1_MAX_PERCENTAGE = MAX_PERCENTAGE := by decide
theorem max_milestones : GEN_MAX_UNLOCK_MILESTONES_ENTRIES = MAX_UNLOCK_MILESTONES_ENTRIES ∧ MAX_UNLOCK_MILESTONES_ENTRIES = 60 := by decide
theorem max_release_round_diff : GEN_MAX_RELEASE_ROUND_DIFF = MAX_RELEASE_ROUND_DIFF ∧ MAX_RELEASE_ROUND_DIFF = 26280000 := by decide
/-- lock split basis (C16) -/
theorem lock_max_percentage : GEN_LOCK_MAX_PERCENTAGE = 10000 := by decide
/-- v1 guarantees are one ticket each (C11, C12) -/
theorem v1_guarantee_sizes :
    GEN_STAKING_GUARANTEED_TICKETS_NO = 1 ∧ GEN_MIGRATION_GUARANTEED_TICKETS_NO = 1 ∧
    GEN_MIG_STAKING_GUARANTEED_TICKETS_NO = 1 ∧ GEN_MIG_MIGRATION_GUARANTEED_TICKETS_NO = 1 := by decide
/-- one SFT per claimant (C14) -/
theorem nft_amount : GEN_NFT_AMOUNT = 1 := by decide

end LP.Props.Constants

#print axioms LP.Props.Constants.first_ticket_id
#print axioms LP.Props.Constants.usize_bytes
#print axioms LP.Props.Constants.hash_len
#print axioms LP.Props.Constants.max_tickets_allowance
#print axioms LP.Props.Constants.max_guaranteed_entries
#print axioms LP.Props.Constants.v2_max_percentage
#print axioms LP.Props.Constants.v1_max_percentage
#print axioms LP.Props.Constants.max_milestones
#print axioms LP.Props.Constants.max_release_round_diff
#print axioms LP.Props.Constants.lock_max_percentage
#print axioms LP.Props.Constants.v1_guarantee_sizes
#print axioms LP.Props.Constants.nft_amount
