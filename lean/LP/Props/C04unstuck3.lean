import LP.Proofs.Unstuck3
import LP.Props.C04unstuck2
/-
  C04 "every step reports completion after finitely many resumed calls and cannot be left stuck",
  at the level of REACHABLE STATES, third part (LP/Props/C04unstuck.lean: filter / select for all
  eight contracts, `selectNft`; LP/Props/C04unstuck2.lean: `distribute`, the per-call outcomes of
  `secondary`, end to end for base / locked / nft / guarV2).  Here:

  1. the SEQUENCE theorem for `secondary` of nftGuar that C04unstuck2 left out
     (`secondary_completes_partial_calls`, `secondary_completes_partial_within`);
  2. end to end (`filter`, `select`, `distribute` / `secondary` by the owner with unlimited
     budgets) for migration, lockedGuar, guarV1 (`all_steps_complete_v1_partial`) and nftGuar
     (`all_steps_complete_nftGuar_partial`), under the explicit no-spin hypothesis, which is also
     NECESSARY (`all_steps_complete_v1_iff`, `all_steps_complete_nftGuar_iff`);
  3. spinning IS possible, at loop level for EVERY fuel bound (`leftover_v1_loop_spins_every_fuel`)
     and at endpoint level for the model's fuel `v1LeftoverFuel = 200000`, on a concrete
     reachable state of migration (`distribute_v1_spins_concrete`,
     `all_steps_v1_stuck_concrete`) — proved parametrically, without running 200000 iterations.

  Vocabulary (LP/Proofs/Unstuck3.lean; for `us2_*` see LP/Props/C04unstuck2.lean):
  * `us_nftLeft s`        `min |payers| (availNfts - |nftWinners|)`: NFTs still to draw;
  * `us3_secLeft s`       the measure of the whole `secondary` step: `us_nftLeft s` once the
                          generator of the NFT draw is saved, `us2_distLeft s + us_nftLeft s + 1`
                          before;
  * `us3_DrawsOKng hash e`  what is assumed of the draws of a `secondary` call in environment `e`,
                          in whatever reachable state of nftGuar with the guaranteed sub-step in
                          progress it is made: the leftover loop does not spin and, when the call
                          is interrupted in the leftover loop after `k + 1` iterations, at least
                          one of them did not re-draw an already winning ticket (the analogue of
                          `us2_DrawsOK`; satisfiable: `us3_DrawsOKng_zero`).

  PARTIAL, exactly as the model is: the v1 leftover loop terminates only probabilistically.  The
  FULL statements (1. without `us3_DrawsOKng`, 2. without `hns`) are FALSE in the model: section 3
  exhibits the counterexample.
-/
namespace LP.Props.C04unstuck3
open LP LP.Props.C17

variable (hash : List Nat → List Nat)

/-! ## 1. `secondary` of nftGuar: the sequence theorem -/

/-- **every `secondary` call makes progress**: in every reachable state with the lottery complete
    and the step not, from the selection round on — paused or not, any caller, any budget, in the
    guaranteed phase or in the NFT phase — a call without payment whose draws satisfy
    `us3_DrawsOKng` is accepted and completes the step or STRICTLY decreases `us3_secLeft` -/
theorem secondary_progress_partial (s : State) (r : Nat) (e : Env) (hs : ng_Reach hash s r)
    (hsd : s.flags.selected = true) (hna : s.flags.additional = false) (hr : r ≤ e.round)
    (hsel : s.cfg.sel ≤ e.round) (hegld : e.egld = 0) (hesdt : e.esdts = [])
    (hdr : us3_DrawsOKng hash e) :
    ∃ s' o, step hash s e .secondary = .ok (s', o) ∧ ng_Reach hash s' e.round ∧
      s'.flags.selected = true ∧ s'.cfg = s.cfg ∧
      (s'.flags.additional = true ∨ us3_secLeft s' < us3_secLeft s) :=
  us3_sec_progress hash hs hsd hna hr hsel ⟨hegld, hesdt⟩ hdr

/-- no accepted `secondary` call increases the number of NFTs still to draw -/
theorem secondary_nftLeft_mono (s : State) (r : Nat) (e : Env) (s' : State) (o : Out)
    (hs : ng_Reach hash s r) (hegld : e.egld = 0) (hesdt : e.esdts = [])
    (hst : step hash s e .secondary = .ok (s', o)) : us_nftLeft s' ≤ us_nftLeft s := by
  obtain ⟨a0, ha⟩ := ng_Reach_iff.mp hs
  have wf := ng_reach_WF ha
  exact us3_nftLeft_step hash ⟨wf.side.nodupP, wf.side.nodupW, wf.side.disj⟩ wf.side.winLe
    ⟨hegld, hesdt⟩ hst

/-- **completion by finitely many calls, exact measure**: any `us3_secLeft s + 1` successive
    `secondary` calls (arbitrary callers, arbitrary finite or unlimited budgets, non-decreasing
    rounds from the selection round on, no payment, draws as in `us3_DrawsOKng`) set
    `additional`; calls after completion are rejected and change nothing -/
theorem secondary_completes_partial_measure (s : State) (r : Nat) (hs : ng_Reach hash s r)
    (hsd : s.flags.selected = true) (hsel : s.cfg.sel ≤ r) (es : List Env)
    (hr : RoundsFrom r (us_hist .secondary es))
    (hq : ∀ e ∈ es, us_NoPay e ∧ us3_DrawsOKng hash e)
    (hlen : us3_secLeft s + 1 ≤ es.length) :
    (run hash s (us_hist .secondary es)).flags.additional = true :=
  us3_sec_completes hash hs hsd hsel es hr hq hlen

/-- **secondary_completes_partial_calls** (hypothesis on the draws explicit): from any reachable
    state of nftGuar with the lottery complete, in the selection stage, whatever is saved (nothing,
    a `.guar` cursor, the generator of the NFT draw), any
    `us2_distLeft s + us_nftLeft s + 2` calls complete the step: `us2_distLeft s + 1` for the
    guaranteed sub-step (as for `distribute`), `us_nftLeft s + 1` for the NFT draw.
    (FULL statement — the same without `us3_DrawsOKng` — false: section 3.) -/
theorem secondary_completes_partial_calls (s : State) (r : Nat) (hs : ng_Reach hash s r)
    (hsd : s.flags.selected = true) (hsel : s.cfg.sel ≤ r) (es : List Env)
    (hr : RoundsFrom r (us_hist .secondary es))
    (hq : ∀ e ∈ es, us_NoPay e ∧ us3_DrawsOKng hash e)
    (hlen : us2_distLeft s + us_nftLeft s + 2 ≤ es.length) :
    (run hash s (us_hist .secondary es)).flags.additional = true := by
  have := us3_secLeft_le s
  exact us3_sec_completes hash hs hsd hsel es hr hq (by omega)

/-- the bound in terms of the stored data only:
    `|whitelist| + lastTicketId + min |payers| availNfts + 2` calls always suffice -/
theorem secondary_completes_partial_within (s : State) (r : Nat) (hs : ng_Reach hash s r)
    (hsd : s.flags.selected = true) (hsel : s.cfg.sel ≤ r) (es : List Env)
    (hr : RoundsFrom r (us_hist .secondary es))
    (hq : ∀ e ∈ es, us_NoPay e ∧ us3_DrawsOKng hash e)
    (hlen : s.whitelist.length + s.lastTicketId + min s.payers.length s.availNfts + 2
      ≤ es.length) :
    (run hash s (us_hist .secondary es)).flags.additional = true :=
  us3_sec_completes_within hash hs hsd hsel es hr hq hlen

/-- the hypothesis on the draws is satisfiable in EVERY state: a call with budget 0 (one loop
    iteration) whose scripted first draw is `0` -/
theorem secondary_draws_hypothesis_satisfiable (e : Env) (hb : e.budget = some 0)
    (hscr : e.script = [0]) : us3_DrawsOKng hash e :=
  us3_DrawsOKng_zero hash e hb hscr

/-! ## 2. end to end for migration, lockedGuar, guarV1 and nftGuar

  From ANY reachable state in the selection stage, not paused — whatever has been done before,
  whatever operation is saved — the sequence `filter`, `select`, `distribute` / `secondary` of owner
  calls with unlimited budgets leads to `AllDone`, PROVIDED the leftover loop of the third call
  does not spin (`hns`; only needed when the third step is not complete already).  The `_iff`
  versions show that the proviso is necessary: if that loop spins, the third call is rejected
  ("out of gas") and the step is not completed. -/

/-- migration, lockedGuar (`us2_V1Cov.v1`) and guarV1 (`us2_V1Cov.guarV1`) -/
theorem all_steps_complete_v1_partial (s : State) (r : Nat) (hs : us2_V1Cov hash s r)
    (hsel : s.cfg.sel ≤ r) (hp : s.paused = false) (e1 e2 e3 : Env)
    (hr : RoundsFrom r [(e1, .filter), (e2, .select), (e3, .distribute)])
    (h1 : us2_OwnerCall s e1) (h2 : us2_OwnerCall s e2) (h3 : us2_OwnerCall s e3)
    (hns : (run hash s [(e1, .filter), (e2, .select)]).flags.additional = false →
      ¬ us2_Spins hash (run hash s [(e1, .filter), (e2, .select)]) e3) :
    AllDone (run hash s [(e1, .filter), (e2, .select), (e3, .distribute)]) ∧
    us2_V1Cov hash (run hash s [(e1, .filter), (e2, .select), (e3, .distribute)]) e3.round := by
  obtain ⟨hr1, hr2, hr3, _⟩ := hr
  obtain ⟨hO, hsd⟩ := us3_two_steps (us3_rel_v1 hash) hs hsel hp e1 e2 ⟨hr1, hr2, trivial⟩ h1 h2
  rw [us2_run_three, ← us2_run_two hash s (e1, .filter) (e2, .select)]
  obtain ⟨hO', hd⟩ := us3_stage_dist_v1 hash hO hsd hr3 h3 hns
  exact ⟨hd, hO'.reach⟩

/-- the same with the hypothesis on the draws of `distribute_v1_completes_partial`: in the third
    call's own leftover loop fewer than `200000 - (lastTicketId + 1 - (nrWinning + offset))`
    iterations draw an already winning ticket -/
theorem all_steps_complete_v1_partial_draws (s : State) (r : Nat) (hs : us2_V1Cov hash s r)
    (hsel : s.cfg.sel ≤ r) (hp : s.paused = false) (e1 e2 e3 : Env)
    (hr : RoundsFrom r [(e1, .filter), (e2, .select), (e3, .distribute)])
    (h1 : us2_OwnerCall s e1) (h2 : us2_OwnerCall s e2) (h3 : us2_OwnerCall s e3)
    (hdraws : ∀ s2, s2 = run hash s [(e1, .filter), (e2, .select)] →
      ∀ z0 b1, us2_leftStart s2 e3 = some (z0, b1) →
        s2.lastTicketId + 1 - (s2.nrWinning + us2_distOff s2) +
          us2_redraws hash false s2.nrWinning s2.lastTicketId v1LeftoverFuel z0 < v1LeftoverFuel) :
    AllDone (run hash s [(e1, .filter), (e2, .select), (e3, .distribute)]) ∧
    us2_V1Cov hash (run hash s [(e1, .filter), (e2, .select), (e3, .distribute)]) e3.round := by
  refine all_steps_complete_v1_partial hash s r hs hsel hp e1 e2 e3 hr h1 h2 h3 ?_
  intro hna hsp
  obtain ⟨hr1, hr2, hr3, _⟩ := hr
  obtain ⟨hO, hsd⟩ := us3_two_steps (us3_rel_v1 hash) hs hsel hp e1 e2 ⟨hr1, hr2, trivial⟩ h1 h2
  obtain ⟨_, z0, b1, hls, hle⟩ := (us2_dist_v1_never_stuck hash hO.reach hsd hna hr3
    (Nat.le_trans hO.sel hr3) h3.1).2.1 hsp
  have := hdraws _ rfl z0 b1 hls
  omega

/-- **the no-spin hypothesis is necessary**: the sequence completes all steps IF AND ONLY IF the
    distribution was complete already or the leftover loop of the third call does not spin -/
theorem all_steps_complete_v1_iff (s : State) (r : Nat) (hs : us2_V1Cov hash s r)
    (hsel : s.cfg.sel ≤ r) (hp : s.paused = false) (e1 e2 e3 : Env)
    (hr : RoundsFrom r [(e1, .filter), (e2, .select), (e3, .distribute)])
    (h1 : us2_OwnerCall s e1) (h2 : us2_OwnerCall s e2) (h3 : us2_OwnerCall s e3) :
    AllDone (run hash s [(e1, .filter), (e2, .select), (e3, .distribute)]) ↔
      ((run hash s [(e1, .filter), (e2, .select)]).flags.additional = true ∨
        ¬ us2_Spins hash (run hash s [(e1, .filter), (e2, .select)]) e3) := by
  constructor
  · intro hd
    cases hna : (run hash s [(e1, .filter), (e2, .select)]).flags.additional with
    | true => exact Or.inl rfl
    | false =>
      refine Or.inr fun hsp => ?_
      obtain ⟨hr1, hr2, hr3, _⟩ := hr
      obtain ⟨hO, hsd⟩ := us3_two_steps (us3_rel_v1 hash) hs hsel hp e1 e2 ⟨hr1, hr2, trivial⟩
        h1 h2
      have herr := ((us2_dist_v1_never_stuck hash hO.reach hsd hna hr3
        (Nat.le_trans hO.sel hr3) h3.1).2.1 hsp).1
      rw [us2_run_three, ← us2_run_two hash s (e1, .filter) (e2, .select),
        us3_spin_keeps herr] at hd
      rw [hd.2] at hna
      cases hna
  · intro h
    refine (all_steps_complete_v1_partial hash s r hs hsel hp e1 e2 e3 hr h1 h2 h3 ?_).1
    intro hna
    rcases h with h | h
    · rw [hna] at h; cases h
    · exact h

/-- nftGuar: `filter`, `select`, `secondary` -/
theorem all_steps_complete_nftGuar_partial (s : State) (r : Nat) (hs : ng_Reach hash s r)
    (hsel : s.cfg.sel ≤ r) (hp : s.paused = false) (e1 e2 e3 : Env)
    (hr : RoundsFrom r [(e1, .filter), (e2, .select), (e3, .secondary)])
    (h1 : us2_OwnerCall s e1) (h2 : us2_OwnerCall s e2) (h3 : us2_OwnerCall s e3)
    (hns : (run hash s [(e1, .filter), (e2, .select)]).flags.additional = false →
      ¬ us2_Spins hash (run hash s [(e1, .filter), (e2, .select)]) e3) :
    AllDone (run hash s [(e1, .filter), (e2, .select), (e3, .secondary)]) ∧
    ng_Reach hash (run hash s [(e1, .filter), (e2, .select), (e3, .secondary)]) e3.round := by
  obtain ⟨hr1, hr2, hr3, _⟩ := hr
  obtain ⟨hO, hsd⟩ := us3_two_steps (us3_rel_ng hash) hs hsel hp e1 e2 ⟨hr1, hr2, trivial⟩ h1 h2
  rw [us2_run_three, ← us2_run_two hash s (e1, .filter) (e2, .select)]
  obtain ⟨hO', hd⟩ := us3_stage_sec hash hO hsd hr3 h3 hns
  exact ⟨hd, hO'.reach⟩

/-- the same with the hypothesis on the draws of `distribute_v1_completes_partial` -/
theorem all_steps_complete_nftGuar_partial_draws (s : State) (r : Nat) (hs : ng_Reach hash s r)
    (hsel : s.cfg.sel ≤ r) (hp : s.paused = false) (e1 e2 e3 : Env)
    (hr : RoundsFrom r [(e1, .filter), (e2, .select), (e3, .secondary)])
    (h1 : us2_OwnerCall s e1) (h2 : us2_OwnerCall s e2) (h3 : us2_OwnerCall s e3)
    (hdraws : ∀ s2, s2 = run hash s [(e1, .filter), (e2, .select)] →
      ∀ z0 b1, us2_leftStart s2 e3 = some (z0, b1) →
        s2.lastTicketId + 1 - (s2.nrWinning + us2_distOff s2) +
          us2_redraws hash false s2.nrWinning s2.lastTicketId v1LeftoverFuel z0 < v1LeftoverFuel) :
    AllDone (run hash s [(e1, .filter), (e2, .select), (e3, .secondary)]) ∧
    ng_Reach hash (run hash s [(e1, .filter), (e2, .select), (e3, .secondary)]) e3.round := by
  refine all_steps_complete_nftGuar_partial hash s r hs hsel hp e1 e2 e3 hr h1 h2 h3 ?_
  intro hna hsp
  obtain ⟨hr1, hr2, hr3, _⟩ := hr
  obtain ⟨hO, hsd⟩ := us3_two_steps (us3_rel_ng hash) hs hsel hp e1 e2 ⟨hr1, hr2, trivial⟩ h1 h2
  have hopn : ∀ rg, (run hash s [(e1, .filter), (e2, .select)]).op ≠ .additional (.nft rg) := by
    intro rg hop
    obtain ⟨z0, b1, _, _, hls, _⟩ := hsp
    unfold us2_leftStart at hls
    have : guarOpOf (callTx (run hash s [(e1, .filter), (e2, .select)]) e3 e3.budget) = none := by
      simp only [guarOpOf, callTx, hop]
    rw [this] at hls
    cases hls
  obtain ⟨_, z0, b1, hls, hle⟩ := (us2_sec_guar_never_stuck hash hO.reach hsd hna hopn hr3
    (Nat.le_trans hO.sel hr3) h3.1).2.1 hsp
  have := hdraws _ rfl z0 b1 hls
  omega

/-- **the no-spin hypothesis is necessary** (nftGuar) -/
theorem all_steps_complete_nftGuar_iff (s : State) (r : Nat) (hs : ng_Reach hash s r)
    (hsel : s.cfg.sel ≤ r) (hp : s.paused = false) (e1 e2 e3 : Env)
    (hr : RoundsFrom r [(e1, .filter), (e2, .select), (e3, .secondary)])
    (h1 : us2_OwnerCall s e1) (h2 : us2_OwnerCall s e2) (h3 : us2_OwnerCall s e3) :
    AllDone (run hash s [(e1, .filter), (e2, .select), (e3, .secondary)]) ↔
      ((run hash s [(e1, .filter), (e2, .select)]).flags.additional = true ∨
        ¬ us2_Spins hash (run hash s [(e1, .filter), (e2, .select)]) e3) := by
  constructor
  · intro hd
    cases hna : (run hash s [(e1, .filter), (e2, .select)]).flags.additional with
    | true => exact Or.inl rfl
    | false =>
      refine Or.inr fun hsp => ?_
      obtain ⟨hr1, hr2, hr3, _⟩ := hr
      obtain ⟨hO, hsd⟩ := us3_two_steps (us3_rel_ng hash) hs hsel hp e1 e2 ⟨hr1, hr2, trivial⟩
        h1 h2
      have hopn : ∀ rg, (run hash s [(e1, .filter), (e2, .select)]).op ≠ .additional (.nft rg) := by
        intro rg hop
        obtain ⟨z0, b1, _, _, hls, _⟩ := hsp
        unfold us2_leftStart at hls
        have : guarOpOf (callTx (run hash s [(e1, .filter), (e2, .select)]) e3 e3.budget)
            = none := by
          simp only [guarOpOf, callTx, hop]
        rw [this] at hls
        cases hls
      have herr := ((us2_sec_guar_never_stuck hash hO.reach hsd hna hopn hr3
        (Nat.le_trans hO.sel hr3) h3.1).2.1 hsp).1
      rw [us2_run_three, ← us2_run_two hash s (e1, .filter) (e2, .select),
        us3_spin_keeps herr] at hd
      rw [hd.2] at hna
      cases hna
  · intro h
    refine (all_steps_complete_nftGuar_partial hash s r hs hsel hp e1 e2 e3 hr h1 h2 h3 ?_).1
    intro hna
    rcases h with h | h
    · rw [hna] at h; cases h
    · exact h

/-! ## 3. spinning is possible -/

/-- **the v1 leftover loop, for EVERY fuel bound `F`** (loop level, any loop state, any `hash`):
    if a reserved ticket is still to be placed (`leftover ≠ 0`, `nrW + additional < last`), the
    ticket at the current position `nrW + offset` is not winning and the ticket at some later
    position `p ≤ last` is winning, then there is a draw stream of length `F` — constant, every
    draw equal to `p - (nrW + offset)`, i.e. landing on that winning ticket — on which the loop
    with fuel `F` and an unlimited budget returns `outOfFuel`.
    (`C03final.C03_leftover_v1_may_spin` is the special case of one particular 3-ticket state.) -/
theorem leftover_v1_loop_spins_every_fuel (nrW last : Nat) (z : LCore) (p : Nat)
    (hfull : nrW + z.additional < last) (hlo : z.leftover ≠ 0)
    (hcur : z.status (idFromPos z.posToId (nrW + z.offset)) = false)
    (hp1 : nrW + z.offset ≤ p) (hp2 : p ≤ last) (hwin : z.status (idFromPos z.posToId p) = true) :
    ∀ F : Nat, ∃ script : List Nat, script.length = F ∧ (∀ x ∈ script, x = p - (nrW + z.offset)) ∧
      ∃ z', runWhile (leftCoreBody hash false nrW last) F none { z with d := ⟨script, z.d.log⟩ }
        = .ok (z', none, .outOfFuel) :=
  us3_v1_loop_may_spin hash nrW last z p hfull hlo hcur hp1 hp2 hwin

/-- the loop statement with the draw stream given (any budget that does not interrupt the loop
    before the fuel runs out; any continuation `rest` of the stream): `F` iterations later
    nothing has changed but the generator and the consumed draws -/
theorem leftover_v1_loop_spins_script (nrW last raw F : Nat) (b : Option Nat) (z : LCore)
    (rest : List Nat) (hb : ∀ k, b = some k → F ≤ k)
    (hfull : nrW + z.additional < last) (hlo : z.leftover ≠ 0)
    (hcur : z.status (idFromPos z.posToId (nrW + z.offset)) = false)
    (hhit : z.status (idFromPos z.posToId (inRange raw (nrW + z.offset) (last + 1))) = true)
    (hscr : z.d.script = List.replicate F raw ++ rest) :
    ∃ z' b', runWhile (leftCoreBody hash false nrW last) F b z = .ok (z', b', .outOfFuel) ∧
      z'.d.script = rest ∧ z'.status = z.status ∧ z'.posToId = z.posToId ∧
      z'.offset = z.offset ∧ z'.leftover = z.leftover ∧ z'.additional = z.additional :=
  us3_spin_loop hash nrW last raw F b z rest hb hfull hlo hcur hhit hscr

/-- **endpoint level, at the model's fuel**: a `distribute` / `secondary` call whose leftover loop
    starts (`us2_leftStart`) in a state as above and whose scripted draws begin with
    `v1LeftoverFuel` copies of a value landing on an already winning ticket SPINS
    (`us2_Spins`: by `distribute_v1_accepted_iff` / `secondary_accepted_iff` the call is rejected
    with "out of gas") -/
theorem call_spins_of_constant_draws (s : State) (e : Env) (z0 : LCore) (b1 : Option Nat)
    (raw : Nat) (rest : List Nat)
    (hls : us2_leftStart s e = some (z0, b1)) (hb : ∀ k, b1 = some k → v1LeftoverFuel ≤ k)
    (hfull : s.nrWinning + z0.additional < s.lastTicketId) (hlo : z0.leftover ≠ 0)
    (hcur : z0.status (idFromPos z0.posToId (s.nrWinning + z0.offset)) = false)
    (hhit : z0.status (idFromPos z0.posToId
      (inRange raw (s.nrWinning + z0.offset) (s.lastTicketId + 1))) = true)
    (hscr : z0.d.script = List.replicate v1LeftoverFuel raw ++ rest) : us2_Spins hash s e :=
  us3_spins_of_start hash raw rest hls hb hfull hlo hcur hhit hscr

/-! ### the concrete witness (migration)

  Three participants: 9 (no guarantee, tickets 1-2), 7 (staking guarantee, tickets 3-4), 8
  (staking + migration guarantee 2, ONE confirmed ticket: 5), `nrWinning = 4` of which 3 reserved.
  The lottery (`hash = id`) picks ticket 1; the guaranteed-ticket loop marks tickets 3 and 5 and
  leaves one reserved ticket over; the leftover loop starts at position 2 (ticket 2, not winning);
  the raw draw `1` lands on position 3 (ticket 3, winning): a re-draw.  With every scripted draw
  equal to `1` the loop never leaves position 2. -/

section Witness
open LP.Props.C01reachV1

def spAlloc : List (Nat × Nat × Nat × Bool) :=
  [(9, 0, 2, false), (7, 2, 1, false), (8, 1, 0, true)]

def sp1 : State := stOf (step id ex0 { caller := 1, round := 1 } (.addTicketsV1 spAlloc)) ex0
def sp2 : State :=
  stOf (step id sp1 { caller := 1, round := 2, esdts := [⟨.esdt 1, 0, 20⟩] } .deposit) sp1
def sp3 : State := stOf (step id sp2 { caller := 9, round := 5, egld := 20 } (.confirm 2)) sp2
def sp4 : State := stOf (step id sp3 { caller := 7, round := 6, egld := 20 } (.confirm 2)) sp3
def sp5 : State := stOf (step id sp4 { caller := 8, round := 6, egld := 10 } (.confirm 1)) sp4
def sp6 : State := stOf (step id sp5 { caller := 1, round := 10 } .filter) sp5
def sp7 : State := stOf (step id sp6 { caller := 1, round := 11 } .select) sp6

theorem sp5_reach : v1_ReachA id .migration exArgs sp5 6 :=
  callOk { caller := 8, round := 6, egld := 10 } (.confirm 1)
    (callOk { caller := 7, round := 6, egld := 20 } (.confirm 2)
      (callOk { caller := 9, round := 5, egld := 20 } (.confirm 2)
        (callOk { caller := 1, round := 2, esdts := [⟨.esdt 1, 0, 20⟩] } .deposit
          (callOk { caller := 1, round := 1 } (.addTicketsV1 spAlloc)
            ex0_reach (by decide) (Or.inl rfl)
            (by show ∀ q ∈ spAlloc, 1 ≤ q.2.1 + q.2.2.1; decide) rfl)
          (by decide) (Or.inl rfl) trivial rfl)
        (by decide) (Or.inr rfl) trivial rfl)
      (by decide) (Or.inr rfl) trivial rfl)
    (by decide) (Or.inr rfl) trivial rfl

theorem sp7_reach : v1_ReachA id .migration exArgs sp7 11 :=
  callOk { caller := 1, round := 11 } .select
    (callOk { caller := 1, round := 10 } .filter sp5_reach
      (by decide) (Or.inl rfl) trivial rfl)
    (by decide) (Or.inl rfl) trivial rfl

theorem sp5_cov : us2_V1Cov id sp5 10 :=
  .v1 (Or.inl rfl) (v1_Reach_iff.mpr ⟨_, .wait _ _ _ sp5_reach (by decide)⟩)

theorem sp7_cov : us2_V1Cov id sp7 11 := .v1 (Or.inl rfl) (v1_Reach_iff.mpr ⟨_, sp7_reach⟩)

/-- the owner's `distribute` call at round 12, unlimited budget, scripted draws `scr` -/
def spEnv (scr : List Nat) : Env := { caller := 1, round := 12, script := scr }

/-- the state in which the leftover loop of that call starts -/
def spZ (scr : List Nat) : LCore :=
  match us2_leftStart sp7 (spEnv scr) with
  | some p => p.1
  | none => ⟨fun _ => false, fun _ => 0, default, 0, 0, 0, ⟨[], []⟩⟩

/-- the call reaches the leftover loop with an unlimited budget and the whole script; there: one
    reserved ticket left, 3 of 5 tickets winning, position 2 holds ticket 2 (not winning),
    position 3 holds ticket 3 (winning) -/
theorem sp_start (scr : List Nat) :
    us2_leftStart sp7 (spEnv scr) = some (spZ scr, none) ∧ (spZ scr).d.script = scr ∧
    sp7.nrWinning = 1 ∧ sp7.lastTicketId = 5 ∧
    (spZ scr).leftover = 1 ∧ (spZ scr).offset = 1 ∧ (spZ scr).additional = 2 ∧
    (spZ scr).status (idFromPos (spZ scr).posToId 2) = false ∧
    (spZ scr).status (idFromPos (spZ scr).posToId 3) = true :=
  ⟨rfl, rfl, rfl, rfl, rfl, rfl, rfl, rfl, rfl⟩

/-- the spinning draw stream: `v1LeftoverFuel` times the raw value `1`, then anything -/
def spScript (rest : List Nat) : List Nat := List.replicate v1LeftoverFuel 1 ++ rest

/-- **distribute_v1_spins_concrete**: `sp7` is a reachable state of migration with the lottery
    complete and the distribution not started, in the selection stage, not paused; the owner's
    `distribute` call with an unlimited budget and the draw stream `1, 1, 1, …`
    (`v1LeftoverFuel` times, then anything) SPINS, and is rejected with "out of gas" -/
theorem distribute_v1_spins_concrete (rest : List Nat) :
    us2_V1Cov id sp7 11 ∧ sp7.flags.selected = true ∧ sp7.flags.additional = false ∧
    sp7.paused = false ∧ sp7.cfg.sel ≤ 12 ∧ us2_OwnerCall sp7 (spEnv (spScript rest)) ∧
    us2_Spins id sp7 (spEnv (spScript rest)) ∧
    step id sp7 (spEnv (spScript rest)) .distribute = .error (.vm "out of gas") := by
  obtain ⟨hls, hscr, hnw, hlast, hlo, hoff, hadd, hcur, hwin⟩ := sp_start (spScript rest)
  have hsp : us2_Spins id sp7 (spEnv (spScript rest)) := by
    refine call_spins_of_constant_draws id sp7 _ _ none 1 rest hls (fun k hk => by cases hk)
      (by rw [hnw, hlast, hadd]; decide) (by rw [hlo]; decide)
      (by rw [hnw, hoff]; exact hcur)
      (by rw [hnw, hoff, hlast]; exact hwin) hscr
  refine ⟨sp7_cov, rfl, rfl, rfl, by decide, ⟨⟨rfl, rfl⟩, rfl, rfl⟩, hsp, ?_⟩
  exact (LP.Props.C04unstuck2.distribute_v1_accepted_iff id sp7 11 _ sp7_cov rfl rfl
    (show 11 ≤ 12 by decide) (show sp7.cfg.sel ≤ 12 by decide) rfl rfl).2.2 hsp

/-- **end to end, the counterexample**: from the reachable state `sp5` of migration (tickets
    confirmed, nothing selected, selection stage, not paused) the owner's sequence `filter`,
    `select`, `distribute` with unlimited budgets — the third call with the draw stream
    `1, 1, 1, …` — does NOT complete the distribution: the contract is left with the lottery
    complete and the distribution not started -/
theorem all_steps_v1_stuck_concrete (rest : List Nat) :
    ¬ AllDone (run id sp5 [({ caller := 1, round := 10 }, .filter),
      ({ caller := 1, round := 11 }, .select), (spEnv (spScript rest), .distribute)]) ∧
    run id sp5 [({ caller := 1, round := 10 }, .filter),
      ({ caller := 1, round := 11 }, .select), (spEnv (spScript rest), .distribute)] = sp7 := by
  have h2 : run id sp5 [({ caller := 1, round := 10 }, .filter),
      ({ caller := 1, round := 11 }, .select)] = sp7 := rfl
  obtain ⟨_, _, hna, _, _, _, hsp, herr⟩ := distribute_v1_spins_concrete rest
  have h3 : run id sp5 [({ caller := 1, round := 10 }, .filter),
      ({ caller := 1, round := 11 }, .select), (spEnv (spScript rest), .distribute)] = sp7 := by
    rw [us2_run_three, ← us2_run_two id sp5 (_, .filter) (_, .select), h2, us3_spin_keeps herr]
  refine ⟨fun hd => ?_, h3⟩
  rw [h3] at hd
  rw [hd.2] at hna
  cases hna

/-- the same through `all_steps_complete_v1_iff`: its hypotheses hold of `sp5` and the three
    calls, and its right-hand side fails -/
example (rest : List Nat) :
    ¬ ((run id sp5 [({ caller := 1, round := 10 }, .filter),
        ({ caller := 1, round := 11 }, .select)]).flags.additional = true ∨
      ¬ us2_Spins id (run id sp5 [({ caller := 1, round := 10 }, .filter),
        ({ caller := 1, round := 11 }, .select)]) (spEnv (spScript rest))) :=
  fun h => (all_steps_v1_stuck_concrete rest).1
    ((all_steps_complete_v1_iff id sp5 10 sp5_cov (by decide) rfl _ _ _
      ⟨by decide, by decide, show 11 ≤ 12 by decide, trivial⟩ ⟨⟨rfl, rfl⟩, rfl, rfl⟩
      ⟨⟨rfl, rfl⟩, rfl, rfl⟩ ⟨⟨rfl, rfl⟩, rfl, rfl⟩).mpr h)

/-- with ordinary draws (no script: the generator's own stream) the same sequence from `sp5`
    completes: `all_steps_complete_v1_partial` is not vacuous -/
example : AllDone (run id sp5 [({ caller := 1, round := 10 }, .filter),
    ({ caller := 1, round := 11 }, .select), ({ caller := 1, round := 12 }, .distribute)]) := by
  refine (all_steps_complete_v1_partial id sp5 10 sp5_cov (by decide) rfl _ _ _
    ⟨by decide, by decide, by decide, trivial⟩ ⟨⟨rfl, rfl⟩, rfl, rfl⟩ ⟨⟨rfl, rfl⟩, rfl, rfl⟩
    ⟨⟨rfl, rfl⟩, rfl, rfl⟩ ?_).1
  intro _
  have h2 : run id sp5 [({ caller := 1, round := 10 }, .filter),
      ({ caller := 1, round := 11 }, .select)] = sp7 := rfl
  rw [h2]
  obtain ⟨o, h⟩ := LP.Props.C14reach.step_stOf
    (x := step id sp7 { caller := 1, round := 12 } .distribute) rfl sp7
  exact (LP.Props.C04unstuck2.distribute_v1_accepted_iff id sp7 11 _ sp7_cov rfl rfl (by decide)
    (by decide) rfl rfl).2.1.mp ⟨_, _, h⟩

/-- the loop-level theorem on the witness: for EVERY fuel `F` the loop started in `spZ` spins on
    the stream `1, …, 1` of length `F` -/
example (F : Nat) : ∃ script : List Nat, script.length = F ∧ (∀ x ∈ script, x = 1) ∧
    ∃ z', runWhile (leftCoreBody id false 1 5) F none { spZ [] with d := ⟨script, (spZ []).d.log⟩ }
      = .ok (z', none, .outOfFuel) := by
  obtain ⟨_, _, _, _, hlo, hoff, hadd, hcur, hwin⟩ := sp_start []
  have := leftover_v1_loop_spins_every_fuel id 1 5 (spZ []) 3 (by rw [hadd]; decide)
    (by rw [hlo]; decide) (by rw [hoff]; exact hcur) (by rw [hoff]; decide) (by decide) hwin F
  rw [hoff] at this
  exact this

end Witness

/-! ### non-vacuity of sections 1 and 2 for nftGuar -/

section ExNG
open LP.Props.C14reachG

/-- one loop iteration per call, scripted draw `0` -/
def gZero : Env := { caller := 9, round := 13, budget := some 0, script := [0] }

/-- `secondary_completes_partial_calls` from `g11` (nftGuar, lottery complete, nothing saved,
    2 whitelist entries, 2 fee payers, 1 NFT): `us2_distLeft g11 = 6`, `us_nftLeft g11 = 1`, and
    nine one-iteration calls with the scripted draw `0` satisfy the hypotheses -/
example : us2_distLeft g11 = 6 ∧ us_nftLeft g11 = 1 ∧
    (run id g11 (us_hist .secondary (List.replicate 9 gZero))).flags.additional = true := by
  have hd : us2_distLeft g11 = 6 := by decide +kernel
  have hn : us_nftLeft g11 = 1 := by decide +kernel
  refine ⟨hd, hn, secondary_completes_partial_calls id g11 12 (ng_Reach_iff.mpr ⟨_, g11_reach⟩)
    rfl (by decide) (List.replicate 9 gZero)
    (us3_roundsFrom_replicate .secondary gZero (by decide) 9) ?_ (by rw [hd, hn]; decide)⟩
  intro e he
  rw [List.eq_of_mem_replicate he]
  exact ⟨⟨rfl, rfl⟩, secondary_draws_hypothesis_satisfiable id gZero rfl rfl⟩

/-- `all_steps_complete_nftGuar_partial` from `g8` (nftGuar, tickets and NFT fees confirmed,
    nothing selected), at the selection round, with the generator's own draws -/
example : AllDone (run id g8 [({ caller := 1, round := 10 }, .filter),
    ({ caller := 1, round := 11 }, .select), ({ caller := 1, round := 12 }, .secondary)]) := by
  have hs : ng_Reach id g8 10 := ng_Reach_iff.mpr ⟨_, .wait _ _ _ g8_reach (by decide)⟩
  have hR : RoundsFrom 10 [(({ caller := 1, round := 10 } : Env), Call.filter),
      (({ caller := 1, round := 11 } : Env), Call.select)] := ⟨by decide, by decide, trivial⟩
  refine (all_steps_complete_nftGuar_partial id g8 10 hs (by decide) rfl _ _ _
    ⟨by decide, by decide, by decide, trivial⟩ ⟨⟨rfl, rfl⟩, rfl, rfl⟩ ⟨⟨rfl, rfl⟩, rfl, rfl⟩
    ⟨⟨rfl, rfl⟩, rfl, rfl⟩ ?_).1
  intro hna
  obtain ⟨hO, hsd⟩ := us3_two_steps (us3_rel_ng id) hs (by decide) rfl _ _ hR
    ⟨⟨rfl, rfl⟩, rfl, rfl⟩ ⟨⟨rfl, rfl⟩, rfl, rfl⟩
  obtain ⟨o, h⟩ := LP.Props.C14reach.step_stOf
    (x := step id (run id g8 [({ caller := 1, round := 10 }, .filter),
      ({ caller := 1, round := 11 }, .select)]) { caller := 1, round := 12 } .secondary)
    (by decide +kernel)
    (run id g8 [({ caller := 1, round := 10 }, .filter), ({ caller := 1, round := 11 }, .select)])
  have hop : (run id g8 [(({ caller := 1, round := 10 } : Env), Call.filter),
      (({ caller := 1, round := 11 } : Env), Call.select)]).op = .none := by decide +kernel
  exact (LP.Props.C04unstuck2.secondary_accepted_iff id _ 11 _ hO.reach hsd hna
    (fun rg hh => by rw [hop] at hh; cases hh) (by decide) (by decide) rfl rfl).2.1.mp ⟨_, _, h⟩

end ExNG

end LP.Props.C04unstuck3

#print axioms LP.Props.C04unstuck3.secondary_progress_partial
#print axioms LP.Props.C04unstuck3.secondary_nftLeft_mono
#print axioms LP.Props.C04unstuck3.secondary_completes_partial_measure
#print axioms LP.Props.C04unstuck3.secondary_completes_partial_calls
#print axioms LP.Props.C04unstuck3.secondary_completes_partial_within
#print axioms LP.Props.C04unstuck3.secondary_draws_hypothesis_satisfiable
#print axioms LP.Props.C04unstuck3.all_steps_complete_v1_partial
#print axioms LP.Props.C04unstuck3.all_steps_complete_v1_partial_draws
#print axioms LP.Props.C04unstuck3.all_steps_complete_v1_iff
#print axioms LP.Props.C04unstuck3.all_steps_complete_nftGuar_partial
#print axioms LP.Props.C04unstuck3.all_steps_complete_nftGuar_partial_draws
#print axioms LP.Props.C04unstuck3.all_steps_complete_nftGuar_iff
#print axioms LP.Props.C04unstuck3.leftover_v1_loop_spins_every_fuel
#print axioms LP.Props.C04unstuck3.leftover_v1_loop_spins_script
#print axioms LP.Props.C04unstuck3.call_spins_of_constant_draws
#print axioms LP.Props.C04unstuck3.sp5_reach
#print axioms LP.Props.C04unstuck3.sp7_reach
#print axioms LP.Props.C04unstuck3.sp5_cov
#print axioms LP.Props.C04unstuck3.sp7_cov
#print axioms LP.Props.C04unstuck3.sp_start
#print axioms LP.Props.C04unstuck3.distribute_v1_spins_concrete
#print axioms LP.Props.C04unstuck3.all_steps_v1_stuck_concrete
